// Command trace drives the real setec packages on generated inputs and writes
// one canonical line per step (operation, oracle choices, observation).  The
// Lean driver replays the same lines on the model and the monitors.
package main

import (
	"bufio"
	"encoding/hex"
	"flag"
	"fmt"
	"math/rand"
	"os"
	"strings"
	"sync"
	"sync/atomic"
	"time"
)

var out *bufio.Writer

var (
	emitMu    sync.Mutex
	lastAlive atomic.Int64 // unix nanoseconds of the last sign of progress
	stuckNote atomic.Value // what the family was doing then
)

func emit(format string, args ...any) {
	emitMu.Lock()
	fmt.Fprintf(out, format, args...)
	out.WriteByte('\n')
	emitMu.Unlock()
	lastAlive.Store(time.Now().UnixNano())
}

// note records what is about to be asked of the code under test; it counts as progress.
func note(format string, args ...any) {
	stuckNote.Store(fmt.Sprintf(format, args...))
	lastAlive.Store(time.Now().UnixNano())
}

// watchdog: the families that call straight into the database or the handlers make progress
// every few milliseconds.  When nothing has happened for `limit`, a call has not returned and
// never will (a lock that is never released): that is an observation, written as a last line
//
//	stuck family= note=<hex: the calls that were under way>
//
// and the run ends there.
func watchdog(fam string, limit time.Duration) { watchdogKind(fam, limit, "stuck") }

// watchdogKind: `kind` is the line written - "stuck" is judged by the family's own driver (db,
// http, conc: with the property attributions that fit them), "stuckst" by the driver's main
// loop for any family.
func watchdogKind(fam string, limit time.Duration, kind string) {
	lastAlive.Store(time.Now().UnixNano())
	go func() {
		for {
			time.Sleep(limit / 8)
			if time.Since(time.Unix(0, lastAlive.Load())) > limit {
				n, _ := stuckNote.Load().(string)
				emitMu.Lock()
				fmt.Fprintf(out, "%s\tfamily=%s\tnote=%s\n", kind, fam, hx(n))
				out.Flush()
				os.Exit(0)
			}
		}
	}()
}

func hx(s string) string { return hex.EncodeToString([]byte(s)) }
func hb(b []byte) string { return hex.EncodeToString(b) }

type opts struct {
	seed    int64
	n       int
	steps   int
	profile string
	only    int
	dir     string
	aux     string
}

func main() {
	if len(os.Args) < 2 {
		fmt.Fprintln(os.Stderr, "usage: trace <family> [flags]")
		os.Exit(2)
	}
	fam := os.Args[1]
	fs := flag.NewFlagSet(fam, flag.ExitOnError)
	var o opts
	fs.Int64Var(&o.seed, "seed", 1, "PRNG seed")
	fs.IntVar(&o.n, "n", 10, "number of histories / cases")
	fs.IntVar(&o.steps, "steps", 30, "steps per history")
	fs.StringVar(&o.profile, "profile", "", "generator profile")
	fs.IntVar(&o.only, "only", -1, "run only this history index (replay)")
	fs.StringVar(&o.dir, "dir", "", "scratch directory (required for families that touch files)")
	fs.StringVar(&o.aux, "aux", "", "auxiliary path (e.g. the built setec binary)")
	outPath := fs.String("o", "-", "output file")
	fs.Parse(os.Args[2:])
	if *outPath == "-" {
		out = bufio.NewWriterSize(os.Stdout, 1<<20)
	} else {
		f, err := os.Create(*outPath)
		if err != nil {
			fmt.Fprintln(os.Stderr, err)
			os.Exit(2)
		}
		defer f.Close()
		out = bufio.NewWriterSize(f, 1<<20)
	}
	defer out.Flush()
	var err error
	switch fam {
	case "db", "http", "conc", "fs", "fschild", "mkfixtures":
		// (their own limits, set below; the strace families are driven case by case)
	default:
		// every other family writes a line every few seconds at most
		watchdogKind(fam, 10*time.Minute, "stuckst")
	}
	switch fam {
	case "acl":
		err = traceACL(o)
	case "auditfmt":
		err = traceAuditFmt(o)
	case "db":
		watchdog(fam, 180*time.Second)
		err = traceDB(o)
	case "cli":
		err = traceCLI(o)
	case "bytes":
		err = traceBytes(o)
	case "conc":
		watchdog(fam, 240*time.Second)
		err = traceConc(o)
	case "fields":
		err = traceFields(o)
	case "http":
		watchdog(fam, 180*time.Second)
		err = traceHTTP(o)
	case "fs":
		err = traceFS(o)
	case "fschild":
		err = fsChild(o)
	case "crypto":
		err = traceCrypto(o)
	case "golden":
		err = traceGolden(o)
	case "mkfixtures":
		err = mkFixtures(o)
	default:
		err = fmt.Errorf("unknown family %q", fam)
	}
	if err != nil {
		out.Flush()
		fmt.Fprintln(os.Stderr, "trace:", err)
		os.Exit(2)
	}
}

// rng derives an independent stream for history i from the run seed.
func rng(seed int64, i int) *rand.Rand {
	return rand.New(rand.NewSource(seed*1000003 + int64(i)*7919 + 17))
}

func pick[T any](r *rand.Rand, xs []T) T { return xs[r.Intn(len(xs))] }

func joinHex(xs []string, sep string) string {
	ys := make([]string, len(xs))
	for i, x := range xs {
		ys[i] = hx(x)
	}
	return strings.Join(ys, sep)
}
