package main

import (
	"encoding/json"
	"fmt"
	"strings"
	"sync"
	"sync/atomic"
	"unicode/utf8"

	"github.com/tailscale/setec/acl"
)

// traceACL: (pattern, name) pairs through acl.Secret.Match and rule sets
// through acl.Rules.Allow.
//
//	m <pat-hex> <name-hex> <0|1>
//	allow <rules> <action-hex> <name-hex> <0|1>
func traceACL(o opts) error {
	r := rng(o.seed, 0)
	metas := []rune{'.', '+', '^', '$', '(', ')', '[', ']', '{', '}', '|', '?', '\\'}
	meta := metas[int(o.seed%int64(len(metas))+int64(len(metas)))%len(metas)]
	alpha := []rune{'a', '*', '\n', '/', meta}
	maxPat, maxName := 3, 5
	if o.profile == "thorough" {
		maxPat, maxName = 4, 6
	}
	var pats, names []string
	var gen func(cur []rune, max int, acc *[]string)
	gen = func(cur []rune, max int, acc *[]string) {
		*acc = append(*acc, string(cur))
		if len(cur) == max {
			return
		}
		for _, c := range alpha {
			gen(append(cur, c), max, acc)
		}
	}
	gen(nil, maxPat, &pats)
	gen(nil, maxName, &names)
	emit("# acl exhaustive alphabet=%q maxPat=%d maxName=%d", string(alpha), maxPat, maxName)
	for _, p := range pats {
		for _, n := range names {
			emit("m\t%s\t%s\t%s", hx(p), hx(n), safeMatch(p, n))
		}
	}
	// two more small alphabets, exhaustively: two letters (pieces that overlap themselves, so a
	// matcher has to back up correctly) and backslash with the letters regexp escapes use
	extra := [][2][]rune{{{'a', 'b', '*'}, {'a', 'b'}}, {{'\\', 'E', 'Q', '*', 'a'}, {'\\', 'E', 'Q', 'a'}}, {{'%', 's', '(', '*', 'a'}, {'%', 's', '(', 'a'}}}
	// each shard takes one of them (they do not depend on the seed otherwise)
	for _, ab := range extra[int(o.seed)%len(extra) : int(o.seed)%len(extra)+1] {
		var ps, ns []string
		saved := alpha
		alpha = ab[0]
		gen(nil, 4, &ps)
		alpha = ab[1]
		gen(nil, 5, &ns)
		alpha = saved
		emit("# acl exhaustive alphabet=%q names=%q", string(ab[0]), string(ab[1]))
		for _, p := range ps {
			for _, n := range ns {
				emit("m\t%s\t%s\t%s", hx(p), hx(n), safeMatch(p, n))
			}
		}
	}
	// random valid-UTF-8 strings incl. multi-byte runes
	runes := []rune{'a', 'b', '*', '*', '\n', '/', '.', '+', '\\', 'é', 'π', '世', '😀', ' ', 0, '$', '^', '[', ')'}
	randStr := func(max int) string {
		var sb strings.Builder
		k := r.Intn(max + 1)
		for i := 0; i < k; i++ {
			sb.WriteRune(pick(r, runes))
		}
		return sb.String()
	}
	for i := 0; i < o.n; i++ {
		n := randStr(40)
		var p string
		switch r.Intn(3) {
		case 0:
			p = randStr(12)
		case 1: // derive a pattern from the name by replacing runs with '*': mostly matching
			rs := []rune(n)
			var sb strings.Builder
			for j := 0; j < len(rs); {
				if r.Intn(3) == 0 {
					sb.WriteByte('*')
					j += r.Intn(4)
				} else {
					sb.WriteRune(rs[j])
					j++
				}
			}
			if r.Intn(2) == 0 {
				sb.WriteByte('*')
			}
			p = sb.String()
		default:
			p = n
		}
		if !utf8.ValidString(p) || !utf8.ValidString(n) {
			continue
		}
		// the model's matcher is the naive backtracking one (it is the one the
		// theorem is about): keep the number of '*' small so it stays fast
		if strings.Count(p, "*") > 4 {
			continue
		}
		emit("m\t%s\t%s\t%s", hx(p), hx(n), safeMatch(p, n))
	}
	// the same answers from many goroutines at once: several hundred distinct patterns evaluated
	// concurrently, in different orders, must give what they give one at a time
	{
		type pn struct{ p, n string }
		var cases []pn
		for i := 0; i < 300; i++ {
			cases = append(cases, pn{fmt.Sprintf("tenant-%d/*", i), fmt.Sprintf("tenant-%d/db", i)})
			cases = append(cases, pn{fmt.Sprintf("ops/*/%d", i), fmt.Sprintf("tenant-%d/db", i)})
			cases = append(cases, pn{fmt.Sprintf("*-%d/*", i), fmt.Sprintf("tenant-%d/db", (i+1)%300)})
		}
		want := make([]string, len(cases))
		for i, c := range cases {
			want[i] = safeMatch(c.p, c.n)
		}
		var mism atomic.Int64
		var wg sync.WaitGroup
		for g := 0; g < 8; g++ {
			wg.Add(1)
			go func() {
				defer wg.Done()
				for round := 0; round < 20; round++ {
					for k := range cases {
						i := (k*7 + g*131 + round*17) % len(cases)
						if safeMatch(cases[i].p, cases[i].n) != want[i] {
							mism.Add(1)
						}
					}
				}
			}()
		}
		wg.Wait()
		emit("concmatch\tcases=%d\tmismatches=%d", len(cases), mism.Load())
		// the sequential answers themselves go to the model like every other pair
		for i, c := range cases {
			if i%10 == 0 {
				emit("m\t%s\t%s\t%s", hx(c.p), hx(c.n), want[i])
			}
		}
	}
	// rule-set shapes
	acts := []string{"get", "info", "put", "activate", "delete", "bogus", ""}
	patPool := []string{"team\\Eng", "x\\E|\\Q", "*", "a", "b", "dev/*", "*/x", "a*b*", "", "_internal/*", "a\nb", "dev/x", "prod/*", "prod/key", "a/..", "dev/../x"}
	// names are opaque strings: path-like ones ("..", "//", "/./", trailing "/") mean nothing special
	namePool := []string{"team\\Eng", "teamng", "a", "b", "dev/x", "dev/", "ab", "a\nb", "", "_internal/k", "x", "aXbY", "dev/../prod/key", "a/..", "/..", "a..b//c", "dev//x", "dev/./x", "./a", "prod/key", "dev/../x", ".."}
	// names that contain a whole pattern of the pool as a proper prefix, suffix or substring
	namePool = append(namePool, "prod/key-of-the-admin", "other/prod/key", "xdev/x", "dev/xx", "team/a", "ab/dev/x/cd")
	for i := 0; i < o.n; i++ {
		rs := genRules(r, acts, patPool)
		if r.Intn(4) == 0 {
			// a rule with three patterns (the generator above stops at two)
			rs = append(rs, acl.Rule{Action: []acl.Action{acl.Action(pick(r, acts)), acl.Action(pick(r, acts))},
				Secret: []acl.Secret{acl.Secret(pick(r, patPool)), acl.Secret(pick(r, patPool)), acl.Secret(pick(r, patPool))}})
		}
		a := pick(r, acts)
		n := pick(r, namePool)
		if i%2 == 1 {
			// the way the server gets its rules: decoded from the JSON of a capability grant
			if bs, err := json.Marshal(rs); err == nil {
				var decoded acl.Rules
				if json.Unmarshal(bs, &decoded) == nil && len(decoded) == len(rs) {
					emit("allow\t%s\t%s\t%s\t%s", encRules(rs), hx(a), hx(n), safeAllow(decoded, a, n))
					continue
				}
			}
		}
		emit("allow\t%s\t%s\t%s\t%s", encRules(rs), hx(a), hx(n), safeAllow(rs, a, n))
	}
	return nil
}

func b01(b bool) string {
	if b {
		return "1"
	}
	return "0"
}

func genRules(r interface{ Intn(int) int }, acts, pats []string) acl.Rules {
	var rs acl.Rules
	for k := r.Intn(4); k > 0; k-- {
		var rule acl.Rule
		for j := r.Intn(4); j > 0; j-- {
			rule.Action = append(rule.Action, acl.Action(acts[r.Intn(len(acts))]))
		}
		for j := r.Intn(3); j > 0; j-- {
			rule.Secret = append(rule.Secret, acl.Secret(pats[r.Intn(len(pats))]))
		}
		rs = append(rs, rule)
	}
	return rs
}

// encRules: rules joined by ';', rule = acts '|' pats, each list '+'-joined hex.
// A rule set with no rules is "-".
func encRules(rs acl.Rules) string {
	if len(rs) == 0 {
		return "-"
	}
	var parts []string
	for _, r := range rs {
		var as, ps []string
		for _, a := range r.Action {
			as = append(as, "x"+hx(string(a)))
		}
		for _, p := range r.Secret {
			ps = append(ps, "x"+hx(string(p)))
		}
		parts = append(parts, strings.Join(as, "+")+"|"+strings.Join(ps, "+"))
	}
	return strings.Join(parts, ";")
}


// safeMatch: "0"/"1", or "P" when matching panics (evaluation must never panic).
func safeMatch(p, n string) (res string) {
	defer func() {
		if recover() != nil {
			res = "P"
		}
	}()
	return b01(acl.Secret(p).Match(n))
}

func safeAllow(rs acl.Rules, a, n string) (res string) {
	defer func() {
		if recover() != nil {
			res = "P"
		}
	}()
	return b01(rs.Allow(acl.Action(a), n))
}
