package main

import (
	"syscall"
	"bytes"
	"context"
	"crypto/sha256"
	"encoding/base64"
	"errors"
	"fmt"
	"net/http"
	"net/http/httptest"
	"os"
	"os/exec"
	"path/filepath"
	"strings"
	"sync/atomic"
	"unicode/utf8"

	"github.com/tailscale/setec/audit"
	setec "github.com/tailscale/setec/client/setec"
	"github.com/tailscale/setec/db"
	"github.com/tailscale/setec/server"
	"github.com/tailscale/setec/types/api"
	"tailscale.com/client/tailscale/apitype"
	"tailscale.com/tailcfg"
)

func allAccessWhoIs(context.Context, string) (*apitype.WhoIsResponse, error) {
	ws := &whoSpec{node: "cli.ts.net", login: "cli@example.com", cap1: "rules", cap2: "none",
		rules1: superuser().Permissions}
	return ws.answer()
}

type liveServer struct {
	hs     *httptest.Server
	d      *db.DB
	puts   atomic.Int64
	cancel context.CancelFunc
}

func startServer(path string, kek tinkAEAD) (*liveServer, error) {
	d, err := db.Open(path, kek, audit.New(&sink{observer: true}))
	if err != nil {
		return nil, err
	}
	mux := http.NewServeMux()
	ctx, cancel := context.WithCancel(context.Background())
	if _, err := server.New(ctx, server.Config{DB: d, Mux: mux, WhoIs: allAccessWhoIs}); err != nil {
		cancel()
		return nil, err
	}
	ls := &liveServer{d: d, cancel: cancel}
	ls.hs = httptest.NewServer(http.HandlerFunc(func(w http.ResponseWriter, r *http.Request) {
		if r.URL.Path == "/api/put" {
			ls.puts.Add(1)
		}
		mux.ServeHTTP(w, r)
	}))
	return ls, nil
}

func (l *liveServer) stop() { l.hs.Close(); l.cancel() }

// traceCLI: the built `setec` binary against a local server.
//
//	cli valid= value= trimmed= verbatim= trim= emptyok= src=file|pipe exit= contacted= stored=<hex|->
func traceCLI(o opts) error {
	if o.dir == "" || o.aux == "" {
		return errors.New("-dir and -aux <setec binary> required")
	}
	os.MkdirAll(o.dir, 0700)
	kek, err := newKEK()
	if err != nil {
		return err
	}
	ls, err := startServer(filepath.Join(o.dir, "cli.db"), kek)
	if err != nil {
		return err
	}
	defer ls.stop()
	r := rng(o.seed, 0)
	values := [][]byte{
		{}, []byte("plain"), []byte(" lead"), []byte("trail\n"), []byte("\t both \r\n"), []byte("  "), []byte("\n"),
		[]byte("in ner"), []byte(" nbsp "), []byte(" em-space"), []byte("x　"), []byte("\u0085nel"),
		{0xff, 0xfe, ' '}, {' ', 0xff}, {0x00}, []byte(" \x00 "), []byte("multi\nline\n"), {0xc3, 0x28, '\n'},
		[]byte("é"), []byte(" é "), []byte("​zero-width"), // U+200B is not White_Space
	}
	// longer than any prefix a text/binary sniffer might look at (512, 1024, 4096 bytes): text with
	// a multi-byte character across the boundary, and binary data that only turns invalid after it
	for _, k := range []int{512, 1024, 4096} {
		a := strings.Repeat("a", k-1)
		values = append(values,
			[]byte(" "+a[1:]+"é"+strings.Repeat("b", 90)+"\n"),  // é occupies bytes k-1 and k
			[]byte(a[:k-2]+"日"+strings.Repeat("c", 40)+" \n"), // 日 occupies bytes k-2..k
			append([]byte(" "+a+"tail"), 0xff, 0xfe, ' ', '\n'), // valid for the first k bytes and more, then not
			append(append([]byte("\t"), bytes.Repeat([]byte("é"), k)...), 0x80, '\n'),
			[]byte(" "+strings.Repeat("plain text ", k/8)+"\n"))
	}
	for i := 0; i < o.n; i++ {
		v := make([]byte, r.Intn(40))
		r.Read(v)
		if r.Intn(2) == 0 {
			v = append([]byte(pick(r, []string{" ", "\n", "\t", "", " "})), v...)
		}
		values = append(values, v)
	}
	su := superuser()
	caseNo := 0
	// one large binary value (just over a mebibyte), from a file and from a pipe: sent as it is
	{
		big := make([]byte, 1<<20+17)
		r.Read(big)
		big[0], big[len(big)-1] = 0xff, 0xfe // certainly not UTF-8, no white space at the ends
		for _, src := range []string{"file", "pipe"} {
			name := "cli/big-" + src
			args := []string{"-s", ls.hs.URL, "put"}
			cmd := exec.Command(o.aux)
			if src == "file" {
				fp := filepath.Join(o.dir, "big.bin")
				os.WriteFile(fp, big, 0600)
				args = append(args, "--from-file", fp)
			} else {
				cmd.Stdin = bytes.NewReader(big)
			}
			cmd.Args = append([]string{o.aux}, append(args, name)...)
			var outb bytes.Buffer
			cmd.Stdout, cmd.Stderr = &outb, &outb
			exit := 0
			if err := cmd.Run(); err != nil {
				exit = 1
			}
			match, storedLen := "0", -1
			if sv, err := ls.d.Get(su, name); err == nil {
				storedLen = len(sv.Value)
				match = b01(bytes.Equal(sv.Value, big))
			}
			emit("clibig\tsrc=%s\tlen=%d\texit=%d\tstoredlen=%d\tmatch=%s", src, len(big), exit, storedLen, match)
		}
	}
	for _, val := range values {
		for flags := 0; flags < 8; flags++ {
			for _, src := range []string{"file", "pipe", "fifo"} {
				if src == "fifo" && (caseNo+flags)%3 != 0 {
					continue // --from-file on a named pipe (shell process substitution, /dev/stdin): every third case
				}
				if o.profile != "thorough" && (caseNo+flags)%2 == 1 && len(val) > 12 {
					continue // quick: every other combination for the random tail
				}
				caseNo++
				name := fmt.Sprintf("cli/%d", caseNo)
				args := []string{"-s", ls.hs.URL, "put"}
				if flags&1 != 0 {
					args = append(args, "--verbatim")
				}
				if flags&2 != 0 {
					args = append(args, "--trim-space")
				}
				if flags&4 != 0 {
					args = append(args, "--empty-ok")
				}
				cmd := exec.Command(o.aux)
				if src == "file" {
					fp := filepath.Join(o.dir, "input.bin")
					os.WriteFile(fp, val, 0600)
					args = append(args, "--from-file", fp)
				} else if src == "fifo" {
					// a file that is not a regular file: its size says nothing about its contents
					fp := filepath.Join(o.dir, "input.fifo")
					os.Remove(fp)
					if err := syscall.Mkfifo(fp, 0600); err != nil {
						continue
					}
					go func(v []byte) {
						if f, err := os.OpenFile(fp, os.O_WRONLY, 0); err == nil {
							f.Write(v)
							f.Close()
						}
					}(append([]byte(nil), val...))
					args = append(args, "--from-file", fp)
				} else {
					cmd.Stdin = bytes.NewReader(val)
				}
				args = append(args, name)
				cmd.Args = append([]string{o.aux}, args...)
				before := ls.puts.Load()
				var outb bytes.Buffer
				cmd.Stdout, cmd.Stderr = &outb, &outb
				err := cmd.Run()
				exit := 0
				if err != nil {
					exit = 1
					var ee *exec.ExitError
					if errors.As(err, &ee) {
						exit = ee.ExitCode()
					} else {
						return fmt.Errorf("running cli: %v", err)
					}
				}
				stored := "-"
				if sv, err := ls.d.Get(su, name); err == nil {
					stored = "x" + hb(sv.Value)
				}
				emit("cli\tvalid=%s\tvalue=%s\ttrimmed=%s\tverbatim=%s\ttrim=%s\temptyok=%s\tsrc=%s\texit=%d\tcontacted=%d\tstored=%s",
					b01(utf8.Valid(val)), hb(val), hb(bytes.TrimSpace(val)), b01(flags&1 != 0), b01(flags&2 != 0), b01(flags&4 != 0), src, exit, ls.puts.Load()-before, stored)
			}
		}
	}
	return nil
}

func digest(b []byte) string {
	if len(b) <= 64 {
		return "x" + hb(b)
	}
	h := sha256.Sum256(b)
	return fmt.Sprintf("sha:%d:%s", len(b), hb(h[:12]))
}

// traceBytes: every retrieval path for byte strings of every class.
//
//	bytes class= put= get= getver= store= cache= fileclient= restart= restartver=
func traceBytes(o opts) error {
	if o.dir == "" {
		return errors.New("-dir required")
	}
	os.MkdirAll(o.dir, 0700)
	kek, err := newKEK()
	if err != nil {
		return err
	}
	dbPath := filepath.Join(o.dir, "bytes.db")
	ls, err := startServer(dbPath, kek)
	if err != nil {
		return err
	}
	r := rng(o.seed, 0)
	all := make([]byte, 256)
	for i := range all {
		all[i] = byte(i)
	}
	type tc struct {
		class string
		val   []byte
	}
	cases := []tc{{"empty", []byte{}}, {"letters", []byte("Token-ABCdef")}, {"high-bytes", []byte{1, 0xff, 2, 0xfe}}, {"nul", []byte{0}}, {"nuls", make([]byte, 33)}, {"newlines", []byte("a\nb\r\n\n")},
		{"invalid-utf8", []byte{0xff, 0xc0, 0x80, 0xed, 0xa0, 0x80}}, {"all256", all}, {"quote", []byte(`"\u0000\"<>&` + " ")}}
	sizes := []int{1, 2, 3, 4, 5, 63, 64, 65, 4095, 4096, 70000}
	if o.profile == "thorough" {
		sizes = append(sizes, 1<<20, 4<<20)
	}
	for _, n := range sizes {
		v := make([]byte, n)
		r.Read(v)
		cases = append(cases, tc{fmt.Sprintf("random%d", n), v})
	}
	for i := 0; i < o.n; i++ {
		v := make([]byte, r.Intn(300))
		r.Read(v)
		cases = append(cases, tc{"random", v})
	}
	// the Lean base64 codec against encoding/base64
	for _, c := range cases {
		if len(c.val) <= 4096 {
			emit("b64\traw=%s\tenc=%s", hb(c.val), hx(base64.StdEncoding.EncodeToString(c.val)))
		}
	}
	for n := 0; n <= 40; n++ {
		v := make([]byte, n)
		r.Read(v)
		emit("b64\traw=%s\tenc=%s", hb(v), hx(base64.StdEncoding.EncodeToString(v)))
	}
	cx := context.Background()
	type rec struct {
		tc
		name string
		ver  api.SecretVersion
		line string
	}
	var recs []rec
	for i, c := range cases {
		cl := setec.Client{Server: ls.hs.URL}
		name := fmt.Sprintf("bytes/%d", i)
		// two versions so that get-version and get differ in what they address
		// ...the first one almost the value under test (a put must never confuse the two)
		first := []byte("first")
		if i%2 == 1 {
			first = nearDup(r, c.val)
		}
		if _, err := cl.Put(cx, name, first); err != nil {
			return err
		}
		ver, err := cl.Put(cx, name, c.val)
		if err != nil {
			return err
		}
		if err := cl.Activate(cx, name, ver); err != nil {
			return err
		}
		g, err1 := cl.Get(cx, name)
		gv, err2 := cl.GetVersion(cx, name, ver)
		if err1 != nil || err2 != nil {
			return fmt.Errorf("get: %v %v", err1, err2)
		}
		cachePath := filepath.Join(o.dir, fmt.Sprintf("cache-%d.json", i))
		fc, _ := setec.NewFileCache(cachePath)
		st, err := setec.NewStore(cx, setec.StoreConfig{Client: cl, Secrets: []string{name}, Cache: fc, PollInterval: -1, Logf: func(string, ...any) {}})
		if err != nil {
			return err
		}
		sv := bytes.Clone(st.Secret(name).Get())
		st.Close()
		// a second store from the cache alone, with the service unreachable
		dead := setec.Client{Server: "http://127.0.0.1:1", DoHTTP: func(*http.Request) (*http.Response, error) { return nil, errors.New("unreachable") }}
		st2, err := setec.NewStore(cx, setec.StoreConfig{Client: dead, Secrets: []string{name}, Cache: fc, PollInterval: -1, Logf: func(string, ...any) {}})
		cacheV := "ERR"
		if err == nil {
			cacheV = digest(st2.Secret(name).Get())
			st2.Close()
		}
		fcl := "-"
		if fclient, err := setec.NewFileClient(cachePath); err == nil {
			if v, err := fclient.Get(cx, name); err == nil {
				fcl = digest(v.Value)
			} else {
				fcl = "notfound"
			}
		} else {
			fcl = "ERR"
		}
		os.Remove(cachePath)
		// the name is deleted and created again with other bytes (its numbering restarts): what is
		// served is what was put last
		reName := name + "/again"
		other := nearDup(r, c.val)
		cl.Put(cx, reName, c.val)
		cl.Get(cx, reName)
		cl.Delete(cx, reName)
		reOK := "0"
		if _, err := cl.Put(cx, reName, other); err == nil {
			if g2, err := cl.Get(cx, reName); err == nil && bytes.Equal(g2.Value, other) {
				reOK = "1"
			}
		}
		recs = append(recs, rec{tc: c, name: name, ver: ver,
			line: fmt.Sprintf("bytes\tclass=%s\tlen=%d\tput=%s\tget=%s\tgetver=%s\tstore=%s\tcache=%s\tfileclient=%s\trecreated=%s", c.class, len(c.val), digest(c.val), digest(g.Value), digest(gv.Value), digest(sv), cacheV, fcl, reOK)})
	}
	// server restart: a new process-equivalent (fresh db.Open on the same file, new server)
	ls.stop()
	ls2, err := startServer(dbPath, kek)
	if err != nil {
		return err
	}
	defer ls2.stop()
	cl := setec.Client{Server: ls2.hs.URL}
	for _, rc := range recs {
		g, err1 := cl.Get(cx, rc.name)
		gv, err2 := cl.GetVersion(cx, rc.name, rc.ver)
		a, b := "ERR", "ERR"
		if err1 == nil {
			a = digest(g.Value)
		}
		if err2 == nil {
			b = digest(gv.Value)
		}
		emit("%s\trestart=%s\trestartver=%s", rc.line, a, b)
	}
	return nil
}

var _ = strings.Join
var _ tailcfg.RawMessage
