package main

import (
	"compress/gzip"
	"bytes"
	"context"
	"encoding/json"
	"errors"
	"fmt"
	"io"
	"math/rand"
	"net"
	"net/http"
	"net/http/httptest"
	"strings"
	"time"

	"github.com/tailscale/setec/acl"
	"github.com/tailscale/setec/audit"
	setec "github.com/tailscale/setec/client/setec"
	"github.com/tailscale/setec/server"
	"github.com/tailscale/setec/types/api"
	"tailscale.com/client/tailscale/apitype"
	"tailscale.com/tailcfg"
)

type whoSpec struct {
	fails  bool
	failAs int // which error a failing lookup returns: 0 plain, 1 context.Canceled, 2 context.DeadlineExceeded (wrapped)
	tags   []string
	login  string
	node   string
	cap1   string // rules | none | empty | bad
	cap2   string
	rules1 acl.Rules
	rules2 acl.Rules
}

func capValue(kind string, rs acl.Rules) ([]tailcfg.RawMessage, bool) {
	switch kind {
	case "none":
		return nil, false
	case "empty":
		return []tailcfg.RawMessage{}, true
	case "bad":
		return []tailcfg.RawMessage{`{"action": 5}`}, true
	}
	var out []tailcfg.RawMessage
	for _, r := range rs {
		b, _ := json.Marshal(r)
		out = append(out, tailcfg.RawMessage(b))
	}
	return out, true
}

func (w *whoSpec) answer() (*apitype.WhoIsResponse, error) {
	if w.fails {
		switch w.failAs {
		case 1:
			return nil, context.Canceled
		case 2:
			return nil, fmt.Errorf("whois: %w", context.DeadlineExceeded)
		}
		return nil, errors.New("whois failed")
	}
	cm := tailcfg.PeerCapMap{}
	if v, ok := capValue(w.cap1, w.rules1); ok {
		cm[server.ACLCap] = v
	}
	if v, ok := capValue(w.cap2, w.rules2); ok {
		cm["https://"+server.ACLCap] = v
	}
	return &apitype.WhoIsResponse{
		Node:        &tailcfg.Node{Name: w.node, Tags: w.tags},
		UserProfile: &tailcfg.UserProfile{LoginName: w.login},
		CapMap:      cm,
	}, nil
}

func encCap(kind string, rs acl.Rules) string {
	if kind == "rules" {
		if len(rs) == 0 {
			return "empty"
		}
		return "r:" + encRules(rs)
	}
	return kind
}

var principalStructured bool

func structuredPrincipal(p audit.Principal) string {
	return fmt.Sprintf("%s|%s|%s|%s", p.Hostname, p.IP, p.User, strings.Join(p.Tags, ","))
}

func classifyClient(err error) string {
	switch {
	case err == nil:
		return "ok"
	case errors.Is(err, api.ErrNotFound):
		return "notfound"
	case errors.Is(err, api.ErrAccessDenied):
		return "denied"
	case errors.Is(err, api.ErrValueNotChanged):
		return "notchanged"
	default:
		return "opaque"
	}
}

// traceHTTP: requests against the real mux handlers of server.New.
//
//	begin <idx>
//	http m= ct= nb= addrok= addr= who=... ep= bodyok= n= v= uic= val= via=raw|client
//	     status= rbody= res= cli= ent= mem= disk= gen=
func traceHTTP(o opts) error {
	if o.dir == "" {
		return errors.New("-dir required")
	}
	principalStructured = true
	kek, err := newKEK()
	if err != nil {
		return err
	}
	for h := 0; h < o.n; h++ {
		if o.only >= 0 && h != o.only {
			continue
		}
		r := rng(o.seed, h)
		w, err := newDBWorld(o.dir, h, kek)
		if err != nil {
			return err
		}
		var cur *whoSpec
		adminWho := &whoSpec{node: "admin.ts.net", login: "admin@example.com", cap1: "rules", cap2: "none",
			rules1: acl.Rules{{Action: allActs, Secret: []acl.Secret{"*"}}}}
		mux := http.NewServeMux()
		ctx, cancel := context.WithCancel(context.Background())
		_, err = server.New(ctx, server.Config{DB: w.d, Mux: mux,
			WhoIs: func(_ context.Context, asked string) (*apitype.WhoIsResponse, error) {
				// the tailnet answers about the address it is asked about: the peer the request came
				// from is `cur`; 100.64.0.1 is the administrator's node (every action on every name)
				if strings.HasPrefix(asked, "100.64.0.1:") || asked == "100.64.0.1" {
					return adminWho.answer()
				}
				return cur.answer()
			}})
		if err != nil {
			cancel()
			return err
		}
		emit("begin\t%d", h)
		// seed some state as a superuser through the DB API (records discarded)
		w.sk.observer = true
		su := superuser()
		for _, n := range []string{"a", "dev/x"} {
			if r.Intn(2) == 0 {
				w.d.Put(su, n, []byte("seed-"+n))
				w.d.Put(su, n, []byte("seed2-"+n))
			}
		}
		w.sk.observer = false
		if d0, err := readDisk(w.path, kek); err == nil {
			emit("init\tdisk=%s\tgen=%d", d0, w.d.WriteGen())
		}
		// a few fixed identities per history
		var whos []*whoSpec
		for i := 0; i < 4; i++ {
			ws := &whoSpec{node: fmt.Sprintf("node%d.ts.net", i), cap1: "rules", cap2: "none"}
			if i%2 == 0 {
				ws.login = fmt.Sprintf("user%d@example.com", i)
			} else {
				ws.tags = []string{fmt.Sprintf("tag:t%d", i), "tag:x"}
				ws.login = "ignored@example.com"
			}
			if i == 0 {
				ws.rules1 = acl.Rules{{Action: allActs, Secret: []acl.Secret{"*"}}}
			} else {
				ws.rules1 = genRules(r, dbActs, dbPats)
			}
			ws.rules2 = genRules(r, dbActs, dbPats)
			whos = append(whos, ws)
		}
		sh := &shadow{vers: map[string][]uint32{}, active: map[string]uint32{}, latest: map[string]uint32{}, gone: map[string][]uint32{}, last: map[string][]byte{}}
		prevReq := "nothing"
		for s := 0; s < o.steps; s++ {
			base := *whos[r.Intn(len(whos))]
			if r.Intn(2) == 0 {
				base = *whos[0]
			}
			ws := &base
			switch r.Intn(40) {
			case 0, 8:
				ws.fails = true
				ws.failAs = r.Intn(3) // the lookup's own timeout or cancellation is a lookup error like any other
			case 1:
				ws.tags, ws.login = nil, "" // anonymous
			case 2:
				ws.cap1 = "bad"
			case 3:
				ws.cap1, ws.cap2 = "empty", "rules"
			case 4:
				ws.cap1, ws.cap2 = "none", "rules"
			case 5:
				ws.cap1, ws.cap2 = "none", "bad"
			case 6:
				ws.cap1, ws.cap2 = "none", "none"
			case 7:
				ws.cap2 = "bad" // ignored when cap1 has rules
			}
			cur = ws
			method := "POST"
			if r.Intn(14) == 0 {
				method = pick(r, []string{"GET", "PUT", "HEAD", "DELETE", "post"})
			}
			ct := "application/json"
			if r.Intn(14) == 0 {
				ct = pick(r, []string{"application/json; charset=utf-8", "text/plain", "", "Application/JSON", "application/json-seq", "application/jsonlines", "application/json5", "application/json-patch+json", " application/json"})
			}
			nb := "setec"
			if r.Intn(14) == 0 {
				nb = pick(r, []string{"other", "", "SETEC"})
			}
			addr := "100.64.0.7:4242"
			if r.Intn(20) == 0 {
				addr = "garbage"
			}
			// headers a client (or a proxy in front of the server) may add: the caller is whoever the
			// connection comes from, whatever these say - also when it comes from the same host
			fwd := ""
			if r.Intn(6) == 0 {
				fwd = pick(r, []string{"100.64.0.1", "100.64.0.1, 10.0.0.2", "100.64.0.1:4242"})
				if r.Intn(2) == 0 && addr != "garbage" {
					addr = pick(r, []string{"127.0.0.1:5555", "[::1]:5555"})
				}
			}
			op := w.genOp(r, sh, "seq")
			ep := map[string]string{"list": "list", "info": "info", "get": "get", "getcond": "get", "getver": "get",
				"put": "put", "activate": "activate", "delver": "delete-version", "delete": "delete"}[op.kind]
			var reqBody []byte
			uic := false
			ver := op.ver
			_ = ver
			switch op.kind {
			case "list":
				reqBody, _ = json.Marshal(api.ListRequest{})
			case "info":
				reqBody, _ = json.Marshal(api.InfoRequest{Name: op.name})
			case "get":
				ver = 0
				uic = r.Intn(3) == 0 // flag with V=0 must be ignored
				reqBody, _ = json.Marshal(api.GetRequest{Name: op.name, UpdateIfChanged: uic})
			case "getcond":
				uic = true
				reqBody, _ = json.Marshal(api.GetRequest{Name: op.name, Version: api.SecretVersion(op.ver), UpdateIfChanged: true})
			case "getver":
				reqBody, _ = json.Marshal(api.GetRequest{Name: op.name, Version: api.SecretVersion(op.ver)})
			case "put":
				reqBody, _ = json.Marshal(api.PutRequest{Name: op.name, Value: op.val})
			case "activate":
				reqBody, _ = json.Marshal(api.ActivateRequest{Name: op.name, Version: api.SecretVersion(op.ver)})
			case "delver":
				reqBody, _ = json.Marshal(api.DeleteVersionRequest{Name: op.name, Version: api.SecretVersion(op.ver)})
			case "delete":
				reqBody, _ = json.Marshal(api.DeleteRequest{Name: op.name})
			}
			via := "raw"
			switch r.Intn(36) {
			case 0:
				reqBody = []byte("null")
			case 1:
				if len(reqBody) > 2 {
					reqBody = reqBody[:len(reqBody)/2]
				}
			case 2:
				reqBody = []byte(`{"Name": 5, "Version": "x"}`)
			case 3:
				reqBody = append(bytes.TrimSuffix(reqBody, []byte("}")), []byte(`,"Extra":[1,2,3]}`)...)
				if string(reqBody) == `{,"Extra":[1,2,3]}` {
					reqBody = []byte(`{"Extra":[1,2,3]}`)
				}
			case 4:
				reqBody = append(reqBody, []byte(" trailing garbage")...)
			case 5:
				reqBody = nil
			case 6:
				reqBody = []byte("not json at all")
			case 7, 8:
				// a version that is not a 32-bit unsigned number: beyond the range (so that its
				// low 32 bits are a plausible version), negative, fractional, exponent form, quoted
				if i := bytes.Index(reqBody, []byte(`"Version":`)); i >= 0 {
					j := i + len(`"Version":`)
					k := j
					for k < len(reqBody) && reqBody[k] >= '0' && reqBody[k] <= '9' {
						k++
					}
					alt := pick(r, []string{fmt.Sprint(uint64(op.ver) + 1<<32), fmt.Sprint(uint64(op.ver) + 1<<32), fmt.Sprint(uint64(op.ver) + 3<<32),
						"-" + fmt.Sprint(op.ver), fmt.Sprint(op.ver) + ".0", fmt.Sprint(op.ver) + "e0", `"` + fmt.Sprint(op.ver) + `"`, "4294967296", "18446744073709551617"})
					reqBody = append(append(append([]byte(nil), reqBody[:j]...), alt...), reqBody[k:]...)
				}
			default:
				if method == "POST" && ct == "application/json" && nb == "setec" && addr != "garbage" && r.Intn(2) == 0 {
					via = "client"
				}
			}
			// classify the body with the same request type the handler uses
			bodyOK, fn, fv, fuic, fval := decodeAs(ep, reqBody)
			w.sk.mu.Lock()
			w.sk.recs = nil
			w.sk.preHash = fileHash(w.path)
			w.sk.mu.Unlock()
			var status int
			var rbody []byte
			cli := "-"
			res := "-"
			var creq []byte
			// the first exchange of one in six client calls fails before it reaches the server (a
			// gateway error): the client must report an error - not retry differently, not invent a value
			cfault := via == "client" && r.Intn(6) == 0
			exchanges := 0
			diskBefore := ""
			if cfault {
				diskBefore, _ = readDisk(w.path, kek)
			}
			note("hist=%d: %s %s of %q (version argument %d) via %s, after %s", h, method, ep, op.name, op.ver, via, prevReq)
			prevReq = fmt.Sprintf("%s %s of %q (version argument %d)", method, ep, op.name, op.ver)
			hung := false
			do := func(req *http.Request) (*http.Response, error) {
				exchanges++
				if cfault && exchanges == 1 {
					return &http.Response{StatusCode: 502, Status: "502 Bad Gateway", Header: http.Header{}, Body: io.NopCloser(strings.NewReader("bad gateway\n")), Request: req}, nil
				}
				if via == "client" && req.Body != nil {
					// what the real client put on the wire
					creq, _ = io.ReadAll(req.Body)
					req.Body = io.NopCloser(bytes.NewReader(creq))
				}
				req.RemoteAddr = addr
				rec := httptest.NewRecorder()
				served := make(chan struct{})
				go func() { defer close(served); mux.ServeHTTP(rec, req) }()
				select {
				case <-served:
				case <-time.After(60 * time.Second):
					// a handler that has not answered after 60 s of real time never will
					hung = true
					return nil, errors.New("the handler did not return")
				}
				resp := rec.Result()
				status = resp.StatusCode
				rbody, _ = io.ReadAll(resp.Body)
				resp.Body = io.NopCloser(bytes.NewReader(rbody))
				if via == "client" && strings.Contains(strings.ToLower(req.Header.Get("Accept-Encoding")), "gzip") {
					// a compressing proxy in front of the server does what HTTP lets it do: a client that
					// announces it accepts gzip is sent gzip (net/http undoes that only when it added the
					// header itself, below this hook)
					var zb bytes.Buffer
					zw := gzip.NewWriter(&zb)
					zw.Write(rbody)
					zw.Close()
					resp.Body = io.NopCloser(bytes.NewReader(zb.Bytes()))
					resp.Header.Set("Content-Encoding", "gzip")
					resp.Header.Del("Content-Length")
					resp.ContentLength = int64(zb.Len())
				}
				return resp, nil
			}
			if via == "client" {
				c := setec.Client{Server: "http://setec.example", DoHTTP: do}
				var cerr error
				cx := context.Background()
				switch op.kind {
				case "list":
					_, cerr = c.List(cx)
				case "info":
					_, cerr = c.Info(cx, op.name)
				case "get":
					uic = false
					fuic = false
					_, cerr = c.Get(cx, op.name)
				case "getcond":
					var sv *api.SecretValue
					sv, cerr = c.GetIfChanged(cx, op.name, api.SecretVersion(op.ver))
					_ = sv
					if op.ver == 0 {
						fuic = false // the client short-circuits V=0 to a plain get
					}
				case "getver":
					_, cerr = c.GetVersion(cx, op.name, api.SecretVersion(op.ver))
				case "put":
					_, cerr = c.Put(cx, op.name, op.val)
				case "activate":
					cerr = c.Activate(cx, op.name, api.SecretVersion(op.ver))
				case "delver":
					cerr = c.DeleteVersion(cx, op.name, api.SecretVersion(op.ver))
				case "delete":
					cerr = c.Delete(cx, op.name)
				}
				cli = classifyClient(cerr)
			} else {
				req := httptest.NewRequest(strings.ToUpper(method), "http://setec.example/api/"+ep, bytes.NewReader(reqBody))
				req.Method = method
				if ct != "" {
					req.Header.Set("Content-Type", ct)
				}
				if nb != "" {
					req.Header.Set("Sec-X-Tailscale-No-Browsers", nb)
				}
				if fwd != "" {
					req.Header.Set("X-Forwarded-For", fwd)
					req.Header.Set("X-Real-Ip", strings.Split(fwd, ",")[0])
					req.Header.Set("Forwarded", "for="+strings.Split(fwd, ",")[0])
				}
				do(req)
			}
			if hung {
				emit("httphang\tep=%s\tkind=%s\tn=%s\tv=%d\tvia=%s", ep, op.kind, hx(op.name), op.ver, via)
				break
			}
			if cfault {
				after, _ := readDisk(w.path, kek)
				emit("clientfault\tep=%s\tkind=%s\tcli=%s\texchanges=%d\tchanged=%s", ep, op.kind, cli, exchanges, b01(diskBefore != after))
				if exchanges == 1 {
					continue // nothing reached the server
				}
			}
			if status == 200 {
				res = decodeResp(ep, rbody)
			}
			ent, pre, err := w.entries()
			if err != nil {
				ent, pre = "MALFORMED:"+hx(err.Error()), "-"
			}
			sh.update(op, res)
			mem := memState(w.d, w.sk)
			disk, err := readDisk(w.path, kek)
			if err != nil {
				disk = "ERR:" + hx(err.Error())
			}
			emit("http\tm=%s\tct=%s\tnb=%s\taddrok=%s\taddr=%s\twhofail=%s\ttags=%s\tlogin=%s\tnode=%s\tcap1=%s\tcap2=%s\tep=%s\tbodyok=%s\tn=%s\tv=%d\tuic=%s\tval=%s\tvia=%s\tstatus=%d\trbody=%s\tres=%s\tcli=%s\tent=%s\tpre=%s\tmem=%s\tdisk=%s\tgen=%d%s",
				hx(method), hx(ct), hx(nb), b01(addr != "garbage"), hx(hostOf(addr)), b01(ws.fails), joinHexX(ws.tags), hx(ws.login), hx(ws.node),
				encCap(ws.cap1, ws.rules1), encCap(ws.cap2, ws.rules2), ep, b01(bodyOK), hx(fn), fv, b01(fuic), hb(fval), via,
				status, hb(rbody), res, cli, ent, pre, mem, disk, w.d.WriteGen(), creqField(via, creq))
		}
		cancel()
		w.close()
	}
	return nil
}

// hostOf: the address part of a peer address ("::1" for "[::1]:5555")
func hostOf(addr string) string {
	if h, _, err := net.SplitHostPort(addr); err == nil {
		return h
	}
	return strings.Split(addr, ":")[0]
}

func joinHexX(xs []string) string {
	ys := make([]string, len(xs))
	for i, x := range xs {
		ys[i] = "x" + hx(x)
	}
	return strings.Join(ys, "+")
}

// decodeAs classifies a request body with the harness's own mirror of the documented request
// shapes (types/api: names are strings, versions 32-bit unsigned numbers, values base64 strings)
// and encoding/json - not with the types of the tree under test, whose decoding is part of what
// is being checked.
func decodeAs(ep string, body []byte) (ok bool, name string, ver uint32, uic bool, val []byte) {
	dec := func(v any) bool { return json.NewDecoder(bytes.NewReader(body)).Decode(v) == nil }
	switch ep {
	case "list":
		var q struct{}
		return dec(&q), "", 0, false, nil
	case "info", "delete":
		var q struct{ Name string }
		ok = dec(&q)
		return ok, q.Name, 0, false, nil
	case "get":
		var q struct {
			Name            string
			Version         uint32
			UpdateIfChanged bool
		}
		ok = dec(&q)
		return ok, q.Name, q.Version, q.UpdateIfChanged, nil
	case "put":
		var q struct {
			Name  string
			Value []byte
		}
		ok = dec(&q)
		return ok, q.Name, 0, false, q.Value
	case "activate", "delete-version":
		var q struct {
			Name    string
			Version uint32
		}
		ok = dec(&q)
		return ok, q.Name, q.Version, false, nil
	}
	return false, "", 0, false, nil
}

func decodeResp(ep string, body []byte) string {
	switch ep {
	case "list":
		var infos []*api.SecretInfo
		if json.Unmarshal(body, &infos) != nil {
			return "BADJSON"
		}
		var parts []string
		for _, in := range infos {
			parts = append(parts, fmt.Sprintf("%s/%s/%d", hx(in.Name), vlist(in.Versions), in.ActiveVersion))
		}
		return "list:" + strings.Join(parts, ";")
	case "info":
		var in api.SecretInfo
		if json.Unmarshal(body, &in) != nil {
			return "BADJSON"
		}
		return fmt.Sprintf("info:%s:%s:%d", hx(in.Name), vlist(in.Versions), in.ActiveVersion)
	case "get":
		var sv api.SecretValue
		if json.Unmarshal(body, &sv) != nil {
			return "BADJSON"
		}
		return fmt.Sprintf("value:%s:%d", hb(sv.Value), sv.Version)
	case "put":
		var v api.SecretVersion
		if json.Unmarshal(body, &v) != nil {
			return "BADJSON"
		}
		return fmt.Sprintf("version:%d", v)
	default:
		var e struct{}
		if json.Unmarshal(body, &e) != nil {
			return "BADJSON"
		}
		return "done"
	}
}

var _ = rand.Int


func creqField(via string, creq []byte) string {
	if via != "client" {
		return ""
	}
	return "\tcreq=" + hb(creq)
}
