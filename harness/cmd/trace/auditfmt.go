package main

import (
	"encoding/json"
	"bytes"
	"fmt"
	"math/rand"
	"net/netip"
	"os"
	"path/filepath"
	"strings"
	"unicode/utf8"

	"github.com/tailscale/setec/acl"
	"github.com/tailscale/setec/audit"
	"github.com/tailscale/setec/db"
	"github.com/tailscale/setec/types/api"
)

// traceAuditFmt: entries with hostile strings through the real audit.Writer; the Lean side
// renders the same record with its model of the encoder and reads the real line back.
//
//	audit valid=<0|1> host= ip= user= tags=x<hex>+... action= auth= secret= ver= id= raw=<hex of the bytes written>
func traceAuditFmt(o opts) error {
	for i := 0; i < o.n; i++ {
		r := rng(o.seed, i)
		var tags []string
		for k := r.Intn(4); k > 0; k-- {
			tags = append(tags, "tag:"+auditStr(r))
		}
		e := audit.Entry{
			Principal:     audit.Principal{Hostname: auditStr(r), IP: auditIP(r), User: auditStr(r), Tags: tags},
			Action:        acl.Action(pick(r, []string{"get", "info", "put", "activate", "delete", auditStr(r)})),
			Authorized:    r.Intn(2) == 0,
			Secret:        auditStr(r),
			SecretVersion: api.SecretVersion(pick(r, []uint32{0, 0, 1, 2, 9, 10, 99, 100, 4294967295, uint32(r.Intn(100000))})),
		}
		if r.Intn(4) == 0 {
			e.Principal.User = ""
		}
		valid := utf8.ValidString(e.Principal.Hostname) && utf8.ValidString(e.Principal.User) && utf8.ValidString(string(e.Action)) && utf8.ValidString(e.Secret)
		for _, t := range tags {
			valid = valid && utf8.ValidString(t)
		}
		var buf bytes.Buffer
		w := audit.New(&buf)
		if err := w.WriteEntries(&e); err != nil {
			return err
		}
		ts := make([]string, len(tags))
		for k, t := range tags {
			ts[k] = "x" + hx(t)
		}
		ip := ""
		if e.Principal.IP.IsValid() {
			ip = e.Principal.IP.String()
		}
		emit("audit\tvalid=%s\thost=%s\tip=%s\tuser=%s\ttags=%s\taction=%s\tauth=%s\tsecret=%s\tver=%d\tid=%d\traw=%s",
			b01(valid), hx(e.Principal.Hostname), hx(ip), hx(e.Principal.User), strings.Join(ts, "+"), hx(string(e.Action)),
			b01(e.Authorized), hx(e.Secret), e.SecretVersion, e.ID, hb(buf.Bytes()))
	}
	if err := auditSharedFile(o); err != nil {
		return err
	}
	return auditAfterClose(o)
}

// auditSharedFile: the log file as the operating system's tools treat it.  (a) two writers on
// one file (the old process finishing its last requests while the new one has started): every
// record of both is a whole line of the file; (b) the file is rotated in place (copied, then
// truncated to nothing - logrotate's copytruncate): the next record is the first line of the
// file, not something after a hole.  Both are what appending (O_APPEND) gives.
//
//	auditfile kind=<two|truncate> lines= want= wellformed=<0|1> nul=<0|1>
func auditSharedFile(o opts) error {
	if o.dir == "" {
		return nil
	}
	os.MkdirAll(o.dir, 0700)
	entry := func(i int) *audit.Entry {
		return &audit.Entry{Principal: audit.Principal{Hostname: fmt.Sprintf("host%d.example.ts.net", i), User: "u@example.com"},
			Action: acl.ActionGet, Authorized: true, Secret: fmt.Sprintf("shared/secret-%d-%s", i, strings.Repeat("x", i%7*9)), SecretVersion: api.SecretVersion(i)}
	}
	check := func(kind, p string, want int) {
		bs, _ := os.ReadFile(p)
		lines, ok := 0, true
		for _, ln := range bytes.Split(bytes.TrimSuffix(bs, []byte("\n")), []byte("\n")) {
			if len(ln) == 0 {
				continue
			}
			lines++
			var e map[string]any
			if json.Unmarshal(ln, &e) != nil || e["principal"] == nil || e["action"] == nil || e["id"] == nil {
				ok = false
			}
		}
		emit("auditfile\tkind=%s\tlines=%d\twant=%d\twellformed=%s\tnul=%s", kind, lines, want, b01(ok), b01(bytes.IndexByte(bs, 0) >= 0))
	}
	{
		p := filepath.Join(o.dir, "audit-two.log")
		os.Remove(p)
		w1, err := audit.NewFile(p)
		if err != nil {
			return err
		}
		w1.WriteEntries(entry(1), entry(2))
		w2, err := audit.NewFile(p)
		if err != nil {
			return err
		}
		for i := 3; i <= 10; i++ {
			if i%2 == 0 {
				w1.WriteEntries(entry(i))
			} else {
				w2.WriteEntries(entry(i))
			}
		}
		w1.Close()
		w2.WriteEntries(entry(11))
		w2.Close()
		check("two", p, 11)
		os.Remove(p)
	}
	{
		p := filepath.Join(o.dir, "audit-rot.log")
		os.Remove(p)
		w, err := audit.NewFile(p)
		if err != nil {
			return err
		}
		for i := 1; i <= 5; i++ {
			w.WriteEntries(entry(i))
		}
		os.Truncate(p, 0) // the copy was taken; the file starts again
		w.WriteEntries(entry(6))
		w.WriteEntries(entry(7))
		w.Close()
		check("truncate", p, 2)
		os.Remove(p)
	}
	return nil
}

// auditAfterClose: a database whose audit log is a real file; the log is closed (the server is
// shutting down) while requests still arrive.  Every one of them must be refused with an error,
// leave the database file and the log exactly as they were, and reveal nothing.
//
//	afterclose i= op= res=<err|ok> dbsame=<0|1> logsame=<0|1> closes=<n>
func auditAfterClose(o opts) error {
	if o.dir == "" {
		return nil
	}
	kek, err := newKEK()
	if err != nil {
		return err
	}
	for i := 0; i < 6; i++ {
		r := rng(o.seed, 7000+i)
		work := filepath.Join(o.dir, fmt.Sprintf("afterclose%d", i))
		os.MkdirAll(work, 0700)
		logPath := filepath.Join(work, "audit.log")
		aw, err := audit.NewFile(logPath)
		if err != nil {
			return err
		}
		dbPath := filepath.Join(work, "setec.db")
		d, err := db.Open(dbPath, kek, aw)
		if err != nil {
			return err
		}
		su := superuser()
		d.Put(su, "k", []byte("one"))
		d.Put(su, "k", []byte("two"))
		d.Put(su, "other", []byte("x"))
		closes := 1 + r.Intn(2) // Close may be called more than once during a shutdown
		for c := 0; c < closes; c++ {
			aw.Close()
		}
		for _, op := range []string{"get", "getver", "info", "list", "put", "putnew", "activate", "delver", "delete"} {
			dbBefore, _ := os.ReadFile(dbPath)
			logBefore, _ := os.ReadFile(logPath)
			var err error
			func() {
				defer func() {
					if p := recover(); p != nil {
						err = fmt.Errorf("panic: %v", p)
					}
				}()
				switch op {
				case "get":
					_, err = d.Get(su, "k")
				case "getver":
					_, err = d.GetVersion(su, "k", 2)
				case "info":
					_, err = d.Info(su, "k")
				case "list":
					_, err = d.List(su)
				case "put":
					_, err = d.Put(su, "k", []byte("three"))
				case "putnew":
					_, err = d.Put(su, "fresh", []byte("y"))
				case "activate":
					err = d.Activate(su, "k", 2)
				case "delver":
					err = d.DeleteVersion(su, "k", 2)
				case "delete":
					err = d.Delete(su, "other")
				}
			}()
			dbAfter, _ := os.ReadFile(dbPath)
			logAfter, _ := os.ReadFile(logPath)
			res := "err"
			if err == nil {
				res = "ok"
			}
			emit("afterclose\ti=%d\top=%s\tres=%s\tdbsame=%s\tlogsame=%s\tcloses=%d", i, op, res,
				b01(bytes.Equal(dbBefore, dbAfter)), b01(bytes.Equal(logBefore, logAfter)), closes)
		}
		os.RemoveAll(work)
	}
	return nil
}

func auditIP(r *rand.Rand) netip.Addr {
	switch r.Intn(5) {
	case 0:
		return netip.Addr{}
	case 1:
		return netip.MustParseAddr("fd7a:115c:a1e0::1234")
	case 2:
		return netip.MustParseAddr("fe80::1%eth0")
	default:
		return netip.AddrFrom4([4]byte{100, byte(64 + r.Intn(64)), byte(r.Intn(256)), byte(r.Intn(256))})
	}
}

var auditPieces = []string{"a", "host", ".example.ts.net", "dev/", "x", " ", "\"", "\\", "\n", "\r", "\t", "\b", "\f", "\x00", "\x01", "\x1f", "\x7f",
	"<", ">", "&", "'", "/", "\u2028", "\u2029", "\ufffd", "\u00e9", "\u65e5\u672c", "\U0001f511", "\\n", "\\u0041", "\\\"",
	"\",\"authorized\":true,\"secret\":\"", "\"}\n{\"id\":1", "}", "{", "[", "]", ",", ":", "\u0080", "\u07ff", "\uffff"}

func auditStr(r *rand.Rand) string {
	switch r.Intn(12) {
	case 0:
		return ""
	case 1:
		return pick(r, []string{"alice@example.com", "prod/db/password", "host1.example.ts.net", "dev/x"})
	case 2:
		// not valid UTF-8: outside the model (the encoder substitutes U+FFFD); the line must still be one line
		return pick(r, []string{"\xff", "a\xc0\x80b", "\xed\xa0\x80", "x\xfe\n"})
	}
	var sb strings.Builder
	for k := 1 + r.Intn(6); k > 0; k-- {
		if r.Intn(5) == 0 {
			sb.WriteRune(rune(r.Intn(0x3000)))
		} else {
			sb.WriteString(pick(r, auditPieces))
		}
	}
	s := sb.String()
	if !utf8.ValidString(s) {
		return strings.ToValidUTF8(s, "?")
	}
	return s
}

var _ = fmt.Sprint
