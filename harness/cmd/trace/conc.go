package main

import (
	"bytes"
	"context"
	"encoding/json"
	"errors"
	"fmt"
	"net/http"
	"net/http/httptest"
	"os"
	"path/filepath"
	"strings"
	"sync"
	"sync/atomic"
	"time"

	"github.com/tailscale/setec/acl"
	"github.com/tailscale/setec/audit"
	setec "github.com/tailscale/setec/client/setec"
	"github.com/tailscale/setec/db"
	"github.com/tailscale/setec/server"
	"github.com/tailscale/setec/types/api"
	"tailscale.com/client/tailscale/apitype"
)

type concCall struct {
	thread   int
	op       dbOp
	res      string
	inv, ret int64
}

// traceConc: small concurrent histories against one db.DB (directly or through the HTTP
// handlers), each call stamped at invocation and at return with a global counter.
//
//	conc via=db|http calls=<thread/inv/ret/op/n/v/val/res;...> final=<disk state> audit=<lines ok?>/<records>/<calls>
func traceConc(o opts) error {
	if o.dir == "" {
		return errors.New("-dir required")
	}
	kek, err := newKEK()
	if err != nil {
		return err
	}
	for h := 0; h < o.n; h++ {
		if o.only >= 0 && h != o.only {
			continue
		}
		r := rng(o.seed, h)
		dir := filepath.Join(o.dir, fmt.Sprintf("conc%d", h))
		os.MkdirAll(dir, 0700)
		path := filepath.Join(dir, "setec.db")
		alog := filepath.Join(dir, "audit.log")
		var clock atomic.Int64
		// the audit file as audit.NewFile opens it, behind a sink that stamps every Write and Sync
		// with the same global counter as the calls
		af, err := os.OpenFile(alog, os.O_WRONLY|os.O_APPEND|os.O_CREATE, 0600)
		if err != nil {
			return err
		}
		ss := &stampSink{f: af, clock: &clock}
		aw := audit.New(ss)
		d, err := db.Open(path, kek, aw)
		if err != nil {
			return err
		}
		su := superuser()
		via := "db"
		if r.Intn(3) == 0 {
			via = "http"
		}
		nthreads := 3 + r.Intn(3)
		names := []string{"x", "y"}[:1+r.Intn(2)]
		// seed state sequentially
		nseed := r.Intn(4)
		for i := 0; i < nseed; i++ {
			d.Put(su, names[0], []byte(fmt.Sprintf("seed%d", i)))
		}
		seedState, serr := readDisk(path, kek)
		if serr != nil {
			seedState = "ERR:" + hx(serr.Error())
		} else if nseed == 0 {
			seedState = "-"
		}
		// half of the histories: the server is stopped and started again between the sequential
		// preparation and the concurrent calls (whatever it keeps in memory is rebuilt from the file)
		restarted := false
		if r.Intn(2) == 0 {
			d2, err := db.Open(path, kek, aw)
			if err != nil {
				return err
			}
			d = d2
			restarted = true
		}
		_ = restarted
		var cl, clIntruder setec.Client
		if via == "http" {
			mux := http.NewServeMux()
			ctx, cancel := context.WithCancel(context.Background())
			defer cancel()
			legacyCap := h%2 == 1
			whois := func(cx context.Context, addr string) (*apitype.WhoIsResponse, error) {
				if strings.HasPrefix(addr, "100.64.0.66") {
					// the intruder: identified, but its only grant is on a name nobody uses
					ws := &whoSpec{node: "intruder.ts.net", login: "intruder@example.com", cap1: "rules", cap2: "none",
						rules1: acl.Rules{{Action: []acl.Action{acl.ActionGet, acl.ActionInfo, acl.ActionPut}, Secret: []acl.Secret{"zzz"}}}}
					return ws.answer()
				}
				if legacyCap {
					// the callers' grant sits under the legacy capability name only
					ws := &whoSpec{node: "cli.ts.net", login: "cli@example.com", cap1: "none", cap2: "rules", rules2: superuser().Permissions}
					return ws.answer()
				}
				return allAccessWhoIs(cx, addr)
			}
			if _, err := server.New(ctx, server.Config{DB: d, Mux: mux, WhoIs: whois}); err != nil {
				return err
			}
			clIntruder = setec.Client{Server: "http://conc", DoHTTP: func(req *http.Request) (*http.Response, error) {
				req.RemoteAddr = "100.64.0.66:1"
				rec := httptest.NewRecorder()
				mux.ServeHTTP(rec, req)
				return rec.Result(), nil
			}}
			cl = setec.Client{Server: "http://conc", DoHTTP: func(req *http.Request) (*http.Response, error) {
				req.RemoteAddr = "100.64.0.9:1"
				rec := httptest.NewRecorder()
				mux.ServeHTTP(rec, req)
				return rec.Result(), nil
			}}
		}
		progs := make([][]dbOp, nthreads)
		for t := range progs {
			for k := 0; k < 3+r.Intn(4); k++ {
				op := dbOp{aok: 1, sok: true, name: pick(r, names)}
				op.kind = pick(r, []string{"put", "put", "put", "get", "get", "getver", "activate", "delver", "delete", "info", "list", "getcond"})
				op.ver = uint32(1 + r.Intn(4))
				op.val = []byte(fmt.Sprintf("t%dk%d", t, k))
				if r.Intn(4) == 0 {
					op.val = []byte("same")
				} else if r.Intn(8) == 0 {
					op.val = []byte{} // an empty value is a value
				}
				progs[t] = append(progs[t], op)
			}
		}
		listHeavy := false
		exactLister := r.Intn(2) == 0
		// one history in five is list-heavy: one caller lists again and again (by the exact-name
		// route) while two others keep writing, each to its own name - a listing must be one
		// consistent view of both
		if via == "db" && r.Intn(5) == 0 {
			exactLister = true
			listHeavy = true
			names = []string{"x", "y"}
			nthreads = 3
			progs = make([][]dbOp, 3)
			for k := 0; k < 20; k++ {
				progs[0] = append(progs[0], dbOp{aok: 1, sok: true, kind: "list", name: "x"})
			}
			for t := 1; t <= 2; t++ {
				for k := 0; k < 8; k++ {
					progs[t] = append(progs[t], dbOp{aok: 1, sok: true, kind: "put", name: names[t-1], val: []byte(fmt.Sprintf("w%dk%d", t, k))})
				}
			}
		}
		// one history in eight: several callers put the very same new bytes under one name at once
		// (they must all be told the same version number) while the lock is kept busy
		if !listHeavy && via == "db" && r.Intn(8) == 0 {
			listHeavy = true // (the lock-contention goroutines)
			names = []string{"x"}
			nthreads = 4
			progs = make([][]dbOp, 4)
			for t := 0; t < 4; t++ {
				for k := 0; k < 3; k++ {
					progs[t] = append(progs[t], dbOp{aok: 1, sok: true, kind: "put", name: "x", val: []byte("dup")})
				}
			}
		}
		results := make([][]concCall, nthreads+1) // the last one is the intruder's
		var wg sync.WaitGroup
		start := make(chan struct{})
		// an intruder: a caller without any grant on the names in play makes the same requests as
		// the others, at the same time; every one of them must be refused
		intruder := r.Intn(2) == 0
		var intruderLeaks atomic.Int64
		if intruder {
			wg.Add(1)
			go func() {
				defer wg.Done()
				<-start
				c := db.Caller{Principal: su.Principal, Permissions: acl.Rules{{Action: []acl.Action{acl.ActionGet, acl.ActionInfo, acl.ActionPut}, Secret: []acl.Secret{"zzz"}}}}
				c.Principal.Hostname = fmt.Sprintf("conc-t%d", nthreads)
				for k := 0; k < 8; k++ {
					op := dbOp{aok: 1, sok: true, name: names[k%len(names)], ver: uint32(1 + k%3), val: []byte("intruder")}
					op.kind = []string{"get", "getcond", "getver", "info", "get", "put", "get", "getcond"}[k]
					inv := clock.Add(1)
					var res string
					if via == "db" {
						res = execDirect(d, c, op)
					} else {
						res = execClient(clIntruder, op)
					}
					ret := clock.Add(1)
					results[nthreads] = append(results[nthreads], concCall{nthreads, op, res, inv, ret})
					if res != "denied" {
						intruderLeaks.Add(1)
					}
				}
			}()
		}
		// in a third of the direct histories the state directory disappears for short moments, so
		// some saves fail while other calls are running
		faulty := via == "db" && r.Intn(3) == 0
		stopFaults := make(chan struct{})
		faultsDone := make(chan struct{})
		go func() {
			defer close(faultsDone)
			if !faulty {
				return
			}
			<-start
			for {
				select {
				case <-stopFaults:
					return
				case <-time.After(150 * time.Microsecond):
				}
				if os.Rename(dir, dir+".off") == nil {
					time.Sleep(250 * time.Microsecond)
					os.Rename(dir+".off", dir)
				}
			}
		}()
		for t := 0; t < nthreads; t++ {
			wg.Add(1)
			go func() {
				defer wg.Done()
				<-start
				for _, op := range progs[t] {
					inv := clock.Add(1)
					var res string
					if via == "db" {
						c := su
						c.Principal.Hostname = fmt.Sprintf("conc-t%d", t)
						if op.kind == "list" && exactLister {
							// a caller whose info grant names the secrets literally (no wildcard): the
							// same view as the all-access caller here, by another route through List
							c.Permissions = acl.Rules{{Action: []acl.Action{acl.ActionInfo}, Secret: []acl.Secret{"x", "y"}},
								{Action: []acl.Action{acl.ActionGet, acl.ActionPut, acl.ActionActivate, acl.ActionDelete}, Secret: []acl.Secret{"*"}}}
						}
						res = execDirect(d, c, op)
					} else {
						res = execClient(cl, op)
					}
					ret := clock.Add(1)
					results[t] = append(results[t], concCall{t, op, res, inv, ret})
				}
			}()
		}
		// in a list-heavy history a few more goroutines keep the database lock busy (WriteGen only
		// takes and releases it), so that whoever needs it twice is likely to wait in between
		stopHammer := make(chan struct{})
		var hw sync.WaitGroup
		if listHeavy {
			for k := 0; k < 6; k++ {
				hw.Add(1)
				go func() {
					defer hw.Done()
					for {
						select {
						case <-stopHammer:
							return
						default:
							d.WriteGen()
						}
					}
				}()
			}
		}
		{
			var ps []string
			for t, pr := range progs {
				var ks []string
				for _, op := range pr {
					ks = append(ks, fmt.Sprintf("%s %s v%d", op.kind, op.name, op.ver))
				}
				ps = append(ps, fmt.Sprintf("t%d: %s", t, strings.Join(ks, ", ")))
			}
			note("hist=%d via=%s seed state %s; concurrent programs %s", h, via, seedState, strings.Join(ps, " | "))
		}
		close(start)
		wg.Wait()
		close(stopHammer)
		hw.Wait()
		close(stopFaults)
		<-faultsDone
		final, err := readDisk(path, kek)
		if err != nil {
			final = "ERR:" + hx(err.Error())
		}
		memFinal := memState(d, &sink{})
		var parts []string
		ncalls := 0
		for _, rs := range results[:nthreads] {
			for _, c := range rs {
				ncalls++
				parts = append(parts, fmt.Sprintf("%d/%d/%d/%s/%s/%d/%s/%s", c.thread, c.inv, c.ret, c.op.kind, hx(c.op.name), c.op.ver, hb(c.op.val), c.res))
			}
		}
		// audit log: every line one complete JSON record
		aw.Close()
		lines := 0
		wellFormed := "1"
		if bs, err := os.ReadFile(alog); err == nil {
			for _, ln := range bytes.Split(bytes.TrimSuffix(bs, []byte("\n")), []byte("\n")) {
				if len(ln) == 0 {
					continue
				}
				lines++
				var e map[string]any
				if json.Unmarshal(ln, &e) != nil || e["principal"] == nil || e["action"] == nil {
					wellFormed = "0"
				}
			}
		}
		// a call's record must be synced - by a Sync that began after the record was written -
		// before the call returns
		unsynced := 0
		if via == "db" {
			ss.mu.Lock()
			for _, w := range ss.writes {
				if w.thread < 0 || w.thread > nthreads {
					continue
				}
				for _, c := range results[w.thread] {
					if c.inv < w.ws && w.we < c.ret {
						ok := false
						for _, y := range ss.syncs {
							if y.ss > w.we && y.se < c.ret {
								ok = true
							}
						}
						if !ok {
							unsynced++
						}
					}
				}
			}
			ss.mu.Unlock()
		}
		if faulty {
			via = "db+faults"
		}
		emit("conc\tvia=%s\tseed=%s\tcalls=%s\tfinal=%s\taudit=%s/%d/%d\tunsynced=%d\tintruder_leaks=%d\tmemfinal=%s", via, seedState, strings.Join(parts, ";"), final, wellFormed, lines, ncalls+nseed, unsynced, intruderLeaks.Load(), memFinal)
		os.RemoveAll(dir)
	}
	return nil
}

func execDirect(d *db.DB, c db.Caller, op dbOp) string {
	w := &dbWorld{d: d, sk: &sink{observer: true}, callers: []db.Caller{c}}
	op.caller = 0
	op.sok = true
	return w.execNoFaults(op)
}

// execNoFaults is exec without fault injection or sink bookkeeping.
func (w *dbWorld) execNoFaults(op dbOp) string {
	saveDir, savePath := w.dir, w.path
	_ = saveDir
	_ = savePath
	c := w.callers[op.caller]
	v := api.SecretVersion(op.ver)
	switch op.kind {
	case "list":
		infos, err := w.d.List(c)
		if err != nil {
			return classify(err)
		}
		var parts []string
		for _, in := range infos {
			parts = append(parts, fmt.Sprintf("%s/%s/%d", hx(in.Name), strings.ReplaceAll(vlist(in.Versions), ",", "."), in.ActiveVersion))
		}
		return "list:" + strings.Join(parts, "+")
	case "info":
		in, err := w.d.Info(c, op.name)
		if err != nil {
			return classify(err)
		}
		return fmt.Sprintf("info:%s:%s:%d", hx(in.Name), strings.ReplaceAll(vlist(in.Versions), ",", "."), in.ActiveVersion)
	case "get":
		sv, err := w.d.Get(c, op.name)
		if err != nil {
			return classify(err)
		}
		return fmt.Sprintf("value:%s:%d", hb(sv.Value), sv.Version)
	case "getcond":
		sv, err := w.d.GetConditional(c, op.name, v)
		if err != nil {
			return classify(err)
		}
		return fmt.Sprintf("value:%s:%d", hb(sv.Value), sv.Version)
	case "getver":
		sv, err := w.d.GetVersion(c, op.name, v)
		if err != nil {
			return classify(err)
		}
		return fmt.Sprintf("value:%s:%d", hb(sv.Value), sv.Version)
	case "put":
		nv, err := w.d.Put(c, op.name, op.val)
		if err != nil {
			return classify(err)
		}
		return fmt.Sprintf("version:%d", nv)
	case "activate":
		if err := w.d.Activate(c, op.name, v); err != nil {
			return classify(err)
		}
		return "done"
	case "delver":
		if err := w.d.DeleteVersion(c, op.name, v); err != nil {
			return classify(err)
		}
		return "done"
	case "delete":
		if err := w.d.Delete(c, op.name); err != nil {
			return classify(err)
		}
		return "done"
	}
	return "badop"
}

func execClient(cl setec.Client, op dbOp) string {
	cx := context.Background()
	v := api.SecretVersion(op.ver)
	cls := func(err error) string {
		switch classifyClient(err) {
		case "notfound":
			return "notfound"
		case "denied":
			return "denied"
		case "notchanged":
			return "notchanged"
		}
		return "other"
	}
	switch op.kind {
	case "list":
		infos, err := cl.List(cx)
		if err != nil {
			return cls(err)
		}
		var parts []string
		for _, in := range infos {
			parts = append(parts, fmt.Sprintf("%s/%s/%d", hx(in.Name), strings.ReplaceAll(vlist(in.Versions), ",", "."), in.ActiveVersion))
		}
		return "list:" + strings.Join(parts, "+")
	case "info":
		in, err := cl.Info(cx, op.name)
		if err != nil {
			return cls(err)
		}
		return fmt.Sprintf("info:%s:%s:%d", hx(in.Name), strings.ReplaceAll(vlist(in.Versions), ",", "."), in.ActiveVersion)
	case "get":
		sv, err := cl.Get(cx, op.name)
		if err != nil {
			return cls(err)
		}
		return fmt.Sprintf("value:%s:%d", hb(sv.Value), sv.Version)
	case "getcond":
		sv, err := cl.GetIfChanged(cx, op.name, v)
		if err != nil {
			return cls(err)
		}
		return fmt.Sprintf("value:%s:%d", hb(sv.Value), sv.Version)
	case "getver":
		sv, err := cl.GetVersion(cx, op.name, v)
		if err != nil {
			return cls(err)
		}
		return fmt.Sprintf("value:%s:%d", hb(sv.Value), sv.Version)
	case "put":
		nv, err := cl.Put(cx, op.name, op.val)
		if err != nil {
			return cls(err)
		}
		return fmt.Sprintf("version:%d", nv)
	case "activate":
		if err := cl.Activate(cx, op.name, v); err != nil {
			return cls(err)
		}
		return "done"
	case "delver":
		if err := cl.DeleteVersion(cx, op.name, v); err != nil {
			return cls(err)
		}
		return "done"
	case "delete":
		if err := cl.Delete(cx, op.name); err != nil {
			return cls(err)
		}
		return "done"
	}
	return "badop"
}


// stampSink is the audit file with every Write and Sync stamped on the calls' clock.
type stampSink struct {
	f      *os.File
	clock  *atomic.Int64
	mu     sync.Mutex
	writes []stampWrite
	syncs  []stampSync
}

type stampWrite struct {
	thread int
	ws, we int64
}

type stampSync struct{ ss, se int64 }

func (s *stampSink) Write(p []byte) (int, error) {
	ws := s.clock.Add(1)
	n, err := s.f.Write(p)
	we := s.clock.Add(1)
	thread := -1
	var e struct {
		Principal struct {
			Hostname string `json:"hostname"`
		} `json:"principal"`
	}
	func() {
		// the bytes may be malformed - or still changing, if the writer shares its buffer - and
		// neither may take the harness down: the record's shape is judged from the file afterwards
		defer func() { recover() }()
		cp := append([]byte(nil), p...)
		if json.Unmarshal(cp, &e) == nil {
			fmt.Sscanf(e.Principal.Hostname, "conc-t%d", &thread)
		}
	}()
	s.mu.Lock()
	s.writes = append(s.writes, stampWrite{thread, ws, we})
	s.mu.Unlock()
	return n, err
}

func (s *stampSink) Sync() error {
	ss := s.clock.Add(1)
	err := s.f.Sync()
	time.Sleep(100 * time.Microsecond) // a slow disk: widens the window in which another record can arrive
	se := s.clock.Add(1)
	s.mu.Lock()
	s.syncs = append(s.syncs, stampSync{ss, se})
	s.mu.Unlock()
	return err
}

func (s *stampSink) Close() error { return s.f.Close() }
