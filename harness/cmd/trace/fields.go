package main

import (
	"time"
	"bytes"
	"context"
	"encoding/json"
	"errors"
	"fmt"
	"reflect"
	"sort"
	"strings"

	setec "github.com/tailscale/setec/client/setec"
	"github.com/tailscale/setec/types/api"
)

// mapSvc is a trivial in-memory StoreClient.
type mapSvc struct {
	vals map[string][]byte
	reqs []string
	vers map[string]api.SecretVersion // versions above 1 (a secret that was changed)
}

func (m *mapSvc) Get(_ context.Context, name string) (*api.SecretValue, error) {
	m.reqs = append(m.reqs, name)
	v, ok := m.vals[name]
	if !ok {
		return nil, api.ErrNotFound
	}
	return &api.SecretValue{Version: 1 + m.vers[name], Value: bytes.Clone(v)}, nil
}

func (m *mapSvc) GetIfChanged(ctx context.Context, name string, old api.SecretVersion) (*api.SecretValue, error) {
	if v, ok := m.vals[name]; ok && 1+m.vers[name] != old {
		return &api.SecretValue{Version: 1 + m.vers[name], Value: bytes.Clone(v)}, nil
	}
	return nil, api.ErrValueNotChanged
}

// field type menu
type BinT struct{ Got []byte }

func (b *BinT) UnmarshalBinary(p []byte) error {
	if bytes.HasPrefix(p, []byte("bad")) {
		return errors.New("BinT rejects this value")
	}
	b.Got = bytes.Clone(p)
	return nil
}

type JSONT struct {
	A int    `json:"a"`
	B string `json:"b"`
}

type Emb struct {
	E []byte `setec:"emb"`
	U int
}

type fieldKind struct {
	name string
	typ  reflect.Type
	lean string // kind seen by the model: bytes|string|secret|bin|other
}

var fieldMenu = []fieldKind{
	{"bytes", reflect.TypeOf([]byte(nil)), "bytes"},
	{"string", reflect.TypeOf(""), "string"},
	{"secret", reflect.TypeOf(setec.Secret(nil)), "secret"},
	{"binval", reflect.TypeOf(BinT{}), "bin"},
	{"binptr", reflect.TypeOf((*BinT)(nil)), "bin"},
	{"jsont", reflect.TypeOf(JSONT{}), "other"},
	{"int", reflect.TypeOf(0), "other"},
	{"map", reflect.TypeOf(map[string]int(nil)), "other"},
	{"chan", reflect.TypeOf((chan int)(nil)), "other"},
}

// traceFields: struct shapes built at run time.
//
//	fields via=newstore|apply prefix= shape=<fname:kind:tag;...> ptr=<1|0> | perr= names= reqs= aerr=<failed fields> vals=<fname=...;...> untouched= store_after=<name=hex;...>
func traceFields(o opts) error {
	for h := 0; h < o.n; h++ {
		if o.only >= 0 && h != o.only {
			continue
		}
		r := rng(o.seed, h)
		note("fields history %d (seed %d): a struct built at run time, parsed, handed to NewStore or applied", h, o.seed)
		nf := 1 + r.Intn(6)
		var sfs []reflect.StructField
		type fdesc struct {
			fname, kind, lean string
			tag               string
			hasTag            bool
		}
		var descs []fdesc
		names := []string{"alpha", "beta", "db/pass", "j", "k", "json"}
		usedEmb := false
		for i := 0; i < nf; i++ {
			fk := pick(r, fieldMenu)
			d := fdesc{fname: fmt.Sprintf("F%d", i), kind: fk.name, lean: fk.lean}
			if r.Intn(4) != 0 {
				d.hasTag = true
				d.tag = pick(r, names)
				switch r.Intn(8) {
				case 0:
					d.tag += ",json"
				case 1:
					d.tag += ",other"
				case 2:
					d.tag = "" // empty name
				case 3:
					d.tag += ",x,json"
				}
				if fk.lean == "other" && r.Intn(2) == 0 && !strings.Contains(d.tag, "json") && d.tag != "" {
					d.tag += ",json"
				}
			}
			tag := reflect.StructTag(`json:"` + strings.ToLower(d.fname) + `"`)
			if d.hasTag {
				tag = reflect.StructTag(fmt.Sprintf(`setec:"%s" json:"%s"`, d.tag, strings.ToLower(d.fname)))
			}
			sfs = append(sfs, reflect.StructField{Name: d.fname, Type: fk.typ, Tag: tag})
			descs = append(descs, d)
		}
		if r.Intn(5) == 0 {
			usedEmb = true
			sfs = append(sfs, reflect.StructField{Name: "Emb", Type: reflect.TypeOf(Emb{}), Anonymous: true})
			descs = append(descs, fdesc{fname: "E", kind: "bytes", lean: "bytes", tag: "emb", hasTag: true})
			descs = append(descs, fdesc{fname: "U", kind: "int", lean: "other"})
		}
		_ = usedEmb
		st := reflect.StructOf(sfs)
		val := reflect.New(st) // *struct
		// (the last two are the same prefix as "dev", written less tidily: names are joined with path.Join)
		prefix := pick(r, []string{"", "", "dev", "prod/app", "dev/", "./dev"})
		// the service: values per full name
		svc := &mapSvc{vals: map[string][]byte{}}
		join := func(n string) string {
			if prefix == "" {
				return n
			}
			return strings.TrimSuffix(strings.TrimPrefix(prefix, "./"), "/") + "/" + n
		}
		for _, n := range append(append([]string{}, names...), "emb") {
			switch r.Intn(8) {
			case 6:
				// a complete JSON value followed by more data: not a JSON document
				svc.vals[join(n)] = []byte(pick(r, []string{`5 6`, `{"a":1,"b":"p"}{"a":2}`, `true false`, `"s" x`, `{"a":3} ]`, `7,`}))
			case 7:
				// trailing white space is fine
				svc.vals[join(n)] = []byte(pick(r, []string{"5\n", `{"a":9,"b":"w"}` + " \n", " 12 "}))
			case 0:
				// absent
			case 1:
				svc.vals[join(n)] = []byte("bad-value")
			case 2:
				svc.vals[join(n)] = []byte(`{"a":7,"b":"x"}`)
			case 3:
				svc.vals[join(n)] = []byte(`5`)
			default:
				svc.vals[join(n)] = []byte("val-" + n)
			}
		}
		// pre-set untagged fields where possible to detect touching
		for i, d := range descs {
			if !d.hasTag && i < len(sfs) && sfs[i].Type.Kind() == reflect.String {
				val.Elem().Field(i).SetString("sentinel")
			}
		}
		arg := any(val.Interface())
		ptr := "1"
		via := pick(r, []string{"newstore", "apply"})
		if via == "newstore" {
			// construction retries a missing declared secret until its context ends (C10):
			// keep every name present on this path; absent names are exercised through Apply
			for _, n := range append(append([]string{}, names...), "emb") {
				if _, ok := svc.vals[join(n)]; !ok {
					svc.vals[join(n)] = []byte("val-" + n)
				}
			}
		}
		if r.Intn(15) == 0 {
			arg = val.Elem().Interface() // non-pointer
			ptr = "0"
		} else if r.Intn(25) == 0 {
			x := 5
			arg = &x // pointer to non-struct
			ptr = "0"
		}
		var shape []string
		for _, d := range descs {
			t := "-"
			if d.hasTag {
				t = "x" + hx(d.tag)
			}
			shape = append(shape, fmt.Sprintf("%s:%s:%s", d.fname, d.lean, t))
		}
		// encoding/json's own verdict on each ",json" field's secret, asked independently of the
		// code under test: does the whole secret decode into the field's type, and to what
		var jsonOK []string
		for i, d := range descs {
			if !d.hasTag || i >= len(sfs) || sfs[i].Anonymous {
				continue
			}
			parts := strings.Split(d.tag, ",")
			if len(parts) < 2 || parts[len(parts)-1] != "json" {
				continue
			}
			v, ok := svc.vals[join(parts[0])]
			if !ok {
				continue
			}
			pv := reflect.New(sfs[i].Type)
			if err := json.Unmarshal(v, pv.Interface()); err != nil {
				jsonOK = append(jsonOK, d.fname+":0:-")
			} else {
				js, _ := json.Marshal(pv.Elem().Interface())
				jsonOK = append(jsonOK, d.fname+":1:"+hx(string(js)))
			}
		}
		second := "-"
		perr, aerr, namesOut, store := "-", "-", "-", (*setec.Store)(nil)
		var listedOut []string
		func() {
			defer func() {
				if p := recover(); p != nil {
					perr = "panic:" + hx(fmt.Sprint(p))
				}
			}()
			cx := context.Background()
			if via == "newstore" {
				// the same name may also be listed (and listed twice): declared sets are de-duplicated across both routes
				var listed []string
				if fs0, e0 := setec.ParseFields(arg, prefix); e0 == nil && r.Intn(2) == 0 {
					ns := fs0.Secrets()
					listed = append(listed, ns[r.Intn(len(ns))])
					if r.Intn(2) == 0 {
						listed = append(listed, listed[0], join("k"))
					}
				}
				listedOut = append([]string(nil), listed...)
				// every declared name is present at the service, so construction does not have to wait;
				// the limit is there for a store that asks for other names than it should
				cxNew, cancelNew := context.WithTimeout(cx, 300*time.Millisecond)
				tNew := time.Now()
				s, err := setec.NewStore(cxNew, setec.StoreConfig{Client: svc, Secrets: listed, Structs: []setec.Struct{{Value: arg, Prefix: prefix}}, PollInterval: -1, Logf: func(string, ...any) {}})
				cancelNew()
				if err != nil && (errors.Is(err, context.DeadlineExceeded) || time.Since(tNew) >= 290*time.Millisecond) {
					aerr = "xTIMEOUT"
					if fs, e2 := setec.ParseFields(arg, prefix); e2 == nil {
						namesOut = xlistT(fs.Secrets())
					}
					return
				}
				if err != nil {
					if strings.Contains(err.Error(), "parse struct fields") {
						perr = classifyParse(err)
					} else {
						aerr = "x" + hx(err.Error())
					}
					// names: recompute via ParseFields for the record
					if fs, e2 := setec.ParseFields(arg, prefix); e2 == nil {
						namesOut = xlistT(fs.Secrets())
					}
					return
				}
				store = s
				if fs, e2 := setec.ParseFields(arg, prefix); e2 == nil {
					namesOut = xlistT(fs.Secrets())
				}
				return
			}
			fs, err := setec.ParseFields(arg, prefix)
			if err != nil {
				perr = classifyParse(err)
				return
			}
			namesOut = xlistT(fs.Secrets())
			s, err := setec.NewStore(cx, setec.StoreConfig{Client: svc, AllowLookup: true, PollInterval: -1, Logf: func(string, ...any) {}})
			if err != nil {
				perr = "store:" + hx(err.Error())
				return
			}
			store = s
			if err := fs.Apply(cx, s); err != nil {
				aerr = "x" + hx(err.Error())
			}
		}()
		// observe field values
		var vals []string
		untouched := "1"
		if ptr == "1" {
			for i, sf := range sfs {
				fv := val.Elem().Field(i)
				if sf.Anonymous {
					e := fv.Interface().(Emb)
					vals = append(vals, "E=bytes:"+hb(e.E))
					if e.U != 0 {
						untouched = "0"
					}
					continue
				}
				d := descs[i]
				var s string
				tparts := strings.Split(d.tag, ",")
				jsonTagged := d.hasTag && len(tparts) >= 2 && tparts[len(tparts)-1] == "json"
				if jsonTagged && d.kind != "secret" && fv.Kind() != reflect.Chan {
					// a ",json" field: whatever its type, it holds the decoded value
					js, _ := json.Marshal(fv.Interface())
					vals = append(vals, d.fname+"=json:"+hx(string(js)))
					continue
				}
				switch d.kind {
				case "bytes":
					s = "bytes:" + hb(fv.Bytes())
				case "string":
					s = "str:" + hx(fv.String())
				case "secret":
					sec := fv.Interface().(setec.Secret)
					if sec == nil {
						s = "nil"
					} else {
						s = "handle:" + hb(sec.Get())
					}
				case "binval":
					s = "bin:" + hb(fv.Interface().(BinT).Got)
				case "binptr":
					p := fv.Interface().(*BinT)
					if p == nil {
						s = "nil"
					} else {
						s = "bin:" + hb(p.Got)
					}
				default:
					js, _ := json.Marshal(fv.Interface())
					if fv.Kind() == reflect.Chan {
						js = []byte("chan")
					}
					s = "json:" + hx(string(js))
				}
				if !d.hasTag {
					zero := reflect.Zero(sf.Type).Interface()
					if sf.Type.Kind() == reflect.String {
						if fv.String() != "sentinel" {
							untouched = "0"
						}
					} else if sf.Type.Kind() != reflect.Chan && !reflect.DeepEqual(fv.Interface(), zero) {
						untouched = "0"
					}
				}
				vals = append(vals, d.fname+"="+s)
			}
		}
		// mutate every populated []byte field, then ask the store again
		storeAfter := "-"
		if store != nil && ptr == "1" {
			for i, sf := range sfs {
				fv := val.Elem().Field(i)
				if sf.Anonymous {
					e := fv.Addr().Interface().(*Emb)
					for j := range e.E {
						e.E[j] ^= 0xff
					}
					continue
				}
				if descs[i].kind == "bytes" {
					b := fv.Bytes()
					for j := range b {
						b[j] ^= 0xff
					}
				}
			}
			var ns []string
			for n := range svc.vals {
				ns = append(ns, n)
			}
			sort.Strings(ns)
			var parts []string
			for _, n := range ns {
				if h := safeSecretStore(store, n); h != nil {
					parts = append(parts, fmt.Sprintf("%s=%s:%s", hx(n), hb(h.Get()), hb(svc.vals[n])))
				}
			}
			storeAfter = strings.Join(parts, ";")
			store.Close()
		}
		// a second value of the same struct type, parsed and applied on its own: its fields are
		// filled (not the first value's), and a pointer field whose UnmarshalBinary rejected the
		// value is filled once the secret has been repaired and the same Fields applied again
		// (a scenario of its own: fresh struct value, fresh store, a copy of the service)
		if via == "apply" && perr == "-" && ptr == "1" {
			svc2 := &mapSvc{vals: map[string][]byte{}}
			for k, v := range svc.vals {
				svc2.vals[k] = v
			}
			val2 := reflect.New(st)
			cx := context.Background()
			fs2, err1 := setec.ParseFields(val2.Interface(), prefix)
			s2, err2 := setec.NewStore(cx, setec.StoreConfig{Client: svc2, AllowLookup: true, PollInterval: -1, Logf: func(string, ...any) {}})
			if err1 == nil && err2 == nil {
				fs2.Apply(cx, s2)
				second = "none:ok"
				for i, d := range descs {
					if (d.kind != "binptr" && d.kind != "binval") || !d.hasTag || strings.Contains(d.tag, ",") || d.tag == "" || i >= len(sfs) {
						continue
					}
					full := join(d.tag)
					v, ok := svc2.vals[full]
					if !ok {
						continue
					}
					got := func() []byte {
						if d.kind == "binval" {
							return val2.Elem().Field(i).Interface().(BinT).Got
						}
						if p := val2.Elem().Field(i).Interface().(*BinT); p != nil {
							return p.Got
						}
						return nil
					}
					if !bytes.HasPrefix(v, []byte("bad")) {
						if string(got()) != string(v) {
							second = d.fname + ":wrong"
							break
						}
						continue
					}
					if d.kind != "binptr" {
						continue
					}
					svc2.vals[full] = []byte("val-fixed")
					svc2.vers = map[string]api.SecretVersion{full: 1}
					s2.Refresh(cx)
					if err := fs2.Apply(cx, s2); err != nil && strings.Contains(err.Error(), fmt.Sprintf("%q", d.fname)) {
						second = d.fname + ":err"
					} else if p := val2.Elem().Field(i).Interface().(*BinT); p == nil {
						second = d.fname + ":nil"
					} else if string(p.Got) != "val-fixed" {
						second = d.fname + ":wrong"
					}
					break
				}
				s2.Close()
			}
		}
		// a third scenario of its own: a struct value whose fields already hold something (a
		// placeholder longer than any secret) is applied to one store, the store is closed, and the
		// same Fields are applied to a second store whose service has other, shorter values under
		// the same names.  After each Apply a plain field holds exactly its store's bytes.
		third := "-"
		if via == "apply" && perr == "-" && ptr == "1" {
			svcA := &mapSvc{vals: map[string][]byte{}}
			svcB := &mapSvc{vals: map[string][]byte{}}
			for k, v := range svc.vals {
				svcA.vals[k] = append([]byte("first-store-value-of-some-length:"), v...)
				svcB.vals[k] = []byte("B" + fmt.Sprint(len(k)))
			}
			val3 := reflect.New(st)
			for i, d := range descs {
				if i >= len(sfs) || !d.hasTag || sfs[i].Name != d.fname {
					continue
				}
				switch d.kind {
				case "bytes":
					val3.Elem().Field(i).SetBytes(bytes.Repeat([]byte("placeholder."), 12))
				case "string":
					val3.Elem().Field(i).SetString("placeholder")
				}
			}
			cx := context.Background()
			fs3, err := setec.ParseFields(val3.Interface(), prefix)
			if err == nil {
				third = "ok"
				checkAgainst := func(which string, m *mapSvc) {
					for i, d := range descs {
						if i >= len(sfs) || sfs[i].Name != d.fname || !d.hasTag || strings.Contains(d.tag, ",") || d.tag == "" || third != "ok" {
							continue
						}
						want, ok := m.vals[join(d.tag)]
						if !ok {
							continue
						}
						switch d.kind {
						case "bytes":
							if got := val3.Elem().Field(i).Bytes(); !bytes.Equal(got, want) {
								third = fmt.Sprintf("%s:%s:got=%s:want=%s", which, d.fname, hb(got), hb(want))
							}
						case "string":
							if got := val3.Elem().Field(i).String(); got != string(want) {
								third = fmt.Sprintf("%s:%s:got=%s:want=%s", which, d.fname, hx(got), hb(want))
							}
						case "secret":
							if h, _ := val3.Elem().Field(i).Interface().(setec.Secret); h == nil || !bytes.Equal(h.Get(), want) {
								var got []byte
								if h != nil {
									got = h.Get()
								}
								third = fmt.Sprintf("%s:%s:got=%s:want=%s", which, d.fname, hb(got), hb(want))
							}
						}
					}
				}
				func() {
					defer func() {
						if p := recover(); p != nil {
							third = "panic:" + hx(fmt.Sprint(p))
						}
					}()
					sA, errA := setec.NewStore(cx, setec.StoreConfig{Client: svcA, AllowLookup: true, PollInterval: -1, Logf: func(string, ...any) {}})
					if errA != nil {
						third = "-"
						return
					}
					errApplyA := fs3.Apply(cx, sA)
					if errApplyA == nil {
						checkAgainst("first", svcA)
					}
					sA.Close()
					sB, errB := setec.NewStore(cx, setec.StoreConfig{Client: svcB, AllowLookup: true, PollInterval: -1, Logf: func(string, ...any) {}})
					if errB != nil {
						return
					}
					if fs3.Apply(cx, sB) == nil && errApplyA == nil {
						checkAgainst("second", svcB)
					}
					sB.Close()
				}()
			}
		}
		// a fourth scenario of its own, the pattern the documentation gives: parse the struct, build
		// the store from the names the Fields value reports (NewStore is free to sort that slice),
		// apply.  Field order deliberately not alphabetical.
		if h%4 == 0 {
			type docT struct {
				Zeta  string `setec:"zeta"`
				Alpha []byte `setec:"alpha"`
				Mid   string `setec:"mid"`
				Beta  string `setec:"beta"`
			}
			var v docT
			res := "ok"
			func() {
				defer func() {
					if p := recover(); p != nil {
						res = "panic:" + hx(fmt.Sprint(p))
					}
				}()
				cx := context.Background()
				m := &mapSvc{vals: map[string][]byte{}}
				for _, n := range []string{"zeta", "alpha", "mid", "beta"} {
					m.vals[join(n)] = []byte("value-of-" + n)
				}
				f, err := setec.ParseFields(&v, prefix)
				if err != nil {
					res = "-"
					return
				}
				names := f.Secrets()
				// every name is present at the service, so construction does not have to wait; the limit
				// is there for a store that asks for other names than it should (reported by the main
				// observation of this family)
				cxNew, cancelNew := context.WithTimeout(cx, 300*time.Millisecond)
				st4, err := setec.NewStore(cxNew, setec.StoreConfig{Client: m, Secrets: names, PollInterval: -1, Logf: func(string, ...any) {}})
				cancelNew()
				if err != nil {
					res = "-"
					return
				}
				defer st4.Close()
				if err := f.Apply(cx, st4); err != nil {
					res = "applyerr:" + hx(err.Error())
					return
				}
				if v.Zeta != "value-of-zeta" || string(v.Alpha) != "value-of-alpha" || v.Mid != "value-of-mid" || v.Beta != "value-of-beta" {
					res = fmt.Sprintf("wrong:zeta=%s:alpha=%s:mid=%s:beta=%s", hx(v.Zeta), hb(v.Alpha), hx(v.Mid), hx(v.Beta))
				}
			}()
			if res != "ok" && res != "-" && third == "ok" || third == "-" && res != "ok" && res != "-" {
				third = "documented-pattern:" + res
			}
		}
		// ... and a store with lookups disabled that knows two of the four names: Apply reports the
		// two it cannot fill, and fills the two it can
		if h%4 == 1 {
			type partT struct {
				Zeta  string `setec:"zeta"`
				Alpha []byte `setec:"alpha"`
				Mid   string `setec:"mid"`
				Beta  string `setec:"beta"`
			}
			var v partT
			res := "ok"
			func() {
				defer func() {
					if p := recover(); p != nil {
						res = "panic:" + hx(fmt.Sprint(p))
					}
				}()
				cx := context.Background()
				m := &mapSvc{vals: map[string][]byte{}}
				for _, n := range []string{"zeta", "alpha", "mid", "beta"} {
					m.vals[join(n)] = []byte("value-of-" + n)
				}
				f, err := setec.ParseFields(&v, prefix)
				if err != nil {
					res = "-"
					return
				}
				cxNew, cancelNew := context.WithTimeout(cx, 300*time.Millisecond)
				st5, err := setec.NewStore(cxNew, setec.StoreConfig{Client: m, Secrets: []string{join("zeta"), join("mid")}, PollInterval: -1, Logf: func(string, ...any) {}})
				cancelNew()
				if err != nil {
					res = "-"
					return
				}
				defer st5.Close()
				aerr := f.Apply(cx, st5)
				switch {
				case aerr == nil:
					res = "noerror"
				case v.Zeta != "value-of-zeta" || v.Mid != "value-of-mid":
					res = fmt.Sprintf("unfilled:zeta=%s:mid=%s:err=%s", hx(v.Zeta), hx(v.Mid), hx(aerr.Error()))
				case len(v.Alpha) != 0 || v.Beta != "":
					res = "filled-without-lookup"
				}
			}()
			if res != "ok" && res != "-" && (third == "ok" || third == "-") {
				third = "lookups-disabled:" + res
			}
		}
		var svcNames []string
		for n, v := range svc.vals {
			svcNames = append(svcNames, hx(n)+"="+hb(v))
		}
		sort.Strings(svcNames)
		emit("fields\tthird=%s\tlisted=%s\tvia=%s\tprefix=%s\tshape=%s\tptr=%s\tsvc=%s\tperr=%s\tnames=%s\treqs=%s\taerr=%s\tvals=%s\tuntouched=%s\tstore_after=%s\tjsonok=%s\tsecond=%s",
			third, xlistT(listedOut), via, hx(prefix), strings.Join(shape, ";"), ptr, strings.Join(svcNames, ";"), perr, namesOut, xlistT(svc.reqs), aerr, strings.Join(vals, ";"), untouched, storeAfter, strings.Join(jsonOK, ";"), second)
	}
	return nil
}

func classifyParse(err error) string {
	s := err.Error()
	switch {
	case errors.Is(err, setec.ErrNoFields):
		return "nofields"
	case strings.Contains(s, "not a pointer to a struct"):
		return "notptr"
	case strings.Contains(s, "empty secret name"):
		return "emptyname"
	case strings.Contains(s, "unsupported type"):
		return "unsupported"
	}
	return "other:" + hx(s)
}

func xlistT(xs []string) string {
	ys := make([]string, len(xs))
	for i, x := range xs {
		ys[i] = "x" + hx(x)
	}
	return strings.Join(ys, "+")
}

func safeSecretStore(st *setec.Store, n string) (h setec.Secret) {
	defer func() { recover() }()
	return st.Secret(n)
}
