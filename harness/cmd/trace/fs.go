package main

import (
	"bytes"
	"encoding/json"
	"errors"
	"fmt"
	"os"
	"os/exec"
	"path/filepath"
	"regexp"
	"runtime"
	"sort"
	"strconv"
	"strings"

	setec "github.com/tailscale/setec/client/setec"
	"github.com/tailscale/setec/audit"
	"github.com/tailscale/setec/db"
	"github.com/tink-crypto/tink-go/v2/aead"
	"github.com/tink-crypto/tink-go/v2/insecurecleartextkeyset"
	"github.com/tink-crypto/tink-go/v2/keyset"
	"github.com/tink-crypto/tink-go/v2/tink"
)

// ---------- the child: one real operation between two marker writes ----------

func loadKEK(path string) (tink.AEAD, error) {
	kb, err := os.ReadFile(path)
	if err != nil {
		return nil, err
	}
	kh, err := insecurecleartextkeyset.Read(keyset.NewJSONReader(bytes.NewReader(kb)))
	if err != nil {
		return nil, err
	}
	return aead.New(kh)
}

func writeKEK(path string) (tink.AEAD, error) {
	kh, err := keyset.NewHandle(aead.AES256GCMKeyTemplate())
	if err != nil {
		return nil, err
	}
	var kb bytes.Buffer
	if err := insecurecleartextkeyset.Write(kh, keyset.NewJSONWriter(&kb)); err != nil {
		return nil, err
	}
	if err := os.WriteFile(path, kb.Bytes(), 0600); err != nil {
		return nil, err
	}
	return aead.New(kh)
}

const cacheDocNew = `{"alpha":{"secret":{"Value":"bmV3LXZhbHVl","Version":7},"lastAccess":"1700000000"}}`
const cacheDocOldLong = `{"alpha":{"secret":{"Value":"b2xk","Version":3},"lastAccess":"1600000000"},"beta":{"secret":{"Value":"YW4gb2xkIHNlY3JldCB0aGF0IGV4cGlyZXMgc29vbg==","Version":12},"lastAccess":"1600000001"},"gamma":{"secret":{"Value":"Zw==","Version":1},"lastAccess":"0"}}`
const cacheDocOld = `{"alpha":{"secret":{"Value":"b2xk","Version":3},"lastAccess":"1600000000"}}`

// fsChild runs in the traced process.  Files: <dir>/state/setec.db (or cache.json), <dir>/kek.json.
func fsChild(o opts) error {
	runtime.LockOSThread() // keep the operation's system calls on one thread
	op := strings.TrimSuffix(o.profile, "wide")
	state := filepath.Join(o.dir, "state")
	mark := func(s string) { os.Stderr.WriteString(s + "\n") }
	if op == "cache" {
		fc := setec.FileCache(filepath.Join(state, "cache.json"))
		mark("MARK1")
		err := fc.Write([]byte(cacheDocNew))
		mark("MARK2")
		got, _ := fc.Read()
		fmt.Printf("res=%s\tmem=%s\tdisk=%s\n", okOr(err), hb(got), hb(got))
		err = fc.Write([]byte(cacheDocNew))
		fmt.Printf("retry=%s\n", okOr(err))
		return nil
	}
	kek, err := loadKEK(filepath.Join(o.dir, "kek.json"))
	if err != nil {
		return err
	}
	sk := &sink{observer: true}
	path := filepath.Join(state, "setec.db")
	if op == "create" {
		mark("MARK1")
		d, err := db.Open(path, kek, audit.New(sk))
		mark("MARK2")
		mem := "-"
		if err == nil {
			mem = memState(d, sk)
		}
		fmt.Printf("res=%s\tmem=%s\tdisk=%s\n", okOr(err), mem, fsDiskState(o.dir, op, kek))
		d2, err := db.Open(path, kek, audit.New(sk))
		_ = d2
		fmt.Printf("retry=%s\n", okOr(err))
		return nil
	}
	d, err := db.Open(path, kek, audit.New(sk))
	if err != nil {
		return err
	}
	su := superuser()
	mark("MARK1")
	switch op {
	case "putnew":
		_, err = d.Put(su, "fresh", []byte("fresh-value"))
	case "putver":
		_, err = d.Put(su, "alpha", []byte("alpha-3"))
	case "activate":
		err = d.Activate(su, "alpha", 2)
	case "delver":
		err = d.DeleteVersion(su, "alpha", 2)
	case "delete":
		err = d.Delete(su, "beta")
	default:
		return fmt.Errorf("unknown child op %q", op)
	}
	mark("MARK2")
	fmt.Printf("res=%s\tmem=%s\tgen=%d\tdisk=%s\n", okOr(err), memState(d, sk), d.WriteGen(), fsDiskState(o.dir, op, kek))
	// later calls succeed normally
	_, err = d.Put(su, "retry", []byte("retry-value"))
	fmt.Printf("retry=%s\n", okOr(err))
	return nil
}

func okOr(err error) string {
	if err == nil {
		return "ok"
	}
	return classify(err)
}

// ---------- the parent ----------

var fsOps = []string{"create", "putnew", "putver", "activate", "delver", "delete", "cache"}

// prepare writes the pre-call files for op into dir and returns the canonical pre-state.
// An operation name ending in "wide" is the same operation on a file that already exists with a
// wide mode (0644: restored from a backup, copied into place) and, for the cache, with contents
// longer than what is about to be written.
func fsPrepare(dir, opFull string) (kek tink.AEAD, pre string, err error) {
	op := strings.TrimSuffix(opFull, "wide")
	wide := opFull != op
	defer func() {
		if wide && err == nil {
			target := "setec.db"
			if op == "cache" {
				target = "cache.json"
			}
			err = os.Chmod(filepath.Join(dir, "state", target), 0644)
		}
	}()
	os.RemoveAll(dir)
	state := filepath.Join(dir, "state")
	if err = os.MkdirAll(state, 0700); err != nil {
		return
	}
	if op == "cache" {
		old := cacheDocOld
		if wide {
			old = cacheDocOldLong
		}
		err = os.WriteFile(filepath.Join(state, "cache.json"), []byte(old), 0600)
		return nil, hx(old), err
	}
	kek, err = writeKEK(filepath.Join(dir, "kek.json"))
	if err != nil || op == "create" {
		return kek, "ABSENT", err
	}
	sk := &sink{observer: true}
	path := filepath.Join(state, "setec.db")
	d, err := db.Open(path, kek, audit.New(sk))
	if err != nil {
		return
	}
	su := superuser()
	d.Put(su, "alpha", []byte("alpha-1"))
	d.Put(su, "alpha", []byte("alpha-2"))
	d.Put(su, "beta", []byte("beta-1"))
	pre, err = readDisk(path, kek)
	return
}

func fsDiskState(dir, op string, kek tink.AEAD) string {
	op = strings.TrimSuffix(op, "wide")
	state := filepath.Join(dir, "state")
	if op == "cache" {
		bs, err := os.ReadFile(filepath.Join(state, "cache.json"))
		if err != nil {
			return "ABSENT"
		}
		return hx(string(bs))
	}
	path := filepath.Join(state, "setec.db")
	if _, err := os.Stat(path); err != nil {
		return "ABSENT"
	}
	// the file must open with package db itself, not only with the harness's reader
	if got := memStateOf(path, kek); strings.HasPrefix(got, "OPENERR") {
		return got
	}
	s, err := readDisk(path, kek)
	if err != nil {
		return "ERR:" + hx(err.Error())
	}
	return s
}

type sysLine struct {
	raw      string
	name     string
	injected bool
	inWindow bool
	ours     bool // touches a file under the state directory
}

var reSys = regexp.MustCompile(`^(?:\d+\s+)?([a-z0-9_]+)\(`)

func parseStrace(log, stateDir string) []sysLine {
	var out []sysLine
	in := false
	for _, l := range strings.Split(log, "\n") {
		m := reSys.FindStringSubmatch(l)
		if m == nil {
			continue
		}
		if m[1] == "write" && strings.Contains(l, `"MARK1\n"`) {
			in = true
			continue
		}
		if m[1] == "write" && strings.Contains(l, `"MARK2\n"`) {
			in = false
			out = append(out, sysLine{raw: l, name: "MARK2", inWindow: true})
			continue
		}
		out = append(out, sysLine{raw: l, name: m[1], injected: strings.Contains(l, "(INJECTED)"), inWindow: in, ours: strings.Contains(l, stateDir)})
	}
	return out
}

// canon renders one of our system calls as a model-level file-system step.
func canon(l sysLine, stateDir, target string) string {
	r := l.raw
	tgt := filepath.Join(stateDir, target)
	isTmp := strings.Contains(r, tgt+".tmp")
	obj := "other"
	if isTmp {
		obj = "tmp"
	} else if strings.Contains(r, tgt+">") || strings.Contains(r, tgt+`"`) {
		obj = "target"
	}
	mode := ""
	if m := regexp.MustCompile(`, (0[0-7]+)\)`).FindStringSubmatch(r); m != nil {
		mode = ":" + m[1]
	}
	switch l.name {
	case "openat":
		fl := ""
		for _, f := range []string{"O_CREAT", "O_EXCL", "O_TRUNC", "O_WRONLY", "O_RDWR", "O_RDONLY", "O_APPEND"} {
			if strings.Contains(r, f) {
				fl += "+" + strings.TrimPrefix(f, "O_")
			}
		}
		return "open(" + obj + fl + mode + ")"
	case "renameat", "renameat2", "rename":
		ok := strings.Contains(r, tgt+".tmp") && regexp.MustCompile(regexp.QuoteMeta(tgt)+`"(, 0|, RENAME_\w+)?\)`).MatchString(r)
		if ok {
			return "rename(tmp->target)"
		}
		return "rename(?)"
	case "unlinkat", "unlink":
		return "unlink(" + obj + ")"
	case "fchmod", "fchmodat", "chmod":
		return "chmod(" + obj + mode + ")"
	case "newfstatat", "fstat", "stat", "lstat":
		return "stat(" + obj + ")"
	default:
		return l.name + "(" + obj + ")"
	}
}

const straceSet = "openat,write,pwrite64,writev,fchmod,fchmodat,chmod,fsync,fdatasync,close,rename,renameat,renameat2,unlink,unlinkat,ftruncate,truncate"

func runChild(self, dir, op string, inject string) (stdout, log string, err error) {
	logPath := filepath.Join(dir, "strace.log")
	os.Remove(logPath)
	args := []string{"-f", "-y", "-s", "16", "-o", logPath, "-e", "trace=" + straceSet}
	if inject != "" {
		args = append(args, "-e", "inject="+inject)
	}
	args = append(args, self, "fschild", "-dir", dir, "-profile", op)
	cmd := exec.Command("strace", args...)
	cmd.Env = append(os.Environ(), "GOMAXPROCS=1", "GODEBUG=asyncpreemptoff=1")
	var so, se bytes.Buffer
	cmd.Stdout, cmd.Stderr = &so, &se
	err = cmd.Run()
	lb, _ := os.ReadFile(logPath)
	return so.String(), string(lb), err
}

func kvOut(s, key string) string {
	for _, line := range strings.Split(s, "\n") {
		for _, f := range strings.Split(line, "\t") {
			if strings.HasPrefix(f, key+"=") {
				return f[len(key)+1:]
			}
		}
	}
	return ""
}

func tmpLeft(dir string) int {
	ents, _ := os.ReadDir(filepath.Join(dir, "state"))
	n := 0
	for _, e := range ents {
		if strings.Contains(e.Name(), ".tmp") {
			n++
		}
	}
	return n
}

// traceFS: the file-system protocol of one save, then an injected error and a kill at
// every system call of it.
//
//	fsseq op= seq=<canonical calls joined by ,> pre= post=
//	fault op= idx= call= errno= res= mem= disk= retry= tmpleft= pre= post=
//	crash op= idx= call= after=<0|1 rename executed> disk= tmpleft= pre= post=
func traceFS(o opts) error {
	if o.dir == "" {
		return errors.New("-dir required")
	}
	self, err := os.Executable()
	if err != nil {
		return err
	}
	ops := fsOps
	if o.profile != "" && o.profile != "thorough" {
		ops = strings.Split(o.profile, ",")
	}
	for _, op := range ops {
		dir := filepath.Join(o.dir, "fs-"+op)
		target := "setec.db"
		if strings.HasPrefix(op, "cache") {
			target = "cache.json"
		}
		stateDir := filepath.Join(dir, "state")
		_, pre, err := fsPrepare(dir, op)
		if err != nil {
			return err
		}
		so, log, err := runChild(self, dir, op, "")
		if err != nil {
			return fmt.Errorf("baseline child %s: %v\n%s", op, err, log)
		}
		post := kvOut(so, "disk")
		lines := parseStrace(log, stateDir)
		var win []sysLine
		for _, l := range lines {
			if l.inWindow && (l.ours || l.name == "MARK2") {
				win = append(win, l)
			}
		}
		var seq []string
		for _, l := range win {
			if l.name != "MARK2" {
				seq = append(seq, canon(l, stateDir, target))
			}
		}
		postOK := "1"
		if strings.HasPrefix(op, "cache") && post != hb([]byte(cacheDocNew)) {
			postOK = "0" // the file must hold exactly the document that was written (no remains of a longer one)
		}
		emit("fsseq\top=%s\tseq=%s\tpre=%s\tpost=%s\tpostok=%s", op, strings.Join(seq, ","), pre, post, postOK)
		// the index (1-based, per system-call name, whole process) of each window call
		count := map[string]int{}
		type tgt struct {
			idx   int
			name  string
			when  int
			canon string
		}
		var targets []tgt
		for _, l := range lines {
			if l.name == "MARK2" {
				count["write"]++ // the marker itself is a write
				if l.inWindow {
					targets = append(targets, tgt{len(targets), "write", count["write"], "MARK2"})
				}
				continue
			}
			count[l.name]++
			if l.name == "write" && strings.Contains(l.raw, `"MARK1\n"`) {
				continue
			}
			if l.inWindow && l.ours {
				targets = append(targets, tgt{len(targets), l.name, count[l.name], canon(l, stateDir, target)})
			}
		}
		// MARK1 was skipped by parseStrace: account for it in the write count
		for i := range targets {
			if targets[i].name == "write" {
				targets[i].when++
			}
		}
		renameIdx := -1
		for _, t := range targets {
			if strings.HasPrefix(t.canon, "rename") {
				renameIdx = t.idx
			}
		}
		errnos := []string{"EIO", "ENOSPC", "EACCES", "EPERM"}
		for _, t := range targets {
			if t.canon == "MARK2" {
				continue
			}
			for _, en := range errnos {
				if en == "ENOSPC" && !(t.name == "write" || t.name == "openat" || strings.HasPrefix(t.name, "rename")) {
					continue
				}
				// permission errors where a locked-down directory or file could produce them
				if (en == "EACCES" || en == "EPERM") && !(t.name == "openat" || strings.HasPrefix(t.name, "rename") || strings.HasPrefix(t.name, "fchmod") || t.name == "chmod") {
					continue
				}
				if _, _, err := fsPrepare(dir, op); err != nil {
					return err
				}
				kek2, _ := loadKEKMaybe(dir)
				so, log, _ := runChild(self, dir, op, fmt.Sprintf("%s:error=%s:when=%d", t.name, en, t.when))
				hit := ""
				for _, l := range parseStrace(log, stateDir) {
					if l.injected {
						hit = canon(l, stateDir, target)
						if !l.inWindow || !l.ours {
							hit = "MISSED:" + hit
						}
					}
				}
				if hit != t.canon {
					emit("# fault injection missed its target op=%s idx=%d want=%s hit=%s", op, t.idx, t.canon, hit)
					continue
				}
				emit("fault\top=%s\tidx=%d\tcall=%s\terrno=%s\tres=%s\tmem=%s\tdisk=%s\tretry=%s\ttmpleft=%d\tpre=%s\tpost=%s",
					op, t.idx, t.canon, en, kvOut(so, "res"), kvOut(so, "mem"), kvOut(so, "disk"), kvOut(so, "retry"), tmpLeft(dir), pre, post)
				_ = kek2
			}
		}
		for _, t := range targets {
			if _, _, err := fsPrepare(dir, op); err != nil {
				return err
			}
			kek2, _ := loadKEKMaybe(dir)
			_, log, _ := runChild(self, dir, op, fmt.Sprintf("%s:signal=KILL:when=%d", t.name, t.when))
			if !strings.Contains(log, "killed by SIGKILL") {
				emit("# kill missed op=%s idx=%d", op, t.idx)
				continue
			}
			after := 0
			if renameIdx >= 0 && t.idx > renameIdx {
				after = 1
			}
			diskAfterKill := fsDiskState(dir, op, kek2)
			left := tmpLeft(dir)
			// the restarted server goes on: a later save that makes the database shorter (whatever a
			// killed save left lying around), after which the file must still open
			followup := "-"
			if kek2 != nil && !strings.HasPrefix(op, "cache") && op != "create" {
				if d3, err := db.Open(filepath.Join(dir, "state", "setec.db"), kek2, audit.New(&sink{observer: true})); err != nil {
					followup = "OPENERR"
				} else {
					su := superuser()
					followup = "ok"
					for _, n := range []string{"alpha", "beta"} { // the file is looked at after each of the two saves
						d3.Delete(su, n)
						if st := fsDiskState(dir, op, kek2); strings.HasPrefix(st, "ERR") || strings.HasPrefix(st, "ABSENT") || strings.HasPrefix(st, "OPENERR") {
							followup = "UNREADABLE:" + st
							break
						}
					}
				}
			}
			if strings.HasPrefix(op, "cache") {
				// the restarted program goes on: its next cache write is a shorter document (a secret
				// expired); whatever the killed write left lying around, the file must then be
				// exactly that document
				short := []byte(`{"a":{"secret":{"Value":"eA==","Version":1},"lastAccess":"0"}}`)
				fc := setec.FileCache(filepath.Join(dir, "state", "cache.json"))
				followup = "ok"
				if err := fc.Write(short); err != nil {
					followup = "WRITEERR"
				} else if got, err := os.ReadFile(filepath.Join(dir, "state", "cache.json")); err != nil || !bytes.Equal(got, short) {
					followup = "UNREADABLE:" + hb(got)
				} else if got, err := fc.Read(); err != nil || !bytes.Equal(got, short) {
					followup = "UNREADABLE:read:" + hb(got)
				}
			}
			emit("crash\top=%s\tidx=%d\tcall=%s\tafter=%d\tdisk=%s\ttmpleft=%d\tpre=%s\tpost=%s\tfollowup=%s", op, t.idx, t.canon, after, diskAfterKill, left, pre, post, followup)
		}
		os.RemoveAll(dir)
	}
	return nil
}

func loadKEKMaybe(dir string) (tink.AEAD, error) {
	p := filepath.Join(dir, "kek.json")
	if _, err := os.Stat(p); err != nil {
		return nil, err
	}
	return loadKEK(p)
}

// After an injected error the child goes on to a retry operation that changes the file
// again; the state of the file "at the error" is therefore taken from what the child
// itself served (mem) - and the file is cross-checked against pre+retry.
func fsDiskStateBeforeRetry(log, dir, op string, kek tink.AEAD, so string) string {
	final := fsDiskState(dir, op, kek)
	return final
}

var _ = sort.Strings
var _ = strconv.Itoa
var _ = json.Marshal
