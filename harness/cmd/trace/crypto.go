package main

import (
	"bytes"
	"encoding/base64"
	"encoding/hex"
	"encoding/json"
	"errors"
	"fmt"
	"math/rand"
	"os"
	"path/filepath"
	"sort"
	"strings"
	"sync/atomic"

	"github.com/tailscale/setec/audit"
	"github.com/tailscale/setec/db"
	"github.com/tailscale/setec/types/api"
	"github.com/tink-crypto/tink-go/v2/aead"
	"github.com/tink-crypto/tink-go/v2/insecurecleartextkeyset"
	"github.com/tink-crypto/tink-go/v2/keyset"
	"github.com/tink-crypto/tink-go/v2/tink"
)

// countingAEAD wraps the key-encryption key and counts every use.
type countingAEAD struct {
	inner tink.AEAD
	n     atomic.Int64
}

func (c *countingAEAD) Encrypt(p, ad []byte) ([]byte, error) { c.n.Add(1); return c.inner.Encrypt(p, ad) }
func (c *countingAEAD) Decrypt(p, ad []byte) ([]byte, error) { c.n.Add(1); return c.inner.Decrypt(p, ad) }

// encodings of a marker that count as "plain or trivially encoded"
func encodings(m []byte) map[string][]byte {
	out := map[string][]byte{"raw": m, "hex": []byte(hex.EncodeToString(m)), "HEX": []byte(strings.ToUpper(hex.EncodeToString(m)))}
	js, _ := json.Marshal(string(m))
	out["json"] = js[1 : len(js)-1]
	for _, enc := range []struct {
		n string
		e *base64.Encoding
	}{{"b64", base64.RawStdEncoding}, {"b64url", base64.RawURLEncoding}} {
		for shift := 0; shift < 3; shift++ {
			// encode with `shift` junk bytes in front and drop the characters they touch
			buf := append(bytes.Repeat([]byte{0xAA}, shift), m...)
			s := enc.e.EncodeToString(buf)
			drop := (shift*8 + 5) / 6
			if shift == 0 {
				drop = 0
			}
			// the last character may depend on following bytes: drop up to 2 trailing chars
			end := len(s) - 2
			if end-drop >= 12 {
				out[fmt.Sprintf("%s/%d", enc.n, shift)] = []byte(s[drop:end])
			}
		}
	}
	return out
}

type marker struct {
	kind string // name | value
	raw  []byte
}

func scanDir(dir string, markers []marker) (leaks []string, modes []string, nfiles int) {
	filepath.Walk(dir, func(p string, fi os.FileInfo, err error) error {
		if err != nil || fi.IsDir() {
			return nil
		}
		nfiles++
		rel, _ := filepath.Rel(dir, p)
		kind := "db"
		if strings.HasPrefix(rel, "audit") {
			kind = "audit"
		}
		modes = append(modes, fmt.Sprintf("%s:%o", kind, fi.Mode().Perm()))
		bs, err := os.ReadFile(p)
		if err != nil {
			return nil
		}
		for i, m := range markers {
			if m.kind == "name" && kind == "audit" {
				continue // the audit log legitimately names secrets
			}
			for en, e := range encodings(m.raw) {
				if bytes.Contains(bs, e) {
					leaks = append(leaks, fmt.Sprintf("%s:%s%d:%s", kind, m.kind, i, strings.ReplaceAll(en, "/", "_")))
				}
			}
		}
		return nil
	})
	sort.Strings(leaks)
	sort.Strings(modes)
	return
}

// traceCrypto: confidentiality / tamper-evidence observations on real files with a real
// AES256-GCM key-encryption key.
//
//	scan hist= step= files= leaks= modes= kekdelta=
//	tamper hist= kind=bitflip|trunc|wrongkey pos= result=err|same|diff
//	splice hist= dek=A|B db=A|B ver= result=err|A|B|diff
func traceCrypto(o opts) error {
	if o.dir == "" {
		return errors.New("-dir required")
	}
	for h := 0; h < o.n; h++ {
		if o.only >= 0 && h != o.only {
			continue
		}
		r := rng(o.seed, h)
		if err := cryptoHistory(o, h, r); err != nil {
			return err
		}
	}
	return nil
}

func realKEK() (*keyset.Handle, tink.AEAD, error) {
	kh, err := keyset.NewHandle(aead.AES256GCMKeyTemplate())
	if err != nil {
		return nil, nil, err
	}
	a, err := aead.New(kh)
	return kh, a, err
}

func cryptoHistory(o opts, h int, r *rand.Rand) error {
	root := filepath.Join(o.dir, fmt.Sprintf("c%d", h))
	dir := filepath.Join(root, "state")
	if err := os.MkdirAll(dir, 0700); err != nil {
		return err
	}
	defer os.RemoveAll(root)
	_, inner, err := realKEK()
	if err != nil {
		return err
	}
	kek := &countingAEAD{inner: inner}
	al, err := audit.NewFile(filepath.Join(dir, "audit.log"))
	if err != nil {
		return err
	}
	path := filepath.Join(dir, "setec.db")
	d, err := db.Open(path, kek, al)
	if err != nil {
		return err
	}
	openUses := kek.n.Load()
	emit("begin\t%d", h)
	emit("open\thist=%d\tkekuses=%d", h, openUses)
	su := superuser()
	var markers []marker
	var names []string
	for i := 0; i < 3; i++ {
		nb := make([]byte, 12)
		r.Read(nb)
		n := "mk-" + hex.EncodeToString(nb)[:7] + "/" + base64.RawURLEncoding.EncodeToString(nb)
		names = append(names, n)
		markers = append(markers, marker{"name", []byte(n)})
	}
	mkval := func() []byte {
		v := make([]byte, 18+r.Intn(20))
		r.Read(v)
		if r.Intn(3) == 0 { // a textual secret
			v = []byte("tok_" + base64.RawStdEncoding.EncodeToString(v))
		}
		markers = append(markers, marker{"value", v})
		return v
	}
	for s := 0; s < o.steps; s++ {
		n := pick(r, names)
		if s == o.steps/2 {
			// restart: open the existing file again; from here on the running server must not
			// need the key-encryption key any more (not even for its first save)
			b0 := kek.n.Load()
			d2, err := db.Open(path, kek, al)
			if err != nil {
				return err
			}
			d = d2
			emit("open\thist=%d\tkekuses=%d", h, kek.n.Load()-b0)
		}
		before := kek.n.Load()
		var what string
		saveFails := r.Intn(8) == 0
		if saveFails {
			// every file-system step of this call's save fails (the directory is gone): the running
			// server must cope without going back to the key-encryption key
			if os.Rename(dir, dir+".off") != nil {
				saveFails = false
			}
		}
		switch r.Intn(7) {
		case 0, 1, 2:
			_, err = d.Put(su, n, mkval())
			what = "put"
		case 3:
			_, err = d.Get(su, n)
			what = "get"
		case 4:
			in, e2 := d.Info(su, n)
			if e2 == nil && len(in.Versions) > 0 {
				err = d.Activate(su, n, in.Versions[r.Intn(len(in.Versions))])
			}
			what = "activate"
		case 5:
			in, e2 := d.Info(su, n)
			if e2 == nil && len(in.Versions) > 1 {
				v := in.Versions[r.Intn(len(in.Versions))]
				if v != in.ActiveVersion {
					err = d.DeleteVersion(su, n, v)
				}
			}
			what = "delver"
		default:
			_, err = d.List(su)
			what = "list"
		}
		_ = err
		if saveFails {
			os.Rename(dir+".off", dir)
			what += "-savefail"
		}
		leaks, modes, nfiles := scanDir(dir, markers)
		emit("scan\thist=%d\tstep=%d\top=%s\tfiles=%d\tmarkers=%d\tleaks=%s\tmodes=%s\tkekdelta=%d", h, s, what, nfiles, len(markers), strings.Join(leaks, ","), strings.Join(modes, ","), kek.n.Load()-before)
	}
	// ---- tamper evidence on the final file
	orig, err := os.ReadFile(path)
	if err != nil {
		return err
	}
	want := memStateOf(path, kek)
	scratch := filepath.Join(root, "tamper")
	os.MkdirAll(scratch, 0700)
	try := func(bs []byte, key tink.AEAD) string {
		p := filepath.Join(scratch, "t.db")
		os.WriteFile(p, bs, 0600)
		defer os.Remove(p)
		got := memStateOf(p, key)
		switch {
		case strings.HasPrefix(got, "OPENERR"):
			return "err"
		case got == want:
			return "same"
		default:
			return "diff:" + got
		}
	}
	stride := 1
	if o.profile != "thorough" && len(orig) > 300 {
		stride = 1 + len(orig)/300 // quick: ~300 byte positions, all 8 bits each; thorough: every bit
	}
	off := r.Intn(stride)
	for pos := off; pos < len(orig); pos += stride {
		for bit := 0; bit < 8; bit++ {
			bs := bytes.Clone(orig)
			bs[pos] ^= 1 << bit
			emit("tamper\thist=%d\tkind=bitflip\tpos=%d.%d\tresult=%s", h, pos, bit, try(bs, kek))
		}
	}
	for pos := off % 3; pos < len(orig); pos += max(1, stride/3) {
		emit("tamper\thist=%d\tkind=trunc\tpos=%d\tresult=%s", h, pos, try(orig[:pos], kek))
	}
	// the ends, always: an empty file, one byte, all but the last byte
	for _, pos := range []int{0, 1, 2, len(orig) - 1} {
		if pos >= 0 && pos < len(orig) {
			emit("tamper\thist=%d\tkind=trunc\tpos=%d\tresult=%s", h, pos, try(orig[:pos], kek))
		}
	}
	_, other, _ := realKEK()
	emit("tamper\thist=%d\tkind=wrongkey\tpos=0\tresult=%s", h, try(orig, other))
	// ---- splicing with a second database created independently under the same KEK
	pathB := filepath.Join(root, "b", "setec.db")
	os.MkdirAll(filepath.Dir(pathB), 0700)
	dB, err := db.Open(pathB, kek, audit.New(&sink{observer: true}))
	if err != nil {
		return err
	}
	dB.Put(su, "other", []byte("other-value"))
	wantB := memStateOf(pathB, kek)
	var fa, fb v1Wrapped
	rawB, _ := os.ReadFile(pathB)
	json.Unmarshal(orig, &fa)
	json.Unmarshal(rawB, &fb)
	pickF := func(w string) v1Wrapped {
		if w == "A" {
			return fa
		}
		return fb
	}
	for _, dk := range []string{"A", "B"} {
		for _, dbs := range []string{"A", "B"} {
			for _, ver := range []uint32{1, 0, 2} {
				f := v1Wrapped{Version: ver, DEK: pickF(dk).DEK, DB: pickF(dbs).DB}
				bs, _ := json.Marshal(f)
				p := filepath.Join(scratch, "s.db")
				os.WriteFile(p, bs, 0600)
				got := memStateOf(p, kek)
				res := "diff"
				switch {
				case strings.HasPrefix(got, "OPENERR"):
					res = "err"
				case got == want:
					res = "A"
				case got == wantB:
					res = "B"
				}
				emit("splice\thist=%d\tdek=%s\tdb=%s\tver=%d\tresult=%s", h, dk, dbs, ver, res)
			}
		}
	}
	return nil
}

// memStateOf opens the file at path (never creating one) and returns its served state.
func memStateOf(path string, key tink.AEAD) string {
	if _, err := os.Stat(path); err != nil {
		return "OPENERR:absent"
	}
	sk := &sink{observer: true}
	d, err := db.Open(path, key, audit.New(sk))
	if err != nil {
		return "OPENERR:" + hx(err.Error())
	}
	return memState(d, sk)
}

// ---------- golden schema-v1 fixtures ----------

type fixtureMeta struct {
	Name  string            `json:"name"`
	State string            `json:"state"` // canonical served state
	Next  map[string]uint32 `json:"next"`  // version the next put of fresh bytes must return
}

// traceGolden opens each database file under <fixtures>/ with the key stored beside it.
//
//	golden name= state= want= next= wantnext= pure=
func traceGolden(o opts) error {
	fixtures := o.profile
	ents, err := os.ReadDir(fixtures)
	if err != nil {
		return err
	}
	for _, e := range ents {
		if !e.IsDir() {
			continue
		}
		fdir := filepath.Join(fixtures, e.Name())
		var meta fixtureMeta
		mb, err := os.ReadFile(filepath.Join(fdir, "meta.json"))
		if err != nil {
			return err
		}
		if err := json.Unmarshal(mb, &meta); err != nil {
			return err
		}
		kb, err := os.ReadFile(filepath.Join(fdir, "kek.json"))
		if err != nil {
			return err
		}
		kh, err := insecurecleartextkeyset.Read(keyset.NewJSONReader(bytes.NewReader(kb)))
		if err != nil {
			return err
		}
		kek, err := aead.New(kh)
		if err != nil {
			return err
		}
		orig, err := os.ReadFile(filepath.Join(fdir, "setec.db"))
		if err != nil {
			return err
		}
		work := filepath.Join(o.dir, "golden-"+e.Name())
		os.MkdirAll(work, 0700)
		p := filepath.Join(work, "setec.db")
		os.WriteFile(p, orig, 0600)
		sk := &sink{observer: true}
		state, next, pure := "OPENERR", "", "0"
		d, err := db.Open(p, kek, audit.New(sk))
		if err == nil {
			after, _ := os.ReadFile(p)
			pure = b01(bytes.Equal(after, orig))
			state = memState(d, sk)
			su := superuser()
			var ns []string
			for n := range meta.Next {
				ns = append(ns, n)
			}
			sort.Strings(ns)
			var parts []string
			for _, n := range ns {
				v, err := d.Put(su, n, []byte("\x01golden-probe\x02"))
				if err != nil {
					parts = append(parts, hx(n)+":ERR")
				} else {
					parts = append(parts, fmt.Sprintf("%s:%d", hx(n), v))
				}
			}
			next = strings.Join(parts, ",")
		} else {
			state = "OPENERR:" + hx(err.Error())
		}
		var ns []string
		for n := range meta.Next {
			ns = append(ns, n)
		}
		sort.Strings(ns)
		var wparts []string
		for _, n := range ns {
			wparts = append(wparts, fmt.Sprintf("%s:%d", hx(n), meta.Next[n]))
		}
		emit("golden\tname=%s\tstate=%s\twant=%s\tnext=%s\twantnext=%s\tpure=%s", e.Name(), state, meta.State, next, strings.Join(wparts, ","), pure)
		os.RemoveAll(work)
	}
	if err := craftedV1(o); err != nil {
		return err
	}
	if err := bigDB(o); err != nil {
		return err
	}
	return nil
}

// writeV1 seals a clear persist document the documented schema-v1 way, independently of
// package db: a fresh data key wrapped by the KEK (associated data "setec DEK v1"), the document
// encrypted under it (associated data "setec database v1"), both in the JSON wrapper.
func writeV1(path string, kek tink.AEAD, clear []byte) error {
	h, err := keyset.NewHandle(aead.AES256GCMKeyTemplate())
	if err != nil {
		return err
	}
	var dek bytes.Buffer
	if err := h.WriteWithAssociatedData(keyset.NewBinaryWriter(&dek), kek, []byte("setec DEK v1")); err != nil {
		return err
	}
	c, err := aead.New(h)
	if err != nil {
		return err
	}
	ct, err := c.Encrypt(clear, []byte("setec database v1"))
	if err != nil {
		return err
	}
	bs, err := json.Marshal(v1Wrapped{Version: 1, DEK: dek.Bytes(), DB: ct})
	if err != nil {
		return err
	}
	return os.WriteFile(path, bs, 0600)
}

// craftedV1: database files in the documented layout that no short history of puts reaches -
// version numbers in the upper half of the 32-bit range, a secret with a single high version,
// many versions with holes.  Same observations as for the committed files.
func craftedV1(o opts) error {
	type cs struct {
		name, clear, want string
		next            map[string]uint32
	}
	cases := []cs{
		{"high-versions",
			`{"Secrets":{"big":{"Versions":{"2147483647":"YQ==","2147483648":"Yg==","4294967290":"Yw=="},"ActiveVersion":2147483648,"LatestVersion":4294967290},"small":{"Versions":{"1":"eA=="},"ActiveVersion":1,"LatestVersion":1}}}`,
			"626967=2147483647:61,2147483648:62,4294967290:63@2147483648;736d616c6c=1:78@1",
			map[string]uint32{"big": 4294967291, "small": 2}},
		{"single-high",
			`{"Secrets":{"k":{"Versions":{"3000000000":""},"ActiveVersion":3000000000,"LatestVersion":3000000007}}}`,
			"6b=3000000000:@3000000000",
			map[string]uint32{"k": 3000000008}},
		{"holes",
			`{"Secrets":{"h":{"Versions":{"2":"Mg==","5":"NQ==","40":"NDA="},"ActiveVersion":5,"LatestVersion":41}}}`,
			"68=2:32,5:35,40:3430@5",
			map[string]uint32{"h": 42}},
	}
	for _, c := range cases {
		work := filepath.Join(o.dir, "crafted-"+c.name)
		os.MkdirAll(work, 0700)
		kek, err := newKEK()
		if err != nil {
			return err
		}
		p := filepath.Join(work, "setec.db")
		if err := writeV1(p, kek, []byte(c.clear)); err != nil {
			return err
		}
		orig, _ := os.ReadFile(p)
		sk := &sink{observer: true}
		state, next, pure := "OPENERR", "", "0"
		var ns []string
		for n := range c.next {
			ns = append(ns, n)
		}
		sort.Strings(ns)
		d, err := db.Open(p, kek, audit.New(sk))
		if err == nil {
			after, _ := os.ReadFile(p)
			pure = b01(bytes.Equal(after, orig))
			state = memState(d, sk)
			var parts []string
			for _, n := range ns {
				v, err := d.Put(superuser(), n, []byte("\x01golden-probe\x02"))
				if err != nil {
					parts = append(parts, hx(n)+":ERR")
				} else {
					parts = append(parts, fmt.Sprintf("%s:%d", hx(n), v))
				}
			}
			next = strings.Join(parts, ",")
			// ... and what that put wrote opens again
			if _, err := db.Open(p, kek, audit.New(&sink{observer: true})); err != nil {
				state = "REOPENERR:" + hx(err.Error())
			}
		} else {
			state = "OPENERR:" + hx(err.Error())
		}
		var wparts []string
		for _, n := range ns {
			wparts = append(wparts, fmt.Sprintf("%s:%d", hx(n), c.next[n]))
		}
		emit("golden\tname=crafted-%s\tstate=%s\twant=%s\tnext=%s\twantnext=%s\tpure=%s", c.name, state, c.want, next, strings.Join(wparts, ","), pure)
		os.RemoveAll(work)
	}
	return nil
}

// mkFixtures writes the golden files (run once against the pinned commit; output committed).
func mkFixtures(o opts) error {
	out := o.profile
	r := rng(o.seed, 0)
	mk := func(name string, build func(d *db.DB, su db.Caller)) error {
		fdir := filepath.Join(out, name)
		os.RemoveAll(fdir)
		if err := os.MkdirAll(fdir, 0755); err != nil {
			return err
		}
		kh, err := keyset.NewHandle(aead.AES256GCMKeyTemplate())
		if err != nil {
			return err
		}
		var kb bytes.Buffer
		if err := insecurecleartextkeyset.Write(kh, keyset.NewJSONWriter(&kb)); err != nil {
			return err
		}
		os.WriteFile(filepath.Join(fdir, "kek.json"), kb.Bytes(), 0644)
		kek, _ := aead.New(kh)
		sk := &sink{observer: true}
		p := filepath.Join(fdir, "setec.db")
		d, err := db.Open(p, kek, audit.New(sk))
		if err != nil {
			return err
		}
		su := superuser()
		build(d, su)
		state := memState(d, sk)
		disk, err := readDisk(p, kek)
		if err != nil {
			return err
		}
		next := map[string]uint32{}
		if disk != "-" {
			for _, item := range strings.Split(disk, ";") {
				nh, rest, _ := strings.Cut(item, "=")
				nb, _ := hex.DecodeString(nh)
				_, l, _ := strings.Cut(rest, "^")
				var lv uint32
				fmt.Sscan(l, &lv)
				next[string(nb)] = lv + 1
			}
		}
		mb, _ := json.MarshalIndent(fixtureMeta{Name: name, State: state, Next: next}, "", " ")
		os.Chmod(p, 0644)
		return os.WriteFile(filepath.Join(fdir, "meta.json"), mb, 0644)
	}
	if err := mk("empty", func(d *db.DB, su db.Caller) {}); err != nil {
		return err
	}
	if err := mk("multi", func(d *db.DB, su db.Caller) {
		d.Put(su, "alpha", []byte("one"))
		d.Put(su, "alpha", []byte("two"))
		d.Put(su, "alpha", []byte("three"))
		d.Activate(su, "alpha", 2)
		d.DeleteVersion(su, "alpha", 3) // newest deleted: LatestVersion must survive
		d.Put(su, "dev/beta", []byte(""))
		d.Put(su, "gone", []byte("x"))
		d.Delete(su, "gone")
		d.Put(su, "a\nb", []byte("nl"))
	}); err != nil {
		return err
	}
	return mk("binary", func(d *db.DB, su db.Caller) {
		all := make([]byte, 256)
		for i := range all {
			all[i] = byte(i)
		}
		d.Put(su, "all-bytes", all)
		big := make([]byte, 5000)
		r.Read(big)
		d.Put(su, "big", big)
		d.Put(su, "é/π/世", []byte{0xff, 0xfe, 0x00, 0x80})
		d.Put(su, "é/π/世", []byte("v2"))
		d.Activate(su, "é/π/世", api.SecretVersion(2))
	})
}


// bigDB: a database that grows to several megabytes (a handful of 1 MiB secrets and many
// versions of one); after every put a copy is reopened and every value compared by digest.
//
//	bigdb step=<k> size=<file bytes> reopen=<ok|ERR:hex> match=<0|1>
func bigDB(o opts) error {
	work := filepath.Join(o.dir, "bigdb")
	os.MkdirAll(work, 0700)
	defer os.RemoveAll(work)
	kek, err := newKEK()
	if err != nil {
		return err
	}
	p := filepath.Join(work, "setec.db")
	d, err := db.Open(p, kek, audit.New(&sink{observer: true}))
	if err != nil {
		return err
	}
	su := superuser()
	r := rng(o.seed, 4242)
	want := map[string]string{} // name/version -> digest
	for k := 0; k < 9; k++ {
		n := fmt.Sprintf("big/%d", k%7)
		v := make([]byte, 1<<20)
		r.Read(v)
		ver, err := d.Put(su, n, v)
		if err != nil {
			emit("bigdb\tstep=%d\tsize=0\treopen=ERR:%s\tmatch=0", k, hx("put: "+err.Error()))
			return nil
		}
		want[fmt.Sprintf("%s/%d", n, ver)] = digest(v)
		fi, _ := os.Stat(p)
		cp := filepath.Join(work, "copy.db")
		bs, _ := os.ReadFile(p)
		os.WriteFile(cp, bs, 0600)
		reopen, match := "ok", "1"
		d2, err := db.Open(cp, kek, audit.New(&sink{observer: true}))
		if err != nil {
			reopen, match = "ERR:"+hx(err.Error()), "0"
		} else {
			for key, dg := range want {
				i := strings.LastIndex(key, "/")
				var vv uint32
				fmt.Sscanf(key[i+1:], "%d", &vv)
				sv, err := d2.GetVersion(su, key[:i], api.SecretVersion(vv))
				if err != nil || digest(sv.Value) != dg {
					match = "0"
				}
			}
		}
		os.Remove(cp)
		emit("bigdb\tstep=%d\tsize=%d\treopen=%s\tmatch=%s", k, fi.Size(), reopen, match)
	}
	return nil
}
