package main

import (
	"runtime/debug"
	"time"
	"bytes"
	"crypto/sha256"
	"encoding/base64"
	"encoding/json"
	"errors"
	"fmt"
	"math/rand"
	"net/netip"
	"os"
	"path/filepath"
	"sort"
	"strconv"
	"strings"
	"sync"

	"github.com/tailscale/setec/acl"
	"github.com/tailscale/setec/audit"
	"github.com/tailscale/setec/db"
	"github.com/tailscale/setec/types/api"
	"github.com/tink-crypto/tink-go/v2/aead"
	"github.com/tink-crypto/tink-go/v2/keyset"
	"github.com/tink-crypto/tink-go/v2/tink"
)

type tinkAEAD = tink.AEAD

// ---------- audit sink ----------

// sink is the io.Writer behind audit.New.  It records every record it is handed
// (also the one it rejects), whether the database file still had its pre-call
// contents at that moment, and fails on demand in Write or in Sync.
type sink struct {
	mu       sync.Mutex
	observer bool // discard (state observation by the harness itself)
	failMode int  // 0 none, 1 fail Write, 2 fail Sync
	recs     []sinkRec
	dbPath   string
	preHash  string
	writes   int
	syncs    int
	syncing  int    // Sync calls that have begun and not yet returned
	stream   []byte // what an append-only file behind this sink would hold
	synced   int    // number of writes covered by a completed Sync
}

type sinkRec struct {
	raw    []byte
	before bool // database file unchanged since the call started
}

func (s *sink) Write(p []byte) (int, error) {
	s.mu.Lock()
	defer s.mu.Unlock()
	if s.observer {
		return len(p), nil
	}
	s.writes++
	s.recs = append(s.recs, sinkRec{raw: bytes.Clone(p), before: fileHash(s.dbPath) == s.preHash})
	if s.failMode == 1 {
		// a short write: half of the record reaches the file, then the device fails
		s.stream = append(s.stream, p[:len(p)/2]...)
		return len(p) / 2, errors.New("injected audit write failure")
	}
	s.stream = append(s.stream, p...)
	return len(p), nil
}

func (s *sink) Sync() error {
	s.mu.Lock()
	defer s.mu.Unlock()
	if s.observer {
		return nil
	}
	s.syncs++
	if s.failMode == 2 {
		return errors.New("injected audit sync failure")
	}
	// a device that takes its time: whoever does not wait for it returns first
	s.syncing++
	s.mu.Unlock()
	time.Sleep(20 * time.Microsecond)
	s.mu.Lock()
	s.syncing--
	s.synced = s.writes
	return nil
}

func fileHash(path string) string {
	bs, err := os.ReadFile(path)
	if err != nil {
		return "absent"
	}
	h := sha256.Sum256(bs)
	return hb(h[:8])
}

// ---------- callers ----------

func principal(i int) audit.Principal {
	p := audit.Principal{Hostname: fmt.Sprintf("host%d.example.ts.net", i), IP: netip.MustParseAddr(fmt.Sprintf("100.64.0.%d", i+1))}
	if i%2 == 0 {
		p.User = fmt.Sprintf("user%d@example.com", i)
	} else {
		p.Tags = []string{fmt.Sprintf("tag:t%d", i), "tag:shared"}
	}
	return p
}

// canonPrincipal is a short stable identifier of the full principal (all four
// fields): the first 6 bytes of the SHA-256 of its canonical JSON.
func canonPrincipal(p audit.Principal) string {
	if principalStructured {
		return structuredPrincipal(p)
	}
	bs, _ := json.Marshal(p)
	h := sha256.Sum256(bs)
	return string(h[:6])
}

var allActs = []acl.Action{acl.ActionGet, acl.ActionInfo, acl.ActionPut, acl.ActionActivate, acl.ActionDelete}

func superuser() db.Caller {
	return db.Caller{Principal: principal(0), Permissions: acl.Rules{{Action: allActs, Secret: []acl.Secret{"*"}}}}
}

// ---------- clear view of the database file (documented schema v1) ----------

type v1Wrapped struct {
	Version uint32
	DEK     []byte
	DB      []byte
}
type v1Secret struct {
	Versions      map[string]string // decimal version -> base64 bytes
	ActiveVersion json.Number
	LatestVersion json.Number
}
type v1Persist struct {
	Secrets map[string]*v1Secret
}

// readDisk decrypts the file the documented way, independently of package db.
var reopenCount int

// lastClear is the clear persist document most recently decrypted by readDisk.
var lastClear []byte

func readDisk(path string, kek tink.AEAD) (string, error) {
	bs, err := os.ReadFile(path)
	if err != nil {
		return "", err
	}
	var w v1Wrapped
	dec := json.NewDecoder(bytes.NewReader(bs))
	dec.DisallowUnknownFields()
	if err := dec.Decode(&w); err != nil {
		return "", fmt.Errorf("wrapper: %w", err)
	}
	if w.Version != 1 {
		return "", fmt.Errorf("wrapper version %d", w.Version)
	}
	h, err := keyset.ReadWithAssociatedData(keyset.NewBinaryReader(bytes.NewReader(w.DEK)), kek, []byte("setec DEK v1"))
	if err != nil {
		return "", fmt.Errorf("unwrap DEK: %w", err)
	}
	c, err := aead.New(h)
	if err != nil {
		return "", err
	}
	clear, err := c.Decrypt(w.DB, []byte("setec database v1"))
	if err != nil {
		return "", fmt.Errorf("decrypt DB: %w", err)
	}
	lastClear = clear
	var p v1Persist
	dec = json.NewDecoder(bytes.NewReader(clear))
	dec.DisallowUnknownFields()
	if err := dec.Decode(&p); err != nil {
		return "", fmt.Errorf("persist: %w (%s)", err, clear)
	}
	var names []string
	for n := range p.Secrets {
		names = append(names, n)
	}
	sort.Strings(names)
	var parts []string
	for _, n := range names {
		s := p.Secrets[n]
		if s == nil {
			return "", fmt.Errorf("null secret %q", n)
		}
		var vs []int
		for k := range s.Versions {
			v, err := strconv.Atoi(k)
			if err != nil {
				return "", err
			}
			vs = append(vs, v)
		}
		sort.Ints(vs)
		var vparts []string
		for _, v := range vs {
			raw, err := base64.StdEncoding.DecodeString(s.Versions[strconv.Itoa(v)])
			if err != nil {
				return "", err
			}
			vparts = append(vparts, fmt.Sprintf("%d:%s", v, hb(raw)))
		}
		parts = append(parts, fmt.Sprintf("%s=%s@%s^%s", hx(n), strings.Join(vparts, ","), s.ActiveVersion, s.LatestVersion))
	}
	if len(parts) == 0 {
		return "-", nil
	}
	return strings.Join(parts, ";"), nil
}

// memState observes the served state through the API as a superuser whose audit
// records are discarded: List + GetVersion of every listed version.
func memState(d *db.DB, sk *sink) string {
	sk.mu.Lock()
	sk.observer = true
	sk.mu.Unlock()
	defer func() { sk.mu.Lock(); sk.observer = false; sk.mu.Unlock() }()
	su := superuser()
	infos, err := d.List(su)
	if err != nil {
		return "ERR:" + hx(err.Error())
	}
	var parts []string
	for _, in := range infos {
		var vparts []string
		for _, v := range in.Versions {
			sv, err := d.GetVersion(su, in.Name, v)
			if err != nil {
				return "ERR:" + hx(err.Error())
			}
			vparts = append(vparts, fmt.Sprintf("%d:%s", v, hb(sv.Value)))
		}
		parts = append(parts, fmt.Sprintf("%s=%s@%d", hx(in.Name), strings.Join(vparts, ","), in.ActiveVersion))
	}
	if len(parts) == 0 {
		return "-"
	}
	return strings.Join(parts, ";")
}

// ---------- result canonicalisation ----------

func classify(err error) string {
	switch {
	case err == nil:
		return ""
	case errors.Is(err, db.ErrAccessDenied):
		return "denied"
	case errors.Is(err, db.ErrNotFound):
		return "notfound"
	case errors.Is(err, api.ErrValueNotChanged):
		return "notchanged"
	default:
		return "other"
	}
}

func vlist(vs []api.SecretVersion) string {
	ss := make([]string, len(vs))
	for i, v := range vs {
		ss[i] = strconv.Itoa(int(v))
	}
	return strings.Join(ss, ",")
}

// ---------- the history generator ----------

type dbOp struct {
	caller int
	kind   string
	name   string
	ver    uint32
	val    []byte
	aok    int // 1 ok, 0 fail in Write, 2 fail in Sync (both mean auditOk=false)
	sok    bool
}

type dbWorld struct {
	dir, path string
	kek       tink.AEAD
	sk        *sink
	d         *db.DB
	callers   []db.Caller
	long      bool // this history uses very long names (length limits, truncation, prefixes)
	hung      bool // a call did not return: nothing more can be asked of this database
}

// long names: exactly 256 and 8192 bytes, the same with one more byte or one more path
// component, and one whose 256th byte falls inside a two-byte character
var (
	long256  = strings.Repeat("k", 250) + "/alpha"
	long8k   = strings.Repeat("tenant-0123456/", 546) + "ab"
	longNames = []string{long256, long256, long256 + "x", long256 + "/signing-key", long8k, long8k + "y", long8k + "/z",
		strings.Repeat("k", 255) + "é", strings.Repeat("k", 255), "a"}
	longPats = []string{long256, long8k, long256, "*", "a", long256 + "x", "zz", strings.Repeat("k", 255)}
)

func newKEK() (tink.AEAD, error) {
	h, err := keyset.NewHandle(aead.AES256GCMKeyTemplate())
	if err != nil {
		return nil, err
	}
	return aead.New(h)
}

func newDBWorld(root string, idx int, kek tink.AEAD) (*dbWorld, error) {
	dir := filepath.Join(root, fmt.Sprintf("h%d", idx), "state")
	if err := os.MkdirAll(dir, 0700); err != nil {
		return nil, err
	}
	w := &dbWorld{dir: dir, path: filepath.Join(dir, "setec.db"), kek: kek}
	w.sk = &sink{dbPath: w.path}
	w.sk.observer = true
	if idx%7 == 3 {
		// the configured path is a symbolic link with a relative target (an operator's
		// "database -> database.v1"), and the server's working directory is somewhere else:
		// whatever is acknowledged must be what opening the configured path finds
		real := filepath.Join(dir, "database.v1")
		if d0, err := db.Open(real, kek, audit.New(w.sk)); err == nil {
			_ = d0
			os.Symlink("database.v1", w.path)
		}
	}
	d, err := db.Open(w.path, kek, audit.New(w.sk))
	if err != nil {
		return nil, err
	}
	w.sk.observer = false
	w.d = d
	return w, nil
}

// valueRes renders a value answer and then wipes the bytes it was handed, as a careful caller
// does with key material: what a call returns belongs to the caller, and nothing the server
// holds may change with it.
func valueRes(sv *api.SecretValue) (res string) {
	res = fmt.Sprintf("value:%s:%d", hb(sv.Value), sv.Version)
	// a []byte that cannot be written to (it lies over a string constant, say) is not the
	// caller's own copy either: the fault becomes a result instead of ending the process
	old := debug.SetPanicOnFault(true)
	defer debug.SetPanicOnFault(old)
	defer func() {
		if recover() != nil {
			res = "BADRES:" + hx("the bytes returned are not writable memory (not a copy of the caller's own)")
		}
	}()
	for i := range sv.Value {
		sv.Value[i] ^= 0xa5
	}
	return res
}

func (w *dbWorld) close() { os.RemoveAll(filepath.Dir(w.dir)) }

// newTwin opens a second server on a copy of w's database file as it is now.  After a call
// whose save failed, the file is the pre-call state; a server started from it is, by definition,
// "the pre-call state served".  Whatever the two answer from then on must be the same.
func newTwin(w *dbWorld, root string, idx int) *dbWorld {
	dir := filepath.Join(root, fmt.Sprintf("h%d-twin", idx), "state")
	os.RemoveAll(filepath.Dir(dir))
	if err := os.MkdirAll(dir, 0700); err != nil {
		return nil
	}
	t := &dbWorld{dir: dir, path: filepath.Join(dir, "setec.db"), kek: w.kek, callers: w.callers}
	if bs, err := os.ReadFile(w.path); err == nil {
		os.WriteFile(t.path, bs, 0600)
	}
	t.sk = &sink{dbPath: t.path, observer: true}
	d, err := db.Open(t.path, w.kek, audit.New(t.sk))
	if err != nil {
		os.RemoveAll(filepath.Dir(dir))
		return nil
	}
	t.sk.observer = false
	t.d = d
	return t
}

// exec runs one operation on the real DB with the requested faults injected and
// returns the canonical result string.
// exec runs one operation with a watchdog: a call that has not returned after 60 s of real time
// never will (every call is a few file operations); the history ends there, with that observation.
func (w *dbWorld) exec(op dbOp) string {
	ch := make(chan string, 1)
	go func() { ch <- w.exec1(op) }()
	select {
	case r := <-ch:
		return r
	case <-time.After(60 * time.Second):
		w.hung = true
		return "HANG:" + hx("the call did not return within 60 s")
	}
}

func (w *dbWorld) exec1(op dbOp) (res string) {
	c := w.callers[op.caller]
	w.sk.mu.Lock()
	w.sk.recs = nil
	w.sk.preHash = fileHash(w.path)
	w.sk.failMode = 0
	if op.aok == 0 {
		w.sk.failMode = 1
	} else if op.aok == 2 {
		w.sk.failMode = 2
	}
	w.sk.mu.Unlock()
	off := w.dir + ".off"
	if !op.sok {
		// make every file-system step of save() fail: the directory is gone
		if err := os.Rename(w.dir, off); err != nil {
			panic(err)
		}
	}
	defer func() {
		if !op.sok {
			if err := os.Rename(off, w.dir); err != nil {
				panic(err)
			}
		}
		w.sk.mu.Lock()
		w.sk.failMode = 0
		w.sk.mu.Unlock()
		if r := recover(); r != nil {
			res = "PANIC:" + hx(fmt.Sprint(r))
		}
	}()
	v := api.SecretVersion(op.ver)
	switch op.kind {
	case "list":
		infos, err := w.d.List(c)
		if err != nil {
			return classify(err)
		}
		var parts []string
		for _, in := range infos {
			parts = append(parts, fmt.Sprintf("%s/%s/%d", hx(in.Name), vlist(in.Versions), in.ActiveVersion))
		}
		return "list:" + strings.Join(parts, ";")
	case "info":
		in, err := w.d.Info(c, op.name)
		if err != nil {
			return classify(err)
		}
		if in == nil {
			return "BADRES:" + hx("nil info and nil error")
		}
		return fmt.Sprintf("info:%s:%s:%d", hx(in.Name), vlist(in.Versions), in.ActiveVersion)
	case "get":
		sv, err := w.d.Get(c, op.name)
		if err != nil {
			return classify(err)
		}
		if sv == nil {
			return "BADRES:" + hx("nil value and nil error")
		}
		return valueRes(sv)
	case "getcond":
		sv, err := w.d.GetConditional(c, op.name, v)
		if err != nil {
			return classify(err)
		}
		if sv == nil {
			return "BADRES:" + hx("nil value and nil error")
		}
		return valueRes(sv)
	case "getver":
		sv, err := w.d.GetVersion(c, op.name, v)
		if err != nil {
			return classify(err)
		}
		if sv == nil {
			return "BADRES:" + hx("nil value and nil error")
		}
		return valueRes(sv)
	case "put":
		// the caller's buffer is the caller's: it is overwritten as soon as Put returns
		buf := append(make([]byte, 0, len(op.val)+8), op.val...)
		nv, err := w.d.Put(c, op.name, buf)
		for i := range buf {
			buf[i] ^= 0xa5
		}
		if err != nil {
			return classify(err)
		}
		return fmt.Sprintf("version:%d", nv)
	case "activate":
		if err := w.d.Activate(c, op.name, v); err != nil {
			return classify(err)
		}
		return "done"
	case "delver":
		if err := w.d.DeleteVersion(c, op.name, v); err != nil {
			return classify(err)
		}
		return "done"
	case "delete":
		if err := w.d.Delete(c, op.name); err != nil {
			return classify(err)
		}
		return "done"
	}
	panic("bad op " + op.kind)
}

// entries returns the canonical form of the audit records received during the
// last exec, and whether each arrived while the file still had its pre-call
// contents ("1"), not ("0"); "-" when there were none.
func (w *dbWorld) entries() (string, string, error) {
	w.sk.mu.Lock()
	defer w.sk.mu.Unlock()
	if len(w.sk.recs) == 0 {
		return "", "-", nil
	}
	var parts []string
	before := "1"
	for _, r := range w.sk.recs {
		if !bytes.HasSuffix(r.raw, []byte("\n")) || bytes.Count(r.raw, []byte("\n")) != 1 {
			return "", "", fmt.Errorf("audit record is not one line: %q", r.raw)
		}
		var e struct {
			ID            *uint64          `json:"id"`
			Time          *string          `json:"time"`
			Principal     *audit.Principal `json:"principal"`
			Action        *string          `json:"action"`
			Authorized    *bool            `json:"authorized"`
			Secret        string           `json:"secret"`
			SecretVersion uint32           `json:"secretVersion"`
		}
		dec := json.NewDecoder(bytes.NewReader(r.raw))
		dec.DisallowUnknownFields()
		if err := dec.Decode(&e); err != nil {
			return "", "", fmt.Errorf("audit record does not parse: %v: %q", err, r.raw)
		}
		if e.ID == nil || e.Time == nil || e.Principal == nil || e.Action == nil || e.Authorized == nil {
			return "", "", fmt.Errorf("audit record lacks a mandatory field: %q", r.raw)
		}
		parts = append(parts, fmt.Sprintf("%s,%s,%s,%d,%s", hx(canonPrincipal(*e.Principal)), hx(*e.Action), hx(e.Secret), e.SecretVersion, b01(*e.Authorized)))
		if !r.before {
			before = "0"
		}
	}
	return strings.Join(parts, ";"), before, nil
}

var dbNames = []string{"a", "b", "dev/x", "_internal/k", "", "a\nb", "é/π", "_internal/a", "_internal/dev/x", "dev/../a"}
var dbActs = []string{"get", "info", "put", "activate", "delete", "bogus"}
var dbPats = []string{"*", "a", "b", "dev/*", "*x", "a*", "", "_internal/*", "zz", "*/*", "a*a", "dev/*/x", "*b*"}

func genCallers(r *rand.Rand, profile string, long bool) []db.Caller {
	cs := []db.Caller{superuser()}
	if profile == "seq" || profile == "persist" {
		return cs
	}
	pats := dbPats
	if long {
		pats = longPats
	}
	for i := 1; i <= 3; i++ {
		cs = append(cs, db.Caller{Principal: principal(i), Permissions: genRules(r, dbActs, pats)})
	}
	// one caller with everything except one action on everything
	drop := r.Intn(len(allActs))
	var acts []acl.Action
	for i, a := range allActs {
		if i != drop {
			acts = append(acts, a)
		}
	}
	cs = append(cs, db.Caller{Principal: principal(4), Permissions: acl.Rules{{Action: acts, Secret: []acl.Secret{"*"}}}})
	return cs
}

// shadow is the generator's own rough idea of the state, used only to aim
// operations at interesting arguments (never as an oracle).
type shadow struct {
	vers   map[string][]uint32
	active map[string]uint32
	latest map[string]uint32
	gone   map[string][]uint32
	last   map[string][]byte
	vals   map[string]map[uint32][]byte // bytes of every version ever stored under the name's current incarnation
}

func (w *dbWorld) genOp(r *rand.Rand, sh *shadow, profile string) dbOp {
	op := dbOp{aok: 1, sok: true}
	op.caller = 0
	if len(w.callers) > 1 && r.Intn(3) != 0 {
		op.caller = r.Intn(len(w.callers))
	}
	// reserved-prefix names whose remainder is an ordinary secret's name: acting on the one must
	// never touch the other
	nameW := []string{"a", "a", "a", "b", "b", "dev/x", "_internal/k", "", "a\nb", "é/π", "_internal/a", "_internal/b", "_internal/dev/x", "dev/../a", "dev//x", "a\n", " a", "a ", " ", "\ta"}
	if w.long {
		nameW = longNames
	}
	op.name = pick(r, nameW)
	kinds := []string{"put", "put", "put", "put", "activate", "activate", "delver", "delver", "delete", "get", "getver", "getcond", "getcond", "info", "list"}
	op.kind = pick(r, kinds)
	vs := sh.vers[op.name]
	verChoices := []uint32{0, 1, 2, sh.active[op.name], sh.latest[op.name], sh.latest[op.name] + 1, 4294967295}
	if len(vs) > 0 {
		verChoices = append(verChoices, vs[r.Intn(len(vs))], vs[len(vs)-1], vs[len(vs)-1])
	}
	if g := sh.gone[op.name]; len(g) > 0 {
		verChoices = append(verChoices, g[r.Intn(len(g))])
	}
	op.ver = pick(r, verChoices)
	switch r.Intn(8) {
	case 7:
		// the bytes of one of the versions that still exist (not necessarily the newest or the
		// one most recently assigned): a put of them is a new version unless they are exactly
		// the most recently assigned version's
		if vs := sh.vers[op.name]; len(vs) > 0 && sh.vals[op.name] != nil {
			op.val = append([]byte(nil), sh.vals[op.name][vs[r.Intn(len(vs))]]...)
		} else {
			op.val = []byte("b")
		}
	case 6:
		// almost the value most recently put under this name (one letter's case, one non-UTF-8
		// byte, one bit, or the length differs): still a different value
		op.val = nearDup(r, sh.last[op.name])
	case 0:
		op.val = []byte{}
	case 1:
		op.val = []byte("a")
	case 2:
		op.val = []byte("b")
	case 3:
		op.val = make([]byte, 1+r.Intn(40))
		r.Read(op.val)
	case 4:
		op.val = sh.last[op.name]
		if op.val == nil {
			op.val = []byte{}
		}
	default:
		op.val = []byte(fmt.Sprintf("v%d\x00\xff\n", r.Intn(5)))
	}
	// aimed at the version counter: delete the newest version of a name while another one is
	// active, and put (a value never seen) where the counter is ahead of every stored version
	switch r.Intn(9) {
	case 0:
		var cands []string
		for n, vs := range sh.vers {
			if len(vs) >= 2 && vs[len(vs)-1] == sh.latest[n] && sh.active[n] != sh.latest[n] {
				cands = append(cands, n)
			}
		}
		sort.Strings(cands)
		if len(cands) > 0 {
			op.name = cands[r.Intn(len(cands))]
			op.kind, op.ver = "delver", sh.latest[op.name]
		}
	case 1, 2:
		var cands []string
		for n, vs := range sh.vers {
			if len(vs) >= 1 && vs[len(vs)-1] < sh.latest[n] {
				cands = append(cands, n)
			}
		}
		sort.Strings(cands)
		if len(cands) > 0 {
			op.name = cands[r.Intn(len(cands))]
			op.kind = "put"
			op.val = []byte(fmt.Sprintf("fresh-%d", r.Intn(1<<30)))
		}
	}
	switch profile {
	case "audit":
		if x := r.Intn(6); x == 0 {
			op.aok = 0
		} else if x == 1 {
			op.aok = 2
		}
	case "persist":
		if r.Intn(6) == 0 {
			op.sok = false // a failed save, then (often) the same operation again: what is acknowledged must be on disk
		}
	case "fault":
		if r.Intn(3) == 0 {
			op.sok = false
		}
		if r.Intn(40) == 0 {
			op.aok = 0
		}
	}
	return op
}

func (sh *shadow) update(op dbOp, res string) {
	switch {
	case op.kind == "put" && strings.HasPrefix(res, "version:"):
		v64, _ := strconv.ParseUint(res[len("version:"):], 10, 32)
		v := uint32(v64)
		found := false
		for _, x := range sh.vers[op.name] {
			if x == v {
				found = true
			}
		}
		if !found {
			sh.vers[op.name] = append(sh.vers[op.name], v)
		}
		if v > sh.latest[op.name] {
			sh.latest[op.name] = v
		}
		if sh.active[op.name] == 0 {
			sh.active[op.name] = v
		}
		sh.last[op.name] = op.val
		if sh.vals == nil {
			sh.vals = map[string]map[uint32][]byte{}
		}
		if sh.vals[op.name] == nil {
			sh.vals[op.name] = map[uint32][]byte{}
		}
		if _, had := sh.vals[op.name][v]; !had {
			sh.vals[op.name][v] = append([]byte(nil), op.val...)
		}
	case op.kind == "activate" && res == "done":
		sh.active[op.name] = op.ver
	case op.kind == "delver" && res == "done":
		var keep []uint32
		for _, x := range sh.vers[op.name] {
			if x != op.ver {
				keep = append(keep, x)
			}
		}
		sh.vers[op.name] = keep
		sh.gone[op.name] = append(sh.gone[op.name], op.ver)
	case op.kind == "delete" && res == "done":
		delete(sh.vers, op.name)
		delete(sh.active, op.name)
		delete(sh.latest, op.name)
		delete(sh.gone, op.name)
		delete(sh.last, op.name)
		delete(sh.vals, op.name)
	}
}

// traceDB: histories against a real db.DB.
//
//	begin <idx>
//	caller <idx> <principal-hex> <rules>
//	step c= op= n= v= val= aok= sok= res= ent= pre= mem= disk= gen= [reopen= next= openpure=]
func traceDB(o opts) error {
	if o.dir == "" {
		return errors.New("-dir required")
	}
	if o.profile == "" {
		o.profile = "seq"
	}
	kek, err := newKEK()
	if err != nil {
		return err
	}
	// the server's working directory is not the state directory (and relative paths that escape
	// from the code under test land in the scratch area, not in the caller's directory)
	if abs, err := filepath.Abs(o.dir); err == nil {
		o.dir = abs
	}
	if cwd := filepath.Join(o.dir, "cwd"); os.MkdirAll(cwd, 0700) == nil {
		os.Chdir(cwd)
	}
	for h := 0; h < o.n; h++ {
		if o.only >= 0 && h != o.only {
			continue
		}
		r := rng(o.seed, h)
		w, err := newDBWorld(o.dir, h, kek)
		if err != nil {
			return err
		}
		w.long = h%8 == 5
		if h%4 == 2 {
			// what an interrupted save of an earlier process, a backup tool or an editor may leave
			// next to the database: long stray files under the obvious temporary names.  None of
			// them is the database; none may ever show through.
			junk := bytes.Repeat([]byte("{\"stale\":\"leftover of an interrupted save\"}\n"), 400)
			for _, suffix := range []string{".tmp", ".new", ".bak", ".prev", "~", ".old", ".1"} {
				os.WriteFile(w.path+suffix, junk, 0600)
			}
		}
		w.callers = genCallers(r, o.profile, w.long)
		emit("begin\t%d", h)
		for i, c := range w.callers {
			emit("caller\t%d\t%s\t%s", i, hx(canonPrincipal(c.Principal)), encRules(c.Permissions))
		}
		sh := &shadow{vers: map[string][]uint32{}, active: map[string]uint32{}, latest: map[string]uint32{}, gone: map[string][]uint32{}, last: map[string][]byte{}}
		var retry *dbOp
		var twin *dbWorld
		prevOp := "nothing"
		for s := 0; s < o.steps; s++ {
			op := w.genOp(r, sh, o.profile)
			if retry != nil {
				op = *retry
				op.sok = true
				retry = nil
			} else if !op.sok && r.Intn(2) == 0 {
				cp := op
				retry = &cp
			}
			note("hist=%d step=%d: %s of %q (version argument %d) by caller %d, after %s", h, s, op.kind, op.name, op.ver, op.caller, prevOp)
			prevOp = fmt.Sprintf("%s of %q (version argument %d) by caller %d", op.kind, op.name, op.ver, op.caller)
			w.sk.mu.Lock()
			writesBefore := w.sk.writes
			w.sk.mu.Unlock()
			res := w.exec(op)
			if w.hung {
				emit("step\tc=%d\top=%s\tn=%s\tv=%d\tval=%s\taok=%s\tsok=%s\tres=%s", op.caller, op.kind, hx(op.name), op.ver, hb(op.val), b01(op.aok == 1), b01(op.sok), res)
				break
			}
			twinRes := ""
			if twin != nil {
				if op.aok == 1 && op.sok {
					twinRes = twin.exec(op)
				} else {
					twin.close()
					twin = nil
				}
			}
			if !op.sok && op.aok == 1 {
				twin = newTwin(w, o.dir, h)
			}
			// at the moment the call returned: was the record it wrote (if any) covered by a completed Sync?
			w.sk.mu.Lock()
			syncedAtReturn := b01(op.aok != 1 || w.sk.writes == writesBefore || (w.sk.syncing == 0 && w.sk.synced >= w.sk.writes))
			w.sk.mu.Unlock()
			ent, pre, err := w.entries()
			if err != nil {
				// a malformed audit record is itself an observation
				ent, pre = "MALFORMED:"+hx(err.Error()), "-"
			}
			sh.update(op, res)
			// one history in five looks at the served state only after every third call: looking is
			// itself a sequence of List and GetVersion calls, and what they leave behind in the server
			// (a refreshed memo, say) must not be what keeps the other calls right
			mem := "UNOBS"
			if h%5 != 4 || s%3 == 2 || s == o.steps-1 {
				mem = memState(w.d, w.sk)
			}
			if op.aok == 0 {
				mem = "UNOBS" // the audit writer is dead from here on (see below); List cannot be called
			}
			disk, err := readDisk(w.path, kek)
			if err != nil {
				disk = "ERR:" + hx(err.Error())
			}
			line := fmt.Sprintf("step\tc=%d\top=%s\tn=%s\tv=%d\tval=%s\taok=%s\tsok=%s\tres=%s\tent=%s\tpre=%s\tmem=%s\tdisk=%s\tgen=%d\tsynced=%s",
				op.caller, op.kind, hx(op.name), op.ver, hb(op.val), b01(op.aok == 1), b01(op.sok), res, ent, pre, mem, disk, w.d.WriteGen(), syncedAtReturn)
			if twinRes != "" {
				line += "\ttwin=" + twinRes
			}
			if o.profile == "persist" {
				line += "\t" + w.reopenObs(kek)
				if err == nil {
					line += "\tclear=" + hb(lastClear)
				}
			}
			emit("%s", line)
			if op.aok == 1 && op.sok && retry == nil && r.Intn(10) == 0 {
				// a clean stop and restart of the server between two calls: the same file and key,
				// a new db.DB; the history goes on against it (numbers already issued stay issued,
				// whatever the new process keeps in memory must be what the old one had)
				w.sk.mu.Lock()
				w.sk.observer = true
				w.sk.mu.Unlock()
				d2, err := db.Open(w.path, kek, audit.New(w.sk))
				w.sk.mu.Lock()
				w.sk.observer = false
				w.sk.mu.Unlock()
				if err != nil {
					emit("restart\tok=0\terr=%s", hx(err.Error()))
					break
				}
				w.d = d2
				emit("restart\tok=1\tgen=%d\tmem=%s", w.d.WriteGen(), memState(w.d, w.sk))
			}
			if op.aok == 0 {
				// encoding/json's Encoder keeps a write error forever: after one failed
				// Write the audit.Writer rejects every later record without calling the
				// sink again (the server stays fail-closed until restarted).  A Write
				// failure therefore ends the history; Sync failures are transient.
				// One probe first, with the device healthy again: whatever it writes, every
				// complete line of the log must still be one whole record.
				probe := w.exec(dbOp{kind: "list", caller: 0, aok: 1, sok: true})
				if i := strings.IndexByte(probe, ':'); i > 0 {
					probe = probe[:i]
				}
				emit("auditstream\tok=%s\tprobe=%s", b01(streamOK(w.sk)), probe)
				break
			}
		}
		w.close()
		if twin != nil {
			twin.close()
		}
	}
	return nil
}

// reopenObs: copy the database file aside, check that Open does not modify it,
// observe the reopened state, then probe the version the next put allocates
// for every existing name (on the copy).
func (w *dbWorld) reopenObs(kek tink.AEAD) string {
	tmp := filepath.Join(filepath.Dir(w.dir), "reopen")
	os.RemoveAll(tmp)
	os.MkdirAll(tmp, 0700)
	defer os.RemoveAll(tmp)
	p2 := filepath.Join(tmp, "setec.db")
	bs, err := os.ReadFile(w.path)
	if err != nil {
		return "reopen=ERR:" + hx(err.Error())
	}
	// a copy restored by hand may have any mode: Open must not touch it either way
	reopenCount++
	os.WriteFile(p2, bs, []os.FileMode{0600, 0644, 0640, 0400}[reopenCount%4])
	os.Chmod(p2, []os.FileMode{0600, 0644, 0640, 0400}[reopenCount%4])
	sk := &sink{dbPath: p2, observer: true}
	d2, err := db.Open(p2, kek, audit.New(sk))
	if err != nil {
		return "reopen=ERR:" + hx(err.Error())
	}
	after, _ := os.ReadFile(p2)
	pure := b01(bytes.Equal(bs, after))
	st := memState(d2, sk)
	su := superuser()
	infos, _ := d2.List(su)
	var next []string
	for _, in := range infos {
		v, err := d2.Put(su, in.Name, []byte("\x01probe-"+in.Name+"\x02"))
		if err != nil {
			next = append(next, hx(in.Name)+":ERR")
			continue
		}
		next = append(next, fmt.Sprintf("%s:%d", hx(in.Name), v))
	}
	return fmt.Sprintf("reopen=%s\tnext=%s\topenpure=%s", st, strings.Join(next, ","), pure)
}


// nearDup returns a value that differs from v in exactly one small way.
func nearDup(r *rand.Rand, v []byte) []byte {
	out := append([]byte(nil), v...)
	var letters, high []int
	for i, b := range out {
		if (b >= 'a' && b <= 'z') || (b >= 'A' && b <= 'Z') {
			letters = append(letters, i)
		}
		if b >= 0x80 {
			high = append(high, i)
		}
	}
	switch x := r.Intn(5); {
	case x == 0 && len(letters) > 0:
		out[letters[r.Intn(len(letters))]] ^= 0x20
	case x == 1 && len(high) > 0:
		i := high[r.Intn(len(high))]
		out[i] = 0x80 + (out[i]-0x80+1+byte(r.Intn(126)))%0x80
	case x == 2 && len(out) > 0:
		out[r.Intn(len(out))] ^= 1 << uint(r.Intn(8))
	case x == 3 && len(out) > 0:
		out = out[:len(out)-1]
	default:
		out = append(out, byte(r.Intn(256)))
	}
	return out
}


// streamOK: every newline-terminated line of the log is one JSON object with the mandatory fields.
func streamOK(sk *sink) bool {
	sk.mu.Lock()
	defer sk.mu.Unlock()
	lines := bytes.Split(sk.stream, []byte("\n"))
	for _, ln := range lines[:len(lines)-1] { // the last piece is unterminated (possibly a fragment)
		var e map[string]any
		if json.Unmarshal(ln, &e) != nil || e["principal"] == nil || e["action"] == nil || e["id"] == nil {
			return false
		}
	}
	return true
}
