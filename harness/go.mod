module verif/harness

go 1.26.8

require (
	github.com/tailscale/setec v0.0.0
	github.com/tink-crypto/tink-go/v2 v2.1.0
)

require (
	github.com/go-json-experiment/json v0.0.0-20250223041408-d3c622f1b874 // indirect
	go4.org/mem v0.0.0-20240501181205-ae6ca9944745 // indirect
	golang.org/x/crypto v0.35.0 // indirect
	golang.org/x/net v0.35.0 // indirect
	golang.org/x/sync v0.12.0 // indirect
	golang.org/x/sys v0.31.0 // indirect
	google.golang.org/protobuf v1.35.1 // indirect
	tailscale.com v1.81.0-pre.0.20250303195457-5449aba94c51 // indirect
)

replace github.com/tailscale/setec => /repo
