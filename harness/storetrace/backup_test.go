package storetrace

import (
	"bytes"
	"context"
	"crypto/sha256"
	"fmt"
	"io"
	"net/http"
	"os"
	"path/filepath"
	"strings"
	"sync"
	"testing"
	"testing/synctest"
	"time"

	"github.com/aws/aws-sdk-go-v2/aws"
	"github.com/aws/aws-sdk-go-v2/credentials"
	"github.com/aws/aws-sdk-go-v2/service/s3"
	"github.com/tailscale/setec/acl"
	"github.com/tailscale/setec/audit"
	"github.com/tailscale/setec/db"
	"github.com/tailscale/setec/server"
	"github.com/tink-crypto/tink-go/v2/aead"
	"github.com/tink-crypto/tink-go/v2/keyset"
)

type upload struct {
	at   time.Duration
	key  string
	body []byte
	ok   bool
}

// fakeS3 is the HTTPClient of a real s3.Client: it records every PutObject and answers by script.
type fakeS3 struct {
	mu      sync.Mutex
	t0      time.Time
	script  []string // ok | fail, per request; default ok
	latency time.Duration
	lat2    time.Duration // every second upload takes this long instead (0 = all uploads alike)
	// occupied: an object already exists under the key of the first upload (left by an earlier run
	// in the same second); a conditional write (If-None-Match: *) to it is refused with 412
	occupied bool
	ups     []upload
	onReq   func(n int) // called before answering the n-th request (1-based)
	scanDir string      // the database's directory, looked at during every upload
	exposed []string    // files seen there other than the database, or readable by group or others
}

func (f *fakeS3) Do(req *http.Request) (*http.Response, error) {
	body, _ := io.ReadAll(req.Body)
	if strings.Contains(req.Header.Get("Content-Encoding"), "aws-chunked") {
		body = dechunk(body)
	}
	f.mu.Lock()
	at := time.Since(f.t0)
	n := len(f.ups) + 1
	outcome := "ok"
	if len(f.script) > 0 {
		outcome = f.script[0]
		f.script = f.script[1:]
	}
	lat := f.latency
	if f.lat2 > 0 && n%2 == 0 {
		lat = f.lat2
	}
	hook := f.onReq
	f.ups = append(f.ups, upload{at: at, key: req.URL.Path, body: body, ok: outcome == "ok"})
	f.mu.Unlock()
	if f.scanDir != "" {
		// while an upload is under way: what lies in the database's directory, and who may read it
		if ents, err := os.ReadDir(f.scanDir); err == nil {
			for _, e := range ents {
				if fi, err := e.Info(); err == nil && !fi.IsDir() && !strings.HasPrefix(e.Name(), "restore-") {
					if fi.Mode().Perm()&0o077 != 0 || e.Name() != "setec.db" {
						f.mu.Lock()
						f.exposed = append(f.exposed, fmt.Sprintf("%s:%o", e.Name(), fi.Mode().Perm()))
						f.mu.Unlock()
					}
				}
			}
		}
	}
	if hook != nil {
		hook(n)
	}
	if f.occupied && n == 1 && req.Header.Get("If-None-Match") == "*" {
		f.mu.Lock()
		f.ups[n-1].ok = false // nothing was stored
		f.mu.Unlock()
		return &http.Response{StatusCode: 412, Status: "412 Precondition Failed", Header: http.Header{"Content-Type": {"application/xml"}},
			Body: io.NopCloser(strings.NewReader(`<?xml version="1.0" encoding="UTF-8"?><Error><Code>PreconditionFailed</Code><Message>exists</Message></Error>`)), Request: req, ProtoMajor: 1, ProtoMinor: 1}, nil
	}
	if outcome == "stall" {
		// the endpoint accepts the request and never answers: only the caller's own time limit ends it
		<-req.Context().Done()
		f.mu.Lock()
		f.ups[n-1].ok = false
		f.mu.Unlock()
		return nil, req.Context().Err()
	}
	if lat > 0 {
		select {
		case <-time.After(lat):
		case <-req.Context().Done():
			f.mu.Lock()
			f.ups[n-1].ok = false // cut short by cancellation: the upload did not complete
			f.mu.Unlock()
			return nil, req.Context().Err()
		}
	}
	status := 200
	rb := ""
	if outcome != "ok" {
		// a failed upload is a failed upload, whatever the endpoint calls it: an internal error, a
		// credential that had expired for a moment, a policy being edited
		switch n % 3 {
		case 0:
			status = 500
			rb = `<?xml version="1.0" encoding="UTF-8"?><Error><Code>InternalError</Code><Message>injected</Message></Error>`
		case 1:
			status = 403
			rb = `<?xml version="1.0" encoding="UTF-8"?><Error><Code>AccessDenied</Code><Message>injected</Message></Error>`
		default:
			status = 400
			rb = `<?xml version="1.0" encoding="UTF-8"?><Error><Code>ExpiredToken</Code><Message>injected</Message></Error>`
		}
	}
	return &http.Response{StatusCode: status, Status: fmt.Sprint(status), Header: http.Header{"Content-Type": {"application/xml"}, "Etag": {`"x"`}},
		Body: io.NopCloser(strings.NewReader(rb)), Request: req, ProtoMajor: 1, ProtoMinor: 1}, nil
}

// dechunk decodes the aws-chunked framing (hex-size[;ext]\r\n data \r\n ... 0\r\n trailers).
func dechunk(b []byte) []byte {
	var out []byte
	for len(b) > 0 {
		i := bytes.Index(b, []byte("\r\n"))
		if i < 0 {
			break
		}
		head := string(b[:i])
		if j := strings.Index(head, ";"); j >= 0 {
			head = head[:j]
		}
		var n int
		if _, err := fmt.Sscanf(head, "%x", &n); err != nil || n == 0 {
			break
		}
		b = b[i+2:]
		if n > len(b) {
			n = len(b)
		}
		out = append(out, b[:n]...)
		b = b[n:]
		b = bytes.TrimPrefix(b, []byte("\r\n"))
	}
	return out
}

func h12(b []byte) string {
	h := sha256.Sum256(b)
	return hb(h[:6])
}

func suCaller() db.Caller {
	return db.Caller{Permissions: acl.Rules{{Action: []acl.Action{acl.ActionGet, acl.ActionInfo, acl.ActionPut, acl.ActionActivate, acl.ActionDelete}, Secret: []acl.Secret{"*"}}}}
}

// traceBackup: the periodic backup task under virtual time.
//
//	backup writes=<ms,...> script=<ok|fail,...> latency=<ms> race=<n|-> cancel=<ms>
//	       ups=<ms/hash/ok|fail/opens;...> files=<ms/hash;...> exit=<ms|-> spins=<0|1> final=<hash>
func traceBackup(t *testing.T, o opts) {
	for h := 0; h < o.n; h++ {
		if o.only >= 0 && h != o.only {
			continue
		}
		r := rng(o.seed, h)
		// a timeline of writes: bursts and idle stretches (ms)
		var writes []int64
		tcur := int64(0)
		for i := 0; i < r.Intn(6); i++ {
			tcur += pick(r, []int64{137, 1013, 30011, 59003, 61007, 130013, 400009})
			writes = append(writes, tcur)
			if r.Intn(3) == 0 { // burst
				for j := 0; j < 1+r.Intn(3); j++ {
					tcur += 7
					writes = append(writes, tcur)
				}
			}
		}
		var script []string
		for i := 0; i < r.Intn(5); i++ {
			script = append(script, pick(r, []string{"ok", "ok", "ok", "fail", "fail", "stall"}))
		}
		latency := pick(r, []int64{0, 0, 250, 5003, 90011})
		lat2 := int64(0)
		if latency == 90011 && r.Intn(2) == 0 {
			lat2 = 1009 // a slow upload followed by a quick one: the pause after it is a full period all the same
		}
		race := -1
		if r.Intn(3) == 0 {
			race = 1 + r.Intn(3)
		}
		cancel := tcur + pick(r, []int64{503, 45011, 125003, 245017, 600011})
		if r.Intn(4) == 0 {
			// the racing write is the last one, followed by a long quiet stretch: it must still be backed up
			var early []int64
			for _, w := range writes {
				if w < 50000 {
					early = append(early, w)
				}
			}
			writes = early
			race = 1
			if len(writes) > 0 {
				race = 2
			}
			cancel = pick(r, []int64{245017, 600011, 1200007})
		}
		offset := []int64{0, 17003, 45000, 59500, 30000, 1}[h%6]
		emit("begin\t%d", h)
		dir := filepath.Join(o.dir, fmt.Sprintf("b%d", h))
		os.MkdirAll(dir, 0700)
		kh, _ := keyset.NewHandle(aead.AES256GCMKeyTemplate())
		kek, _ := aead.New(kh)
		path := filepath.Join(dir, "setec.db")
		// a third of the servers start on a database that an earlier run created and wrote to
		reopened := r.Intn(3) == 0
		if reopened {
			if d0, err := db.Open(path, kek, audit.New(io.Discard)); err == nil {
				d0.Put(suCaller(), "earlier", []byte("written by the previous run"))
			}
		}
		done := make(chan string, 1)
		wl := make([]string, len(writes))
		for i, w := range writes {
			wl[i] = fmt.Sprint(w)
		}
		head := fmt.Sprintf("backup\treopened=%s\twrites=%s\tscript=%s\tlatency=%d\tlat2=%d\trace=%d\tcancel=%d\toffset=%d", b01(reopened), strings.Join(wl, ","), strings.Join(script, ","), latency, lat2, race, cancel, offset)
		go func() {
			res := ""
			synctest.Test(t, func(t *testing.T) {
				kdb, err := db.Open(path, kek, audit.New(io.Discard))
				if err != nil {
					t.Fatal(err)
				}
				// the server does not start on a minute boundary of the wall clock (the bubble's clock
				// starts at midnight sharp)
				time.Sleep(time.Duration(offset) * time.Millisecond)
				fs3 := &fakeS3{t0: time.Now(), script: append([]string(nil), script...), latency: time.Duration(latency) * time.Millisecond, lat2: time.Duration(lat2) * time.Millisecond, occupied: h%4 == 1, scanDir: dir}
				client := s3.New(s3.Options{Region: "us-east-1", HTTPClient: fs3,
					Credentials:  credentials.NewStaticCredentialsProvider("AK", "SK", ""),
					BaseEndpoint: aws.String("http://s3.invalid"), UsePathStyle: true, RetryMaxAttempts: 1})
				t0 := fs3.t0
				type fsnap struct {
					at   int64
					hash string
				}
				var files []fsnap
				var fmu sync.Mutex
				snapFile := func() {
					bs, _ := os.ReadFile(path)
					fmu.Lock()
					files = append(files, fsnap{time.Since(t0).Milliseconds(), h12(bs)})
					fmu.Unlock()
				}
				snapFile()
				su := suCaller()
				nput := 0
				put := func() {
					nput++
					switch nput % 3 {
					case 1:
						// the file grows by several KiB ...
						kdb.Put(su, "big", bytes.Repeat([]byte(fmt.Sprintf("bulk-%d-", nput)), 600))
					case 2:
						// ... and shrinks again: a backup taken now is shorter than the one before it
						if kdb.Delete(su, "big") != nil {
							kdb.Put(su, "k", []byte(fmt.Sprintf("value-%d", nput)))
						}
					default:
						kdb.Put(su, "k", []byte(fmt.Sprintf("value-%d", nput)))
					}
					snapFile()
				}
				if race > 0 {
					fs3.onReq = func(n int) {
						if n == race {
							put() // a write racing the upload: after the file was read, before the upload ends
						}
					}
				}
				ctx, cancelFn := context.WithCancel(context.Background())
				exited := make(chan int64, 1)
				go func() {
					server.VerifRunPeriodicBackup(ctx, kdb, client, "bucket")
					exited <- time.Since(t0).Milliseconds()
				}()
				for _, wt := range writes {
					time.Sleep(time.Until(t0.Add(time.Duration(wt) * time.Millisecond)))
					put()
				}
				time.Sleep(time.Until(t0.Add(time.Duration(cancel) * time.Millisecond)))
				cancelFn()
				exitAt := int64(-1)
				select {
				case exitAt = <-exited:
				case <-time.After(10 * time.Minute):
				}
				synctest.Wait()
				final, _ := os.ReadFile(path)
				var uparts, fparts []string
				fs3.mu.Lock()
				for i, u := range fs3.ups {
					opens := "0"
					p2 := filepath.Join(dir, fmt.Sprintf("restore-%d.db", i))
					os.WriteFile(p2, u.body, 0600)
					if d2, err := db.Open(p2, kek, audit.New(io.Discard)); err == nil {
						if _, err := d2.List(su); err == nil {
							opens = "1"
						}
					}
					os.Remove(p2)
					okS := "fail"
					if u.ok {
						okS = "ok"
					}
					uparts = append(uparts, fmt.Sprintf("%d/%s/%s/%s", u.at.Milliseconds(), h12(u.body), okS, opens))
				}
				fs3.mu.Unlock()
				for _, f := range files {
					fparts = append(fparts, fmt.Sprintf("%d/%s", f.at, f.hash))
				}
				fs3.mu.Lock()
				exposed := "-"
				if len(fs3.exposed) > 0 {
					seen := map[string]bool{}
					var xs []string
					for _, x := range fs3.exposed {
						if !seen[x] {
							seen[x] = true
							xs = append(xs, hx(x))
						}
					}
					exposed = strings.Join(xs, ",")
				}
				fs3.mu.Unlock()
				res = fmt.Sprintf("ups=%s\tfiles=%s\texit=%d\tspins=0\tfinal=%s\texposed=%s", strings.Join(uparts, ";"), strings.Join(fparts, ";"), exitAt, h12(final), exposed)
				if exitAt < 0 {
					// the task did not return: it cannot be stopped and would keep the bubble (and its
					// virtual clock) running for ever, so report this history and abandon the rest
					emit("%s\t%s", head, res)
					out.Flush()
					os.RemoveAll(dir)
					os.Exit(0)
				}
			})
			done <- res
		}()
		select {
		case res := <-done:
			emit("%s\t%s", head, res)
		case <-time.After(45 * time.Second): // real time: a busy loop freezes the virtual clock (generous: a loaded machine must not look like one)
			emit("%s\tups=\tfiles=\texit=-1\tspins=1\tfinal=-", head)
			out.Flush()
			os.RemoveAll(dir)
			os.Exit(0) // the spinning goroutine cannot be stopped; remaining histories are abandoned
		}
		os.RemoveAll(dir)
	}
}
