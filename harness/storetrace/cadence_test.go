package storetrace

import (
	"context"
	"fmt"
	"strings"
	"sync"
	"testing"
	"testing/synctest"
	"time"

	setec "github.com/tailscale/setec/client/setec"
	"github.com/tailscale/setec/types/api"
)

// tickSvc records when each poll request arrives (virtual time).
type tickSvc struct {
	mu    sync.Mutex
	t0    time.Time
	polls []time.Duration
	slow  time.Duration // how long the service takes to answer a poll request
}

func (s *tickSvc) Get(ctx context.Context, name string) (*api.SecretValue, error) {
	return &api.SecretValue{Version: 1, Value: []byte("v")}, nil
}

func (s *tickSvc) GetIfChanged(ctx context.Context, name string, old api.SecretVersion) (*api.SecretValue, error) {
	s.mu.Lock()
	s.polls = append(s.polls, time.Since(s.t0))
	s.mu.Unlock()
	if s.slow > 0 {
		// a slow peer: the round of requests takes a fifth of the interval; the polls still come
		// once per interval
		select {
		case <-time.After(s.slow):
		case <-ctx.Done():
			return nil, ctx.Err()
		}
	}
	return nil, api.ErrValueNotChanged
}

// traceCadence: stores with the real ticker under virtual time, one declared secret, a poll
// interval from seconds to hours (also intervals that are not a whole number of seconds, or
// whose tenth is not): when do the first background polls arrive?
//
//	cadence interval=<ns> polls=<ns,ns,ns>     (times since construction returned)
//
// The jitter is drawn by the code under test from the global source, so one interval is tried
// with many stores; every draw must respect the bounds.
func traceCadence(t *testing.T, o opts) {
	intervals := []time.Duration{5 * time.Second, 15 * time.Second, 45 * time.Second, 7 * time.Second, 59 * time.Second,
		time.Minute, 90 * time.Second, time.Hour, 250 * time.Millisecond, 1999 * time.Millisecond, 10 * time.Second,
		37*time.Minute + 5*time.Second, 6 * time.Second, 19 * time.Second, 50 * time.Millisecond, 24 * time.Hour}
	for h := 0; h < o.n; h++ {
		if o.only >= 0 && h != o.only {
			continue
		}
		iv := intervals[(h+int(o.seed))%len(intervals)]
		synctest.Test(t, func(t *testing.T) {
			svc := &tickSvc{}
			if (h/len(intervals))%2 == 1 {
				svc.slow = iv / 5
			}
			st, err := setec.NewStore(context.Background(), setec.StoreConfig{Client: svc, Secrets: []string{"a"}, PollInterval: iv, Logf: func(string, ...any) {}})
			if err != nil {
				t.Fatal(err)
			}
			svc.mu.Lock()
			svc.t0 = time.Now()
			svc.mu.Unlock()
			time.Sleep(3*iv + iv/2)
			svc.mu.Lock()
			var ps []string
			for _, p := range svc.polls {
				ps = append(ps, fmt.Sprint(int64(p)))
			}
			svc.mu.Unlock()
			st.Close()
			emit("cadence\tinterval=%d\tslow=%d\tpolls=%s", int64(iv), int64(svc.slow), strings.Join(ps, ","))
		})
	}
}
