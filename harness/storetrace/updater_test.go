package storetrace

import (
	"bytes"
	"context"
	"errors"
	"fmt"
	"sort"
	"strings"
	"sync"
	"testing"

	setec "github.com/tailscale/setec/client/setec"
)

// uval is what the builder makes from a secret's bytes; it counts its Close calls.
type uval struct {
	upd  int
	id   int
	src  []byte
	book *closeBook
}

type closeBook struct {
	mu     sync.Mutex
	closes map[string]int // "upd/id" -> count
}

func (v *uval) Close() error {
	v.book.mu.Lock()
	defer v.book.mu.Unlock()
	v.book.closes[fmt.Sprintf("%d/%d", v.upd, v.id)]++
	return nil
}

// traceUpdater: installs, Gets, builder failures, several updaters, updaters created mid-poll.
//
//	newupd u=<i> ok=<0|1> src=<hex>
//	install ver= val=<hex> bad=<0|1> res=
//	get u=<i> src=<hex> id= err=<0|1> builds= closes=<id:count,...>
func traceUpdater(t *testing.T, o opts) {
	for h := 0; h < o.n; h++ {
		if o.only >= 0 && h != o.only {
			continue
		}
		r := rng(o.seed, h)
		emit("begin\t%d", h)
		sv := newSvc()
		sv.set("w", 1, []byte("v1"))
		// a cache whose writes fail now and then: installing and announcing a new version does not
		// depend on it
		rc := &recCache{}
		st, err := setec.NewStore(context.Background(), setec.StoreConfig{Client: sv, Secrets: []string{"w"}, Cache: rc, PollInterval: -1, Logf: func(string, ...any) {}})
		if err != nil {
			t.Fatal(err)
		}
		book := &closeBook{closes: map[string]int{}}
		type upd struct {
			u      *setec.Updater[*uval]
			builds int
			nextID int
			// the next rebuild installs one more version while it is building (and says which)
			midNext bool
			midVal  string
		}
		type verVal struct {
			ver uint32
			val []byte
		}
		past := []verVal{{1, []byte("v1")}}
		curVer := uint32(1)
		var upds []*upd
		ver := uint32(1)
		lastBad := false
		inPoll := false // set while newUpd runs inside a poll (a Refresh from there would wait for that very poll)
		var newUpd func()
		newUpd = func() {
			i := len(upds)
			ud := &upd{}
			// now and then a new version is installed while the initial value is being built
			midInstall := !lastBad && !inPoll && r.Intn(5) == 0
			midVal := ""
			u, err := setec.NewUpdater(context.Background(), st, "w", func(b []byte) (*uval, error) {
				ud.builds++
				if ud.midNext && ud.builds > 1 {
					ud.midNext = false
					ver++
					val := []byte(fmt.Sprintf("v%d", ver))
					past = append(past, verVal{ver, val})
					sv.set("w", ver, val)
					curVer = ver
					st.Refresh(context.Background())
					ud.midVal = hb(val)
					lastBad = false
				}
				if midInstall && ud.builds == 1 {
					ver++
					val := []byte(fmt.Sprintf("v%d", ver))
					past = append(past, verVal{ver, val})
					sv.set("w", ver, val)
					curVer = ver
					st.Refresh(context.Background())
					midVal = hb(val)
				}
				if bytes.HasPrefix(b, []byte("bad")) {
					return nil, errors.New("builder rejects")
				}
				ud.nextID++
				return &uval{upd: i, id: ud.nextID, src: bytes.Clone(b), book: book}, nil
			})
			ud.u = u
			upds = append(upds, ud)
			src := ""
			if err == nil {
				src = hb(u.Get().src)
			}
			mi := ""
			if midVal != "" {
				mi = "\tmidinstall=" + midVal
			}
			emit("newupd\tu=%d\tok=%s\tsrc=%s%s", i, b01(err == nil), src, mi)
		}
		newUpd()
		for s := 0; s < o.steps; s++ {
			switch x := r.Intn(10); {
			case x < 4: // install
				ver++
				bad := r.Intn(5) == 0
				val := []byte(fmt.Sprintf("v%d", ver))
				if bad {
					val = []byte(fmt.Sprintf("bad%d", ver))
				}
				setVer := ver
				var olds []verVal
				for _, pv := range past {
					if pv.ver != curVer {
						olds = append(olds, pv)
					}
				}
				if len(olds) > 0 && r.Intn(5) == 0 {
					// the operator activates an earlier version again: an install like any other
					ver--
					old := olds[r.Intn(len(olds))]
					setVer, val, bad = old.ver, old.val, bytes.HasPrefix(old.val, []byte("bad"))
				} else {
					past = append(past, verVal{ver, val})
				}
				sv.set("w", setVer, val)
				curVer = setVer
				lastBad = bad
				cacheFails := r.Intn(4) == 0
				rc.mu.Lock()
				rc.writeFail = cacheFails
				rc.mu.Unlock()
				mid := false
				if len(upds) < 4 && r.Intn(6) == 0 {
					// an updater created while the poll is in flight: after the fetch, before the apply
					mid = true
					sv.mu.Lock()
					sv.hook = func(string, string, int) { inPoll = true; newUpd(); inPoll = false }
					sv.mu.Unlock()
				}
				err := st.Refresh(context.Background())
				sv.mu.Lock()
				sv.hook = nil
				sv.mu.Unlock()
				rc.mu.Lock()
				rc.writeFail = false
				rc.mu.Unlock()
				// the scripted service never fails here: an error can only be the cache write's, and
				// the version is installed (and announced) all the same
				emit("install\tver=%d\tval=%s\tbad=%s\tmid=%s\tres=%s\tcachefail=%s", setVer, hb(val), b01(bad), b01(mid), b01(err == nil || cacheFails), b01(cacheFails))
			case x < 9: // Get
				i := r.Intn(len(upds))
				ud := upds[i]
				if ud.u == nil {
					continue
				}
				ud.midNext, ud.midVal = r.Intn(6) == 0, ""
				v := ud.u.Get()
				ud.midNext = false
				var cl []string
				book.mu.Lock()
				for k, c := range book.closes {
					if strings.HasPrefix(k, fmt.Sprintf("%d/", i)) {
						cl = append(cl, fmt.Sprintf("%s:%d", strings.TrimPrefix(k, fmt.Sprintf("%d/", i)), c))
					}
				}
				book.mu.Unlock()
				sort.Strings(cl)
				mi := ""
				if ud.midVal != "" {
					mi = "\tmidinstall=" + ud.midVal
				}
				emit("get\tu=%d\tsrc=%s\tid=%d\terr=%s\tbuilds=%d\tclosed_self=%s\tcloses=%s%s", i, hb(v.src), v.id, b01(ud.u.Err() != nil), ud.builds,
					b01(book.closes[fmt.Sprintf("%d/%d", i, v.id)] > 0), strings.Join(cl, ","), mi)
			default:
				if len(upds) < 4 {
					newUpd()
				}
			}
		}
		st.Close()
		mixedUpdater(h)
	}
}

// mixedVal: an Updater's T may be an interface type whose values are of different dynamic
// types - some of them io.Closers, some not.
type mixedVal interface{ Src() string }

type plainV struct{ src string }

func (p plainV) Src() string { return p.src }

type closerV struct {
	src    string
	closed *int
}

func (c *closerV) Src() string  { return c.src }
func (c *closerV) Close() error { *c.closed++; return nil }

// mixedUpdater: five installs; the builder alternates between a value that is an io.Closer and
// one that is not (which comes first depends on the history).  After every install the Get
// yields a value built from the newest bytes and does not panic; in the end every replaced
// closer has been closed exactly once and the current value is open.
//
//	mixedupd first=<closer|plain> stale= panics= unclosed= multiclosed= curclosed=
func mixedUpdater(h int) {
	sv := newSvc()
	sv.set("m", 1, []byte("m1"))
	st, err := setec.NewStore(context.Background(), setec.StoreConfig{Client: sv, Secrets: []string{"m"}, PollInterval: -1, Logf: func(string, ...any) {}})
	if err != nil {
		return
	}
	defer st.Close()
	closerFirst := h%2 == 0
	var made []*closerV
	k := 0
	u, err := setec.NewUpdater(context.Background(), st, "m", func(b []byte) (mixedVal, error) {
		k++
		if (k%2 == 1) == closerFirst {
			c := &closerV{src: string(b), closed: new(int)}
			made = append(made, c)
			return c, nil
		}
		return plainV{src: string(b)}, nil
	})
	if err != nil {
		return
	}
	stale, panics := 0, 0
	for ver := uint32(2); ver <= 6; ver++ {
		val := fmt.Sprintf("m%d", ver)
		sv.set("m", ver, []byte(val))
		st.Refresh(context.Background())
		func() {
			defer func() {
				if recover() != nil {
					panics++
				}
			}()
			if v := u.Get(); v == nil || v.Src() != val {
				stale++
			}
		}()
	}
	var cur mixedVal
	func() {
		defer func() { recover() }()
		cur = u.Get()
	}()
	unclosed, multi, curClosed := 0, 0, 0
	for _, c := range made {
		isCur := false
		if cc, ok := cur.(*closerV); ok && cc == c {
			isCur = true
		}
		switch {
		case isCur && *c.closed != 0:
			curClosed++
		case !isCur && *c.closed == 0:
			unclosed++
		case !isCur && *c.closed > 1:
			multi++
		}
	}
	first := "plain"
	if closerFirst {
		first = "closer"
	}
	emit("mixedupd\tfirst=%s\tstale=%d\tpanics=%d\tunclosed=%d\tmulticlosed=%d\tcurclosed=%d", first, stale, panics, unclosed, multi, curClosed)
}
