package storetrace

import (
	"encoding/json"
	"errors"
	"context"
	"fmt"
	"strconv"
	"strings"
	"sync"
	"sync/atomic"
	"testing"
	"time"

	setec "github.com/tailscale/setec/client/setec"
	"github.com/tailscale/setec/types/api"
)

// gateSvc serves values of the form "<name>#<serve index>" and can hold every request at a gate.
type gateSvc struct {
	mu      sync.Mutex
	cur     map[string]int // name -> current index (version = index)
	hold    atomic.Bool
	// readFirst: a held request has already read the value it will answer with (the reply is
	// delayed, not the read)
	readFirst atomic.Bool
	// stubborn: a held request is answered when the gate opens even if its context has ended
	// meanwhile (a reply that was already on its way)
	stubborn atomic.Bool
	gate      chan struct{}
	waiting atomic.Int32
	// conditional (poll) requests waiting at the gate at the same time: one poll asks for one
	// name at a time, so more than one means two rounds of requests are running
	condWaiting    atomic.Int32
	maxCondWaiting atomic.Int32
}

func (g *gateSvc) value(name string) *api.SecretValue {
	g.mu.Lock()
	defer g.mu.Unlock()
	i, ok := g.cur[name]
	if !ok {
		return nil
	}
	return &api.SecretValue{Version: api.SecretVersion(i), Value: []byte(fmt.Sprintf("%s#%d", name, i))}
}

func (g *gateSvc) wait(ctx context.Context) error {
	if !g.hold.Load() && ctx.Err() != nil {
		return ctx.Err() // a request made with a context that has ended fails at once, as with a real client
	}
	if g.hold.Load() {
		g.waiting.Add(1)
		defer g.waiting.Add(-1)
		if g.stubborn.Load() {
			<-g.gate
			return nil
		}
		select {
		case <-g.gate:
		case <-ctx.Done():
			return ctx.Err()
		}
	}
	return nil
}

func (g *gateSvc) Get(ctx context.Context, name string) (*api.SecretValue, error) {
	if err := g.wait(ctx); err != nil {
		return nil, err
	}
	if v := g.value(name); v != nil {
		return v, nil
	}
	return nil, api.ErrNotFound
}

func (g *gateSvc) GetIfChanged(ctx context.Context, name string, old api.SecretVersion) (*api.SecretValue, error) {
	n := g.condWaiting.Add(1)
	for {
		m := g.maxCondWaiting.Load()
		if n <= m || g.maxCondWaiting.CompareAndSwap(m, n) {
			break
		}
	}
	defer g.condWaiting.Add(-1)
	var v *api.SecretValue
	early := g.readFirst.Load()
	if early {
		v = g.value(name)
	}
	if err := g.wait(ctx); err != nil {
		return nil, err
	}
	if !early {
		v = g.value(name)
	}
	if v == nil {
		return nil, api.ErrNotFound
	}
	if v.Version == old {
		return nil, api.ErrValueNotChanged
	}
	return v, nil
}

func (g *gateSvc) bump(name string) {
	g.mu.Lock()
	g.cur[name]++
	g.mu.Unlock()
}

// hookCtx runs f the first time its deadline is asked for: LookupSecret asks between finding the
// name unknown and joining (or starting) the in-flight request for it, so f runs exactly where a
// descheduled caller would be overtaken by another caller's complete lookup.
type hookCtx struct {
	context.Context
	once sync.Once
	f    func()
}

func (c *hookCtx) Deadline() (time.Time, bool) {
	c.once.Do(c.f)
	return c.Context.Deadline()
}

// traceConcStore: reader goroutines on handles while polls, lookups, expiry sweeps and Close
// run; the service is held blocked while readers must keep completing reads.
//
//	concstore readers= reads= bad= wrongname= nonmono= windows= stalled= panics= afterclose= dropped_pinned=
func traceConcStore(t *testing.T, o opts) {
	for h := 0; h < o.n; h++ {
		if o.only >= 0 && h != o.only {
			continue
		}
		r := rng(o.seed, h)
		note("concstore history %d (seed %d): readers on handles and an updater while polls, lookups of fresh names, an abandoned refresh and Close run against a service that holds its answers", h, o.seed)
		// "poll" is an ordinary secret name too (it must not collide with anything internal)
		g := &gateSvc{cur: map[string]int{"a": 1, "b": 1, "c": 1, "d": 1, "e": 1, "poll": 1}, gate: make(chan struct{})}
		var clock atomic.Int64
		clock.Store(1_700_000_000)
		tick := newFakeTicker()
		sc := &slowCache{}
		st, err := setec.NewStore(context.Background(), setec.StoreConfig{Client: g, Secrets: []string{"a", "b"}, AllowLookup: true,
			Cache: sc, ExpiryAge: 10 * time.Second, PollTicker: tick, Logf: func(string, ...any) {},
			TimeNow: func() time.Time { return time.Unix(clock.Load(), 0) }})
		if err != nil {
			t.Fatal(err)
		}
		// a second store in the same process, with a service of its own that is never held and
		// serves other versions (1000 and up) of the same names: whatever the first store is
		// waiting for, this one's refreshes and lookups are answered by its own service
		g2 := &gateSvc{cur: map[string]int{"a": 1000, "b": 1000}, gate: make(chan struct{})}
		st2, err2 := setec.NewStore(context.Background(), setec.StoreConfig{Client: g2, Secrets: []string{"a"}, AllowLookup: true,
			PollInterval: -1, Logf: func(string, ...any) {}})
		byRefreshBad, byLookupBad := 0, 0
		if err2 != nil {
			byRefreshBad++
		}
		handles := map[string]setec.Secret{"a": st.Secret("a"), "b": st.Secret("b")}
		if hc, err := st.LookupSecret(context.Background(), "c"); err == nil {
			handles["c"] = hc
		}
		// "e": caller B finds it unknown, is overtaken by caller A's complete lookup, and only
		// then starts its own request (a second flight for a name that is by now known)
		var hA setec.Secret
		hB, errB := st.LookupSecret(&hookCtx{Context: context.Background(), f: func() {
			hA, _ = st.LookupSecret(context.Background(), "e")
		}}, "e")
		lateFlight := 0
		if errB != nil || hA == nil || hB == nil {
			lateFlight = 1
		} else {
			handles["e"] = hA
			handles["e'"] = hB
		}
		// a read through either of the two handles refreshes the access time of the entry the store
		// holds for the name (the one its cache writes and its expiry rule look at)
		lateStampBad := 0
		if lateFlight == 0 {
			stampOf := func() int64 {
				for _, e := range setec.VerifSnapshot(st) {
					if e.Name == "e" {
						return e.LastAccess
					}
				}
				return -1
			}
			for _, hd := range []setec.Secret{hA, hB} {
				now := clock.Add(7)
				func() {
					defer func() { recover() }()
					hd.Get()
				}()
				if stampOf() != now {
					lateStampBad++
				}
			}
		}
		// an updater on the late-flight name: it must keep following installs like any other
		type builtE struct{ idx int }
		updE, errE := setec.NewUpdater(context.Background(), st, "e", func(b []byte) (*builtE, error) {
			_, idx, _ := strings.Cut(string(b), "#")
			i, err := strconv.Atoi(idx)
			return &builtE{idx: i}, err
		})
		// an updater on "a", read concurrently by every reader (C15 under the race detector)
		type built struct{ idx int }
		var ubad, unonmono atomic.Int64
		upd, err := setec.NewUpdater(context.Background(), st, "a", func(b []byte) (*built, error) {
			nm, idx, _ := strings.Cut(string(b), "#")
			i, err := strconv.Atoi(idx)
			if nm != "a" || err != nil {
				return nil, fmt.Errorf("bad bytes %q", b)
			}
			return &built{idx: i}, nil
		})
		if err != nil {
			t.Fatal(err)
		}
		var hmu sync.RWMutex
		nreaders := 3 + r.Intn(3)
		var reads, bad, wrong, nonmono, panics, lookupFail, lookupPanics atomic.Int64
		stop := make(chan struct{})
		var wg sync.WaitGroup
		counters := make([]atomic.Int64, nreaders)
		for ri := 0; ri < nreaders; ri++ {
			wg.Add(1)
			go func() {
				defer wg.Done()
				last := map[string]int{}
				lastU := 0
				names := []string{"a", "b", "c", "d", "poll", "e", "e'"}
				for k := 0; ; k++ {
					select {
					case <-stop:
						return
					default:
					}
					if k%7 == 0 {
						bv := upd.Get()
						g.mu.Lock()
						curA := g.cur["a"]
						g.mu.Unlock()
						if bv == nil || bv.idx < 1 || bv.idx > curA {
							ubad.Add(1)
						} else if bv.idx < lastU {
							unonmono.Add(1)
						} else {
							lastU = bv.idx
						}
					}
					n := names[(k+ri)%len(names)]
					hmu.RLock()
					hd := handles[n]
					hmu.RUnlock()
					if hd == nil {
						continue
					}
					func() {
						defer func() {
							if p := recover(); p != nil {
								panics.Add(1)
							}
						}()
						v := string(hd.Get())
						reads.Add(1)
						counters[ri].Add(1)
						nm, idx, ok := strings.Cut(v, "#")
						i, err := strconv.Atoi(idx)
						n := strings.TrimSuffix(n, "'")
						g.mu.Lock()
						curI := g.cur[n]
						g.mu.Unlock()
						switch {
						case !ok || err != nil || i < 1 || i > curI:
							bad.Add(1) // torn, empty or never-served value
						case nm != n:
							wrong.Add(1) // another secret's value
						case i < last[n]:
							nonmono.Add(1)
						default:
							last[n] = i
						}
					}()
				}
			}()
		}
		// what a caller sees right after its Refresh returned successfully is a floor for every
		// later read (a completed poll is never undone by an older one finishing late)
		var floorMu sync.Mutex
		floor := map[string]int{}
		belowFloor := 0
		readIdx := func(n string) int {
			hmu.RLock()
			hd := handles[n]
			hmu.RUnlock()
			if hd == nil {
				return -1
			}
			idx := -1
			func() {
				defer func() { recover() }()
				_, s, _ := strings.Cut(string(hd.Get()), "#")
				idx, _ = strconv.Atoi(s)
			}()
			return idx
		}
		refreshAndRecord := func() {
			if st.Refresh(context.Background()) != nil {
				return
			}
			for _, n := range []string{"a", "b", "c", "d", "e"} {
				if i := readIdx(n); i >= 0 {
					floorMu.Lock()
					if i > floor[n] {
						floor[n] = i
					}
					floorMu.Unlock()
				}
			}
		}
		cacheBehind := 0
		windows, stalled := 0, 0
		rounds := 6 + r.Intn(6)
		for round := 0; round < rounds; round++ {
			for _, n := range []string{"a", "b", "c", "d", "e"} {
				if r.Intn(2) == 0 {
					g.bump(n)
				}
			}
			if r.Intn(3) == 0 {
				clock.Add(int64(pick(r, []int{1, 11, 100}))) // may make undeclared, unread names stale
			}
			// hold the service, start a poll (explicit or background) and a lookup
			g.hold.Store(true)
			done := make(chan struct{})
			// overlapping refreshes - two explicit ones and a background tick - must be coalesced
			// into one round of requests
			overlap := r.Intn(2) == 0
			abandon := r.Intn(3) == 0
			armed := make(chan struct{}) // closed once the scenario's calls are all under way
			go func() {
				defer close(done)
				var pw sync.WaitGroup
				if !abandon {
					close(armed)
				}
				if abandon {
					// a background poll is in flight and held (its first reply already read: a newer
					// version than the store has); the service moves on; a caller joins the poll and
					// gives up; the callers after it must still share the one round of requests -
					// a second round could finish first and then be overwritten by the older one
					for _, n := range []string{"a", "b", "c", "d", "e"} {
						g.bump(n)
					}
					g.readFirst.Store(true)
					pw.Add(1)
					go func() { defer pw.Done(); tick.Poll() }()
					for lim := time.Now().Add(5 * time.Second); g.waiting.Load() == 0 && time.Now().Before(lim); {
						time.Sleep(time.Millisecond)
					}
					for _, n := range []string{"a", "b", "c", "d", "e"} {
						g.bump(n)
					}
					cx, cancel := context.WithTimeout(context.Background(), 5*time.Millisecond)
					st.Refresh(cx)
					cancel()
					for i := 0; i < 2; i++ {
						pw.Add(1)
						go func() { defer pw.Done(); refreshAndRecord() }()
					}
					// give a second round (there must be none) the time to reach the gate
					for lim := time.Now().Add(50 * time.Millisecond); g.condWaiting.Load() < 2 && time.Now().Before(lim); {
						time.Sleep(time.Millisecond)
					}
					close(armed)
				} else if overlap {
					for i := 0; i < 2; i++ {
						pw.Add(1)
						go func() { defer pw.Done(); st.Refresh(context.Background()) }()
					}
					pw.Add(1)
					go func() { defer pw.Done(); tick.Poll() }()
				} else if r.Intn(2) == 0 {
					st.Refresh(context.Background())
				} else {
					tick.Poll()
				}
				pw.Wait()
			}()
			// two more lookups, of names nobody has asked for yet, at the same time as each other and
			// as the poll: whatever order their cache writes land in, the last document holds both
			freshDone := make(chan struct{}, 2)
			for _, fn := range []string{fmt.Sprintf("x%d", round), fmt.Sprintf("y%d", round)} {
				g.mu.Lock()
				g.cur[fn] = 1
				g.mu.Unlock()
				go func() {
					defer func() { recover(); freshDone <- struct{}{} }()
					cx, cancel := context.WithTimeout(context.Background(), 30*time.Second)
					defer cancel()
					if hd, err := st.LookupSecret(cx, fn); err == nil && hd != nil {
						hmu.Lock()
						handles[fn] = hd
						hmu.Unlock()
					}
				}()
			}
			// ... and one more, of a name the service does not have, at the same time: it fails, and
			// its failure must not cost the successful ones their place in the cache
			nfDone := make(chan struct{})
			go func() {
				defer close(nfDone)
				defer func() { recover() }()
				cx, cancel := context.WithTimeout(context.Background(), 30*time.Second)
				defer cancel()
				st.LookupSecret(cx, fmt.Sprintf("absent%d", round))
			}()
			lookDone := make(chan struct{})
			go func() {
				defer close(lookDone)
				for _, ln := range []string{"d", "poll"} {
					func() {
						defer func() {
							if p := recover(); p != nil {
								lookupPanics.Add(1)
							}
						}()
						ctx, cancel := context.WithTimeout(context.Background(), 30*time.Second)
						defer cancel()
						hd, err := st.LookupSecret(ctx, ln)
						if err == nil && hd != nil {
							if v := string(hd.Get()); !strings.HasPrefix(v, ln+"#") {
								wrong.Add(1)
							}
							hmu.Lock()
							handles[ln] = hd
							hmu.Unlock()
						} else {
							lookupFail.Add(1)
						}
					}()
				}
			}()
			deadline := time.Now().Add(10 * time.Second)
			for g.waiting.Load() == 0 && time.Now().Before(deadline) {
				time.Sleep(time.Millisecond)
			}
			if g.waiting.Load() > 0 {
				// a request is in flight and held: every reader must still make progress
				windows++
				before := make([]int64, nreaders)
				for i := range counters {
					before[i] = counters[i].Load()
				}
				// wait until every reader has completed a few more reads; a reader that is blocked
				// behind the held request makes no progress at all, however long we wait (the
				// generous limit keeps a loaded machine from looking like a blocked reader)
				limit := time.Now().Add(10 * time.Second)
				ok := false
				for !ok && time.Now().Before(limit) {
					time.Sleep(2 * time.Millisecond)
					ok = true
					for i := range counters {
						if counters[i].Load() < before[i]+3 {
							ok = false
						}
					}
				}
				if !ok {
					stalled++
				}
				if st2 != nil && err2 == nil {
					// the bystander: a refresh and a lookup of the very name the first store is
					// looking up right now, both bounded
					g2.bump("a")
					g2.mu.Lock()
					wantA := fmt.Sprintf("a#%d", g2.cur["a"])
					fn := fmt.Sprintf("x%d", round)
					g2.cur[fn] = 500 + round
					wantX := fmt.Sprintf("%s#%d", fn, 500+round)
					g2.mu.Unlock()
					cx, cancel := context.WithTimeout(context.Background(), 15*time.Second)
					if err := st2.Refresh(cx); err != nil || string(st2.Secret("a").Get()) != wantA {
						byRefreshBad++
					}
					func() {
						defer func() {
							if recover() != nil {
								byLookupBad++
							}
						}()
						if hd, err := st2.LookupSecret(cx, fn); err != nil || hd == nil || string(hd.Get()) != wantX {
							byLookupBad++
						}
					}()
					cancel()
				}
			}
			<-armed
			g.hold.Store(false)
			g.readFirst.Store(false)
			close(g.gate)
			<-done
			<-lookDone
			<-freshDone
			<-freshDone
			<-nfDone
			// everything has settled: the cache document is the store's current state - every secret
			// with a handle is in it, at the version the handle yields
			if doc := sc.doc(); doc != nil {
				hmu.RLock()
				for n := range handles {
					base := strings.TrimSuffix(n, "'")
					if i := readIdx(base); i >= 0 && doc[base] != i {
						cacheBehind++
					}
				}
				hmu.RUnlock()
			}
			g.gate = make(chan struct{})
			time.Sleep(2 * time.Millisecond) // let a straggling older round finish
			floorMu.Lock()
			for n, f := range floor {
				if i := readIdx(n); i >= 0 && i < f {
					belowFloor++
				}
			}
			floorMu.Unlock()
		}
		cu := concUpdater(g, st) + "\t" + concRegister(g, st, "fresh-watch")
		// a round whose starter gives up: the caller that merely joined it must not be told the
		// poll succeeded unless every secret really was brought up to date
		nilButStale := 0
		{
			for _, n := range []string{"a", "b", "c", "d", "e"} {
				g.bump(n)
			}
			want := map[string]int{}
			g.mu.Lock()
			for n, i := range g.cur {
				want[n] = i
			}
			g.mu.Unlock()
			g.hold.Store(true)
			g.stubborn.Store(true) // the starter's first reply arrives although its context has ended by then
			starterDone := make(chan struct{})
			go func() {
				defer close(starterDone)
				cx, cancel := context.WithTimeout(context.Background(), 20*time.Millisecond)
				defer cancel()
				st.Refresh(cx)
			}()
			for lim := time.Now().Add(5 * time.Second); g.waiting.Load() == 0 && time.Now().Before(lim); {
				time.Sleep(time.Millisecond)
			}
			joined := make(chan error, 1)
			go func() { joined <- st.Refresh(context.Background()) }()
			time.Sleep(40 * time.Millisecond) // the starter's context has ended by now
			g.stubborn.Store(false)
			g.hold.Store(false)
			close(g.gate)
			<-starterDone
			var jerr error
			select {
			case jerr = <-joined:
			case <-time.After(10 * time.Second):
				jerr = errors.New("joined refresh did not return")
			}
			g.gate = make(chan struct{})
			if jerr == nil {
				for _, n := range []string{"a", "b", "c", "d", "e"} {
					if i := readIdx(n); i >= 0 && i < want[n] {
						nilButStale++
					}
				}
			}
		}
		// an updater for a name the service does not have: the lookup fails, the error is
		// reported, and the store goes on serving (nothing is left locked)
		lockLeak := 0
		{
			_, gerr := setec.NewUpdater(context.Background(), st, "ghost", func(b []byte) (int, error) { return len(b), nil })
			before := make([]int64, nreaders)
			for i := range counters {
				before[i] = counters[i].Load()
			}
			ok := false
			for lim := time.Now().Add(10 * time.Second); !ok && time.Now().Before(lim); {
				time.Sleep(2 * time.Millisecond)
				ok = true
				for i := range counters {
					if counters[i].Load() < before[i]+3 {
						ok = false
					}
				}
			}
			if !ok || gerr == nil {
				lockLeak = 1
			}
		}
		if lockLeak == 1 {
			// every further call on the store would block: report this history and leave its goroutines behind
			emit("concstore\treaders=%d\treads=%d\tbad=%d\twrongname=%d\tnonmono=%d\twindows=%d\tstalled=%d\tpanics=%d\tafterclose=1\tdropped_pinned=0\tupd_bad=0\tupd_nonmono=0\tlookup_fail=0\tmax_cond_waiting=%d\tlock_leak=1",
				nreaders, reads.Load(), bad.Load(), wrong.Load(), nonmono.Load(), windows, stalled, panics.Load(), g.maxCondWaiting.Load())
			continue
		}
		// quiescent: after one more successful refresh every handle - however it was obtained -
		// yields the service's current version of its secret
		staleAfter := -1
		updEStale := 0
		if err := st.Refresh(context.Background()); err == nil {
			staleAfter = 0
			if errE == nil {
				g.mu.Lock()
				curE := g.cur["e"]
				g.mu.Unlock()
				if v := updE.Get(); v == nil || v.idx != curE {
					updEStale = 1
				}
			}
			// the first read through every handle after the completed refresh, made while lookups of
			// ever new names keep the store's lock busy (each installs a value and writes the slow
			// cache under it): however busy the lock, a handle yields what the refresh installed
			stopHammer := make(chan struct{})
			var hw sync.WaitGroup
			// (lookups of ever new names keep installing values and writing the slow cache under
			// the store's lock: the lock is held for a good part of the time)
			for k := 0; k < 3; k++ {
				hw.Add(1)
				go func() {
					defer hw.Done()
					defer func() { recover() }()
					for j := 0; ; j++ {
						select {
						case <-stopHammer:
							return
						default:
						}
						nm := fmt.Sprintf("busy-%d-%d", k, j)
						g.mu.Lock()
						g.cur[nm] = 1
						g.mu.Unlock()
						cx, cancel := context.WithTimeout(context.Background(), 5*time.Second)
						st.LookupSecret(cx, nm)
						cancel()
					}
				}()
			}
			time.Sleep(2 * time.Millisecond)
			hmu.RLock()
			for n, hd := range handles {
				func() {
					defer func() { recover() }() // panics are counted by the readers
					base := strings.TrimSuffix(n, "'")
					g.mu.Lock()
					want := fmt.Sprintf("%s#%d", base, g.cur[base])
					g.mu.Unlock()
					if string(hd.Get()) != want {
						staleAfter++
					}
				}()
			}
			hmu.RUnlock()
			// a handle nobody else reads (no other reader refreshes whatever it may remember): after
			// each completed refresh its next read - made while the lock is busy - yields the new
			// version
			g.mu.Lock()
			g.cur["quiet"] = 1
			g.mu.Unlock()
			if hq, err := st.LookupSecret(context.Background(), "quiet"); err == nil && hq != nil {
				func() {
					defer func() { recover() }()
					hq.Get()
					for r := 0; r < 8; r++ {
						g.bump("quiet")
						if st.Refresh(context.Background()) != nil {
							continue
						}
						g.mu.Lock()
						want := fmt.Sprintf("quiet#%d", g.cur["quiet"])
						g.mu.Unlock()
						if string(hq.Get()) != want {
							staleAfter++
						}
					}
				}()
			}
			close(stopHammer)
			hw.Wait()
		}
		// a pinned name must still be there after all the expiry sweeps
		dropped := 0
		for n := range handles {
			if safeSecret(st, strings.TrimSuffix(n, "'")) == nil {
				dropped++
			}
		}
		st.Close()
		afterBefore := reads.Load()
		for lim := time.Now().Add(10 * time.Second); reads.Load() < afterBefore+int64(nreaders) && time.Now().Before(lim); {
			time.Sleep(time.Millisecond)
		}
		afterClose := reads.Load() - afterBefore
		close(stop)
		wg.Wait()
		if st2 != nil && err2 == nil {
			st2.Close()
		}
		emit("concstore\treaders=%d\treads=%d\tbad=%d\twrongname=%d\tnonmono=%d\twindows=%d\tstalled=%d\tpanics=%d\tafterclose=%d\tdropped_pinned=%d\tupd_bad=%d\tupd_nonmono=%d\tlookup_fail=%d\tmax_cond_waiting=%d\tstale_after_refresh=%d\tlate_flight_fail=%d\tlookup_panics=%d\tupd_e_stale=%d\tbelow_floor=%d\tnil_but_stale=%d\tcache_behind=%d\tby_refresh_bad=%d\tby_lookup_bad=%d\tlate_stamp_bad=%d\t%s",
			nreaders, reads.Load(), bad.Load(), wrong.Load(), nonmono.Load(), windows, stalled, panics.Load(), afterClose, dropped, ubad.Load(), unonmono.Load(), lookupFail.Load(), g.maxCondWaiting.Load(), staleAfter, lateFlight, lookupPanics.Load(), updEStale, belowFloor, nilButStale, cacheBehind, byRefreshBad, byLookupBad, lateStampBad, cu)
	}
}


// closeCounted is a built value that counts its Close calls.
type closeCounted struct {
	idx    int
	closed atomic.Int32
}

func (c *closeCounted) Close() error { c.closed.Add(1); return nil }

// concUpdater: Get from several goroutines while a rebuild is in progress.  The builder blocks
// while building from version 2 of "b", which holds caller A inside its rebuild; caller C then
// calls Get (after the install of version 2 completed), version 3 is installed, caller B calls
// Get, and only then is A released.
//
//	cu_stale_get=   C or B returned a value older than an install completed before its call
//	cu_final=       version the quiescent Get yields (3 expected)
//	cu_cur_closed=  the current value was closed
//	cu_multi_close= some replaced value closed more (or less) than once
func concUpdater(g *gateSvc, st *setec.Store) string {
	g.mu.Lock()
	base := g.cur["b"]
	g.mu.Unlock()
	var mu sync.Mutex
	all := map[int]*closeCounted{}
	release := make(chan struct{})
	inBuilder := make(chan struct{}, 4)
	upd, err := setec.NewUpdater(context.Background(), st, "b", func(b []byte) (*closeCounted, error) {
		_, idx, _ := strings.Cut(string(b), "#")
		i, _ := strconv.Atoi(idx)
		if i == base+1 {
			inBuilder <- struct{}{}
			<-release
		}
		c := &closeCounted{idx: i}
		mu.Lock()
		all[i] = c
		mu.Unlock()
		return c, nil
	})
	if err != nil {
		return "cu_stale_get=0\tcu_final=-1\tcu_cur_closed=0\tcu_multi_close=0"
	}
	stale := 0
	g.bump("b")
	st.Refresh(context.Background()) // installs base+1
	aDone := make(chan int, 1)
	go func() { aDone <- upd.Get().idx }()
	select {
	case <-inBuilder:
	case <-time.After(10 * time.Second):
	}
	cDone := make(chan int, 1)
	go func() { cDone <- upd.Get().idx }() // started after the install of base+1 completed
	g.bump("b")
	st.Refresh(context.Background()) // installs base+2
	bDone := make(chan int, 1)
	go func() { bDone <- upd.Get().idx }() // started after the install of base+2 completed
	time.Sleep(30 * time.Millisecond)
	close(release)
	if v := <-aDone; v < base+1 {
		stale++
	}
	if v := <-cDone; v < base+1 {
		stale++
	}
	if v := <-bDone; v < base+2 {
		stale++
	}
	final := upd.Get()
	curClosed, multi := 0, 0
	if final.closed.Load() != 0 {
		curClosed = 1
	}
	mu.Lock()
	for _, c := range all {
		if c != final && c.closed.Load() != 1 {
			multi++
		}
	}
	mu.Unlock()
	return fmt.Sprintf("cu_stale_get=%d\tcu_final=%d\tcu_cur_closed=%d\tcu_multi_close=%d", stale, final.idx-base, curClosed, multi)
}


// concRegister: three updaters are created at the same moment on a name the store has never
// heard of (each NewUpdater looks it up; the service holds the request, so all three are inside
// the lookup together).  All must succeed; after one more install and a completed refresh every
// one of them - not just the last to register - yields the new version.
//
//	cr_fail=   NewUpdater calls that failed
//	cr_stale=  updaters whose Get yields an older version after the refresh
func concRegister(g *gateSvc, st *setec.Store, name string) string {
	g.mu.Lock()
	g.cur[name] = 1
	g.mu.Unlock()
	type built struct{ idx int }
	upds := make([]*setec.Updater[*built], 3)
	var wg sync.WaitGroup
	g.hold.Store(true)
	for i := range upds {
		wg.Add(1)
		go func() {
			defer wg.Done()
			defer func() { recover() }()
			cx, cancel := context.WithTimeout(context.Background(), 20*time.Second)
			defer cancel()
			u, err := setec.NewUpdater(cx, st, name, func(b []byte) (*built, error) {
				_, idx, _ := strings.Cut(string(b), "#")
				k, err := strconv.Atoi(idx)
				return &built{idx: k}, err
			})
			if err == nil {
				upds[i] = u
			}
		}()
	}
	// let all three reach the lookup (one request is held at the gate, the others wait for it)
	for lim := time.Now().Add(5 * time.Second); g.waiting.Load() == 0 && time.Now().Before(lim); {
		time.Sleep(time.Millisecond)
	}
	time.Sleep(20 * time.Millisecond)
	g.hold.Store(false)
	close(g.gate)
	wg.Wait()
	g.gate = make(chan struct{})
	fail, stale := 0, 0
	for _, u := range upds {
		if u == nil {
			fail++
		}
	}
	g.bump(name)
	if st.Refresh(context.Background()) == nil {
		for _, u := range upds {
			if u == nil {
				continue
			}
			func() {
				defer func() {
					if recover() != nil {
						stale++
					}
				}()
				if u.Get().idx < 2 {
					stale++
				}
			}()
		}
	}
	return fmt.Sprintf("cr_fail=%d\tcr_stale=%d", fail, stale)
}

// slowCache is a synchronised in-memory cache whose writes take a little while (a slow disk):
// whoever writes outside the store's lock can be overtaken.
type slowCache struct {
	mu   sync.Mutex
	data []byte
}

func (c *slowCache) Write(d []byte) error {
	cp := append([]byte(nil), d...)
	time.Sleep(time.Duration(50+len(d)%7*40) * time.Microsecond)
	c.mu.Lock()
	c.data = cp
	c.mu.Unlock()
	return nil
}

func (c *slowCache) Read() ([]byte, error) {
	c.mu.Lock()
	defer c.mu.Unlock()
	return c.data, nil
}

// doc: name -> version index of the document last written (nil if unreadable)
func (c *slowCache) doc() map[string]int {
	c.mu.Lock()
	data := c.data
	c.mu.Unlock()
	var raw map[string]struct {
		Secret struct{ Value []byte } `json:"secret"`
	}
	if json.Unmarshal(data, &raw) != nil {
		return nil
	}
	out := map[string]int{}
	for n, e := range raw {
		_, idx, _ := strings.Cut(string(e.Secret.Value), "#")
		i, _ := strconv.Atoi(idx)
		out[n] = i
	}
	return out
}
