package storetrace

import (
	"context"
	"errors"
	"fmt"
	"strings"
	"sync"
	"sync/atomic"
	"testing"
	"testing/synctest"
	"time"

	setec "github.com/tailscale/setec/client/setec"
	"github.com/tailscale/setec/types/api"
)

// latSvc answers each request according to a script: "a<ms>" answer after ms, "f<ms>" fail
// after ms, "t<ms>" fail after ms with an error that wraps context.DeadlineExceeded, "h" hang.
// (continued:)
// after ms, "h" hang until the context ends.  It honours its context.
type latSvc struct {
	mu      sync.Mutex
	script  []string
	starts  []time.Duration
	inFlight atomic.Int32
	maxConc int32
	t0      time.Time
}

func (s *latSvc) Get(ctx context.Context, name string) (*api.SecretValue, error) {
	n := s.inFlight.Add(1)
	defer s.inFlight.Add(-1)
	s.mu.Lock()
	if n > s.maxConc {
		s.maxConc = n
	}
	s.starts = append(s.starts, time.Since(s.t0))
	b := "h"
	if len(s.script) > 0 {
		b = s.script[0]
		s.script = s.script[1:]
	}
	s.mu.Unlock()
	if ctx.Err() != nil {
		return nil, ctx.Err()
	}
	var lat time.Duration
	switch b[0] {
	case 'h':
		<-ctx.Done()
		return nil, ctx.Err()
	default:
		var ms int
		fmt.Sscanf(b[1:], "%d", &ms)
		lat = time.Duration(ms) * time.Millisecond
	}
	select {
	case <-time.After(lat):
	case <-ctx.Done():
		return nil, ctx.Err()
	}
	if b[0] == 't' {
		// a failure of the client's own making that wraps a context error (its per-request
		// timeout) while every caller's context is alive: a failed lookup like any other
		return nil, fmt.Errorf("injected lookup failure: %w", context.DeadlineExceeded)
	}
	if b[0] == 'f' {
		return nil, errors.New("injected lookup failure")
	}
	return &api.SecretValue{Version: 1, Value: []byte("looked-up")}, nil
}

func (s *latSvc) GetIfChanged(ctx context.Context, name string, old api.SecretVersion) (*api.SecretValue, error) {
	return nil, api.ErrValueNotChanged
}

type lkCaller struct {
	start    int64 // ms
	deadline int64 // ms absolute, -1 none
	cancel   int64 // ms absolute, -1 none (the harness cancels every context at 70 min)
}

const harnessCancelMs = 70*60*1000 + 1777 // never coincides with a multiple of the 5-minute limit

// crowdSvc answers every lookup after a short real-time pause, unless the request's context
// has ended.
type crowdSvc struct{ reqs atomic.Int64 }

func (s *crowdSvc) Get(ctx context.Context, name string) (*api.SecretValue, error) {
	s.reqs.Add(1)
	if ctx.Err() != nil {
		return nil, ctx.Err()
	}
	select {
	case <-time.After(300 * time.Microsecond):
	case <-ctx.Done():
		return nil, ctx.Err()
	}
	return &api.SecretValue{Version: 1, Value: []byte("looked-up")}, nil
}

func (s *crowdSvc) GetIfChanged(ctx context.Context, name string, old api.SecretVersion) (*api.SecretValue, error) {
	return nil, api.ErrValueNotChanged
}

// lookupCrowd: one patient caller (a context that never ends) looks up an unknown name on a
// healthy service while a crowd of callers whose contexts have already ended keeps asking for
// the same name (real time, real parallelism).  However often the patient caller finds itself
// waiting on a request that one of them started - and that therefore ends at once - it must get
// its handle.
//
//	lookupcrowd trials= bad= first=<result of the first bad trial>
func lookupCrowd(trials int) {
	bad, first := 0, "-"
	for k := 0; k < trials; k++ {
		svc := &crowdSvc{}
		st, err := setec.NewStore(context.Background(), setec.StoreConfig{Client: svc, AllowLookup: true, PollInterval: -1, Logf: func(string, ...any) {}})
		if err != nil {
			continue
		}
		var stop atomic.Bool
		var wg sync.WaitGroup
		dead, cancel := context.WithCancel(context.Background())
		cancel()
		startc := make(chan struct{})
		for c := 0; c < 10; c++ {
			wg.Add(1)
			go func() {
				defer wg.Done()
				<-startc
				for j := 0; j < 3000 && !stop.Load(); j++ {
					st.LookupSecret(dead, "x")
				}
			}()
		}
		res := "handle"
		done := make(chan struct{})
		go func() {
			defer close(done)
			defer func() {
				if p := recover(); p != nil {
					res = "panic"
				}
			}()
			<-startc
			time.Sleep(50 * time.Microsecond)
			cx, cf := context.WithTimeout(context.Background(), 20*time.Second) // far beyond anything needed
			defer cf()
			hd, err := st.LookupSecret(cx, "x")
			switch {
			case err == nil && hd != nil && string(hd.Get()) == "looked-up":
			case err == nil:
				res = "badhandle"
			default:
				res = "error:" + err.Error()
			}
		}()
		close(startc)
		<-done
		stop.Store(true)
		wg.Wait()
		st.Close()
		if res != "handle" {
			bad++
			if first == "-" {
				first = hx(res)
			}
		}
	}
	emit("lookupcrowd\ttrials=%d\tbad=%d\tfirst=%s", trials, bad, first)
}

// traceLookup: concurrent LookupSecret calls for one unknown name under virtual time.
//
//	lookupc callers=<start/deadline/cancel;...> script=<a10,f0,h,...> rets=<ms/res;...> reqs=<ms,...> maxconc= installed=
func traceLookup(t *testing.T, o opts) {
	if o.only < 0 {
		lookupCrowd(o.n / 2)
	}
	for h := 0; h < o.n; h++ {
		if o.only >= 0 && h != o.only {
			continue
		}
		r := rng(o.seed, h)
		nc := 1 + r.Intn(5)
		if r.Intn(4) == 0 {
			nc = 1
		}
		var cs []lkCaller
		for i := 0; i < nc; i++ {
			c := lkCaller{start: pick(r, []int64{0, 0, 0, 137, 1013, 10007, 240011, 301003, 360017}), deadline: -1, cancel: -1}
			switch r.Intn(5) {
			case 0, 1: // background context: only the harness's cancellation at 70 min
			case 2:
				c.deadline = c.start + pick(r, []int64{1009, 60013, 360019})
			case 3:
				c.cancel = c.start + pick(r, []int64{2003, 30011, 420013})
			default:
				c.deadline = c.start + 360019
				c.cancel = c.start + pick(r, []int64{503, 400009})
			}
			cs = append(cs, c)
		}
		var script []string
		for i := 0; i < 1+r.Intn(4); i++ {
			script = append(script, pick(r, []string{"a50", "a50", "a2000", "a600000", "f20", "f1000", "t20", "t1000", "h", "h"}))
		}
		emit("begin\t%d", h)
		synctest.Test(t, func(t *testing.T) {
			svc := &latSvc{script: append([]string(nil), script...), t0: time.Now()}
			st, err := setec.NewStore(context.Background(), setec.StoreConfig{Client: svc, AllowLookup: true, PollInterval: -1, Logf: func(string, ...any) {}})
			if err != nil {
				t.Fatal(err)
			}
			t0 := time.Now()
			svc.t0 = t0
			type ret struct {
				at  int64
				res string
			}
			rets := make([]ret, len(cs))
			var wg sync.WaitGroup
			root, rootCancel := context.WithCancel(context.Background())
			allDone := make(chan struct{})
			go func() {
				select {
				case <-time.After(harnessCancelMs * time.Millisecond):
					rootCancel()
				case <-allDone:
				}
			}()
			for i, c := range cs {
				wg.Add(1)
				go func() {
					defer wg.Done()
					time.Sleep(time.Duration(c.start) * time.Millisecond)
					ctx := root
					var cancels []context.CancelFunc
					if c.deadline >= 0 {
						var cf context.CancelFunc
						ctx, cf = context.WithDeadline(ctx, t0.Add(time.Duration(c.deadline)*time.Millisecond))
						cancels = append(cancels, cf)
					}
					if c.cancel >= 0 {
						var cf context.CancelFunc
						if (c.cancel/7+int64(i))%2 == 0 {
							// cancelled with a cause of the caller's own (an errgroup sibling failed, a
							// supervisor gave a reason): to everyone else it is still just a cancellation
							var cc context.CancelCauseFunc
							ctx, cc = context.WithCancelCause(ctx)
							cf = func() { cc(errors.New("caller-private reason")) }
						} else {
							ctx, cf = context.WithCancel(ctx)
						}
						cancels = append(cancels, cf)
						go func() {
							select {
							case <-time.After(time.Until(t0.Add(time.Duration(c.cancel) * time.Millisecond))):
								cf()
							case <-ctx.Done():
							}
						}()
					}
					hd, err := st.LookupSecret(ctx, "x")
					res := "handle"
					switch {
					case err == nil && hd != nil && string(hd.Get()) == "looked-up":
					case err == nil:
						res = "badhandle"
					case errors.Is(err, context.DeadlineExceeded) || errors.Is(err, context.Canceled):
						res = "ctx"
					default:
						res = "failed"
					}
					rets[i] = ret{time.Since(t0).Milliseconds(), res}
					for _, cf := range cancels {
						cf()
					}
				}()
			}
			wg.Wait()
			close(allDone)
			rootCancel()
			synctest.Wait()
			installed := safeSecret(st, "x") != nil
			st.Close()
			var cparts, rparts, qparts []string
			for i, c := range cs {
				cparts = append(cparts, fmt.Sprintf("%d/%d/%d", c.start, c.deadline, c.cancel))
				rparts = append(rparts, fmt.Sprintf("%d/%s", rets[i].at, rets[i].res))
			}
			svc.mu.Lock()
			for _, s := range svc.starts {
				qparts = append(qparts, fmt.Sprint(s.Milliseconds()))
			}
			mc := svc.maxConc
			svc.mu.Unlock()
			emit("lookupc\tcallers=%s\tscript=%s\trets=%s\treqs=%s\tmaxconc=%d\tinstalled=%s", strings.Join(cparts, ";"), strings.Join(script, ","), strings.Join(rparts, ";"), strings.Join(qparts, ","), mc, b01(installed))
		})
	}
}
