package storetrace

import (
	"fmt"
	"io"
	"os"
	"path/filepath"
	"sync/atomic"
	"testing"
	"testing/synctest"
	"time"

	"github.com/tailscale/setec/audit"
	"github.com/tailscale/setec/db"
	"github.com/tailscale/setec/types/api"
	"github.com/tink-crypto/tink-go/v2/aead"
	"github.com/tink-crypto/tink-go/v2/keyset"
	"github.com/tink-crypto/tink-go/v2/tink"
)

// ageKEK counts every use of the key-encryption key and can be taken offline.
type ageKEK struct {
	inner   tink.AEAD
	n       atomic.Int64
	offline atomic.Bool
}

func (c *ageKEK) Encrypt(p, ad []byte) ([]byte, error) {
	c.n.Add(1)
	if c.offline.Load() {
		return nil, fmt.Errorf("key service unreachable")
	}
	return c.inner.Encrypt(p, ad)
}
func (c *ageKEK) Decrypt(p, ad []byte) ([]byte, error) {
	c.n.Add(1)
	if c.offline.Load() {
		return nil, fmt.Errorf("key service unreachable")
	}
	return c.inner.Decrypt(p, ad)
}

// traceDBTime: one db.DB that lives for months or years of virtual time.  Between calls the
// clock advances by anything from a second to more than a year; the key service is unreachable
// from the moment the database is open.  After every call: how often the key was used, what the
// call answered (against the plain expectation kept by the harness: names are written once per
// kind of call), and whether a copy of the file opens with the same contents.
//
//	aged hist= step= day= op= res= want= kekdelta= reopen=<ok|ERR:hex> same=<0|1>
func traceDBTime(t *testing.T, o opts) {
	gaps := []time.Duration{time.Second, time.Hour, 24 * time.Hour, 29 * 24 * time.Hour, 31 * 24 * time.Hour,
		45 * 24 * time.Hour, 100 * 24 * time.Hour, 400 * 24 * time.Hour, 7 * 24 * time.Hour, 61 * time.Minute}
	for h := 0; h < o.n; h++ {
		if o.only >= 0 && h != o.only {
			continue
		}
		synctest.Test(t, func(t *testing.T) {
			r := rng(o.seed, h)
			dir := filepath.Join(o.dir, fmt.Sprintf("age%d", h))
			os.MkdirAll(dir, 0700)
			defer os.RemoveAll(dir)
			kh, err := keyset.NewHandle(aead.AES256GCMKeyTemplate())
			if err != nil {
				t.Fatal(err)
			}
			inner, _ := aead.New(kh)
			kek := &ageKEK{inner: inner}
			path := filepath.Join(dir, "setec.db")
			d, err := db.Open(path, kek, audit.New(io.Discard))
			if err != nil {
				t.Fatal(err)
			}
			emit("begin\t%d", h)
			emit("open\thist=%d\tkekuses=%d", h, kek.n.Load())
			su := suCaller()
			start := time.Now()
			nver := 0
			for s := 0; s < o.steps; s++ {
				time.Sleep(pick(r, gaps))
				before := kek.n.Load()
				kek.offline.Store(true)
				op, res, want := "", "", ""
				switch x := r.Intn(5); {
				case x <= 1 || nver == 0:
					op = "put"
					nver++
					v, err := d.Put(su, "k", []byte(fmt.Sprintf("value-%d-%d", h, nver)))
					res, want = fmt.Sprintf("%d/%v", v, err), fmt.Sprintf("%d/<nil>", nver)
				case x == 2:
					op = "activate"
					err := d.Activate(su, "k", api.SecretVersion(nver))
					res, want = fmt.Sprint(err), "<nil>"
				case x == 3:
					op = "get"
					sv, err := d.GetVersion(su, "k", api.SecretVersion(nver))
					if err == nil && sv != nil {
						res = string(sv.Value)
					} else {
						res = fmt.Sprint(err)
					}
					want = fmt.Sprintf("value-%d-%d", h, nver)
				default:
					op = "putother"
					_, err := d.Put(su, fmt.Sprintf("other/%d", s), []byte("x"))
					res, want = fmt.Sprint(err), "<nil>"
				}
				delta := kek.n.Load() - before
				kek.offline.Store(false)
				// a restart at this moment: a copy of the file opens and serves the same value
				reopen, same := "ok", "1"
				bs, _ := os.ReadFile(path)
				cp := filepath.Join(dir, "copy.db")
				os.WriteFile(cp, bs, 0600)
				if d2, err := db.Open(cp, kek, audit.New(io.Discard)); err != nil {
					reopen, same = "ERR:"+hx(err.Error()), "0"
				} else if sv, err := d2.GetVersion(su, "k", api.SecretVersion(nver)); err != nil || string(sv.Value) != fmt.Sprintf("value-%d-%d", h, nver) {
					same = "0"
				}
				os.Remove(cp)
				emit("aged\thist=%d\tstep=%d\tday=%d\top=%s\tres=%s\twant=%s\tkekdelta=%d\treopen=%s\tsame=%s",
					h, s, int(time.Since(start)/(24*time.Hour)), op, hx(res), hx(want), delta, reopen, same)
			}
		})
	}
}
