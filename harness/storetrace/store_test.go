package storetrace

import (
	"errors"
	"reflect"
	"bytes"
	"context"
	"encoding/json"
	"fmt"
	"math/rand"
	"os"
	"path/filepath"
	"strings"
	"testing"
	"testing/synctest"
	"time"

	setec "github.com/tailscale/setec/client/setec"
	"github.com/tailscale/setec/types/api"
)

type fakeTicker struct {
	ch   chan time.Time
	done chan struct{}
}

func newFakeTicker() *fakeTicker {
	return &fakeTicker{ch: make(chan time.Time), done: make(chan struct{})}
}
func (f *fakeTicker) Chan() <-chan time.Time { return f.ch }
func (f *fakeTicker) Stop()                  {}
func (f *fakeTicker) Done()                  { f.done <- struct{}{} }
func (f *fakeTicker) Poll()                  { f.PollT(time.Hour) }

// PollT triggers one background poll and waits for it; false if no poller took the tick (or
// never finished) within d.
func (f *fakeTicker) PollT(d time.Duration) bool {
	select {
	case f.ch <- time.Now():
	case <-time.After(d):
		return false
	}
	select {
	case <-f.done:
		return true
	case <-time.After(d):
		return false
	}
}

var pool = []string{"a", "b", "c", "d/e"}

type docEntry struct {
	name string
	ver  uint32
	val  []byte
	la   int64
}

func docJSON(es []docEntry) []byte {
	m := map[string]any{}
	for _, e := range es {
		m[e.name] = map[string]any{"secret": map[string]any{"Value": e.val, "Version": e.ver}, "lastAccess": fmt.Sprint(e.la)}
	}
	b, _ := json.Marshal(m)
	return b
}

type world struct {
	t      *testing.T
	o      opts
	r      *rand.Rand
	plan   []int // step kinds forced next (a scenario started by an earlier step)
	svc    *svc
	cache  *recCache
	clock  int64
	st     *setec.Store
	tick   *fakeTicker
	hands  map[string]setec.Secret
	cfg    struct {
		names  []string
		lookup bool
		age    int64
		nopoll bool // automatic polling disabled
	}
	closed bool
	// slices handles have returned, with a copy of what they held then
	retained []retainedVal
}

type retainedVal struct{ live, copy []byte }

func (w *world) now() time.Time { return time.Unix(w.clock, 0) }

func randVal(r *rand.Rand) []byte {
	v := make([]byte, 1+r.Intn(6))
	r.Read(v)
	return v
}

// newStore performs one construction and emits its line.  cacheKind: keep = whatever the
// recording cache currently holds.
func (w *world) newStore(cacheKind string, dead bool, freshCfg bool) {
	r := w.r
	if freshCfg {
		var names []string
		for _, n := range pool {
			if r.Intn(2) == 0 {
				names = append(names, n)
			}
		}
		if len(names) > 0 && r.Intn(4) == 0 {
			names = append(names, names[0]) // duplicate
		}
		if r.Intn(25) == 0 {
			names = append(names, "") // misconfiguration
		}
		if r.Intn(12) == 0 {
			names = nil
		}
		r.Shuffle(len(names), func(i, j int) { names[i], names[j] = names[j], names[i] })
		w.cfg.names = names
		w.cfg.lookup = r.Intn(2) == 0
		w.cfg.age = pick(r, []int64{0, 0, -5, 10, 3600})
		// one configuration in six: automatic polling disabled (a negative PollInterval, no ticker);
		// the caller refreshes by hand.  Everything else - construction, the cache written after
		// the initial fetch, lookups, refreshes, expiry - is as with a poller; only the poller's
		// shutdown flush does not exist.
		w.cfg.nopoll = r.Intn(6) == 0
	}
	w.hands = map[string]setec.Secret{}
	w.closed = false
	cacheDesc := "KEEP"
	var cacheIface setec.Cache
	switch cacheKind {
	case "nil":
		w.cache = &recCache{}
		cacheDesc = "NIL"
	case "empty":
		w.cache = &recCache{}
		cacheIface = w.cache
		cacheDesc = "EMPTY"
	case "doc":
		var es []docEntry
		for _, n := range append(append([]string{}, pool...), "zz") {
			if r.Intn(2) == 0 {
				es = append(es, docEntry{n, uint32(1 + r.Intn(3)), randVal(r), pick(r, []int64{0, w.clock - 100000, w.clock - 5, w.clock, w.clock + 1000})})
			}
		}
		w.cache = &recCache{data: docJSON(es)}
		cacheIface = w.cache
	case "bad":
		good := docJSON([]docEntry{{"a", 1, []byte("x"), w.clock}, {"b", 2, []byte("y"), 0}})
		bads := [][]byte{
			[]byte("not json"), good[:len(good)/2], []byte(`{"":{"secret":{"Value":"eA==","Version":1},"lastAccess":"0"}}`),
			[]byte(`{"a":null}`), []byte(`{"a":{"secret":null,"lastAccess":"5"}}`), []byte(`{"a":{"lastAccess":"5"}}`),
			[]byte(`[1,2,3]`), []byte(`{"a":{"secret":{"Value":"eA==","Version":1},"lastAccess":5}}`),
			[]byte(`{"a":{"secret":{"Value":"eA==","Version":"1"},"lastAccess":"5"}}`), []byte(`{"a":{"secret":{"Value":"!!","Version":1},"lastAccess":"5"}}`),
			[]byte("\xff\xfe"), []byte(`{"a":{"secret":{"Value":"eA==","Version":99999999999},"lastAccess":"5"}}`), []byte(`null`), []byte(`{}`), []byte(` `),
			[]byte(`{"a":{"secret":{"Value":"eA==","Version":1},"lastAccess":"5"},"a":{"secret":{"Value":"eQ==","Version":2},"lastAccess":"6"}}`),
		}
		// a well-formed entry for a name in use next to one entry of the wrong shape: the whole
		// document must be ignored, not just the bad entry
		for _, neighbour := range []string{`"":{"secret":{"Value":"eA==","Version":1},"lastAccess":"0"}`, `"zz":null`, `"zz":{"secret":null}`, `"zz":{"lastAccess":"7"}`, `"zz":{"secret":{"Value":"eA==","Version":1},"lastAccess":7}`} {
			for _, n := range pool {
				bads = append(bads, []byte(fmt.Sprintf(`{%q:{"secret":{"Value":"c3RhbGU=","Version":9},"lastAccess":"%d"},%s}`, n, w.clock, neighbour)))
			}
		}
		w.cache = &recCache{data: pick(r, bads)}
		cacheIface = w.cache
	case "readfail":
		w.cache = &recCache{readFail: true, data: docJSON([]docEntry{{"a", 1, []byte("x"), w.clock}})}
		cacheIface = w.cache
		cacheDesc = "READFAIL"
	case "keep":
		cacheIface = w.cache
	}
	if cacheKind != "nil" && cacheKind != "readfail" && cacheKind != "empty" {
		cacheDesc = w.cacheClass()
	}
	if cacheKind != "keep" && cacheIface != nil && r.Intn(10) == 0 {
		w.cache.writeFail = true
	}
	// client
	clientKind := "svc"
	var client setec.StoreClient = w.svc
	fileDoc := "-"
	if !dead && freshCfg && r.Intn(10) == 0 {
		var es []docEntry
		for _, n := range pool {
			if r.Intn(3) != 0 {
				v := randVal(r)
				if r.Intn(6) == 0 {
					v = nil
				}
				es = append(es, docEntry{n, uint32(r.Intn(3)), v, 0})
			}
		}
		p := filepath.Join(w.o.dir, "fileclient.json")
		os.MkdirAll(w.o.dir, 0700)
		os.WriteFile(p, docJSON(es), 0600)
		fc, err := setec.NewFileClient(p)
		if err != nil {
			w.t.Fatal(err)
		}
		client = fc
		clientKind = "file"
		fileDoc = canonDoc(docJSON(es))
	}
	// per-name failure scripts for the initial fetch
	w.svc.mu.Lock()
	w.svc.script = map[string][]string{}
	needDeadline := false
	for _, n := range w.cfg.names {
		if _, ok := w.svc.active[n]; !ok {
			needDeadline = true // absent at the service: construction would retry forever
		}
		switch x := r.Intn(10); {
		case dead:
			w.svc.script[n] = repeat("fail", 60)
			needDeadline = true
		case x < 6:
		case x < 8:
			w.svc.script[n] = repeat("fail", 1+r.Intn(15))
			if r.Intn(3) == 0 {
				// unavailable for half a minute to a minute and a half, then back: with a context
				// that has not ended, construction keeps asking and succeeds
				w.svc.script[n] = repeat("fail", 18+r.Intn(16))
			}
		case x == 8:
			w.svc.script[n] = repeat("fail", 60)
			needDeadline = true
		default:
			w.svc.script[n] = append(repeat("fail", r.Intn(3)), "hang")
			needDeadline = true
		}
	}
	w.svc.mu.Unlock()
	deadline := int64(-1)
	if needDeadline || r.Intn(5) == 0 {
		deadline = pick(r, []int64{0, 5, 100, 3000, 10000, 20000})
	}
	ctx := context.Background()
	var cancel context.CancelFunc = func() {}
	if deadline >= 0 {
		if deadline == 0 || r.Intn(2) == 0 {
			ctx, cancel = context.WithTimeout(ctx, time.Duration(deadline)*time.Millisecond)
		} else {
			// the same instant, but as a cancellation: the context carries no deadline to plan around
			ctx, cancel = context.WithCancel(ctx)
			tm := time.AfterFunc(time.Duration(deadline)*time.Millisecond, cancel)
			defer tm.Stop()
		}
	}
	w.tick = newFakeTicker()
	// NewStore sorts and compacts the caller's slice in place: hand it a copy
	cfg := setec.StoreConfig{Client: client, Secrets: append([]string(nil), w.cfg.names...), AllowLookup: w.cfg.lookup, Cache: cacheIface,
		ExpiryAge: time.Duration(w.cfg.age) * time.Second, Logf: func(string, ...any) {}, PollTicker: w.tick, TimeNow: w.now}
	if w.cfg.nopoll {
		cfg.PollTicker = nil
		cfg.PollInterval = -1
	}
	if r.Intn(40) == 0 && freshCfg {
		cfg.Client = nil
		clientKind = "nil"
	}
	w.svc.resetLog()
	t0 := time.Now()
	var st *setec.Store
	res := "ok"
	returned := make(chan struct{})
	go func() {
		defer close(returned)
		defer func() {
			if p := recover(); p != nil {
				res = "panic:" + hx(fmt.Sprint(p))
			}
		}()
		var err error
		st, err = setec.NewStore(ctx, cfg)
		if err != nil {
			res = "err"
			st = nil
		}
	}()
	select {
	case <-returned:
	case <-time.After(time.Hour): // virtual time: far beyond any deadline or scripted recovery
		// construction never returned; its goroutine cannot be stopped, so report and end the run
		emit("new\tnopoll="+b01(w.cfg.nopoll)+"\trawcache=-\tnames=%s\tlookup=%s\tage=%d\tcache=%s\twfail=0\tclient=%s\tfiledoc=%s\tdeadline=%d\tnow=%d\tsvc=%s\tres=hang\telapsed=3600000\treqs=\tsnap=-\twrites=-",
			xlist(w.cfg.names), b01(w.cfg.lookup), w.cfg.age, cacheDesc, clientKind, fileDoc, deadline, w.clock, w.svc.state())
		out.Flush()
		os.Exit(0)
	}
	elapsed := time.Since(t0)
	cancel()
	w.st = st
	snap := "-"
	if st != nil {
		snap = snapString(st)
	}
	rawCache := "-"
	if cacheDesc == "BAD" || cacheDesc == "NONE" {
		w.cache.mu.Lock()
		rawCache = hb(w.cache.data)
		w.cache.mu.Unlock()
	}
	emit("new\tnopoll="+b01(w.cfg.nopoll)+"\trawcache=%s\tnames=%s\tlookup=%s\tage=%d\tcache=%s\twfail=%s\tclient=%s\tfiledoc=%s\tdeadline=%d\tnow=%d\tsvc=%s\tres=%s\telapsed=%d\treqs=%s\tsnap=%s\twrites=%s",
		rawCache, xlist(w.cfg.names), b01(w.cfg.lookup), w.cfg.age, cacheDesc, b01(w.cache.writeFail), clientKind, fileDoc, deadline, w.clock, w.svc.state(), res, elapsed.Milliseconds(), w.svc.reqs(), snap, w.cache.takeWrites())
	w.svc.mu.Lock()
	w.svc.script = map[string][]string{}
	w.svc.mu.Unlock()
}

func (w *world) cacheClass() string {
	w.cache.mu.Lock()
	defer w.cache.mu.Unlock()
	if w.cache.readFail {
		return "READFAIL"
	}
	return canonDoc(w.cache.data)
}

func repeat(s string, n int) []string {
	out := make([]string, n)
	for i := range out {
		out[i] = s
	}
	return out
}

func (w *world) closeStore() {
	if w.st != nil && !w.closed {
		w.st.Close()
		w.closed = true
		emit("close\tsnap=%s\twrites=%s", snapString(w.st), w.cache.takeWrites())
	}
}

func (w *world) step() {
	r := w.r
	names := append(append([]string{}, pool...), "zz", "")
	x := r.Intn(20)
	if len(w.plan) > 0 {
		x, w.plan = w.plan[0], w.plan[1:]
	}
	switch {
	case x < 3: // obtain a handle
		n := pick(r, names)
		res := "ok"
		func() {
			defer func() {
				if p := recover(); p != nil {
					res = "panic"
				}
			}()
			h := w.st.Secret(n)
			if h == nil {
				res = "nil"
			} else {
				w.hands[n] = h
			}
		}()
		emit("handle\tn=%s\tres=%s\tsnap=%s", hx(n), res, snapString(w.st))
	case x < 6: // read through a handle
		var hs []string
		for n := range w.hands {
			hs = append(hs, n)
		}
		if len(hs) == 0 {
			return
		}
		sortStrings(hs)
		n := pick(r, hs)
		res := ""
		func() {
			defer func() {
				if p := recover(); p != nil {
					res = "panic"
				}
			}()
			got := w.hands[n].Get()
			res = "x" + hb(got)
			// what a handle returned stays what it was: keep the slice itself and a copy
			w.retained = append(w.retained, retainedVal{got, append([]byte(nil), got...)})
			if len(w.retained) > 64 {
				w.retained = w.retained[1:]
			}
		}()
		emit("read\tn=%s\tnow=%d\tval=%s\tsnap=%s", hx(n), w.clock, res, snapString(w.st))
		if len(w.plan) == 0 && r.Intn(3) == 0 {
			// ... and then nothing but a shutdown: the program restarts from its cache, time passes,
			// a poll decides what has expired - by the access time of this read
			w.plan = []int{19, 15, 10}
			if r.Intn(2) == 0 {
				w.plan = []int{15, 4, 19, 15, 10} // some time passes, another read, then the same
			}
		}
	case x < 9: // lookup
		n := pick(r, names)
		outcome := pick(r, []string{"ok", "ok", "ok", "fail", "notfound"})
		w.svc.mu.Lock()
		w.svc.script[n] = []string{outcome}
		w.svc.mu.Unlock()
		w.svc.resetLog()
		ctx, cancel := context.WithTimeout(context.Background(), time.Minute)
		h, err := w.st.LookupSecret(ctx, n)
		cancel()
		res := "handle"
		if err != nil {
			res = "err"
			if strings.Contains(err.Error(), "lookup is not enabled") {
				res = "disabled"
			}
		} else if h != nil {
			w.hands[n] = h
		}
		// with lookups disabled the other routes to an unknown name are closed as well: an updater
		// and a tagged struct field must be refused too (e = error, k = accepted, p = panic)
		also := "-"
		if res == "disabled" {
			also = ""
			try := func(f func() error) {
				defer func() {
					if p := recover(); p != nil {
						also += "p"
					}
				}()
				if f() != nil {
					also += "e"
				} else {
					also += "k"
				}
			}
			try(func() error {
				_, err := setec.NewUpdater(context.Background(), w.st, n, func(b []byte) (int, error) { return len(b), nil })
				return err
			})
			try(func() error {
				typ := reflect.StructOf([]reflect.StructField{{Name: "F", Type: reflect.TypeOf([]byte(nil)), Tag: reflect.StructTag(fmt.Sprintf(`setec:%q`, n))}})
				fs, err := setec.ParseFields(reflect.New(typ).Interface(), "")
				if err != nil {
					return err // the name cannot be written as a tag: not a route to it
				}
				return fs.Apply(context.Background(), w.st)
			})
		}
		w.svc.mu.Lock()
		delete(w.svc.script, n)
		w.svc.mu.Unlock()
		emit("lookup\talso=%s\tn=%s\tnow=%d\tres=%s\treqs=%s\tsnap=%s\twrites=%s", also, hx(n), w.clock, res, w.svc.reqs(), snapString(w.st), w.cache.takeWrites())
	case x < 14: // poll (explicit refresh or background tick)
		kind := "refresh"
		if r.Intn(3) == 0 && !w.cfg.nopoll {
			kind = "bgpoll"
		}
		w.svc.mu.Lock()
		w.svc.script = map[string][]string{}
		if r.Intn(4) == 0 {
			w.svc.script[pick(r, pool)] = []string{pick(r, []string{"fail", "notfound"})}
		}
		w.svc.nreq = 0
		w.svc.mu.Unlock()
		mid := "-"
		midPanic := false
		var hook func(string, string, int)
		if r.Intn(3) == 0 {
			k := 1 + r.Intn(3)
			n := pick(r, pool)
			switch r.Intn(3) {
			case 0:
				ver, val := w.nextVersion(n, r)
				mid = fmt.Sprintf("%d/svcset/%s/%d/%s", k-1, hx(n), ver, hb(val))
				hook = func(_, _ string, nth int) {
					if nth == k {
						w.svc.set(n, ver, val)
					}
				}
			case 1:
				// preferably a name that can expire (undeclared, no handle yet): the snapshot may already
				// have marked it, and the handle obtained now must keep it alive
				var cands []string
				for _, c := range pool {
					declared := false
					for _, d := range w.cfg.names {
						declared = declared || d == c
					}
					if _, has := w.hands[c]; !has && !declared {
						cands = append(cands, c)
					}
				}
				if len(cands) > 0 && r.Intn(4) != 0 {
					n = pick(r, cands)
				}
				mid = fmt.Sprintf("%d/handle/%s", k-1, hx(n))
				hook = func(_, _ string, nth int) {
					if nth == k {
						if h := safeSecret(w.st, n); h != nil {
							w.hands[n] = h
						}
					}
				}
			default:
				if h, ok := w.hands[n]; ok {
					mid = fmt.Sprintf("%d/read/%s", k-1, hx(n))
					hook = func(_, _ string, nth int) {
						if nth == k {
							func() {
								defer func() {
									if p := recover(); p != nil {
										midPanic = true
									}
								}()
								h.Get()
							}()
						}
					}
				}
			}
		}
		w.svc.mu.Lock()
		w.svc.hook = hook
		w.svc.mu.Unlock()
		before := w.svc.state()
		w.svc.resetLog()
		res := "ok"
		if kind == "refresh" {
			if err := w.st.Refresh(context.Background()); err != nil {
				res = "err"
			}
		} else {
			if !w.tick.PollT(time.Hour) { // virtual time
				emit("nopoller\tnow=%d", w.clock)
			}
			res = "-"
		}
		w.svc.mu.Lock()
		w.svc.hook = nil
		nreq := w.svc.nreq
		w.svc.script = map[string][]string{}
		w.svc.mu.Unlock()
		if mid != "-" {
			var k int
			fmt.Sscanf(mid, "%d/", &k)
			if k >= nreq {
				mid = "-" // the hook never fired (fewer requests than expected)
			}
		}
		torn := 0
		for _, rv := range w.retained {
			if !bytes.Equal(rv.live, rv.copy) {
				torn++
			}
		}
		emit("poll\ttorn=%d\tkind=%s\tnow=%d\tmidpanic=%s\tmid=%s\tsvcbefore=%s\tsvc=%s\tres=%s\treqs=%s\tsnap=%s\twrites=%s", torn, kind, w.clock, b01(midPanic), mid, before, w.svc.state(), res, w.svc.reqs(), snapString(w.st), w.cache.takeWrites())
	case x == 14 && len(w.hands) > 0: // an updater whose builder rejects the initial value
		var hs []string
		for n := range w.hands {
			hs = append(hs, n)
		}
		sortStrings(hs)
		n := pick(r, hs)
		res := "ok"
		func() {
			defer func() {
				if p := recover(); p != nil {
					res = "panic"
				}
			}()
			if _, err := setec.NewUpdater(context.Background(), w.st, n, func([]byte) (int, error) { return 0, errors.New("builder rejects the value") }); err != nil {
				res = "err"
			}
		}()
		emit("failupd\tn=%s\tnow=%d\tres=%s\tsnap=%s", hx(n), w.clock, res, snapString(w.st))
	case x < 16: // clock
		d := pick(r, []int64{1, 5, 11, 100, 3601, 100000})
		w.clock += d
		emit("tick\td=%d\tnow=%d", d, w.clock)
		if w.cache != nil && r.Intn(5) == 0 {
			// the cache starts (or stops) rejecting writes: a transient failure
			w.cache.mu.Lock()
			w.cache.writeFail = !w.cache.writeFail
			on := w.cache.writeFail
			w.cache.mu.Unlock()
			emit("cachefail\ton=%s", b01(on))
		}
	case x < 19: // the service changes
		n := pick(r, pool)
		if r.Intn(8) == 0 {
			w.svc.mu.Lock()
			delete(w.svc.active, n)
			w.svc.mu.Unlock()
			emit("svcdel\tn=%s", hx(n))
			return
		}
		ver, val := w.nextVersion(n, r)
		w.svc.set(n, ver, val)
		emit("svcset\tn=%s\tver=%d\tval=%s", hx(n), ver, hb(val))
	default: // restart from the cache
		w.closeStore()
		dead := r.Intn(2) == 0
		emit("restart\tdead=%s", b01(dead))
		w.newStore("keep", dead, r.Intn(3) == 0)
	}
}

func safeSecret(st *setec.Store, n string) (h setec.Secret) {
	defer func() { recover() }()
	return st.Secret(n)
}

// nextVersion: a new version, or an activation back to an earlier one with its old bytes.
func (w *world) nextVersion(n string, r *rand.Rand) (uint32, []byte) {
	w.svc.mu.Lock()
	defer w.svc.mu.Unlock()
	hist := w.svc.history[n]
	if len(hist) > 1 && r.Intn(3) == 0 {
		old := hist[r.Intn(len(hist))]
		return uint32(old.Version), old.Value
	}
	max := api.SecretVersion(0)
	for _, h := range hist {
		if h.Version > max {
			max = h.Version
		}
	}
	switch r.Intn(8) {
	case 0:
		return uint32(max) + 1, []byte{} // a secret may legitimately be empty
	case 1:
		// a new version number carrying the bytes the current version has
		if cur, ok := w.svc.active[n]; ok {
			return uint32(max) + 1, append([]byte(nil), cur.Value...)
		}
	}
	return uint32(max) + 1, randVal(r)
}

func sortStrings(xs []string) {
	for i := range xs {
		for j := i + 1; j < len(xs); j++ {
			if xs[j] < xs[i] {
				xs[i], xs[j] = xs[j], xs[i]
			}
		}
	}
}

func traceStore(t *testing.T, o opts) {
	for h := 0; h < o.n; h++ {
		if o.only >= 0 && h != o.only {
			continue
		}
		synctest.Test(t, func(t *testing.T) {
			r := rng(o.seed, h)
			w := &world{t: t, o: o, r: r, svc: newSvc(), clock: 1_700_000_000 + int64(r.Intn(1000))}
			for _, n := range pool {
				if r.Intn(5) != 0 {
					w.svc.set(n, uint32(1+r.Intn(3)), randVal(r))
				}
			}
			emit("begin\t%d", h)
			w.newStore(pick(r, []string{"nil", "empty", "doc", "doc", "doc", "bad", "bad", "readfail"}), false, true)
			for s := 0; s < o.steps && w.st != nil; s++ {
				w.step()
			}
			w.closeStore()
		})
	}
}
