// Package storetrace drives client/setec.Store (and friends) under testing/synctest
// virtual time and writes canonical trace lines for the Lean driver.  It is a test
// package only because synctest needs a *testing.T; it is built with `go test -c` and run
// as a plain binary by the orchestrator.
package storetrace

import (
	"bufio"
	"context"
	"encoding/hex"
	"encoding/json"
	"errors"
	"flag"
	"fmt"
	"math/rand"
	"os"
	"sort"
	"strconv"
	"strings"
	"sync"
	"sync/atomic"
	"testing"
	"time"

	setec "github.com/tailscale/setec/client/setec"
	"github.com/tailscale/setec/types/api"
)

var out *bufio.Writer

// emit writes one line and flushes it: the code under test may bring the process down from a
// goroutine of its own, and what was observed before that must be on file.
func emit(format string, args ...any) {
	emitMu.Lock()
	fmt.Fprintf(out, format, args...)
	out.WriteByte('\n')
	out.Flush()
	emitMu.Unlock()
	lastAlive.Store(time.Now().UnixNano())
}

var (
	emitMu    sync.Mutex
	lastAlive atomic.Int64
	stuckNote atomic.Value
)

// note records what is about to be asked of the code under test; it counts as progress.
func note(format string, args ...any) {
	stuckNote.Store(fmt.Sprintf(format, args...))
	lastAlive.Store(time.Now().UnixNano())
}

// watchdog: every family writes a line at least every few seconds of real time (virtual time
// costs none).  Eight minutes without one means a call into the code under test has not
// returned and never will - a lock never released, a waiter never woken.  That is an
// observation: a last line `stuckst` naming the family and what was under way, and the run ends.
func watchdog(fam string) {
	lastAlive.Store(time.Now().UnixNano())
	go func() {
		for {
			time.Sleep(15 * time.Second)
			if time.Since(time.Unix(0, lastAlive.Load())) > 8*time.Minute {
				n, _ := stuckNote.Load().(string)
				emitMu.Lock()
				fmt.Fprintf(out, "stuckst\tfamily=%s\tnote=%s\n", fam, hx(n))
				out.Flush()
				os.Exit(0)
			}
		}
	}()
}

func hx(s string) string { return hex.EncodeToString([]byte(s)) }
func hb(b []byte) string { return hex.EncodeToString(b) }
func b01(b bool) string {
	if b {
		return "1"
	}
	return "0"
}

type opts struct {
	family  string
	seed    int64
	n       int
	steps   int
	profile string
	only    int
	dir     string
	outPath string
}

func parseArgs() (opts, error) {
	var o opts
	raw := os.Getenv("VERIF_TRACE_ARGS")
	if raw == "" {
		return o, errors.New("VERIF_TRACE_ARGS not set")
	}
	var args []string
	if err := json.Unmarshal([]byte(raw), &args); err != nil {
		return o, err
	}
	if len(args) == 0 {
		return o, errors.New("no family")
	}
	o.family = args[0]
	fs := flag.NewFlagSet(o.family, flag.ContinueOnError)
	fs.Int64Var(&o.seed, "seed", 1, "")
	fs.IntVar(&o.n, "n", 10, "")
	fs.IntVar(&o.steps, "steps", 20, "")
	fs.StringVar(&o.profile, "profile", "", "")
	fs.IntVar(&o.only, "only", -1, "")
	fs.StringVar(&o.dir, "dir", "", "")
	fs.StringVar(&o.outPath, "o", "-", "")
	return o, fs.Parse(args[1:])
}

func rng(seed int64, i int) *rand.Rand {
	return rand.New(rand.NewSource(seed*1000003 + int64(i)*7919 + 17))
}

func pick[T any](r *rand.Rand, xs []T) T { return xs[r.Intn(len(xs))] }

// TestTrace is the entry point.
func TestTrace(t *testing.T) {
	o, err := parseArgs()
	if err != nil {
		t.Skip("not invoked by the orchestrator: ", err)
	}
	f := os.Stdout
	if o.outPath != "-" {
		f, err = os.Create(o.outPath)
		if err != nil {
			t.Fatal(err)
		}
		defer f.Close()
	}
	out = bufio.NewWriterSize(f, 1<<20)
	defer out.Flush()
	watchdog(o.family)
	switch o.family {
	case "store":
		traceStore(t, o)
	case "lookup":
		traceLookup(t, o)
	case "backup":
		traceBackup(t, o)
	case "updater":
		traceUpdater(t, o)
	case "concstore":
		traceConcStore(t, o)
	case "dbtime":
		traceDBTime(t, o)
	case "cadence":
		traceCadence(t, o)
	default:
		t.Fatalf("unknown family %q", o.family)
	}
}

// ---------- scripted service ----------

type reqLog struct {
	at   time.Duration
	kind string // get | cond
	name string
	old  uint32
	ans  string // value:<ver>:<hex> | notchanged | notfound | fail | ctx
}

type svc struct {
	mu     sync.Mutex
	active map[string]*api.SecretValue
	script map[string][]string // per name: queued outcomes ok|fail|hang|notfound
	log    []reqLog
	start  time.Time
	hook   func(kind, name string, nth int) // called (unlocked) before answering
	nreq   int
	// every (name, version, bytes) ever active, for "really served" checks
	history map[string][]*api.SecretValue
}

func newSvc() *svc {
	return &svc{active: map[string]*api.SecretValue{}, script: map[string][]string{}, start: time.Now(), history: map[string][]*api.SecretValue{}}
}

func (s *svc) set(name string, ver uint32, val []byte) {
	s.mu.Lock()
	defer s.mu.Unlock()
	sv := &api.SecretValue{Version: api.SecretVersion(ver), Value: append([]byte(nil), val...)}
	s.active[name] = sv
	s.history[name] = append(s.history[name], sv)
}

func (s *svc) resetLog() {
	s.mu.Lock()
	defer s.mu.Unlock()
	s.log = nil
	s.start = time.Now()
}

func (s *svc) answer(ctx context.Context, kind, name string, old api.SecretVersion) (*api.SecretValue, error) {
	s.mu.Lock()
	s.nreq++
	nth := s.nreq
	hook := s.hook
	s.mu.Unlock()
	if hook != nil {
		hook(kind, name, nth)
	}
	s.mu.Lock()
	outcome := "ok"
	if q := s.script[name]; len(q) > 0 {
		outcome = q[0]
		s.script[name] = q[1:]
	}
	at := time.Since(s.start)
	rec := func(ans string) {
		s.log = append(s.log, reqLog{at: at, kind: kind, name: name, old: uint32(old), ans: ans})
	}
	if ctx.Err() != nil {
		rec("ctx")
		s.mu.Unlock()
		return nil, ctx.Err()
	}
	switch outcome {
	case "hang":
		s.mu.Unlock()
		<-ctx.Done()
		s.mu.Lock()
		rec("ctx")
		s.mu.Unlock()
		return nil, ctx.Err()
	case "fail":
		rec("fail")
		s.mu.Unlock()
		if nth%3 == 0 {
			// the client's own per-request timeout: an error that wraps a context error although
			// the caller's context is alive - a failed request like any other
			return nil, fmt.Errorf("request timed out: %w", context.DeadlineExceeded)
		}
		return nil, errors.New("injected service failure")
	case "notfound":
		rec("notfound")
		s.mu.Unlock()
		return nil, api.ErrNotFound
	}
	cur, ok := s.active[name]
	if !ok {
		rec("notfound")
		s.mu.Unlock()
		return nil, api.ErrNotFound
	}
	if kind == "cond" && old != 0 && cur.Version == old {
		rec("notchanged")
		s.mu.Unlock()
		return nil, api.ErrValueNotChanged
	}
	cp := &api.SecretValue{Version: cur.Version, Value: append([]byte(nil), cur.Value...)}
	rec(fmt.Sprintf("value:%d:%s", cur.Version, hb(cur.Value)))
	s.mu.Unlock()
	return cp, nil
}

func (s *svc) Get(ctx context.Context, name string) (*api.SecretValue, error) {
	return s.answer(ctx, "get", name, 0)
}

func (s *svc) GetIfChanged(ctx context.Context, name string, old api.SecretVersion) (*api.SecretValue, error) {
	return s.answer(ctx, "cond", name, old)
}

func (s *svc) reqs() string {
	s.mu.Lock()
	defer s.mu.Unlock()
	var parts []string
	for _, l := range s.log {
		parts = append(parts, fmt.Sprintf("%d/%s/%s/%d/%s", l.at.Milliseconds(), l.kind, hx(l.name), l.old, l.ans))
	}
	return strings.Join(parts, ",")
}

func (s *svc) state() string {
	s.mu.Lock()
	defer s.mu.Unlock()
	var names []string
	for n := range s.active {
		names = append(names, n)
	}
	sort.Strings(names)
	var parts []string
	for _, n := range names {
		parts = append(parts, fmt.Sprintf("%s=%d:%s", hx(n), s.active[n].Version, hb(s.active[n].Value)))
	}
	if len(parts) == 0 {
		return "-"
	}
	return strings.Join(parts, ";")
}

// ---------- recording cache ----------

type recCache struct {
	mu        sync.Mutex
	data      []byte
	writes    [][]byte
	readFail  bool
	writeFail bool
}

func (c *recCache) Write(d []byte) error {
	c.mu.Lock()
	defer c.mu.Unlock()
	c.writes = append(c.writes, append([]byte(nil), d...))
	if c.writeFail {
		return errors.New("injected cache write failure")
	}
	c.data = append([]byte(nil), d...)
	return nil
}

func (c *recCache) Read() ([]byte, error) {
	c.mu.Lock()
	defer c.mu.Unlock()
	if c.readFail {
		return nil, errors.New("injected cache read failure")
	}
	return c.data, nil
}

func (c *recCache) takeWrites() string {
	c.mu.Lock()
	defer c.mu.Unlock()
	var parts []string
	for _, w := range c.writes {
		parts = append(parts, canonDoc(w))
		// the bytes themselves, for the text-layer model (CacheDoc.renderDoc / readDoc)
		emit("cachedoc\tcanon=%s\traw=%s", canonDoc(w), hb(w))
	}
	c.writes = nil
	if len(parts) == 0 {
		return "-"
	}
	return strings.Join(parts, "|")
}

// canonDoc decodes a cache document with the documented shape (independently of the
// store's own types) and renders it canonically: name=ver:val:lastAccess;...
// EMPTY for an empty/absent document, BAD for anything that does not decode or is not
// well-shaped.
func canonDoc(data []byte) string {
	if len(data) == 0 {
		return "EMPTY"
	}
	var doc map[string]*struct {
		Secret *struct {
			Value   []byte
			Version uint32
		} `json:"secret"`
		LastAccess json.RawMessage `json:"lastAccess"`
	}
	if err := json.Unmarshal(data, &doc); err != nil {
		return "BAD"
	}
	var names []string
	for n, e := range doc {
		if n == "" || e == nil || e.Secret == nil {
			return "BAD"
		}
		names = append(names, n)
	}
	sort.Strings(names)
	var parts []string
	for _, n := range names {
		e := doc[n]
		// `json:"lastAccess,string"`: absent, or a JSON string holding a decimal integer
		la := "0"
		if len(e.LastAccess) > 0 {
			var sv string
			if json.Unmarshal(e.LastAccess, &sv) != nil {
				return "BAD"
			}
			if _, err := strconv.ParseInt(sv, 10, 64); err != nil {
				return "BAD"
			}
			la = sv
		}
		parts = append(parts, fmt.Sprintf("%s=%d:%s:%s", hx(n), e.Secret.Version, hb(e.Secret.Value), la))
	}
	if len(parts) == 0 {
		return "NONE"
	}
	return strings.Join(parts, ";")
}

func snapString(st *setec.Store) string {
	var parts []string
	for _, e := range setec.VerifSnapshot(st) {
		if e.Nil {
			parts = append(parts, hx(e.Name)+"=nil")
			continue
		}
		parts = append(parts, fmt.Sprintf("%s=%d:%s:%d:%s:%s:%d", hx(e.Name), e.Version, hb(e.Value), e.LastAccess, b01(e.Declared), b01(e.HasHandle), e.Watchers))
	}
	if len(parts) == 0 {
		return "-"
	}
	return strings.Join(parts, ";")
}

func xlist(xs []string) string {
	ys := make([]string, len(xs))
	for i, x := range xs {
		ys[i] = "x" + hx(x)
	}
	return strings.Join(ys, "+")
}
