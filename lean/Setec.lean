-- Root of the `Setec` library: every property file (and through them models and proofs).
import Setec.Properties.C01
import Setec.Properties.C02
import Setec.Properties.C03
import Setec.Properties.C04
import Setec.Properties.C05
import Setec.Properties.C06
import Setec.Properties.C07
import Setec.Properties.C08
import Setec.Properties.C09
import Setec.Properties.C10
import Setec.Properties.C11
import Setec.Properties.C13
import Setec.Properties.C16
import Setec.Properties.C17
import Setec.Properties.C19
import Setec.Properties.C20
import Setec.Properties.C18
