-- This module serves as the root of the `Setec` library.
-- Import modules here that should be built as part of the library.
import Setec.Basic
