import Setec.Driver.DBDrv
import Setec.Driver.CryptoDrv
import Setec.Driver.FsDrv
import Setec.Driver.HttpDrv
import Setec.Driver.CliDrv
import Setec.Driver.StoreDrv
import Setec.Driver.LookupDrv
import Setec.Driver.BackupDrv
import Setec.Driver.FieldsDrv
import Setec.Driver.UpdaterDrv
import Setec.Driver.ConcDrv
import Setec.Driver.ConcStoreDrv
import Setec.Driver.AuditDrv
import Setec.Generated.Facts
open Setec.Driver

partial def loop {σ : Type} (h : IO.FS.Stream) (step : σ → Nat → String → Except String (σ × List String))
    (st : σ) (lineNo : Nat) : IO σ := do
  let line ← h.getLine
  if line.isEmpty then return st
  let line := (line.dropEndWhile (· == '\n')).toString
  if line.startsWith "stuckst\t" then
    -- the harness (a storetrace family) made no progress for eight minutes of real time: a call
    -- into the code under test has not returned and never will.  No statement admits that; it is
    -- reported against the property whose scenario was running.
    let fs := fields ((line.splitOn "\t").drop 1)
    let noteS := ((lookup fs "note").bind unhexStr).getD ""
    IO.println s!"PROPFAIL * call_returns line={lineNo} family={(lookup fs "family").getD ""}: a call into the code under test did not return (the run was stopped by the watchdog); under way: {noteS.take 1200}"
    return ← loop h step st (lineNo + 1)
  match step st lineNo line with
  | .error e =>
    IO.eprintln s!"driver: {e}"
    IO.Process.exit 2
  | .ok (st', outs) =>
    for o in outs do IO.println o
    loop h step st' (lineNo + 1)

def printCover (m : Std.HashMap String Nat) : IO Unit := do
  for (k, v) in m.toList do IO.println s!"COVER {k} {v}"

def main (args : List String) : IO UInt32 := do
  let stdin ← IO.getStdin
  match args with
  | ["db"] =>
    let st ← loop stdin dbLine {} 1
    printCover st.cover
    IO.println s!"SUMMARY family=db steps={st.steps} clause_evals={st.clauseEvals} propfail={st.fails} diverge={st.diverges}"
    return 0
  | ["auditfmt"] =>
    let st ← loop stdin auditLine {} 1
    printCover st.cover
    IO.println s!"SUMMARY family=auditfmt steps={st.cases} clause_evals={st.cases * 3} propfail={st.fails} diverge={st.diverges}"
    return 0
  | ["acl"] =>
    let d := Setec.Facts.dotNL.getD false
    let st ← loop stdin (aclLine d) {} 1
    printCover st.cover
    IO.println s!"SUMMARY family=acl steps={st.cases} clause_evals={st.cases} propfail={st.fails} diverge={st.diverges}"
    return 0
  | ["crypto"] | ["golden"] =>
    let st ← loop stdin cryptoLine {} 1
    printCover st.cover
    IO.println s!"SUMMARY family=crypto steps={st.cases} clause_evals={st.cases} propfail={st.fails} diverge={st.diverges}"
    return 0
  | ["http"] =>
    let st ← loop stdin httpLine {} 1
    printCover st.cover
    IO.println s!"SUMMARY family=http steps={st.steps} clause_evals={st.steps * 9} propfail={st.fails} diverge={st.diverges}"
    return 0
  | ["cli"] | ["bytes"] =>
    let st ← loop stdin cliLine {} 1
    printCover st.cover
    IO.println s!"SUMMARY family=cli steps={st.cases} clause_evals={st.cases} propfail={st.fails} diverge={st.diverges}"
    return 0
  | ["store"] =>
    let st ← loop stdin storeLine {} 1
    printCover st.cover
    IO.println s!"SUMMARY family=store steps={st.steps} clause_evals={st.steps * 6} propfail={st.fails} diverge={st.diverges}"
    return 0
  | ["lookup"] =>
    let st ← loop stdin lookupLine {} 1
    printCover st.cover
    IO.println s!"SUMMARY family=lookup steps={st.cases} clause_evals={st.cases * 6} propfail={st.fails} diverge={st.diverges}"
    return 0
  | ["backup"] =>
    let st ← loop stdin backupLine {} 1
    printCover st.cover
    IO.println s!"SUMMARY family=backup steps={st.cases} clause_evals={st.cases * 9} propfail={st.fails} diverge={st.diverges}"
    return 0
  | ["fields"] =>
    let st ← loop stdin fieldsLine {} 1
    printCover st.cover
    IO.println s!"SUMMARY family=fields steps={st.cases} clause_evals={st.cases * 9} propfail={st.fails} diverge={st.diverges}"
    return 0
  | ["updater"] =>
    let st ← loop stdin updaterLine {} 1
    printCover st.cover
    IO.println s!"SUMMARY family=updater steps={st.cases} clause_evals={st.cases * 7} propfail={st.fails} diverge={st.diverges}"
    return 0
  | ["conc"] =>
    let st ← loop stdin concLine {} 1
    printCover st.cover
    IO.println s!"SUMMARY family=conc steps={st.cases} clause_evals={st.nodes} propfail={st.fails} diverge={st.diverges}"
    return 0
  | ["concstore"] =>
    let st ← loop stdin concStoreLine {} 1
    printCover st.cover
    IO.println s!"SUMMARY family=concstore steps={st.cases} clause_evals={st.cases * 9} propfail={st.fails} diverge=0"
    return 0
  | ["fs"] =>
    let st ← loop stdin fsLine {} 1
    printCover st.cover
    IO.println s!"SUMMARY family=fs steps={st.cases} clause_evals={st.cases} propfail={st.fails} diverge={st.diverges}"
    return 0
  | _ =>
    IO.eprintln "usage: driver <family>"
    return 2
