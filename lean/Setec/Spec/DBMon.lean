import Setec.Model.DB
/-
Monitors for the DB family (C01, C02, C04, C06, C09 and the reopen part of C03).

Each clause is an executable predicate over one observed step
(`StepObs`: state before, caller, operation, oracles, result, audit records,
state after).  The same predicates are (a) evaluated by the driver on what the
real code did and (b) the subject of the theorems in Properties/C0x.lean, where
the observation is the one produced by `DB.step Cfg.std`.

Clauses are written from the property statements, not from the model: they use
only `Acl.allow true` (whose meaning is C07's theorem), lookups in the observed
states and the observed result.
-/
namespace Setec.DBMon
open Std Setec.KV Setec.DB Setec.Acl

/-! ### canonical, comparable views of states -/

abbrev SecCanon := List (Nat × Bytes) × Nat × Nat       -- versions, active, latest
abbrev KVCanon := List (String × SecCanon)

def secCanon (s : Secret) : SecCanon := (s.versions.toList, s.active, s.latest)
def kvCanon (kv : KV) : KVCanon := kv.secrets.toList.map fun (n, s) => (n, secCanon s)

def secEq (a b : Secret) : Bool := secCanon a == secCanon b
def optSecEq : Option Secret → Option Secret → Bool
  | none, none => true
  | some a, some b => secEq a b
  | _, _ => false
def stateEq (a b : KV) : Bool := kvCanon a == kvCanon b

/-- the view through the API: no `latest` -/
abbrev MemCanon := List (String × List (Nat × Bytes) × Nat)
def memOf (kv : KV) : MemCanon := kv.secrets.toList.map fun (n, s) => (n, s.versions.toList, s.active)

structure StepObs where
  pre : KV
  caller : Caller
  op : Op
  auditOk : Bool
  saveOk : Bool
  res : Res
  entries : List Entry
  entryBefore : Option Bool     -- every record arrived while the file still had its pre-call contents
  post : KV
  mem : Option MemCanon         -- state served through the API after the step

/-! ### what the statements say about each operation -/

/-- the action the statement requires for each operation (C01) -/
def actionOf : Op → String
  | .list => "info"
  | .info _ => "info"
  | .get _ | .getCond _ _ | .getVersion _ _ => "get"
  | .put _ _ => "put"
  | .activate _ _ => "activate"
  | .deleteVersion _ _ | .delete _ => "delete"

def nameOf : Op → String
  | .list => ""
  | .info n | .get n | .getCond n _ | .getVersion n _ | .put n _ | .activate n _
  | .deleteVersion n _ | .delete n => n

/-- the version the caller gave, if the operation takes one (C06: "and version where one was given") -/
def versionGiven : Op → Nat
  | .getVersion _ v | .activate _ v | .deleteVersion _ v => v
  | _ => 0

/-- "otherwise well-formed": put/activate refuse an empty name before any check -/
def wellFormed : Op → Bool
  | .put n _ | .activate n _ => n != ""
  | _ => true

def granted (c : Caller) (a : String) (n : String) : Bool := allow true c.rules a n.toList

def _root_.Setec.DB.Res.isError : Res → Bool
  | .denied | .notFound | .notChanged | .other => true
  | _ => false

def _root_.Setec.DB.Res.disclosesValue : Res → Bool
  | .value _ _ => true
  | _ => false

def _root_.Setec.DB.Res.disclosesAnything : Res → Bool
  | .value _ _ | .infoR _ _ _ | .version _ => true
  | .listR items => !items.isEmpty
  | _ => false

def isMutating : Op → Bool
  | .put _ _ | .activate _ _ | .deleteVersion _ _ | .delete _ => true
  | _ => false

/-! ### C01 -/

def c01_denied_noeffect (o : StepObs) : Bool :=
  match o.op with
  | .list => true
  | op =>
    if wellFormed op && !granted o.caller (actionOf op) (nameOf op) then
      o.res == .denied && stateEq o.post o.pre
    else true

def c01_effect_only_if_granted (o : StepObs) : Bool :=
  match o.op with
  | .list => true
  | op =>
    if o.res.disclosesAnything || !stateEq o.post o.pre then granted o.caller (actionOf op) (nameOf op)
    else true

/-- whichever secrets a call changed - not only the one it names - the caller holds the call's
action on exactly those names -/
def c01_changes_only_granted (o : StepObs) : Bool :=
  match o.op with
  | .list => true
  | op =>
    o.pre.secrets.toList.all (fun (m, s) => optSecEq o.post.secrets[m]? (some s) || granted o.caller (actionOf op) m) &&
    o.post.secrets.toList.all (fun (m, s) => optSecEq o.pre.secrets[m]? (some s) || granted o.caller (actionOf op) m)

def c01_list_exact (o : StepObs) : Bool :=
  match o.op, o.res with
  | .list, .listR items =>
    items == (o.pre.secrets.toList.filter (fun (n, _) => granted o.caller "info" n)).map
               (fun (n, s) => (n, s.versions.keys, s.active))
    && stateEq o.post o.pre
  | .list, r => r.isError && stateEq o.post o.pre
  | _, _ => true

/-! ### C02 -/

def secInv (s : Secret) : Bool :=
  s.versions.contains s.active && s.active ≥ 1 &&
  s.versions.keys.all (fun k => 1 ≤ k && k ≤ s.latest)

def stateInv (kv : KV) : Bool := kv.secrets.toList.all fun (n, s) => n != "" && secInv s

def c02_inv (o : StepObs) : Bool := stateInv o.post

def c02_failed_noop (o : StepObs) : Bool := if o.res.isError then stateEq o.post o.pre else true

def c02_frame (o : StepObs) : Bool :=
  let n := nameOf o.op
  o.pre.secrets.toList.all (fun (m, s) => m == n || optSecEq o.post.secrets[m]? (some s)) &&
  o.post.secrets.toList.all (fun (m, s) => m == n || optSecEq o.pre.secrets[m]? (some s))

def c02_put (o : StepObs) : Bool :=
  match o.op, o.res with
  | .put n val, .version k =>
    -- immediately retrievable with exactly the bytes put
    (match o.post.secrets[n]? with
     | some s' => s'.versions[k]? == some val
     | none => false) &&
    (match o.pre.secrets[n]?, o.post.secrets[n]? with
     | none, some s' => k == 1 && s'.active == 1 && s'.latest == 1 && s'.versions.toList == [(1, val)]
     | some s, some s' =>
       s'.active == s.active &&
       ((k == s.latest + 1 && s'.latest == k && s.versions[k]? == none) ||
        (k == s.latest && s.versions[k]? == some val && secEq s' s))
     | _, none => false)
  | _, _ => true

def c02_bytes_stable (o : StepObs) : Bool :=
  o.pre.secrets.toList.all fun (n, s) =>
    match o.op with
    | .delete m => if m == n then true else
      (match o.post.secrets[n]? with
       | some s' => s.versions.toList.all (fun (k, b) => s'.versions[k]? == none || s'.versions[k]? == some b)
       | none => true)
    | _ =>
      match o.post.secrets[n]? with
      | some s' => s.versions.toList.all (fun (k, b) => s'.versions[k]? == none || s'.versions[k]? == some b)
      | none => true

/-- C18: the bytes put under (name, version) are what get-version keeps returning: every version
of the pre-state is still there with exactly its bytes, unless this very call deleted it -/
def c18_bytes_kept (o : StepObs) : Bool :=
  o.pre.secrets.toList.all fun (n, s) =>
    s.versions.toList.all fun (k, b) =>
      let deleted := match o.op with
        | .delete m => m == n && o.res == .done
        | .deleteVersion m v => m == n && v == k && o.res == .done
        | _ => false
      deleted || (match o.post.secrets[n]? with | some s' => s'.versions[k]? == some b | none => false)

/-- every secret of `pre` is still there in `post`, serving the same version by default -/
def activeKept (pre post : KV) : Bool :=
  pre.secrets.toList.all fun (n, s) =>
    match post.secrets[n]? with
    | some s' => s'.active == s.active
    | none => false

def c02_active (o : StepObs) : Bool :=
  match o.op with
  | .activate n v =>
    (match o.res, o.post.secrets[n]? with
     | .done, some s' => s'.active == v && s'.versions.contains v
     | .done, none => false
     | _, _ => true)
  | .delete _ => true
  | _ =>
    -- only activate changes which existing version is served by default
    activeKept o.pre o.post

def c02_delete_version (o : StepObs) : Bool :=
  match o.op, o.res with
  | .deleteVersion n v, .done =>
    (match o.pre.secrets[n]?, o.post.secrets[n]? with
     | some s, some s' => v != s.active && s.versions.contains v && !s'.versions.contains v &&
                          s'.latest == s.latest && s'.active == s.active
     | _, _ => false)
  | .deleteVersion n v, _ =>
    -- the active version cannot be deleted individually
    (match o.pre.secrets[n]? with
     | some s => if v == s.active then stateEq o.post o.pre else true
     | none => true)
  | .delete n, .done => o.post.secrets[n]?.isNone
  | _, _ => true

def c02_reads (o : StepObs) : Bool :=
  match o.op, o.res with
  | .get n, .value b v =>
    (match o.pre.secrets[n]? with | some s => v == s.active && s.versions[v]? == some b | none => false)
  | .getVersion n k, .value b v =>
    (match o.pre.secrets[n]? with | some s => v == k && s.versions[k]? == some b | none => false)
  | .info n, .infoR m vs a =>
    (match o.pre.secrets[n]? with | some s => m == n && vs == s.versions.keys && a == s.active | none => false)
  | _, _ => true

/-- "every result equals that of a plain map model", for the reads, in both directions: a
caller who holds the action, with the audit log working, is answered exactly what the map
holds - the active version, the version asked for, the name's versions, every name it may see -
and "not found" exactly when the map holds nothing there.  (An existing secret whose active
version is missing is excluded by `inv`.) -/
def c02_reads_total (o : StepObs) : Bool :=
  if !o.auditOk then true else
  match o.op with
  | .get n =>
    if !granted o.caller "get" n then true else
    (match o.pre.secrets[n]? with
     | none => o.res == .notFound
     | some s => (match s.versions[s.active]? with | some b => o.res == .value b s.active | none => true))
  | .getVersion n k =>
    if !granted o.caller "get" n then true else
    (match o.pre.secrets[n]? with
     | none => o.res == .notFound
     | some s => (match s.versions[k]? with | some b => o.res == .value b k | none => o.res == .notFound))
  | .info n =>
    if !granted o.caller "info" n then true else
    (match o.pre.secrets[n]? with
     | none => o.res == .notFound
     | some s => o.res == .infoR n s.versions.keys s.active)
  | .list =>
    o.res == .listR ((o.pre.secrets.toList.filter (fun (n, _) => granted o.caller "info" n)).map
                       (fun (n, s) => (n, s.versions.keys, s.active)))
  | _ => true

/-! ### C04 (in-process part) -/

def c04_savefail_noop (o : StepObs) : Bool :=
  if !o.saveOk then stateEq o.post o.pre && o.post.gen == o.pre.gen else true

def c04_gen_iff_saved (o : StepObs) : Bool :=
  if stateEq o.post o.pre then o.post.gen == o.pre.gen else o.post.gen == o.pre.gen + 1

def c04_mem_eq_disk (o : StepObs) : Bool :=
  match o.mem with
  | some m => m == memOf o.post
  | none => false

/-! ### C06 -/

def entryMatches (o : StepObs) (e : Entry) (auth : Bool) : Bool :=
  e.principal == o.caller.principal && e.action == actionOf o.op && e.secret == nameOf o.op &&
  e.version == versionGiven o.op && e.authorized == auth

def c06_recorded (o : StepObs) : Bool :=
  match o.op with
  | .list => o.entries.length == 1 &&
      (match o.entries.head? with
       | some e => e.principal == o.caller.principal && e.action == "info" && e.secret == "" && e.authorized
       | none => false)
  | op =>
    -- a request that must be refused for lack of permission leaves exactly one record saying so
    if wellFormed op && !granted o.caller (actionOf op) (nameOf op) then
      o.entries.length == 1 && o.entries.all (entryMatches o · false)
    -- disclosure of a value, a state change, or a denial: exactly one matching record
    else if o.res.disclosesValue || !stateEq o.post o.pre then
      o.entries.length == 1 && o.entries.all (entryMatches o · true)
    else if o.res == .denied then
      o.entries.length == 1 && o.entries.all (entryMatches o · false)
    else
      o.entries.length ≤ 1 && o.entries.all (fun e => entryMatches o e e.authorized)

def c06_before_effect (o : StepObs) : Bool := o.entryBefore != some false

def c06_fail_closed (o : StepObs) : Bool :=
  if !o.auditOk && !o.entries.isEmpty then
    o.res.isError && !o.res.disclosesAnything && stateEq o.post o.pre
  else true

def c06_unchanged_silent (o : StepObs) : Bool :=
  match o.op, o.res with
  | .getCond _ _, .notChanged => o.entries.isEmpty
  | _, _ => true

/-! ### C09 -/

def c09_cond (o : StepObs) : Bool :=
  match o.op with
  | .getCond n v =>
    if granted o.caller "get" n then
      match o.pre.secrets[n]? with
      | none => o.res == .notFound
      | some s =>
        if v != 0 && s.active == v then o.res == .notChanged
        else if o.auditOk then
          (match s.versions[s.active]? with
           | some b => o.res == .value b s.active
           | none => false)
        else o.res != .notChanged && !o.res.disclosesAnything
    else o.res == .denied
  | _ => true

/-! ### correspondence with the executable specification -/

def specStep (o : StepObs) : KV × Res × List Entry := step Cfg.std o.pre o.caller o.op o.auditOk o.saveOk

def corr_res (o : StepObs) : Bool := o.res == (specStep o).2.1
def corr_state (o : StepObs) : Bool :=
  stateEq o.post (specStep o).1 && o.post.gen == (specStep o).1.gen
def corr_entries (o : StepObs) : Bool := o.entries == (specStep o).2.2

/-- All clauses: (property, clause name, predicate). -/
def clauses : List (String × String × (StepObs → Bool)) :=
  [ ("C01", "denied_noeffect", c01_denied_noeffect),
    ("C01", "effect_only_if_granted", c01_effect_only_if_granted),
    ("C01", "changes_only_granted", c01_changes_only_granted),
    ("C01", "list_exact", c01_list_exact),
    ("C02", "inv", c02_inv),
    ("C02", "failed_noop", c02_failed_noop),
    ("C02", "frame", c02_frame),
    ("C02", "put", c02_put),
    ("C02", "bytes_stable", c02_bytes_stable),
    ("C02", "active", c02_active),
    ("C02", "delete_version", c02_delete_version),
    ("C02", "reads", c02_reads),
    ("C02", "reads_total", c02_reads_total),
    ("C04", "savefail_noop", c04_savefail_noop),
    ("C04", "gen_iff_saved", c04_gen_iff_saved),
    ("C04", "mem_eq_disk", c04_mem_eq_disk),
    ("C06", "recorded", c06_recorded),
    ("C06", "before_effect", c06_before_effect),
    ("C06", "fail_closed", c06_fail_closed),
    ("C06", "unchanged_silent", c06_unchanged_silent),
    ("C09", "cond", c09_cond),
    ("C18", "acknowledged_bytes_kept", c18_bytes_kept) ]

def corrClauses : List (String × (StepObs → Bool)) :=
  [ ("res", corr_res), ("state", corr_state), ("entries", corr_entries) ]

end Setec.DBMon
