import Setec.Driver.DBDrv
import Setec.Model.Http
import Setec.Model.Wire
/- Driver for the `http` trace family (C08; HTTP legs of C01 and C09). -/
namespace Setec.Driver
open Std Setec.KV Setec.DB Setec.Acl Setec.Http Setec.DBMon

def parseCap (s : String) : Option (Option Rules) :=
  if s == "none" || s == "empty" then some (some [])
  else if s == "bad" then some none
  else if s.startsWith "r:" then (parseRules (s.drop 2).toString).map some
  else none

def containsSub (hay needle : String) : Bool :=
  needle.length > 0 && (hay.splitOn needle).length > 1

structure HttpRun where
  cur : KV := { secrets := ∅, gen := 1, disk := ∅ }
  hist : Nat := 0
  steps : Nat := 0
  fails : Nat := 0
  diverges : Nat := 0
  cover : Std.HashMap String Nat := {}

def classOfClient : Except ClientErr Res → String
  | .ok _ => "ok"
  | .error .notFound => "notfound"
  | .error .accessDenied => "denied"
  | .error .notChanged => "notchanged"
  | .error .opaque => "opaque"

def httpLine (st : HttpRun) (lineNo : Nat) (line : String) : Except String (HttpRun × List String) :=
  match line.splitOn "\t" with
  | ["begin", h] => .ok ({ st with cur := { secrets := ∅, gen := 1, disk := ∅ }, hist := h.toNat?.getD 0 }, [])
  | "init" :: rest =>
    let fs := fields rest
    match parseState ((lookup fs "disk").getD "-"), ((lookup fs "gen").getD "1").toNat? with
    | some sm, some g => .ok ({ st with cur := { secrets := sm, gen := g, disk := sm } }, [])
    | _, _ => .error s!"line {lineNo}: bad init"
  | "http" :: rest =>
    let fs := fields rest
    let get := fun k => (lookup fs k).getD ""
    match (do
      let m ← unhexStr (get "m"); let ct ← unhexStr (get "ct"); let nb ← unhexStr (get "nb")
      let addr ← unhexStr (get "addr"); let login ← unhexStr (get "login"); let node ← unhexStr (get "node")
      let tags ← parseHexList (get "tags")
      let cap1 ← parseCap (get "cap1"); let cap2 ← parseCap (get "cap2")
      let n ← unhexStr (get "n"); let v ← (get "v").toNat?; let val ← unhex (get "val")
      let status ← (get "status").toNat?; let gen ← (get "gen").toNat?
      let rbody ← unhexStr (get "rbody") <|> some "<binary>"
      pure (m, ct, nb, addr, login, node, tags, cap1, cap2, n, v, val, status, gen, rbody) : Option _) with
    | none => .error s!"line {lineNo}: cannot parse http line"
    | some (m, ct, nb, addr, login, node, tags, cap1, cap2, n, v, val, status, gen, rbody) =>
      let ep := get "ep"
      let op? : Option Op :=
        if get "bodyok" != "1" then none else
        match ep with
        | "list" => some .list
        | "info" => some (.info n)
        | "get" => some (getOp n v (get "uic" == "1"))
        | "put" => some (.put n val)
        | "activate" => some (.activate n v)
        | "delete-version" => some (.deleteVersion n v)
        | "delete" => some (.delete n)
        | _ => none
      let req : Req :=
        { method := m, contentType := if ct.isEmpty then none else some ct,
          noBrowsers := if nb.isEmpty then none else some nb,
          addrOk := get "addrok" == "1", addr := addr, op := op?,
          who := { fails := get "whofail" == "1", tags := tags, login := login, node := node, cap := cap1, capHttps := cap2 } }
      let tag := s!"hist={st.hist} line={lineNo}"
      let post? := (parseState (get "disk")).map fun sm => ({ secrets := sm, gen := gen, disk := sm } : KV)
      let post := post?.getD st.cur
      let ents? := if (get "ent").startsWith "MALFORMED" then none else parseEntries (get "ent")
      let ents := ents?.getD []
      -- entries carry the principal as hex of host|ip|user|tags
      let ents := ents.map fun e => { e with principal := (unhexStr e.principal).getD e.principal }
      let (mresp, mkv, ments) := serve Cfg.std st.cur req true true
      let isAccepted := m == "POST" && ct == "application/json" && nb == "setec" && (identity req).isSome && op?.isSome
      let changed := !stateEq post st.cur
      -- every stored value and the request's own value, as hex, must not occur in a non-200 body
      let secretsHex := (st.cur.secrets.toList.flatMap fun (_, s) => s.versions.toList.map fun (_, b) => hexBytes b) ++ [hexBytes val]
      let leak := status != 200 && secretsHex.any fun h => h.length ≥ 8 && containsSub (get "rbody") h
      let codeRes := if status == 200 then parseRes (get "res") else none
      let out : List String :=
        -- C08 gates
        (if !isAccepted && !(((status < 200 || status ≥ 300)) && !changed && ents.isEmpty)
          then [s!"PROPFAIL C08 gates {tag} ep={ep} status={status} changed={changed} entries={ents.length} m={m} ct={ct} nb={nb}"] else []) ++
        (if leak then [s!"PROPFAIL C08 no_secret_in_non200 {tag} ep={ep} status={status} rbody={(get "rbody").take 200}"] else []) ++
        -- C08 status mapping for accepted requests (the statement fixes 200/304/403/404; "other" = any other non-2xx)
        (if isAccepted then
          let want := mresp.status
          let okStatus := if want == 500 then (status ≥ 400 && status != 403 && status != 404) else status == want
          let okBody := if want == 200 then codeRes == mresp.body else if want == 304 then (get "rbody").isEmpty else true
          (if okStatus && okBody then [] else
            [s!"PROPFAIL C08 status_exact {tag} ep={ep} n={get "n"} v={v} status={status} want={want} res={get "res"} rbody={rbody.take 80}"])
         else []) ++
        -- C08 identity: every record names exactly the identity the tailnet gave
        (if ents.all (fun e => e.principal == principalOf req) then [] else
          [s!"PROPFAIL C08 identity_exact {tag} got={(ents.map (·.principal))} want={principalOf req}"]) ++
        -- C01 over HTTP: no grant -> 403, nothing changes
        (match identity req, op? with
         | some c, some op =>
           if isAccepted && op != .list && wellFormed op && !granted c (actionOf op) (nameOf op) then
             (if status == 403 && !changed then [] else [s!"PROPFAIL C01 http_denied_403 {tag} ep={ep} status={status} changed={changed}"])
           else []
         | _, _ => []) ++
        -- C06 over HTTP: an accepted request leaves exactly the records the specification requires
        -- (one for every disclosure, mutation attempt and denial; none for an unchanged conditional get)
        (if isAccepted && ents != ments then
          [s!"PROPFAIL C06 recorded {tag} ep={ep} status={status} code={showEntries ents} spec={showEntries ments}"] else []) ++
        -- C09 over HTTP + client: sentinel classes
        (if get "via" == "client" then
          let want := classOfClient (clientResult mresp)
          let got := get "cli"
          (if want == got || (want == "opaque" && got == "opaque") then [] else
            [s!"PROPFAIL C09 client_sentinel {tag} ep={ep} n={get "n"} v={v} uic={get "uic"} cli={got} want={want} status={status}"])
         else []) ++
        -- the wire text of a 200 answer reads back as the outcome and is what the model renders
        (if status == 200 && isAccepted then
          let rb := (rbody.replace "\"Value\":null" "\"Value\":\"\"").replace "\"Versions\":null" "\"Versions\":[]"
          let rb := if rb == "null" && ep == "list" then "[]" else rb
          match mresp.body with
          | some r =>
            (if Wire.readRes ep rb.toList == some r then [] else [s!"PROPFAIL C18 wire_reads_back {tag} ep={ep} rbody={(get "rbody").take 300}"]) ++
            (if Wire.renderRes r == rb.toList then [] else [s!"DIVERGE wire_bytes {tag} ep={ep} code={(get "rbody").take 200} model={(hexStr (String.ofList (Wire.renderRes r))).take 200}"])
          | none => []
         else []) ++
        -- what the real client put on the wire for the requests that carry bytes or the conditional-get arguments
        (match lookup fs "creq" with
         | some ch =>
           (match (unhexStr ch).map (fun t => (t.replace "\"Value\":null" "\"Value\":\"\"").toList) with
            | some cr =>
              if ep == "get" then
                (if Wire.readGetReq cr == some (n, v, get "uic" == "1") then [] else [s!"PROPFAIL C09 client_request {tag} n={get "n"} v={v} uic={get "uic"} creq={ch.take 200}"]) ++
                (if Wire.renderGetReq n v (get "uic" == "1") == cr then [] else [s!"DIVERGE wire_request {tag} ep={ep} code={ch.take 200}"])
              else if ep == "put" then
                (if Wire.readPutReq cr == some (n, val) then [] else [s!"PROPFAIL C18 request_carries_bytes {tag} n={get "n"} creq={ch.take 200}"]) ++
                (if Wire.renderPutReq n val == cr then [] else [s!"DIVERGE wire_request {tag} ep={ep} code={ch.take 200}"])
              else []
            | none => [s!"PROPFAIL C18 request_carries_bytes {tag} the client's request body is not UTF-8 text"])
         | none => []) ++
        -- correspondence
        (if mresp.status == status && (status == 200 || mresp.text == rbody) then [] else
          [s!"DIVERGE http_response {tag} ep={ep} code_status={status} model_status={mresp.status} code_body={rbody.take 60} model_body={mresp.text.take 60}"]) ++
        (if stateEq post mkv && post.gen == mkv.gen then [] else [s!"DIVERGE http_state {tag} ep={ep} code={showState post} model={showState mkv}"]) ++
        (if ents == ments then [] else [s!"DIVERGE http_entries {tag} ep={ep} code={showEntries ents} model={showEntries ments}"]) ++
        (if post?.isNone then [s!"PROPFAIL C08 disk_readable {tag}"] else [])
      let nf := (out.filter (·.startsWith "PROPFAIL")).length
      let key := s!"{ep}:{status}:{if isAccepted then "acc" else "rej"}:{get "via"}:{if changed then "chg" else "same"}"
      .ok ({ st with cur := post, steps := st.steps + 1, fails := st.fails + nf, diverges := st.diverges + (out.length - nf),
                     cover := bump st.cover key }, out)
  | "clientfault" :: rest =>
    -- the client's first exchange was answered 502 before reaching the server: the call reports
    -- an (opaque) error, makes no other request, and nothing changes
    let fs := fields rest
    let get := fun k => (lookup fs k).getD ""
    let ok := get "cli" == "opaque" && get "exchanges" == "1" && get "changed" == "0"
    if ok then .ok ({ st with steps := st.steps + 1, cover := bump st.cover s!"clientfault:{get "ep"}" }, []) else
      .ok ({ st with steps := st.steps + 1, fails := st.fails + 1 },
           [s!"PROPFAIL C09 client_sentinel hist={st.hist} line={lineNo} ep={get "ep"} kind={get "kind"} cli={get "cli"} exchanges={get "exchanges"} changed={get "changed"} (a gateway error must surface as an error)"])
  | "httphang" :: rest =>
    -- a request that is never answered: no statement about the front door, the ACL or the
    -- conditional get admits it (every request ends in one of the specified answers)
    let fs := fields rest
    let get := fun k => (lookup fs k).getD ""
    let what := s!"hist={st.hist} line={lineNo} ep={get "ep"} kind={get "kind"} n={(get "n").take 80} v={get "v"} via={get "via"}: the handler did not return within 60 s"
    .ok ({ st with steps := st.steps + 1, fails := st.fails + 3 },
         [s!"PROPFAIL C08 every_request_answered {what}", s!"PROPFAIL C09 four_outcomes {what}", s!"PROPFAIL C01 result_is_specified {what}"])
  | "stuck" :: rest =>
    -- the harness made no progress for three minutes: a call into the code under test has
    -- not returned and never will.  No statement admits a call that is never answered.
    let fs := fields rest
    let note := ((lookup fs "note").bind unhexStr).getD ""
    let what := s!"line={lineNo} a call did not return (the run was stopped by the watchdog): {note.take 1500}"
    .ok ({ st with fails := st.fails + 5 }, [s!"PROPFAIL C08 every_request_answered {what}", s!"PROPFAIL C09 four_outcomes {what}", s!"PROPFAIL C01 result_is_specified {what}", s!"PROPFAIL C06 call_returns {what}", s!"PROPFAIL C18 call_returns {what}"])
  | _ =>
    if line.startsWith "#" || line.isEmpty then .ok (st, []) else .error s!"line {lineNo}: unknown line kind"

end Setec.Driver
