import Setec.Driver.Util
import Setec.Model.Cli
import Setec.Model.Base64
/- Driver for the `cli` and `bytes` trace families (C18). -/
namespace Setec.Driver
open Setec.Cli

structure CliRun where
  cases : Nat := 0
  fails : Nat := 0
  diverges : Nat := 0
  cover : Std.HashMap String Nat := {}

def cliLine (st : CliRun) (lineNo : Nat) (line : String) : Except String (CliRun × List String) :=
  match line.splitOn "\t" with
  | "cli" :: rest =>
    let fs := fields rest
    let get := fun k => (lookup fs k).getD ""
    match unhex (get "value"), unhex (get "trimmed") with
    | some value, some trimmed =>
      let f : Flags := { verbatim := get "verbatim" == "1", trimSpace := get "trim" == "1", emptyOK := get "emptyok" == "1" }
      let want := Cli.put (get "valid" == "1") value trimmed f
      let ok := match want with
        | .refuse => get "exit" != "0" && get "contacted" == "0" && get "stored" == "-"
        | .send b => get "exit" == "0" && get "stored" == "x" ++ hexBytes b
      let outs := if ok then [] else
        [s!"PROPFAIL C18 cli_policy line={lineNo} valid={get "valid"} value={get "value"} flags=v{get "verbatim"}t{get "trim"}e{get "emptyok"} src={get "src"} exit={get "exit"} contacted={get "contacted"} stored={get "stored"}"]
      let key := s!"cli:{get "valid"}:{if trimmed.length == value.length then "clean" else "spaced"}:{if value.isEmpty then "empty" else "nonempty"}:v{get "verbatim"}t{get "trim"}e{get "emptyok"}:{get "src"}:{if get "exit" == "0" then "sent" else "refused"}"
      .ok ({ st with cases := st.cases + 1, fails := st.fails + outs.length, cover := bump st.cover key }, outs)
    | _, _ => .error s!"line {lineNo}: bad hex"
  | "b64" :: rest =>
    let fs := fields rest
    let get := fun k => (lookup fs k).getD ""
    match unhex (get "raw"), unhexStr (get "enc") with
    | some raw, some enc =>
      let mine := String.ofList (Setec.Base64.encode raw)
      let back := Setec.Base64.decode enc.toList
      let outs := (if mine == enc then [] else [s!"DIVERGE base64_encode line={lineNo} raw={get "raw"} go={enc} lean={mine}"]) ++
                  (if back == some raw then [] else [s!"DIVERGE base64_decode line={lineNo} raw={get "raw"} enc={enc}"])
      .ok ({ st with cases := st.cases + 1, diverges := st.diverges + outs.length, cover := bump st.cover s!"b64:len%3={raw.length % 3}" }, outs)
    | _, _ => .error s!"line {lineNo}: bad b64 line"
  | "clibig" :: rest =>
    -- a binary value of more than a mebibyte: sent exactly as read, from a file or a pipe
    let fs := fields rest
    let get := fun k => (lookup fs k).getD ""
    let ok := get "exit" == "0" && get "match" == "1"
    let outs := if ok then [] else [s!"PROPFAIL C18 cli_policy line={lineNo} large binary value src={get "src"} len={get "len"} exit={get "exit"} stored_len={get "storedlen"} match={get "match"}"]
    .ok ({ st with cases := st.cases + 1, fails := st.fails + outs.length, cover := bump st.cover s!"clibig:{get "src"}" }, outs)
  | "bytes" :: rest =>
    let fs := fields rest
    let get := fun k => (lookup fs k).getD ""
    let put := get "put"
    let paths := ["get", "getver", "store", "cache", "restart", "restartver"]
    let bad := paths.filter fun p => get p != put
    -- the file-backed client serves every non-empty secret identically; an empty one is absent
    let fcOK := if get "len" == "0" then get "fileclient" == "notfound" || get "fileclient" == put else get "fileclient" == put
    let outs := (if bad.isEmpty then [] else [s!"PROPFAIL C18 value_roundtrip line={lineNo} class={get "class"} len={get "len"} differs_at={bad} put={put.take 80}"]) ++
                (if get "recreated" == "0" then [s!"PROPFAIL C18 value_roundtrip line={lineNo} class={get "class"} len={get "len"} after delete and re-creation the name serves other bytes than were put last"] else []) ++
                (if fcOK then [] else [s!"PROPFAIL C18 fileclient_roundtrip line={lineNo} class={get "class"} len={get "len"} fileclient={(get "fileclient").take 80} put={put.take 80}"])
    .ok ({ st with cases := st.cases + 1, fails := st.fails + outs.length, cover := bump st.cover s!"bytes:{get "class"}" }, outs)
  | _ =>
    if line.startsWith "#" || line.isEmpty then .ok (st, []) else .error s!"line {lineNo}: unknown line kind"

end Setec.Driver
