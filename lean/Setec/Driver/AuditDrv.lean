import Setec.Driver.Util
import Setec.Model.Json
/- Driver for the `auditfmt` trace family (C06: the record as bytes on the log). -/
namespace Setec.Driver
open Setec.Json

structure AuRun where
  cases : Nat := 0
  fails : Nat := 0
  diverges : Nat := 0
  cover : Std.HashMap String Nat := {}

def parseTagList (s : String) : Option (List Str) :=
  if s.isEmpty then some [] else
  (s.splitOn "+").mapM fun t => (unhexStr (t.drop 1).toString).map String.toList

def strClass (s : Str) : String :=
  if s.isEmpty then "empty"
  else if s.any (fun c => c.toNat < 32) then "ctl"
  else if s.any (fun c => c == '"' || c == '\\') then "quote"
  else if s.any (fun c => c == '<' || c == '>' || c == '&' || c.toNat == 0x2028 || c.toNat == 0x2029) then "html"
  else if s.any (fun c => c.toNat ≥ 128) then "uni"
  else "plain"

def auditLine (st : AuRun) (lineNo : Nat) (line : String) : Except String (AuRun × List String) :=
  match line.splitOn "\t" with
  | "audit" :: rest =>
    let fs := fields rest
    let get := fun k => (lookup fs k).getD ""
    let tag := s!"line={lineNo}"
    match unhex (get "raw") with
    | none => .error s!"line {lineNo}: bad raw"
    | some rawBytes =>
      let nl := (rawBytes.filter (· == 10)).length
      let oneLine := nl == 1 && rawBytes.getLast? == some 10
      let o1 := if oneLine then [] else [s!"PROPFAIL C06 record_one_line {tag} raw={get "raw"}"]
      if get "valid" != "1" then
        .ok ({ st with cases := st.cases + 1, fails := st.fails + o1.length, cover := bump st.cover "audit:invalid-utf8" }, o1)
      else
        match (do
          let host ← unhexStr (get "host"); let ip ← unhexStr (get "ip"); let user ← unhexStr (get "user")
          let tags ← parseTagList (get "tags"); let action ← unhexStr (get "action"); let secret ← unhexStr (get "secret")
          let ver ← (get "ver").toNat?; let id ← (get "id").toNat?
          let raw ← String.fromUTF8? (ByteArray.mk rawBytes.toArray)
          pure (({ principal := { hostname := host.toList, ip := ip.toList, user := user.toList, tags := tags },
                   action := action.toList, authorized := get "auth" == "1", secret := secret.toList, version := ver } : Record), id, raw.toList) : Option _) with
        | none => .error s!"line {lineNo}: cannot parse audit line"
        | some (rec, id, raw) =>
          let outs := o1 ++
            (match parseLine raw with
             | some (id', time, rec', tl) =>
               (if rec' == rec && id' == id && tl == ['\n'] then [] else
                 [s!"PROPFAIL C06 record_names_fields {tag} the line does not read back as the entry that was written raw={get "raw"}"]) ++
               (if renderLine id' time rec == raw then [] else
                 [s!"DIVERGE audit_render {tag} code={get "raw"} model={hexStr (String.ofList (renderLine id' time rec))}"])
             | none =>
               [s!"PROPFAIL C06 record_names_fields {tag} the line does not parse in the documented layout raw={get "raw"}",
                s!"DIVERGE audit_render {tag} code={get "raw"} model=unparsed"])
          let nf := (outs.filter (·.startsWith "PROPFAIL")).length
          let key := s!"audit:h={strClass rec.principal.hostname}:s={strClass rec.secret}:u={if rec.principal.user.isEmpty then 0 else 1}:t={min rec.principal.tags.length 2}:v={if rec.version == 0 then 0 else 1}"
          .ok ({ st with cases := st.cases + 1, fails := st.fails + nf, diverges := st.diverges + (outs.length - nf), cover := bump st.cover key }, outs)
  | "auditfile" :: rest =>
    -- the log shared by two writers, or rotated in place: every record is a whole line
    let fs := fields rest
    let get := fun k => (lookup fs k).getD ""
    let ok := get "lines" == get "want" && get "wellformed" == "1" && get "nul" == "0"
    let outs := if ok then [] else
      [s!"PROPFAIL C06 record_wellformed line={lineNo} audit file, kind={get "kind"}: {get "lines"} whole records found, {get "want"} written; every line well-formed={get "wellformed"}; NUL bytes in the file={get "nul"} (records must be appended, one whole line each)"]
    .ok ({ st with cases := st.cases + 1, fails := st.fails + outs.length, cover := bump st.cover s!"auditfile:{get "kind"}" }, outs)
  | "afterclose" :: rest =>
    -- the audit log has been closed (shutdown) and a request still arrives: fail closed - the
    -- call is refused, the database file and the log stay as they were
    let fs := fields rest
    let get := fun k => (lookup fs k).getD ""
    let ok := get "res" == "err" && get "dbsame" == "1" && get "logsame" == "1"
    let outs := if ok then [] else
      [s!"PROPFAIL C06 fail_closed line={lineNo} after the audit log was closed ({get "closes"} Close call(s)) op={get "op"} res={get "res"} dbsame={get "dbsame"} logsame={get "logsame"}: a call must be refused when its record cannot be written"]
    .ok ({ st with cases := st.cases + 1, fails := st.fails + outs.length, cover := bump st.cover s!"afterclose:{get "op"}:{get "res"}" }, outs)
  | _ => if line.startsWith "#" || line.isEmpty then .ok (st, []) else .error s!"line {lineNo}: unknown line kind"

end Setec.Driver
