import Setec.Driver.Util
import Setec.Model.Fields
import Setec.Generated.Facts
/- Driver for the `fields` trace family (C20). -/
namespace Setec.Driver
open Setec.KV Setec.Fields

structure FdRun where
  cases : Nat := 0
  fails : Nat := 0
  diverges : Nat := 0
  cover : Std.HashMap String Nat := {}

def startsWithBad (b : Bytes) : Bool := b.take 3 == [98, 97, 100]

def showParseErr : ParseErr → String
  | .notPointerToStruct => "notptr"
  | .emptyName _ => "emptyname"
  | .unsupported _ => "unsupported"
  | .noFields => "nofields"

def parseXList (s : String) : Option (List String) :=
  if s.isEmpty || s == "-" then some [] else
  (s.splitOn "+").mapM fun x => if x.startsWith "x" then unhexStr (x.drop 1).toString else none

def dedupKeep (l : List String) : List String := l.foldl (fun acc x => if acc.contains x then acc else acc ++ [x]) []

def parseShape (s : String) : Option (List (String × String × Option String)) :=
  (s.splitOn ";").mapM fun f =>
    match f.splitOn ":" with
    | [fname, kind, tag] => do
      let tag ← if tag == "-" then some none else (unhexStr (tag.drop 1).toString).map some
      pure (fname, kind, tag)
    | _ => none

def parseSvcVals (s : String) : Option (List (String × Bytes)) :=
  if s.isEmpty then some [] else
  (s.splitOn ";").mapM fun kv =>
    match kv.splitOn "=" with
    | [n, v] => do let n ← unhexStr n; let v ← unhex v; pure (n, v)
    | _ => none

def fieldsLine (st : FdRun) (lineNo : Nat) (line : String) : Except String (FdRun × List String) :=
  match line.splitOn "\t" with
  | "fields" :: rest =>
    let fs := fields rest
    let get := fun k => (lookup fs k).getD ""
    match (do
      let pfxRaw ← unhexStr (get "prefix")
      -- names are joined with path.Join, which also tidies the prefix ("dev/", "./dev" are "dev")
      let pfx := if pfxRaw.startsWith "./" then (pfxRaw.drop 2).toString else pfxRaw
      let pfx := if pfx.endsWith "/" then (pfx.dropEnd 1).toString else pfx
      let shape ← parseShape (get "shape")
      let svc ← parseSvcVals (get "svc")
      let names ← parseXList (get "names")
      let reqs ← parseXList (get "reqs")
      pure (pfx, shape, svc, names, reqs) : Option _) with
    | none => .error s!"line {lineNo}: cannot parse fields line"
    | some (pfx, shape, svc, names, reqs) =>
      let tag := s!"line={lineNo} via={get "via"} shape={get "shape"} prefix={get "prefix"}"
      let aerrTxt := if (get "aerr").startsWith "x" then (unhexStr ((get "aerr").drop 1).toString).getD "" else ""
      -- fields the joined error mentions
      let mentioned := fun (fname : String) => (aerrTxt.splitOn s!"to field \"{fname}\"").length > 1
      let flds : List Field := shape.map fun (fname, kind, tg) =>
        { fname := fname, tag := tg,
          kind := match kind with
            | "bytes" => .bytes | "string" => .string | "secret" => .secret
            | "bin" => .unmarshaler (fun b => !startsWithBad b)
            | _ => .other }
      let ptr := get "ptr" == "1"
      let parsed := parseFields ptr flds
      let perr := get "perr"
      let viaNew := get "via" == "newstore"
      let outs : List String :=
        match parsed with
        | .error e =>
          (if perr == showParseErr e then [] else [s!"PROPFAIL C20 rejects_upfront {tag} code={perr} model={showParseErr e}"]) ++
          (if reqs.isEmpty then [] else [s!"PROPFAIL C20 no_request_after_reject {tag} reqs={get "reqs"}"])
        | .ok ps =>
          let wantNames := secretNames pfx ps
          let held : String → Option Held := fun n => (svc.lookup n).map fun v => { buf := 0, content := v }
          let clone := Setec.Facts.fieldsBytesCloned.getD false
          -- encoding/json's verdict on a json-tagged field is an oracle: taken from the joined error
          -- ... but is cross-checked against encoding/json asked directly (jsonok=field:0|1:decoded)
          let jsonOK : List (String × Bool × String) := ((get "jsonok").splitOn ";").filterMap fun it =>
            match it.splitOn ":" with | [f, ok, w] => some (f, ok == "1", w) | _ => none
          let oracle := fun (fname : String) => match jsonOK.lookup fname with
            | some (ok, _) => ok
            | none => !mentioned fname
          let (vals, failed) := applyAll clone (fun fname _ => oracle fname) held pfx 1 ps
          let codeVals : List (String × String) := ((get "vals").splitOn ";").filterMap fun kv =>
            match kv.splitOn "=" with | [k, v] => some (k, v) | _ => none
          let expectVal := fun (v : Val) => match v with
            | .bytes _ c => some s!"bytes:{hexBytes c}"
            | .str c => some s!"str:{hexBytes c}"
            | .handle n => (svc.lookup n).map fun c => s!"handle:{hexBytes c}"
            | .unmarshaled c => some s!"bin:{hexBytes c}"
            | _ => none
          -- a ",json" field holds what decoding the whole secret yields
          let wrongJson := jsonOK.filter fun (fname, ok, want) =>
            ok && (vals.any fun (f, v) => f == fname && (match v with | .decoded _ => true | _ => false)) &&
              (match codeVals.lookup fname with
               | some c => c.startsWith "json:" && c != s!"json:{want}"
               | none => false)
          let wrongVals := vals.filter fun (fname, v) =>
            match expectVal v, codeVals.lookup fname with
            | some e, some c => e != c
            | some _, none => true
            | none, _ => false
          let codeFailed := ps.filter fun p => mentioned p.fname
          let after := ((get "store_after").splitOn ";").filterMap fun kv =>
            match kv.splitOn "=" with
            | [n, v] => (match v.splitOn ":" with | [a, b] => some (n, a, b) | _ => none)
            | _ => none
          let aliased := after.filter fun (_, a, b) => a != b
          (if perr == "-" then [] else [s!"PROPFAIL C20 accepts_valid_shape {tag} perr={perr}"]) ++
          (if get "aerr" == "xTIMEOUT" then
            [s!"PROPFAIL C10 init_complete {tag} construction with struct-tagged secrets that are all present at the service did not finish: names={names} want={wantNames}"] else []) ++
          (if perr != "-" || names == wantNames then [] else [s!"PROPFAIL C20 names_exact {tag} names={names} want={wantNames}"]) ++
          (if perr != "-" || (reqs.all fun r => wantNames.contains r || ((parseXList (get "listed")).getD []).contains r) then [] else [s!"PROPFAIL C20 requests_only_named {tag} reqs={reqs} names={wantNames}"]) ++
          (if perr.startsWith "panic" then [s!"PROPFAIL C10 no_panic_on_duplicates {tag} perr={perr}"] else []) ++
          (if perr == "-" && viaNew && !(wantNames.all fun n => reqs.contains n) then [s!"PROPFAIL C20 all_named_requested {tag} reqs={reqs} names={wantNames}"] else []) ++
          (if perr != "-" || (get "aerr") != "-" && viaNew || wrongJson.isEmpty then [] else [s!"PROPFAIL C20 apply_fills {tag} wrong_json={wrongJson.map (·.1)} vals={get "vals"}"]) ++
          (if perr != "-" || wrongVals.isEmpty then [] else [s!"PROPFAIL C20 apply_fills {tag} wrong={wrongVals.map (·.1)} vals={get "vals"}"]) ++
          (if get "third" == "-" || get "third" == "ok" || get "third" == "" then [] else
            [s!"PROPFAIL C20 field_holds_exactly_the_value {tag} third={(get "third").take 400} (scenarios of their own: fields that already held something and the same Fields applied to a first store and then, after it was closed, to a second one with other, shorter values; the documented pattern NewStore(Secrets: f.Secrets()) then f.Apply with tags not in alphabetical order; a store with lookups disabled that knows two of four names - after each Apply a plain field holds exactly its own secret's bytes from that store, and a field that cannot be filled does not keep the others from being filled)"]) ++
          (if get "second" == "-" || (get "second").endsWith ":ok" then [] else
            [s!"PROPFAIL C20 apply_fills {tag} second={get "second"} (a pointer field whose first decode failed stays unfilled after the secret was repaired and the Fields applied again)"]) ++
          (if get "untouched" == "1" then [] else [s!"PROPFAIL C20 untagged_untouched {tag} vals={get "vals"}"]) ++
          -- every failure the model knows of (missing secret, rejecting unmarshaler) must be reported...
          (if perr != "-" || (failed.all fun f => mentioned f) then [] else [s!"PROPFAIL C20 errors_reported {tag} failed={failed} aerr={aerrTxt.take 200}"]) ++
          -- ...and must not stop the other fields (checked by apply_fills on the rest)
          (if aliased.isEmpty then [] else
            [s!"PROPFAIL C20 bytes_private {tag} store_after={get "store_after"}",
             s!"PROPFAIL C12 really_served {tag} after the struct's owner wrote to its []byte field a handle yields bytes the service never served: store_after={get "store_after"}"]) ++
          (if perr != "-" || (codeFailed.map (·.fname)) == failed || !(get "aerr").startsWith "x" && failed.isEmpty then [] else
            [s!"DIVERGE fields_failed {tag} code={codeFailed.map (·.fname)} model={failed}"])
      let nf := (outs.filter (·.startsWith "PROPFAIL")).length
      let key := s!"fields:{get "via"}:{perr.take 12}:n{min shape.length 8}:{if (get "aerr") == "-" then "ok" else "aerr"}:{if (get "store_after") == "-" then "nostore" else "store"}"
      .ok ({ st with cases := st.cases + 1, fails := st.fails + nf, diverges := st.diverges + (outs.length - nf), cover := bump st.cover key }, outs)
  | _ => if line.startsWith "#" || line.isEmpty then .ok (st, []) else .error s!"line {lineNo}: unknown line kind"

end Setec.Driver
