import Setec.Driver.Util
import Setec.Spec.DBMon
import Setec.Model.DBText
/- Driver for the `acl` and `db` trace families. -/
namespace Setec.Driver
open Std Setec.KV Setec.DB Setec.Acl Setec.DBMon

/-! ### parsing -/

def parseHexList (s : String) : Option (List String) :=
  if s.isEmpty then some [] else
  (s.splitOn "+").mapM fun x =>
    if x.startsWith "x" then unhexStr (x.drop 1).toString else none

def parseRules (s : String) : Option Rules :=
  if s == "-" then some [] else
  (s.splitOn ";").mapM fun r =>
    match r.splitOn "|" with
    | [a, p] => do
      let acts ← parseHexList a
      let pats ← parseHexList p
      pure { actions := acts, secrets := pats.map String.toList }
    | _ => none

def parseVersions (s : String) : Option VMap :=
  if s.isEmpty then some ∅ else
  (s.splitOn ",").foldlM (init := (∅ : VMap)) fun m item =>
    match item.splitOn ":" with
    | [k, h] => do
      let k ← k.toNat?
      let b ← unhex h
      pure (m.insert k b)
    | _ => none

/-- `namehex=1:hex,2:hex@A^L;...` ; without `^L` the latest is taken as 0 -/
def parseState (s : String) : Option SMap :=
  if s == "-" then some ∅ else
  (s.splitOn ";").foldlM (init := (∅ : SMap)) fun m item =>
    match item.splitOn "=" with
    | [nh, rest] =>
      match rest.splitOn "@" with
      | [vs, al] => do
        let n ← unhexStr nh
        let vm ← parseVersions vs
        let (a, l) ← (match al.splitOn "^" with
          | [a] => do let a ← a.toNat?; pure (a, 0)
          | [a, l] => do let a ← a.toNat?; let l ← l.toNat?; pure (a, l)
          | _ => none)
        pure (m.insert n { versions := vm, active := a, latest := l })
      | _ => none
    | _ => none

def parseMem (s : String) : Option MemCanon :=
  (parseState s).map fun m => m.toList.map fun (n, sec) => (n, sec.versions.toList, sec.active)

def parseRes (s : String) : Option Res :=
  match s.splitOn ":" with
  | ["done"] => some .done
  | ["denied"] => some .denied
  | ["notfound"] => some .notFound
  | ["notchanged"] => some .notChanged
  | ["other"] => some .other
  | ["version", v] => v.toNat?.map .version
  | ["value", h, v] => do let b ← unhex h; let v ← v.toNat?; pure (.value b v)
  | ["info", nh, vs, a] => do
    let n ← unhexStr nh; let vs ← natList vs; let a ← a.toNat?; pure (.infoR n vs a)
  | ["list", items] =>
    if items.isEmpty then some (.listR []) else do
      let xs ← (items.splitOn ";").mapM fun it =>
        match it.splitOn "/" with
        | [nh, vs, a] => do
          let n ← unhexStr nh; let vs ← natList vs; let a ← a.toNat?; pure (n, vs, a)
        | _ => none
      pure (.listR xs)
  | _ => none

def showRes : Res → String
  | .done => "done" | .denied => "denied" | .notFound => "notfound" | .notChanged => "notchanged"
  | .other => "other"
  | .version v => s!"version:{v}"
  | .value b v => s!"value:{hexBytes b}:{v}"
  | .infoR n vs a => s!"info:{hexStr n}:{showNatList vs}:{a}"
  | .listR xs => "list:" ++ joinWith ";" (xs.map fun (n, vs, a) => s!"{hexStr n}/{showNatList vs}/{a}")

def resClass : Res → String
  | .done => "done" | .denied => "denied" | .notFound => "notfound" | .notChanged => "notchanged"
  | .other => "other" | .version _ => "version" | .value _ _ => "value" | .infoR _ _ _ => "info"
  | .listR _ => "list"

def parseEntries (s : String) : Option (List Entry) :=
  if s.isEmpty then some [] else
  (s.splitOn ";").mapM fun e =>
    match e.splitOn "," with
    | [p, a, n, v, au] => do
      let a ← unhexStr a; let n ← unhexStr n; let v ← v.toNat?
      pure { principal := p, action := a, secret := n, version := v, authorized := au == "1" }
    | _ => none

def showEntries (es : List Entry) : String :=
  joinWith ";" (es.map fun e => s!"{e.principal},{hexStr e.action},{hexStr e.secret},{e.version},{if e.authorized then 1 else 0}")

def showState (kv : KV) : String :=
  if kv.secrets.isEmpty then "-" else
  joinWith ";" (kv.secrets.toList.map fun (n, s) =>
    s!"{hexStr n}=" ++ joinWith "," (s.versions.toList.map fun (k, b) => s!"{k}:{hexBytes b}") ++ s!"@{s.active}^{s.latest}")

def parseOp (kind : String) (n : String) (v : Nat) (val : Bytes) : Option Op :=
  match kind with
  | "list" => some .list
  | "info" => some (.info n)
  | "get" => some (.get n)
  | "getcond" => some (.getCond n v)
  | "getver" => some (.getVersion n v)
  | "put" => some (.put n val)
  | "activate" => some (.activate n v)
  | "delver" => some (.deleteVersion n v)
  | "delete" => some (.delete n)
  | _ => none

/-! ### running -/

structure DBRun where
  callers : Array Caller := #[]
  cur : KV := { secrets := ∅, gen := 1, disk := ∅ }
  hist : Nat := 0
  steps : Nat := 0
  fails : Nat := 0
  diverges : Nat := 0
  cover : Std.HashMap String Nat := {}
  clauseEvals : Nat := 0


/-- Process one line; returns new state and output lines (only problems are printed). -/
def dbLine (st : DBRun) (lineNo : Nat) (line : String) : Except String (DBRun × List String) :=
  let parts := line.splitOn "\t"
  match parts with
  | ["begin", h] => .ok ({ st with callers := #[], cur := { secrets := ∅, gen := 1, disk := ∅ }, hist := h.toNat?.getD 0 }, [])
  | ["caller", _, p, rules] =>
    match parseRules rules with
    | some rs => .ok ({ st with callers := st.callers.push { principal := p, rules := rs } }, [])
    | none => .error s!"line {lineNo}: bad rules"
  | "step" :: rest =>
    let fs := fields rest
    let get := fun k => (lookup fs k).getD ""
    match (do
      let c ← (get "c").toNat?
      let caller ← st.callers[c]?
      let n ← unhexStr (get "n")
      let v ← (get "v").toNat?
      let val ← unhex (get "val")
      let op ← parseOp (get "op") n v val
      let res ← parseRes (get "res")
      let gen ← (get "gen").toNat?
      pure (caller, op, res, gen) : Option _) with
    | none =>
      -- a call that panicked, never returned, or returned neither a result nor an error, is an observation: no
      -- statement about the database admits it (C02: every result equals the model's; C01: an
      -- ungranted call is refused with access-denied; C09: exactly four outcomes)
      if (get "res").startsWith "PANIC" || (get "res").startsWith "BADRES" || (get "res").startsWith "HANG" then
        let what := s!"hist={st.hist} line={lineNo} op={get "op"} c={get "c"} n={(get "n").take 80} v={get "v"} res={(get "res").take 200}"
        .ok ({ st with fails := st.fails + 3, steps := st.steps + 1 },
             [s!"PROPFAIL C02 no_panic {what}", s!"PROPFAIL C01 result_is_specified {what}", s!"PROPFAIL C09 four_outcomes {what}"])
      else .error s!"line {lineNo}: cannot parse step"
    | some (caller, op, res, gen) =>
      let entS := get "ent"
      let diskS := get "disk"
      let memS := get "mem"
      let tag := s!"hist={st.hist} line={lineNo}"
      -- unparsable observations are observations too
      let ents? := if entS.startsWith "MALFORMED" then none else parseEntries entS
      let post? := (parseState diskS).map fun sm => ({ secrets := sm, gen := gen, disk := sm } : KV)
      let outSync : List String :=
        if get "synced" == "0" then
          [s!"PROPFAIL C06 synced_before_return {tag} op={get "op"} n={get "n"} res={get "res"} the call returned before the Sync of its record had completed"] else []
      -- after a call whose save failed, a second server opened on a copy of the file (the pre-call
      -- state) is given every later call too: the two must answer alike
      let outTwin : List String :=
        match lookup fs "twin" with
        | some t => if t == get "res" then [] else
            [s!"PROPFAIL C04 fault_leaves_served_state {tag} op={get "op"} n={(get "n").take 80} v={get "v"} res={(get "res").take 200} but a server started from the file the failed call left answers {t.take 200}"]
        | none => []
      let out0 : List String := outSync ++ outTwin ++
        (if ents?.isNone then [s!"PROPFAIL C06 record_wellformed {tag} ent={entS}"] else []) ++
        (if post?.isNone then [s!"PROPFAIL C03 disk_readable {tag} disk={diskS}", s!"PROPFAIL C04 disk_readable {tag} disk={diskS}"] else []) ++
        (if (get "res").startsWith "PANIC" then [s!"PROPFAIL C02 no_panic {tag} res={get "res"}"] else [])
      let post := post?.getD st.cur
      let o : StepObs :=
        { pre := st.cur, caller := caller, op := op, auditOk := get "aok" == "1", saveOk := get "sok" == "1",
          res := res, entries := ents?.getD [], entryBefore := (match get "pre" with | "1" => some true | "0" => some false | _ => none),
          post := post, mem := if memS == "UNOBS" then some (memOf post) else parseMem memS }
      let failed := clauses.filterMap fun (prop, name, f) =>
        if f o then none else some s!"PROPFAIL {prop} {name} {tag} op={get "op"} n={get "n"} v={get "v"} res={get "res"} pre={showState o.pre} post={showState o.post}"
      let (mkv, mres, ments) := specStep o
      let dv := corrClauses.filterMap fun (name, f) =>
        if f o then none else
          some s!"DIVERGE {name} {tag} op={get "op"} n={get "n"} v={get "v"} code_res={get "res"} model_res={showRes mres} code_ent={entS} model_ent={showEntries ments} code_state={showState o.post}^g{o.post.gen} model_state={showState mkv}^g{mkv.gen}"
      -- C03 reopen observations
      let c03 : List String :=
        match lookup fs "reopen" with
        | none => []
        | some ro =>
          let a := if parseMem ro == some (memOf post) then [] else [s!"PROPFAIL C03 reopen_eq {tag} reopen={ro} disk={diskS}"]
          let b := if get "openpure" == "1" then [] else [s!"PROPFAIL C03 open_pure {tag}"]
          let want := joinWith "," (post.secrets.toList.map fun (n, s) => s!"{hexStr n}:{s.latest + 1}")
          let c := if get "next" == want then [] else [s!"PROPFAIL C03 next_version {tag} next={get "next"} want={want}"]
          -- the state implied by the operations that reported success (the specification's,
          -- whenever the code acknowledged the specified result) is what a restart must find
          let d := if showRes mres == get "res" && parseMem ro != some (memOf mkv) then
              [s!"PROPFAIL C03 acknowledged_survives {tag} op={get "op"} n={get "n"} res={get "res"} reopen={ro} spec={showState mkv}"] else []
          -- the clear document as text: reads back in the documented layout, renders to the same
          -- bytes, and decodes to the state on disk
          let e := match lookup fs "clear" with
            | none => []
            | some ch =>
              match (unhex ch).bind (fun b => String.fromUTF8? (ByteArray.mk b.toArray)) with
              | none => [s!"PROPFAIL C03 clear_document_layout {tag} not UTF-8 text"]
              | some txt =>
                let chars := (txt.replace "\"Secrets\":null" ("\"Secrets\":" ++ "{" ++ "}")).toList
                match DBText.readTree chars with
                | none => [s!"PROPFAIL C03 clear_document_layout {tag} clear={ch.take 400}"]
                | some t =>
                  (if DBText.renderTree t == chars then [] else [s!"DIVERGE dbtext_bytes {tag} code={ch.take 300} model={(hexStr (String.ofList (DBText.renderTree t))).take 300}"]) ++
                  (match Codec.decode t with
                   | some sm => if showState { secrets := sm, gen := 0, disk := sm } == showState post then [] else
                       [s!"DIVERGE dbtext_decode {tag} decoded={showState { secrets := sm, gen := 0, disk := sm }} disk={diskS}"]
                   | none => [s!"PROPFAIL C03 clear_document_layout {tag} version keys are not decimal numbers"])
          a ++ b ++ c ++ d ++ e
      let key := s!"{get "op"}:{resClass res}:c{if (get "c") == "0" then "su" else "r"}:a{get "aok"}s{get "sok"}:{if stateEq o.post o.pre then "same" else "chg"}"
      let st' := { st with cur := post, steps := st.steps + 1,
                           fails := st.fails + failed.length + c03.length + out0.length,
                           diverges := st.diverges + dv.length,
                           cover := bump st.cover key,
                           clauseEvals := st.clauseEvals + clauses.length + corrClauses.length }
      .ok (st', out0 ++ failed ++ dv ++ c03)
  | "restart" :: rest =>
    -- a clean stop and restart between two calls: the new process must open the file and serve
    -- exactly what is on it; the history (and the specification's numbering) goes on
    let fs := fields rest
    let get := fun k => (lookup fs k).getD ""
    let tag := s!"hist={st.hist} line={lineNo}"
    if get "ok" != "1" then
      .ok ({ st with fails := st.fails + 2 },
           [s!"PROPFAIL C03 restart_opens {tag} err={get "err"} state={showState st.cur}",
            s!"PROPFAIL C02 restart_opens {tag} err={get "err"} state={showState st.cur}"])
    else
      let outs := if parseMem (get "mem") == some (memOf st.cur) then [] else
        [s!"PROPFAIL C03 reopen_eq {tag} after a restart the server serves mem={get "mem"} file={showState st.cur}"]
      .ok ({ st with cur := { st.cur with gen := (get "gen").toNat?.getD st.cur.gen }, fails := st.fails + outs.length,
                     cover := bump st.cover "restart" }, outs)
  | ["auditstream", ok, probe] =>
    -- after a short write the log holds a fragment; no later record may be glued onto it
    if ok == "ok=1" then .ok (st, []) else
      .ok ({ st with fails := st.fails + 1 },
           [s!"PROPFAIL C06 record_wellformed hist={st.hist} line={lineNo} {probe} after a short write a line of the log is not one whole record"])
  | "stuck" :: rest =>
    -- the harness made no progress for three minutes: a call into the code under test has
    -- not returned and never will.  No statement admits a call that is never answered.
    let fs := fields rest
    let note := ((lookup fs "note").bind unhexStr).getD ""
    let what := s!"line={lineNo} a call did not return (the run was stopped by the watchdog): {note.take 1500}"
    .ok ({ st with fails := st.fails + 6 }, [s!"PROPFAIL C02 call_returns {what}", s!"PROPFAIL C01 result_is_specified {what}", s!"PROPFAIL C09 four_outcomes {what}", s!"PROPFAIL C06 call_returns {what}", s!"PROPFAIL C03 call_returns {what}", s!"PROPFAIL C04 later_calls_succeed {what}"])
  | _ =>
    if line.startsWith "#" || line.isEmpty then .ok (st, []) else .error s!"line {lineNo}: unknown line kind"

/-! ### acl family -/

structure AclRun where
  cases : Nat := 0
  fails : Nat := 0
  diverges : Nat := 0
  cover : Std.HashMap String Nat := {}

def aclLine (dotNL : Bool) (st : AclRun) (lineNo : Nat) (line : String) : Except String (AclRun × List String) :=
  match line.splitOn "\t" with
  | ["m", ph, nh, bit] =>
    match unhexStr ph, unhexStr nh with
    | some p, some n =>
      let code := bit == "1"
      let spec := Glob.implMatch true p.toList n.toList      -- = Glob p n by C07.match_iff_glob
      let model := Glob.implMatch dotNL p.toList n.toList
      let o1 := (if bit == "P" then [s!"PROPFAIL C07 never_panics line={lineNo} pat={ph} name={nh} (Match panicked)"] else []) ++
                (if code != spec then [s!"PROPFAIL C07 match_iff_glob line={lineNo} pat={ph} name={nh} code={bit} spec={if spec then 1 else 0}"] else [])
      let o2 := if code != model then [s!"DIVERGE match line={lineNo} pat={ph} name={nh} code={bit} model={if model then 1 else 0}"] else []
      let key := s!"m:{if p.toList.contains '*' then "star" else "lit"}:{bit}:{if n.toList.contains '\n' then "nl" else "nonl"}:{min p.length 6}:{min n.length 8}"
      .ok ({ st with cases := st.cases + 1, fails := st.fails + o1.length, diverges := st.diverges + o2.length, cover := bump st.cover key }, o1 ++ o2)
    | _, _ => .error s!"line {lineNo}: bad hex"
  | ["concmatch", _, mism] =>
    if mism == "mismatches=0" then .ok ({ st with cases := st.cases + 1, cover := bump st.cover "concmatch" }, []) else
      .ok ({ st with cases := st.cases + 1, fails := st.fails + 1 },
           [s!"PROPFAIL C07 match_iff_glob line={lineNo} {mism}: patterns evaluated from several goroutines at once gave answers they do not give one at a time"])
  | ["allow", rules, ah, nh, bit] =>
    match parseRules rules, unhexStr ah, unhexStr nh with
    | some rs, some a, some n =>
      let code := bit == "1"
      let spec := allow true rs a n.toList
      let o1 := (if bit == "P" then [s!"PROPFAIL C07 never_panics line={lineNo} rules={rules} action={ah} name={nh} (Allow panicked)"] else []) ++
                (if code != spec then [s!"PROPFAIL C07 allow_iff line={lineNo} rules={rules} action={ah} name={nh} code={bit}"] else [])
      let key := s!"allow:{rs.length}:{bit}"
      .ok ({ st with cases := st.cases + 1, fails := st.fails + o1.length, cover := bump st.cover key }, o1)
    | _, _, _ => .error s!"line {lineNo}: bad allow line"
  | _ => if line.startsWith "#" || line.isEmpty then .ok (st, []) else .error s!"line {lineNo}: unknown line kind"

end Setec.Driver
