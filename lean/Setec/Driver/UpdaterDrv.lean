import Setec.Driver.Util
import Setec.Model.Updater
/- Driver for the `updater` trace family (C15). -/
namespace Setec.Driver
open Setec.Updater

structure UState where
  base : Nat               -- number of installs before this updater was created
  st : State
  alive : Bool
  lastGetInstalls : Nat    -- global install count at the previous Get (or at creation)
  lastBuilds : Nat
  lastId : Nat

structure UpRun where
  installs : Array (List UInt8 × Bool) := #[]     -- bytes and "builder rejects" per global install
  upds : Array UState := #[]
  hist : Nat := 0
  cases : Nat := 0
  fails : Nat := 0
  diverges : Nat := 0
  cover : Std.HashMap String Nat := {}

def runEvs (s : State) (es : List Ev) : State := (run s es).getD s

def isBad (b : List UInt8) : Bool := b.take 3 == [98, 97, 100]

def updaterLine (st : UpRun) (lineNo : Nat) (line : String) : Except String (UpRun × List String) :=
  let finish := fun (st' : UpRun) (key : String) (outs : List String) =>
    let nf := (outs.filter (·.startsWith "PROPFAIL")).length
    Except.ok ({ st' with cases := st'.cases + 1, fails := st'.fails + nf, diverges := st'.diverges + (outs.length - nf),
                          cover := bump st'.cover key }, outs)
  match line.splitOn "\t" with
  | ["begin", h] => .ok ({ st with installs := #[([118, 49], false)], upds := #[], hist := h.toNat?.getD 0 }, [])
  | "newupd" :: rest =>
    let fs := fields rest
    let get := fun k => (lookup fs k).getD ""
    let tag := s!"hist={st.hist} line={lineNo}"
    let base := st.installs.size - 1
    let (bytes, bad) := st.installs[base]?.getD ([], false)
    let ok := get "ok" == "1"
    -- a version installed while the initial value was being built: the notification must survive,
    -- so the Get that follows creation rebuilds from the new bytes
    match (lookup fs "midinstall").bind unhex with
    | some v =>
      let s0 := runEvs init [.initRead, .install, .initBuild]
      let s1 := runEvs s0 [.drain, .readCur, .build true]
      let outs := if ok && get "src" == hexBytes v then [] else
        [s!"PROPFAIL C15 no_lost_update {tag} an install during the initial build was lost: src={get "src"} newest={hexBytes v}"]
      let others := st.upds.map fun u => { u with st := runEvs u.st [.install] }
      finish { st with installs := st.installs.push (v, false),
                       upds := others.push { base := base, st := s1, alive := ok, lastGetInstalls := st.installs.size + 1, lastBuilds := s1.builds, lastId := s1.valueId } }
        "newupd:midinstall" outs
    | none =>
    let s0 := runEvs init [.initRead, .initBuild]
    let outs :=
      (if ok == !bad then [] else [s!"DIVERGE newupdater_result {tag} ok={get "ok"} bad={bad}"]) ++
      (if ok && get "src" != hexBytes bytes then [s!"PROPFAIL C15 initial_value_current {tag} src={get "src"} want={hexBytes bytes}"] else [])
    finish { st with upds := st.upds.push { base := base, st := s0, alive := ok, lastGetInstalls := st.installs.size, lastBuilds := 1, lastId := 1 } }
      s!"newupd:{get "ok"}" outs
  | "install" :: rest =>
    let fs := fields rest
    let get := fun k => (lookup fs k).getD ""
    if get "res" != "1" then .ok (st, []) else
    match unhex (get "val") with
    | none => .error s!"line {lineNo}: bad hex"
    | some v =>
      finish { st with installs := st.installs.push (v, isBad v),
                       upds := st.upds.map fun u => { u with st := runEvs u.st [.install] } } s!"install:{get "bad"}:mid{get "mid"}" []
  | "get" :: rest =>
    let fs := fields rest
    let get := fun k => (lookup fs k).getD ""
    let tag := s!"hist={st.hist} line={lineNo} u={get "u"}"
    match (get "u").toNat? >>= fun i => st.upds[i]?.map fun u => (i, u) with
    | none => .error s!"line {lineNo}: unknown updater"
    | some (i, u) =>
      let newestIdx := st.installs.size - 1
      let (newest, newestBad) := st.installs[newestIdx]?.getD ([], false)
      let wasPending := u.st.pending
      let readIdx := u.base + u.st.cur
      let okBuild := !(st.installs[readIdx]?.getD ([], false)).2
      -- a version installed while this Get was rebuilding (after it read the bytes): its
      -- notification must still be there for the next Get
      let mid : Option (List UInt8) := (lookup fs "midinstall").bind unhex
      let s1 := if wasPending then
                  (if mid.isSome then runEvs u.st [.drain, .readCur, .install, .build okBuild]
                   else runEvs u.st [.drain, .readCur, .build okBuild])
                else runEvs u.st [.drain]
      let wantSrc := hexBytes (st.installs[u.base + s1.valueSrc]?.getD ([], false)).1
      let builds := (get "builds").toNat?.getD 0
      let id := (get "id").toNat?.getD 0
      let closes := if (get "closes").isEmpty then [] else (get "closes").splitOn ","
      let closedIds := closes.filterMap fun c => (c.splitOn ":")[0]? >>= String.toNat?
      let installedSince := st.installs.size > u.lastGetInstalls
      let outs :=
        -- statement-level monitors
        (if !newestBad && get "src" != hexBytes newest then [s!"PROPFAIL C15 no_lost_update {tag} src={get "src"} newest={hexBytes newest}"] else []) ++
        (if newestBad && installedSince && !(get "err" == "1" && id == u.lastId) then
          [s!"PROPFAIL C15 build_failure_keeps_old {tag} err={get "err"} id={id} previous_id={u.lastId}"] else []) ++
        (if !newestBad && get "err" == "1" then [s!"PROPFAIL C15 error_cleared_on_success {tag}"] else []) ++
        (if builds > u.lastBuilds && !installedSince then [s!"PROPFAIL C15 rebuild_only_after_install {tag} builds={builds} before={u.lastBuilds}"] else []) ++
        (if closes.all (fun c => (c.splitOn ":")[1]? == some "1") && get "closed_self" == "0" then [] else
          [s!"PROPFAIL C15 closed_exactly_once {tag} closes={get "closes"} closed_self={get "closed_self"}"]) ++
        (if (List.range id).drop 1 |>.all (fun k => closedIds.contains k) then [] else
          [s!"PROPFAIL C15 replaced_value_closed {tag} id={id} closes={get "closes"}"]) ++
        -- correspondence
        (if get "src" == wantSrc && (get "err" == "1") == s1.err && builds == s1.builds && id == s1.valueId then [] else
          [s!"DIVERGE updater_get {tag} code=src:{get "src"},err:{get "err"},builds:{builds},id:{id} model=src:{wantSrc},err:{s1.err},builds:{s1.builds},id:{s1.valueId}"])
      let upds1 := st.upds.set! i { u with st := s1, lastGetInstalls := st.installs.size, lastBuilds := builds, lastId := id }
      let (installs2, upds2) := match mid with
        | some v => (st.installs.push (v, false),
                     upds1.mapIdx fun j (w : UState) => if j == i then w else { w with st := runEvs w.st [.install] })
        | none => (st.installs, upds1)
      finish { st with installs := installs2, upds := upds2 }
        s!"get:{if mid.isSome then "midinstall:" else ""}{if wasPending then "rebuild" else "keep"}:{if okBuild then "ok" else "fail"}:installs_since{min 4 (st.installs.size - u.lastGetInstalls)}" outs
  | "mixedupd" :: rest =>
    -- an updater whose T is an interface type: closers and non-closers alternate
    let fs := fields rest
    let get := fun k => (lookup fs k).getD ""
    let n := fun k => (get k).toNat?.getD 0
    let tag := s!"hist={st.hist} line={lineNo} first={get "first"}"
    let outs :=
      (if n "stale" == 0 && n "panics" == 0 then [] else [s!"PROPFAIL C15 no_lost_update {tag} an updater whose values are sometimes io.Closers and sometimes not: stale={get "stale"} panics={get "panics"} (after an install the next Get must yield a value built from the newest bytes)"]) ++
      (if n "unclosed" == 0 && n "multiclosed" == 0 then [] else [s!"PROPFAIL C15 closed_exactly_once {tag} unclosed={get "unclosed"} multiclosed={get "multiclosed"}"]) ++
      (if n "curclosed" == 0 then [] else [s!"PROPFAIL C15 current_never_closed {tag}"])
    finish st "mixedupd" outs
  | _ => if line.startsWith "#" || line.isEmpty then .ok (st, []) else .error s!"line {lineNo}: unknown line kind"

end Setec.Driver
