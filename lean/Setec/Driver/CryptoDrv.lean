import Setec.Driver.Util
import Setec.Model.Crypto
/- Driver for the `crypto` and `golden` trace families (C05, C03). -/
namespace Setec.Driver
open Std Setec.KV Setec.Codec Setec.Crypto

/-- monitor: a scan of every file under the state directory after a step -/
def scanHolds (leaks : String) (modes : List Nat) (kekDelta : Nat) : Bool :=
  leaks.isEmpty && modes.all (fun m => m &&& 0o077 == 0) && kekDelta == 0

/-- monitor: opening an altered copy reports an error or yields exactly the original contents -/
def tamperHolds (kind result : String) : Bool :=
  if kind == "wrongkey" then result == "err" else result == "err" || result == "same"

/-- model prediction for a spliced file: the symbolic files of two independently created
databases A (data key 1) and B (data key 2) under the same key-encryption key 0 -/
def splicePredict (dek db : String) (ver : Nat) : String :=
  let mA : SMap := (∅ : SMap).insert "a" (newSecret [1])
  let mB : SMap := (∅ : SMap).insert "b" (newSecret [2])
  let fA := fileOf Layout.v1 0 1 mA
  let fB := fileOf Layout.v1 0 2 mB
  let pick := fun (w : String) => if w == "A" then fA else fB
  let f : File := { version := ver, dek := (pick dek).dek, db := (pick db).db }
  match openFile Layout.v1 0 f with
  | none => "err"
  | some (d, _) => if d == 1 then "A" else "B"

def parseOctal (s : String) : Option Nat :=
  s.toList.foldlM (fun acc c => if '0' ≤ c ∧ c ≤ '7' then some (acc * 8 + (c.toNat - '0'.toNat)) else none) 0

structure CryptoRun where
  cases : Nat := 0
  fails : Nat := 0
  diverges : Nat := 0
  cover : Std.HashMap String Nat := {}


def cryptoLine (st : CryptoRun) (lineNo : Nat) (line : String) : Except String (CryptoRun × List String) :=
  match line.splitOn "\t" with
  | "scan" :: rest =>
    let fs := fields rest
    let get := fun k => (lookup fs k).getD ""
    let modes := (get "modes").splitOn "," |>.filterMap fun m => (m.splitOn ":")[1]? >>= parseOctal
    let ok := scanHolds (get "leaks") modes ((get "kekdelta").toNat?.getD 99)
    let outs := if ok then [] else
      [s!"PROPFAIL C05 at_rest hist={get "hist"} line={lineNo} step={get "step"} op={get "op"} leaks={get "leaks"} modes={get "modes"} kekdelta={get "kekdelta"}"]
    .ok ({ st with cases := st.cases + 1, fails := st.fails + outs.length, cover := bump st.cover s!"scan:{get "op"}:{get "files"}" }, outs)
  | "tamper" :: rest =>
    let fs := fields rest
    let get := fun k => (lookup fs k).getD ""
    let ok := tamperHolds (get "kind") (get "result")
    let outs := if ok then [] else
      [s!"PROPFAIL C05 tamper hist={get "hist"} line={lineNo} kind={get "kind"} pos={get "pos"} result={(get "result").take 200}"]
    let rc := if (get "result").startsWith "diff" then "diff" else get "result"
    .ok ({ st with cases := st.cases + 1, fails := st.fails + outs.length, cover := bump st.cover s!"tamper:{get "kind"}:{rc}" }, outs)
  | "splice" :: rest =>
    let fs := fields rest
    let get := fun k => (lookup fs k).getD ""
    let want := splicePredict (get "dek") (get "db") ((get "ver").toNat?.getD 0)
    let res := get "result"
    -- property clause: error or exactly the original of the database whose pieces were used
    let bad := res == "diff" || (res == "A" && get "db" != "A") || (res == "B" && get "db" != "B") ||
               (res != "err" && get "dek" != get "db")
    let o1 := if bad then [s!"PROPFAIL C05 splice hist={get "hist"} line={lineNo} dek={get "dek"} db={get "db"} ver={get "ver"} result={res}"] else []
    let o2 := if res != want then [s!"DIVERGE splice hist={get "hist"} line={lineNo} dek={get "dek"} db={get "db"} ver={get "ver"} code={res} model={want}"] else []
    .ok ({ st with cases := st.cases + 1, fails := st.fails + o1.length, diverges := st.diverges + o2.length,
                   cover := bump st.cover s!"splice:{get "dek"}{get "db"}{get "ver"}:{res}" }, o1 ++ o2)
  | "golden" :: rest =>
    let fs := fields rest
    let get := fun k => (lookup fs k).getD ""
    let ok := get "state" == get "want" && get "next" == get "wantnext" && get "pure" == "1"
    let outs := if ok then [] else
      [s!"PROPFAIL C03 golden_v1 line={lineNo} name={get "name"} pure={get "pure"} next={get "next"} wantnext={get "wantnext"} state={(get "state").take 300} want={(get "want").take 300}"]
    .ok ({ st with cases := st.cases + 1, fails := st.fails + outs.length, cover := bump st.cover s!"golden:{get "name"}" }, outs)
  | "bigdb" :: rest =>
    -- a database of several megabytes: what was acknowledged is what a reopen finds
    let fs := fields rest
    let get := fun k => (lookup fs k).getD ""
    let ok := get "reopen" == "ok" && get "match" == "1"
    let outs := if ok then [] else
      [s!"PROPFAIL C03 reopen_eq line={lineNo} big database step={get "step"} size={get "size"} reopen={(get "reopen").take 200} match={get "match"}"]
    .ok ({ st with cases := st.cases + 1, fails := st.fails + outs.length, cover := bump st.cover s!"bigdb:{get "step"}" }, outs)
  | "aged" :: rest =>
    -- one database over months and years of virtual time, the key service unreachable once it
    -- is open: no call touches the key, every call answers as on the first day, and a copy of
    -- the file opens with the same contents
    let fs := fields rest
    let get := fun k => (lookup fs k).getD ""
    let tag := s!"hist={get "hist"} line={lineNo} step={get "step"} day={get "day"} op={get "op"}"
    let o1 := if get "kekdelta" == "0" then [] else
      [s!"PROPFAIL C05 kek_only_at_open {tag} the call used the key-encryption key {get "kekdelta"} time(s)"]
    let o2 := if get "res" == get "want" then [] else
      [s!"PROPFAIL C05 kek_only_at_open {tag} with the key service unreachable the call answered {get "res"} want {get "want"}",
       s!"PROPFAIL C02 over_time {tag} res={get "res"} want={get "want"}"]
    let o3 := if get "reopen" == "ok" && get "same" == "1" then [] else
      [s!"PROPFAIL C03 reopen_eq {tag} reopen={(get "reopen").take 200} same={get "same"}",
       s!"PROPFAIL C05 tamper {tag} an unaltered file does not open with its contents: reopen={(get "reopen").take 200} same={get "same"}"]
    let outs := o1 ++ o2 ++ o3
    .ok ({ st with cases := st.cases + 1, fails := st.fails + outs.length,
                   cover := bump st.cover s!"aged:{get "op"}:{if (get "day").toNat?.getD 0 > 30 then "old" else "young"}" }, outs)
  | "open" :: rest =>
    let fs := fields rest
    let get := fun k => (lookup fs k).getD ""
    -- creation wraps the data key once; nothing else may touch the key-encryption key
    let ok := (get "kekuses").toNat?.getD 99 ≤ 1
    let outs := if ok then [] else [s!"PROPFAIL C05 kek_at_open hist={get "hist"} line={lineNo} kekuses={get "kekuses"}"]
    .ok ({ st with cases := st.cases + 1, fails := st.fails + outs.length }, outs)
  | _ =>
    if line.startsWith "#" || line.isEmpty || line.startsWith "begin" then .ok (st, []) else .error s!"line {lineNo}: unknown line kind"

end Setec.Driver
