import Setec.Driver.Util
import Setec.Driver.DBDrv
import Setec.Model.Fs
/- Driver for the `fs` trace family (C04 part B, C13's atomic cache replacement). -/
namespace Setec.Driver
open Setec.Fs Setec.KV

/-- how a model call shows up in the canonicalised strace window -/
def renderCall : Call → String
  | .openTmp m => s!"open(tmp+CREAT+EXCL+RDWR:0{String.ofList (Nat.toDigits 8 m)})"
  | .write _ => "write(tmp)"
  | .chmod m => s!"chmod(tmp:0{String.ofList (Nat.toDigits 8 m)})"
  | .fsync => "fsync(tmp)"
  | .close => "close(tmp)"
  | .rename => "rename(tmp->target)"
  | .unlinkTmp => "unlink(tmp)"

/-- consecutive writes are one logical write of the data (any split is allowed) -/
def mergeWrites : List String → List String
  | "write(tmp)" :: "write(tmp)" :: rest => mergeWrites ("write(tmp)" :: rest)
  | x :: rest => x :: mergeWrites rest
  | [] => []

/-- property clauses on the observed sequence (from the statement, not from the model):
nothing but the final rename touches the live file (reading it is fine); an fsync of the
temporary file follows the last write and precedes the rename; the rename is last. -/
def seqHolds (seq : List String) : Bool :=
  let touchesTarget := fun (c : String) => (c.splitOn "target").length > 1
  let readOnlyOpen := fun (c : String) => c == "open(target+RDONLY)"
  let body := seq.dropLast
  let idxOf := fun (p : String → Bool) (l : List String) => (l.zipIdx.filter (fun x => p x.1)).map (·.2)
  let writes := idxOf (· == "write(tmp)") seq
  let syncs := idxOf (· == "fsync(tmp)") seq
  let renames := idxOf (· == "rename(tmp->target)") seq
  seq.getLast? == some "rename(tmp->target)" &&
  body.all (fun c => !touchesTarget c || readOnlyOpen c) &&
  renames.length == 1 && !writes.isEmpty &&
  (match writes.getLast?, syncs.getLast?, renames.head? with
   | some w, some s, some r => w < s && s < r
   | _, _, _ => false) &&
  -- owner-only modes wherever a mode is given
  seq.all (fun c => !((c.splitOn ":06").length > 1) || (c.splitOn ":0600").length > 1)

structure FsRun where
  cases : Nat := 0
  fails : Nat := 0
  diverges : Nat := 0
  cover : Std.HashMap String Nat := {}

def sameState (a b : String) : Bool :=
  a == b || (match parseMem a, parseMem b with
             | some x, some y => x == y
             | _, _ => false)

def propsOf (op : String) : List String :=
  if op.startsWith "cache" then ["C13", "C11", "C19"] else if op.endsWith "wide" then ["C04", "C05"] else ["C04"]

def fsLine (st : FsRun) (lineNo : Nat) (line : String) : Except String (FsRun × List String) :=
  match line.splitOn "\t" with
  | "fsseq" :: rest =>
    let fs := fields rest
    let get := fun k => (lookup fs k).getD ""
    let seq := (get "seq").splitOn ","
    let seq' := if get "op" == "create" && seq.head? == some "open(target+RDONLY)" then seq.drop 1 else seq
    let model := (atomicWrite [[0]] 0o600).map renderCall
    let o1 := if seqHolds seq then [] else
      (propsOf (get "op")).map fun p => s!"PROPFAIL {p} write_protocol line={lineNo} op={get "op"} seq={get "seq"}"
    let o1 := o1 ++ (if get "postok" == "0" then
      (propsOf (get "op")).map fun p => s!"PROPFAIL {p} flush_whole_document line={lineNo} op={get "op"} after the write the cache file is not the document that was written: post={(get "post").take 300}" else [])
    let o2 := if mergeWrites seq' == model then [] else
      [s!"DIVERGE fsseq line={lineNo} op={get "op"} code={get "seq"} model={joinWith "," model}"]
    .ok ({ st with cases := st.cases + 1, fails := st.fails + o1.length, diverges := st.diverges + o2.length,
                   cover := bump st.cover s!"fsseq:{get "op"}" }, o1 ++ o2)
  | "fault" :: rest =>
    let fs := fields rest
    let get := fun k => (lookup fs k).getD ""
    -- statement: the call reports an error; file and served state are exactly the pre-call
    -- state; later calls succeed
    let ok := get "res" != "ok" && get "disk" == get "pre" &&
              (get "pre" == "ABSENT" || sameState (get "mem") (get "pre")) && get "retry" == "ok"
    let o1 := if ok then [] else
      (propsOf (get "op")).map fun p => s!"PROPFAIL {p} fault_leaves_old line={lineNo} op={get "op"} idx={get "idx"} call={get "call"} errno={get "errno"} res={get "res"} retry={get "retry"} disk={(get "disk").take 200} pre={(get "pre").take 200}"
    -- model: the cleanup removes the temporary file
    let o2 := if get "tmpleft" == "0" then [] else [s!"DIVERGE fault_cleanup line={lineNo} op={get "op"} idx={get "idx"} tmpleft={get "tmpleft"}"]
    .ok ({ st with cases := st.cases + 1, fails := st.fails + o1.length, diverges := st.diverges + o2.length,
                   cover := bump st.cover s!"fault:{get "op"}:{get "call"}:{get "errno"}" }, o1 ++ o2)
  | "crash" :: rest =>
    let fs := fields rest
    let get := fun k => (lookup fs k).getD ""
    let ok := (get "disk" == get "pre" || get "disk" == get "post") &&
              (get "followup" == "-" || get "followup" == "ok" || get "followup" == "")
    let o1 := if ok then [] else
      (propsOf (get "op")).map fun p => s!"PROPFAIL {p} crash_all_or_nothing line={lineNo} op={get "op"} idx={get "idx"} call={get "call"} disk={(get "disk").take 200} pre={(get "pre").take 100} post={(get "post").take 100} followup={(get "followup").take 80}"
    -- model: new contents iff the rename has executed (C04.crash_all_or_nothing)
    let want := if get "after" == "1" then get "post" else get "pre"
    let o2 := if get "disk" == want then [] else [s!"DIVERGE crash_point line={lineNo} op={get "op"} idx={get "idx"} call={get "call"} after={get "after"}"]
    .ok ({ st with cases := st.cases + 1, fails := st.fails + o1.length, diverges := st.diverges + o2.length,
                   cover := bump st.cover s!"crash:{get "op"}:{get "call"}" }, o1 ++ o2)
  | _ =>
    if line.startsWith "#" || line.isEmpty then .ok (st, []) else .error s!"line {lineNo}: unknown line kind"

end Setec.Driver
