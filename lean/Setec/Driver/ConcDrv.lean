import Setec.Driver.DBDrv
/- Driver for the `conc` trace family (C14): decides each recorded concurrent history by an
exhaustive linearizability search (Wing-Gong with memoisation) against `DB.step Cfg.std`. -/
namespace Setec.Driver
open Std Setec.KV Setec.DB Setec.DBMon

structure CCall where
  thread : Nat
  inv : Nat
  ret : Nat
  op : Op
  res : Res

instance : Inhabited CCall := ⟨{ thread := 0, inv := 0, ret := 0, op := .list, res := .done }⟩

def concCaller : Caller := { principal := "su", rules := [{ actions := ["get", "info", "put", "activate", "delete"], secrets := [['*']] }] }

/-- result strings of the conc family: lists use '+' between items and '.' between versions -/
def parseConcRes (s : String) : Option Res :=
  if s.startsWith "list:" then
    let body := (s.drop 5).toString
    if body.isEmpty then some (.listR []) else
      ((body.splitOn "+").mapM fun (it : String) =>
        match it.splitOn "/" with
        | [nh, vs, a] => do
          let n ← unhexStr nh
          let vs ← if vs.isEmpty then some [] else (vs.splitOn ".").mapM String.toNat?
          let a ← a.toNat?
          pure (n, vs, a)
        | _ => none).map .listR
  else if s.startsWith "info:" then
    match s.splitOn ":" with
    | ["info", nh, vs, a] => do
      let n ← unhexStr nh
      let vs ← if vs.isEmpty then some [] else (vs.splitOn ".").mapM String.toNat?
      let a ← a.toNat?
      pure (.infoR n vs a)
    | _ => none
  else parseRes s

def parseConcCall (s : String) : Option CCall :=
  match s.splitOn "/" with
  | t :: inv :: ret :: kind :: nh :: v :: val :: resParts => do
    let t ← t.toNat?; let inv ← inv.toNat?; let ret ← ret.toNat?
    let n ← unhexStr nh; let v ← v.toNat?; let val ← unhex val
    let op ← parseOp kind n v val
    let res ← parseConcRes ("/".intercalate resParts)
    pure { thread := t, inv := inv, ret := ret, op := op, res := res }
  | _ => none

/-- depth-first search for a linearization.  `done` is a bitmask of linearized calls. -/
partial def linSearch (calls : Array CCall) (final : Option KV) (done : Nat) (kv : KV)
    (seen : Std.HashSet String) (nodes : Nat) : Bool × Std.HashSet String × Nat :=
  let n := calls.size
  if done == 2 ^ n - 1 then
    ((match final with | some f => stateEq f kv | none => true), seen, nodes + 1)
  else
    let key := s!"{done}|{showState kv}"
    if seen.contains key then (false, seen, nodes) else
    let seen := seen.insert key
    -- a call may be linearized next if no other pending call returned before it was invoked
    let pending := (List.range n).filter fun i => done &&& (2 ^ i) == 0
    let minRet := pending.foldl (fun acc i => min acc calls[i]!.ret) 1000000000
    let cands := pending.filter fun i => calls[i]!.inv < minRet
    cands.foldl (fun (acc : Bool × Std.HashSet String × Nat) i =>
      if acc.1 then acc else
      let c := calls[i]!
      let (kv', res, _) := step Cfg.std kv concCaller c.op true true
      if res == c.res then linSearch calls final (done ||| (2 ^ i)) kv' acc.2.1 (acc.2.2 + 1)
      else
        -- a call that reported an internal error: its save may have failed (the harness takes the
        -- state directory away now and then); the specification then leaves the state unchanged
        let (kvF, resF, _) := step Cfg.std kv concCaller c.op true false
        if c.res == .other && resF == c.res then linSearch calls final (done ||| (2 ^ i)) kvF acc.2.1 (acc.2.2 + 1)
        else (false, acc.2.1, acc.2.2 + 1)) (false, seen, nodes)

structure ConcRun where
  cases : Nat := 0
  fails : Nat := 0
  diverges : Nat := 0
  nodes : Nat := 0
  cover : Std.HashMap String Nat := {}

def concLine (st : ConcRun) (lineNo : Nat) (line : String) : Except String (ConcRun × List String) :=
  match line.splitOn "\t" with
  | "conc" :: rest =>
    let fs := fields rest
    let get := fun k => (lookup fs k).getD ""
    match ((get "calls").splitOn ";").mapM parseConcCall, parseState (get "seed") with
    | some calls, some seed =>
      let final := (parseState (get "final")).map fun sm => ({ secrets := sm, gen := 0, disk := sm } : KV)
      let init : KV := { secrets := seed, gen := 0, disk := seed }
      let (ok, _, nodes) := linSearch calls.toArray final 0 init {} 0
      let tag := s!"line={lineNo} via={get "via"}"
      let au := (get "audit").splitOn "/"
      let auditOK := au[0]? == some "1"
      -- every call writes at most one record and list/mutations/values exactly one: at least
      -- the records of the calls that returned a value or changed something must be there
      let outs :=
        (if ok then [] else [s!"PROPFAIL C14 linearizable {tag} seed={get "seed"} calls={get "calls"} final={get "final"}"]) ++
        -- C09, independent of the schedule: a conditional get that names a non-zero version V never
        -- receives version V (when V is active the answer is not-modified; when it is not, V is not served)
        (if calls.any (fun c => match c.op, c.res with
              | .getCond _ v, .value _ k => v != 0 && k == v
              | _, _ => false)
         then [s!"PROPFAIL C09 cond_never_returns_held_version {tag} calls={get "calls"}"] else []) ++
        (if (get "unsynced").toNat?.getD 0 == 0 then [] else
          [s!"PROPFAIL C06 synced_before_return {tag} unsynced={get "unsynced"} (a call returned before a Sync that began after its record was written had completed)"]) ++
        -- every call puts the very same bytes under the same name: whatever the schedule, they are all
        -- told the same version number (the first stores it, the others find it the newest)
        (match calls.head? with
         | some c0 =>
           (match c0.op with
            | .put n0 v0 =>
              -- (a call whose save failed reports an error and stores nothing: only the successful ones count)
              let oks := calls.filter fun c => match c.res with | .version _ => true | _ => false
              if calls.all (fun c => c.op == Op.put n0 v0) && !(oks.all fun c => some c.res == oks.head?.map (·.res)) then
                [s!"PROPFAIL C02 put {tag} identical puts were given different version numbers: calls={get "calls"}"] else []
            | _ => [])
         | none => []) ++
        -- a caller without a grant, making the same requests at the same time, is refused every time
        (if (get "intruder_leaks").toNat?.getD 0 == 0 then [] else
          [s!"PROPFAIL C01 denied_noeffect {tag} intruder_leaks={get "intruder_leaks"} (a caller with no grant on the names in play was answered with something other than access-denied while others made the same requests)"]) ++
        -- at quiescence the file holds what the running server serves
        (match parseMem (get "memfinal"), final with
         | some m, some f => if m == memOf f then [] else
             [s!"PROPFAIL C03 acknowledged_survives {tag} after the concurrent calls the file and the served state differ: file={get "final"} served={get "memfinal"}",
              s!"PROPFAIL C04 mem_eq_disk {tag} file={get "final"} served={get "memfinal"}"]
         | _, _ => []) ++
        -- when a history is not linearizable but is once its conditional gets are left out, they are the culprits
        (if ok || !(calls.any fun c => match c.op with | .getCond _ _ => true | _ => false) then [] else
          let rest := calls.filter fun c => match c.op with | .getCond _ _ => false | _ => true
          if (linSearch rest.toArray final 0 init {} 0).1 then
            [s!"PROPFAIL C09 cond_linearizable {tag} calls={get "calls"}"] else []) ++
        (if final.isNone then [s!"PROPFAIL C14 final_state_readable {tag} final={get "final"}"] else []) ++
        (if auditOK then [] else [s!"PROPFAIL C06 concurrent_records_whole {tag} audit={get "audit"}", s!"PROPFAIL C14 concurrent_records_whole {tag} audit={get "audit"}"])
      let nthreads := (calls.map (·.thread)).foldl max 0 + 1
      let overlap := calls.any fun a => calls.any fun b => a.thread != b.thread && a.inv < b.ret && b.inv < a.ret
      let key := s!"conc:{get "via"}:t{nthreads}:c{min calls.length 30 / 5 * 5}:{if overlap then "overlap" else "serial"}"
      .ok ({ st with cases := st.cases + 1, fails := st.fails + outs.length, nodes := st.nodes + nodes, cover := bump st.cover key }, outs)
    | _, _ =>
      -- the database file (read with the documented schema-v1 layout) or a result is unreadable: an observation
      if (get "seed").startsWith "ERR" || (get "final").startsWith "ERR" then
        .ok ({ st with cases := st.cases + 1, fails := st.fails + 3 },
             [s!"PROPFAIL C03 disk_readable line={lineNo} the database file does not read in the documented layout: seed={(get "seed").take 120} final={(get "final").take 120}",
              s!"PROPFAIL C04 disk_readable line={lineNo} seed={(get "seed").take 120} final={(get "final").take 120}",
              s!"PROPFAIL C14 final_state_readable line={lineNo} final={(get "final").take 120}"])
      else .error s!"line {lineNo}: cannot parse conc line"
  | "stuck" :: rest =>
    -- the harness made no progress for three minutes: a call into the code under test has
    -- not returned and never will.  No statement admits a call that is never answered.
    let fs := fields rest
    let note := ((lookup fs "note").bind unhexStr).getD ""
    let what := s!"line={lineNo} a call did not return (the run was stopped by the watchdog): {note.take 1500}"
    .ok ({ st with fails := st.fails + 6 }, [s!"PROPFAIL C14 every_call_returns {what}", s!"PROPFAIL C09 four_outcomes {what}", s!"PROPFAIL C06 call_returns {what}", s!"PROPFAIL C01 result_is_specified {what}", s!"PROPFAIL C02 call_returns {what}", s!"PROPFAIL C03 call_returns {what}"])
  | _ => if line.startsWith "#" || line.isEmpty then .ok (st, []) else .error s!"line {lineNo}: unknown line kind"

end Setec.Driver
