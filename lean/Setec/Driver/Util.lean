import Std.Data.HashMap
/- Line-protocol helpers shared by all driver families (core only). -/
namespace Setec.Driver

def hexVal (c : Char) : Option Nat :=
  if '0' ≤ c ∧ c ≤ '9' then some (c.toNat - '0'.toNat)
  else if 'a' ≤ c ∧ c ≤ 'f' then some (c.toNat - 'a'.toNat + 10)
  else none

def unhexAux : List Char → List UInt8 → Option (List UInt8)
  | [], acc => some acc.reverse
  | [_], _ => none
  | a :: b :: rest, acc =>
    match hexVal a, hexVal b with
    | some x, some y => unhexAux rest (UInt8.ofNat (x * 16 + y) :: acc)
    | _, _ => none

def unhex (s : String) : Option (List UInt8) := unhexAux s.toList []

def unhexStr (s : String) : Option String :=
  match unhex s with
  | none => none
  | some bs => String.fromUTF8? (ByteArray.mk bs.toArray)

def hexDigit (n : Nat) : Char :=
  if n < 10 then Char.ofNat ('0'.toNat + n) else Char.ofNat ('a'.toNat + n - 10)

def hexBytes (bs : List UInt8) : String :=
  String.ofList (bs.flatMap fun b => [hexDigit (b.toNat / 16), hexDigit (b.toNat % 16)])

def hexStr (s : String) : String := hexBytes s.toUTF8.toList

/-- split `k=v` fields of a tab-separated line into an association list -/
def fields (parts : List String) : List (String × String) :=
  parts.filterMap fun p =>
    match p.splitOn "=" with
    | [] => none
    | [_] => none
    | k :: rest => some (k, "=".intercalate rest)

def lookup (fs : List (String × String)) (k : String) : Option String :=
  (fs.find? (·.1 == k)).map (·.2)

def joinWith (sep : String) (xs : List String) : String := sep.intercalate xs

def natList (s : String) : Option (List Nat) :=
  if s.isEmpty then some [] else (s.splitOn ",").mapM String.toNat?

def showNatList (xs : List Nat) : String := joinWith "," (xs.map toString)

def bump (m : Std.HashMap String Nat) (k : String) : Std.HashMap String Nat :=
  m.insert k (m.getD k 0 + 1)

end Setec.Driver
