import Setec.Driver.Util
import Setec.Model.Lookup
import Setec.Generated.Facts
/- Driver for the `lookup` trace family (concurrent part of C16). -/
namespace Setec.Driver
open Setec.Lookup

structure LkRun where
  cases : Nat := 0
  fails : Nat := 0
  diverges : Nat := 0
  cover : Std.HashMap String Nat := {}

def parseSvcB (s : String) : Option Svc :=
  if s == "h" then some .hang
  else if s.startsWith "a" then (s.drop 1).toString.toNat?.map .answer
  else if s.startsWith "f" then (s.drop 1).toString.toNat?.map .fail
  else if s.startsWith "t" then (s.drop 1).toString.toNat?.map .failCtx
  else none

def optOfInt (i : Int) : Option Nat := if i < 0 then none else some i.toNat

def showStatus : Status → String
  | .done t .handle => s!"{t}/handle"
  | .done t .failed => s!"{t}/failed"
  | .done t .ctx => s!"{t}/ctx"
  | .waiting => "waiting"
  | .notStarted => "notstarted"

def harnessCancel : Nat := 4201777

def lookupLine (st : LkRun) (lineNo : Nat) (line : String) : Except String (LkRun × List String) :=
  match line.splitOn "\t" with
  | "lookupc" :: rest =>
    let fs := fields rest
    let get := fun k => (lookup fs k).getD ""
    match (do
      let cs ← ((get "callers").splitOn ";").mapM fun c =>
        match c.splitOn "/" with
        | [s, d, x] => do
          let s ← s.toNat?; let d ← d.toInt?; let x ← x.toInt?
          pure ({ start := s, deadline := optOfInt d, cancelAt := omin (optOfInt x) (some harnessCancel) } : Caller)
        | _ => none
      let script ← ((get "script").splitOn ",").mapM parseSvcB
      let rets ← ((get "rets").splitOn ";").mapM fun r =>
        match r.splitOn "/" with
        | [t, res] => do let t ← t.toNat?; pure (t, res)
        | _ => none
      let reqs ← if (get "reqs").isEmpty then some [] else ((get "reqs").splitOn ",").mapM String.toNat?
      pure (cs, script, rets, reqs) : Option _) with
    | none => .error s!"line {lineNo}: cannot parse lookupc"
    | some (cs, script, rets, reqs) =>
      let perFlight := Setec.Facts.lookupFallbackPerFlight.getD true
      let mode : Mode := if perFlight then Mode.original else Mode.repaired
      let final := run mode (4 * (cs.length + reqs.length + script.length) + 40) (init cs script)
      let modelRets := final.callers.map fun (_, s) => showStatus s
      let codeRets := rets.map fun (t, r) => s!"{t}/{r}"
      let tag := s!"line={lineNo} callers={get "callers"} script={get "script"}"
      let zipped := cs.zip rets
      -- the statement's own notion of when a caller's context ends
      let ownEnd := fun (c : Caller) => c.ownEnd Mode.repaired
      let late := zipped.filter fun ((c : Caller), ((t : Nat), (_ : String))) => c.deadline.isNone && t > c.start + 300000
      let blamed := zipped.filter fun ((c : Caller), ((t : Nat), (r : String))) => r == "ctx" && (match ownEnd c with | some e => t < e | none => true)
      -- "a failed lookup is reported": a caller is told its lookup failed only when a request it
      -- was waiting for did fail - at that moment - not because of anything that ended another
      -- caller's context
      let failEnds : List Nat := (reqs.zip script).filterMap fun (t0, b) => match b with
        | .fail l => some (t0 + l) | .failCtx l => some (t0 + l) | _ => none
      let failedForNothing := zipped.filter fun ((_ : Caller), ((t : Nat), (r : String))) => r == "failed" && !failEnds.contains t
      let firstHandle := (rets.filterMap fun (t, r) => if r == "handle" then some t else none).foldl (fun acc t => match acc with | none => some t | some a => some (min a t)) none
      let missed := match firstHandle with
        | none => []
        | some T => zipped.filter fun ((c : Caller), ((t : Nat), (r : String))) => (c.start ≤ T && t ≥ T && r != "handle") || (c.start > T && !(r == "handle" && t == c.start))
      -- which waiter wins a single-flight race is the scheduler's choice: compare with the model
      -- only where the owner of every flight is determined
      let minStart := cs.foldl (fun acc c => min acc c.start) 1000000000000
      let uniqueEarliest := (cs.filter fun c => c.start == minStart).length == 1
      let deterministic := cs.length == 1 || (uniqueEarliest && reqs.length ≤ 1 && final.requests.length ≤ 1)
      let outs : List String :=
        (if late.isEmpty then [] else [s!"PROPFAIL C16 bounded_no_deadline {tag} rets={get "rets"} reqs={get "reqs"}"]) ++
        (if blamed.isEmpty then [] else [s!"PROPFAIL C16 not_failed_by_others {tag} rets={get "rets"}"]) ++
        (if failedForNothing.isEmpty then [] else [s!"PROPFAIL C16 not_failed_by_others {tag} rets={get "rets"} reqs={get "reqs"} (a caller was told its lookup failed although no request failed at that moment)"]) ++
        (if (get "maxconc").toNat?.getD 99 ≤ 1 then [] else [s!"PROPFAIL C16 single_flight {tag} maxconc={get "maxconc"}"]) ++
        (if missed.isEmpty then [] else [s!"PROPFAIL C16 waiters_get_handle {tag} rets={get "rets"}"]) ++
        (if (rets.any fun (_, r) => r == "badhandle") then [s!"PROPFAIL C16 working_handle {tag}"] else []) ++
        (if (get "installed" == "1") == firstHandle.isSome then [] else [s!"PROPFAIL C16 install_iff_success {tag} installed={get "installed"} rets={get "rets"}"]) ++
        (if deterministic && codeRets != modelRets then [s!"DIVERGE lookup_returns {tag} code={codeRets} model={modelRets}"] else []) ++
        (if deterministic && reqs != final.requests then [s!"DIVERGE lookup_requests {tag} code={reqs} model={final.requests}"] else [])
      let nf := (outs.filter (·.startsWith "PROPFAIL")).length
      let key := s!"lookupc:n{cs.length}:q{min reqs.length 4}:{if firstHandle.isSome then "ok" else "nohandle"}:{if deterministic then "det" else "race"}"
      .ok ({ st with cases := st.cases + 1, fails := st.fails + nf, diverges := st.diverges + (outs.length - nf), cover := bump st.cover key }, outs)
  | "lookupcrowd" :: rest =>
    -- a patient caller among a crowd of callers whose contexts have already ended
    let fs := fields rest
    let get := fun k => (lookup fs k).getD ""
    let outs := if get "bad" == "0" then [] else
      [s!"PROPFAIL C16 not_failed_by_others line={lineNo} a caller whose context never ended, on a healthy service, was refused its handle in {get "bad"} of {get "trials"} trials while callers with ended contexts kept asking for the same name; first result: {((unhexStr (get "first")).getD (get "first")).take 200}"]
    .ok ({ st with cases := st.cases + 1, fails := st.fails + outs.length, cover := bump st.cover "lookupcrowd" }, outs)
  | _ => if line.startsWith "#" || line.isEmpty || line.startsWith "begin" then .ok (st, []) else .error s!"line {lineNo}: unknown line kind"

end Setec.Driver
