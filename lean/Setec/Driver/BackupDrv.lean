import Setec.Driver.Util
import Setec.Model.Backup
import Setec.Generated.Facts
/- Driver for the `backup` trace family (C17). -/
namespace Setec.Driver
open Setec.Backup

structure BkRun where
  cases : Nat := 0
  fails : Nat := 0
  diverges : Nat := 0
  cover : Std.HashMap String Nat := {}

structure UpObs where
  tms : Nat
  hash : String
  ok : Bool
  opens : Bool

def parseUps (s : String) : Option (List UpObs) :=
  if s.isEmpty then some [] else
  (s.splitOn ";").mapM fun u =>
    match u.splitOn "/" with
    | [t, h, ok, op] => do let t ← t.toNat?; pure ({ tms := t, hash := h, ok := ok == "ok", opens := op == "1" } : UpObs)
    | _ => none

def parseFiles (s : String) : Option (List (Nat × String)) :=
  (s.splitOn ";").mapM fun f =>
    match f.splitOn "/" with
    | [t, h] => do let t ← t.toNat?; pure (t, h)
    | _ => none

def backupLine (st : BkRun) (lineNo : Nat) (line : String) : Except String (BkRun × List String) :=
  match line.splitOn "\t" with
  | "backup" :: rest =>
    let fs := fields rest
    let get := fun k => (lookup fs k).getD ""
    let tag := s!"line={lineNo} reopened={get "reopened"} writes={get "writes"} script={get "script"} latency={get "latency"} race={get "race"} cancel={get "cancel"}"
    if get "spins" == "1" then
      .ok ({ st with cases := st.cases + 1, fails := st.fails + 1, cover := bump st.cover "backup:spins" },
           [s!"PROPFAIL C17 quiescent {tag} the backup task stopped consuming virtual time (busy loop): no upload log could be collected"])
    else
      match (do
        let writes ← if (get "writes").isEmpty then some [] else ((get "writes").splitOn ",").mapM String.toNat?
        let cancel ← (get "cancel").toNat?
        let latency ← (get "latency").toNat?
        let ups ← parseUps (get "ups")
        let files ← parseFiles (get "files")
        let exitAt ← (get "exit").toInt?
        pure (writes, cancel, latency, ups, files, exitAt) : Option _) with
      | none => .error s!"line {lineNo}: cannot parse backup"
      | some (writes, cancel, latency, ups, files, exitAt) =>
        let script := if (get "script").isEmpty then [] else (get "script").splitOn ","
        let race := (get "race").toInt?.getD (-1)
        -- the write generation over time: 1 after Open, +1 per write (incl. the write racing upload n)
        let raceAt : Option Nat := if race > 0 then (ups[race.toNat - 1]?).map (·.tms) else none
        -- the racing write lands while upload `race` is in flight, i.e. after that upload read the file
        let allWrites := writes ++ (match raceAt with | some t => [t + 1] | none => [])
        -- a racing write happens during the upload that starts at raceAt: visible to later iterations only
        let gens : Nat → Nat := fun t => 1 + (writes.filter (· ≤ t)).length + (match raceAt with | some r => if r < t then 1 else 0 | none => 0)
        let oks : Nat → Bool := fun k => (script[k]?.getD "ok") == "ok"
        -- a stalled upload ends when doBackup's own five-minute limit does
        let lat2 := (get "lat2").toNat?.getD 0
        let durs : Nat → Nat := fun k => if (script[k]?.getD "ok") == "stall" then 300000
                                          else if lat2 > 0 && k % 2 == 1 then lat2 else latency
        let maxDur := if script.contains "stall" then max latency 300000 else latency
        let waitAlways := Setec.Facts.backupWaitUnconditional.getD false
        let m := run waitAlways gens oks durs cancel (cancel / period + 5)
        let fileHashes := files.map (·.2)
        let times := ups.map (·.tms)
        let gapsOK := (times.zip (times.drop 1)).all fun (a, b) => a + 60000 ≤ b
        let lastWrite := allWrites.foldl max 0
        let lastOK := (ups.filter (·.ok)).getLast?
        -- every attempt after the first: the database was written since the previous successful
        -- attempt began, or the previous attempt failed (retry)
        let justified := (ups.zipIdx.drop 1).all fun (u, i) =>
          let prevOKs := (ups.take i).filter (·.ok)
          match prevOKs.getLast? with
          | none => true
          | some p => (ups[i - 1]?.map (·.ok)) == some false || allWrites.any fun w => p.tms ≤ w && w ≤ u.tms
        let outs : List String :=
          (if ups.all (fun u => fileHashes.contains u.hash) then [] else [s!"PROPFAIL C17 snapshot {tag} ups={get "ups"} files={get "files"}"]) ++
          (if ups.all (·.opens) then [] else [s!"PROPFAIL C17 opens_with_key {tag} ups={get "ups"}"]) ++
          (if get "exposed" == "-" || get "exposed" == "" then [] else
            let names := ((get "exposed").splitOn ",").map fun x => (unhexStr x).getD x
            [s!"PROPFAIL C05 at_rest {tag} while an upload was under way the database's directory held {names} (name:mode): a copy of the database beside it, or a file others may read",
             s!"PROPFAIL C17 snapshot {tag} while an upload was under way the database's directory held {names} (name:mode)"]) ++
          (if ups.head?.map (·.tms) == some 0 then [] else [s!"PROPFAIL C17 first_upload {tag} ups={get "ups"}"]) ++
          (if gapsOK then [] else [s!"PROPFAIL C17 rate {tag} ups={get "ups"}"]) ++
          (if justified then [] else [s!"PROPFAIL C17 change_driven {tag} ups={get "ups"}"]) ++
          (match lastOK with
           | some u => if u.tms ≥ lastWrite && u.hash != get "final" then [s!"PROPFAIL C17 converges {tag} ups={get "ups"} final={get "final"}"] else []
           | none => []) ++
          -- once writes have stopped for long enough (one round for the pending change, one more per
          -- scripted failure, one spare) the newest successful backup is the current file
          (let nfail := (script.filter (· != "ok")).length
           if cancel ≥ lastWrite + (nfail + 2) * (60000 + maxDur) + maxDur + 1 &&
              (lastOK.map (·.hash)) != some (get "final")
           then [s!"PROPFAIL C17 converges_when_quiet {tag} ups={get "ups"} final={get "final"}"] else []) ++
          -- a failed attempt is retried one period later unless the task was cancelled first
          ((ups.zipIdx.filter fun (u, i) => !u.ok && ups[i + 1]?.isNone && u.tms + durs i + 60000 < cancel).map fun (u, _) =>
            s!"PROPFAIL C17 retry {tag} failed_at={u.tms} ups={get "ups"}") ++
          (if exitAt < 0 then [s!"PROPFAIL C17 terminates {tag} the task had not returned 10 min after cancellation"]
           else if exitAt.toNat > cancel + maxDur then [s!"PROPFAIL C17 terminates {tag} exit={exitAt}"] else []) ++
          (if m.attempts.map (·.tms) == times then [] else [s!"DIVERGE backup_schedule {tag} code={times} model={m.attempts.map (·.tms)}"]) ++
          (if m.attempts.map (·.ok) == ups.map (·.ok) || m.attempts.length != ups.length then [] else [s!"DIVERGE backup_outcomes {tag}"]) ++
          (if exitAt ≥ 0 && m.exit != some exitAt.toNat then [s!"DIVERGE backup_exit {tag} code={exitAt} model={repr m.exit}"] else [])
        let nf := (outs.filter (·.startsWith "PROPFAIL")).length
        let key := s!"backup:re{get "reopened"}:w{min writes.length 6}:u{min ups.length 6}:f{(ups.filter (!·.ok)).length}:race{if race > 0 then 1 else 0}:lat{latency}"
        .ok ({ st with cases := st.cases + 1, fails := st.fails + nf, diverges := st.diverges + (outs.length - nf), cover := bump st.cover key }, outs)
  | _ => if line.startsWith "#" || line.isEmpty || line.startsWith "begin" then .ok (st, []) else .error s!"line {lineNo}: unknown line kind"

end Setec.Driver
