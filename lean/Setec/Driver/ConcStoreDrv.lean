import Setec.Driver.Util
/- Driver for the `concstore` trace family (C12; concurrent part of C15). -/
namespace Setec.Driver

structure CsRun where
  cases : Nat := 0
  fails : Nat := 0
  cover : Std.HashMap String Nat := {}

/-- the monitor: counts recorded by concurrent readers -/
def concStoreLine (st : CsRun) (lineNo : Nat) (line : String) : Except String (CsRun × List String) :=
  match line.splitOn "\t" with
  | "concstore" :: rest =>
    let fs := fields rest
    let n := fun k => ((lookup fs k).getD "0").toNat?.getD 0
    let tag := s!"line={lineNo} {line.replace "\t" " "}"
    let outs :=
      (if n "panics" == 0 then [] else [s!"PROPFAIL C12 handle_never_panics {tag}"]) ++
      (if n "bad" == 0 then [] else [s!"PROPFAIL C12 complete_served_value {tag}"]) ++
      (if n "wrongname" == 0 then [] else [s!"PROPFAIL C12 never_another_secrets_value {tag}"]) ++
      (if n "nonmono" == 0 then [] else [s!"PROPFAIL C12 reader_monotone {tag}"]) ++
      (if n "stalled" == 0 then [] else [s!"PROPFAIL C12 never_waits_for_service {tag}"]) ++
      (if n "afterclose" > 0 then [] else [s!"PROPFAIL C12 works_after_close {tag}"]) ++
      (if n "dropped_pinned" == 0 then [] else [s!"PROPFAIL C12 pinned_not_dropped {tag}"]) ++
      (if n "max_cond_waiting" ≤ 1 then [] else [s!"PROPFAIL C11 refreshes_coalesced {tag}"]) ++
      (if n "lookup_fail" == 0 then [] else [s!"PROPFAIL C16 concurrent_lookup_gets_handle {tag}", s!"PROPFAIL C12 concurrent_lookup_gets_handle {tag}"]) ++
      (if ((lookup fs "stale_after_refresh").getD "0").toInt?.getD 0 ≤ 0 then [] else
        [s!"PROPFAIL C11 poll_ok_fresh {tag} (a handle yields an old version after a successful refresh)",
         s!"PROPFAIL C12 later_calls_see_completed_poll {tag}",
         s!"PROPFAIL C16 polled_like_any_other {tag}"]) ++
      (if n "late_flight_fail" == 0 then [] else [s!"PROPFAIL C16 concurrent_lookup_gets_handle {tag} (late second flight)"]) ++
      (if n "lookup_panics" == 0 then [] else [s!"PROPFAIL C16 concurrent_lookup_gets_handle {tag} (a lookup panicked)", s!"PROPFAIL C12 handle_never_panics {tag} (a lookup panicked)"]) ++
      (if n "below_floor" == 0 then [] else
        [s!"PROPFAIL C12 later_calls_see_completed_poll {tag} (a value read after a completed Refresh was later replaced by an older one)",
         s!"PROPFAIL C11 poll_ok_fresh {tag} (a completed poll's value was later replaced by an older one)"]) ++
      (if n "nil_but_stale" == 0 then [] else
        [s!"PROPFAIL C11 poll_ok_fresh {tag} (a Refresh that joined a round whose starter gave up returned nil although secrets were not brought up to date)"]) ++
      (if n "lock_leak" == 0 then [] else
        [s!"PROPFAIL C12 never_waits_for_service {tag} (after a failed updater lookup the readers stopped making progress, or the failure was not reported)",
         s!"PROPFAIL C16 failed_installs_nothing {tag} (a failed updater lookup left the store unusable)"]) ++
      (if n "cache_behind" == 0 then [] else
        [s!"PROPFAIL C13 flush_whole_document {tag} (with everything settled the cache document lacks a secret the store serves, or holds another version of it)",
         s!"PROPFAIL C16 polled_like_any_other {tag} (cache behind the store after lookups)",
         s!"PROPFAIL C19 drop_only_if {tag} (a secret with a live handle is missing from, or stale in, the cache)"]) ++
      (if n "late_stamp_bad" == 0 then [] else
        [s!"PROPFAIL C19 read_refreshes_access_time {tag} (two handles for one looked-up name, the second obtained by a lookup that was overtaken by the first: a read through one of them did not refresh the access time of the store's entry for the name)",
         s!"PROPFAIL C12 handle_follows_the_store {tag} (a handle reads and stamps an entry the store no longer holds)"]) ++
      (if n "by_refresh_bad" == 0 then [] else
        [s!"PROPFAIL C11 poll_ok_fresh {tag} (a second store in the process, whose own service is never held: its Refresh failed, or returned nil without bringing its secret to its service's active version, while the first store's poll was in flight)"]) ++
      (if n "by_lookup_bad" == 0 then [] else
        [s!"PROPFAIL C16 concurrent_lookup_gets_handle {tag} (a second store in the process looked up a name the first store was looking up at the same time: its lookup failed or yielded a value its own service never served)",
         s!"PROPFAIL C12 really_served {tag} (a second store's lookup yielded a value its own service never served)"]) ++
      (if n "upd_e_stale" == 0 then [] else [s!"PROPFAIL C15 no_lost_update {tag} (an updater on a looked-up secret is built from old bytes after a completed refresh)"]) ++
      (if n "cr_fail" == 0 then [] else [s!"PROPFAIL C15 concurrent_registration {tag} (an updater created at the same time as two others on a name the store had to look up was refused)",
                                         s!"PROPFAIL C16 concurrent_lookup_gets_handle {tag} (concurrent NewUpdater calls on an unknown name)"]) ++
      (if n "cr_stale" == 0 then [] else [s!"PROPFAIL C15 no_lost_update {tag} (three updaters registered at the same moment on a looked-up name: after an install and a completed refresh one of them still yields the old version - its registration was lost)"]) ++
      (if n "cu_stale_get" == 0 then [] else [s!"PROPFAIL C15 next_get_sees_newest {tag}"]) ++
      (if ((lookup fs "cu_final").getD "2") == "2" then [] else [s!"PROPFAIL C15 no_lost_update {tag} (quiescent Get after two installs)"]) ++
      (if n "cu_cur_closed" == 0 then [] else [s!"PROPFAIL C15 current_never_closed {tag}"]) ++
      (if n "cu_multi_close" == 0 then [] else [s!"PROPFAIL C15 closed_exactly_once {tag}"]) ++
      (if n "upd_bad" == 0 && n "upd_nonmono" == 0 then [] else [s!"PROPFAIL C15 concurrent_get {tag}"]) ++
      (if n "windows" > 0 then [] else [s!"DIVERGE concstore_no_window {tag}"])
    .ok ({ st with cases := st.cases + 1, fails := st.fails + outs.length,
                   cover := bump st.cover s!"concstore:r{n "readers"}:w{n "windows"}" }, outs)
  | _ => if line.startsWith "#" || line.isEmpty then .ok (st, []) else .error s!"line {lineNo}: unknown line kind"

end Setec.Driver
