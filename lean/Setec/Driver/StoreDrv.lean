import Setec.Driver.DBDrv
import Setec.Model.Store
import Setec.Model.CacheDoc
import Setec.Model.Cadence
import Setec.Generated.Facts
/- Driver for the `store` trace family (C10, C11, C13, C19, sequential part of C16/C12). -/
namespace Setec.Driver
open Std Setec.KV Setec.Store

/-! ### parsing -/

structure SnapE where
  name : String
  ent : Option (SV × Int × Bool)   -- value, lastAccess, declared; none = stub
  handle : Bool
  watchers : Nat
  deriving DecidableEq

def parseSnap (s : String) : Option (List SnapE) :=
  if s == "-" then some [] else
  (s.splitOn ";").mapM fun item =>
    match item.splitOn "=" with
    | [nh, rest] => do
      let n ← unhexStr nh
      if rest == "nil" then pure { name := n, ent := none, handle := false, watchers := 0 } else
      match rest.splitOn ":" with
      | [v, val, la, d, h, w] => do
        let v ← v.toNat?; let val ← unhex val; let la ← la.toInt?; let w ← w.toNat?
        pure { name := n, ent := some ({ value := val, version := v }, la, d == "1"), handle := h == "1", watchers := w }
      | _ => none
    | _ => none

def snapOfModel (s : St) : List SnapE :=
  s.m.toList.map fun (n, e) =>
    { name := n, ent := e.map fun c => (c.sv, c.lastAccess, c.declared), handle := s.handles.contains n, watchers := 0 }

def stripWatchers (l : List SnapE) : List SnapE := l.map fun e => { e with watchers := 0 }

/-- `name=ver:val:la;...` | EMPTY | NONE | BAD | NIL | READFAIL -/
def parseDocL (s : String) : Option (List (String × SV × Int)) :=
  if s == "NONE" || s == "EMPTY" then some [] else
  (s.splitOn ";").mapM fun item =>
    match item.splitOn "=" with
    | [nh, rest] =>
      match rest.splitOn ":" with
      | [v, val, la] => do
        let n ← unhexStr nh; let v ← v.toNat?; let val ← unhex val; let la ← la.toInt?
        pure (n, { value := val, version := v }, la)
      | _ => none
    | _ => none

def parseDoc (s : String) : Option Doc :=
  (parseDocL s).map fun l => ExtTreeMap.ofList (l.map fun (n, sv, la) => (n, (sv, la))) compare

def parseAns (s : String) : Option Ans :=
  match s.splitOn ":" with
  | ["value", v, h] => do let v ← v.toNat?; let b ← unhex h; pure (.value { value := b, version := v })
  | ["notchanged"] => some .notChanged
  | ["notfound"] => some .notFound
  | ["fail"] => some .fail
  | ["ctx"] => some .ctxErr
  | _ => none

structure ReqL where
  tms : Nat
  kind : String
  name : String
  old : Nat
  ans : Ans

def parseReqs (s : String) : Option (List ReqL) :=
  if s.isEmpty then some [] else
  (s.splitOn ",").mapM fun item =>
    match item.splitOn "/" with
    | [t, k, nh, old, a] => do
      let t ← t.toNat?; let n ← unhexStr nh; let old ← old.toNat?; let a ← parseAns a
      pure { tms := t, kind := k, name := n, old := old, ans := a }
    | _ => none

/-- service state `name=ver:val;...` -/
def parseSvc (s : String) : Option (List (String × SV)) :=
  if s == "-" then some [] else
  (s.splitOn ";").mapM fun item =>
    match item.splitOn "=" with
    | [nh, rest] =>
      match rest.splitOn ":" with
      | [v, val] => do
        let n ← unhexStr nh; let v ← v.toNat?; let val ← unhex val
        pure (n, { value := val, version := v })
      | _ => none
    | _ => none

def dedupSorted : List String → List String
  | a :: b :: rest => if a == b then dedupSorted (b :: rest) else a :: dedupSorted (b :: rest)
  | l => l

def sortStrings (l : List String) : List String := (l.toArray.qsort (· < ·)).toList

/-- group requests into rounds by timestamp (strictly increasing between rounds) -/
def groupRounds : List ReqL → List (Nat × List ReqL)
  | [] => []
  | r :: rest =>
    match groupRounds rest with
    | (t, g) :: gs => if t == r.tms then (t, r :: g) :: gs else (r.tms, [r]) :: (t, g) :: gs
    | [] => [(r.tms, [r])]

def showDoc (d : Doc) : String :=
  if d.isEmpty then "NONE" else
  joinWith ";" (d.toList.map fun (n, sv, la) => s!"{hexStr n}={sv.version}:{hexBytes sv.value}:{la}")

def showSnap (l : List SnapE) : String :=
  if l.isEmpty then "-" else
  joinWith ";" (l.map fun e => match e.ent with
    | none => s!"{hexStr e.name}=nil"
    | some (sv, la, d) => s!"{hexStr e.name}={sv.version}:{hexBytes sv.value}:{la}:{if d then 1 else 0}:{if e.handle then 1 else 0}")

/-! ### run state -/

structure StoreRun where
  st : Option St := none
  served : List (String × SV) := []     -- every (name, value) the service answered or the start-up cache supplied
  wfail : Bool := false                 -- the cache rejects writes in this store's lifetime
  nopoll : Bool := false                -- automatic polling is disabled in this store's configuration (no poller, hence no shutdown flush)
  fileTab : Option (List (String × SV)) := none   -- table of the file-backed client, if that is the client
  hist : Nat := 0
  steps : Nat := 0
  fails : Nat := 0
  diverges : Nat := 0
  cover : Std.HashMap String Nat := {}

def mkOut (st : StoreRun) (st' : Option St) (served : List (String × SV)) (key : String) (outs : List String) :
    StoreRun × List String :=
  let nf := (outs.filter (·.startsWith "PROPFAIL")).length
  ({ st with st := st', served := served, steps := st.steps + 1, fails := st.fails + nf,
             diverges := st.diverges + (outs.length - nf), cover := bump st.cover key }, outs)

def servedOK (served : List (String × SV)) (snap : List SnapE) : List String :=
  snap.filterMap fun e => match e.ent with
    | some (sv, _, _) => if served.contains (e.name, sv) then none else some e.name
    | none => none

def storeLine (st : StoreRun) (lineNo : Nat) (line : String) : Except String (StoreRun × List String) :=
  let pinned := Setec.Facts.storePinnedPolled.getD false
  match line.splitOn "\t" with
  | ["begin", h] => .ok ({ st with st := none, served := [], hist := h.toNat?.getD 0 }, [])
  | "restart" :: _ => .ok (st, [])
  | "tick" :: _ => .ok (st, [])
  | "svcset" :: _ => .ok (st, [])
  | "svcdel" :: _ => .ok (st, [])
  | ["cachefail", on] => .ok ({ st with wfail := on == "on=1" }, [])
  | "cadence" :: rest =>
    -- a store with the real ticker under virtual time: when the background polls arrived
    let fs := fields rest
    let get := fun k => (lookup fs k).getD ""
    let i : Int := (get "interval").toInt?.getD 0
    let polls : List Int := ((get "polls").splitOn ",").filterMap String.toInt?
    let tag := s!"line={lineNo} interval={i}ns polls={get "polls"}"
    -- the clause itself is `Cadence.cadenceOK`, proved sound and complete for a ticker of constant
    -- period in Proofs/Cadence and for the generated period expression in C11
    let o1 := if Setec.Cadence.cadenceOK i polls then [] else
      [s!"PROPFAIL C11 cadence {tag} background polls must come once per interval within a tenth of it on either side"]
    -- model: the period is the generated expression for some draw in range, the same for every tick
    let o2 := if !Setec.Facts.gen_pollPeriod_ok then [] else
      if Setec.Cadence.modelOK Setec.Facts.gen_pollPeriod i polls then [] else
      [s!"DIVERGE cadence_model {tag} no draw in range makes the generated period expression equal to the observed period"]
    .ok ({ st with steps := st.steps + 1, fails := st.fails + o1.length, diverges := st.diverges + o2.length,
                   cover := bump st.cover s!"cadence:{i}" }, o1 ++ o2)
  | "nopoller" :: _ =>
    .ok ({ st with fails := st.fails + 2 },
         [s!"PROPFAIL C11 background_poll_runs hist={st.hist} line={lineNo} no background poller took the tick",
          s!"PROPFAIL C16 polled_like_any_other hist={st.hist} line={lineNo} no background poller took the tick"])
  | "cachedoc" :: rest =>
    -- one document handed to Cache.Write: its bytes against the model's rendering of its contents
    let fs := fields rest
    let get := fun k => (lookup fs k).getD ""
    let tag := s!"hist={st.hist} line={lineNo}"
    let canon := get "canon"
    if canon == "BAD" || canon == "EMPTY" then .ok (st, []) else
    match parseDoc canon, (unhex (get "raw")).bind (fun b => String.fromUTF8? (ByteArray.mk b.toArray)) with
    | some d, some raw =>
      -- Go writes a nil byte slice as null; the model does not distinguish nil from empty
      let rawN := (raw.replace "\"Value\":null" "\"Value\":\"\"").toList
      let outs :=
        (if (CacheDoc.readDoc rawN).map (·.toList) == some d.toList then [] else
          [s!"PROPFAIL C13 cache_reads_back {tag} the written document does not read back in the documented layout raw={(get "raw").take 400}",
           s!"PROPFAIL C18 cache_reads_back {tag}"]) ++
        (if CacheDoc.renderDoc d == rawN then [] else
          [s!"DIVERGE cache_bytes {tag} code={(get "raw").take 300} model={(hexStr (String.ofList (CacheDoc.renderDoc d))).take 300}"])
      let nf := (outs.filter (·.startsWith "PROPFAIL")).length
      .ok ({ st with fails := st.fails + nf, diverges := st.diverges + (outs.length - nf) }, outs)
    | _, _ => .ok (st, [s!"PROPFAIL C13 cache_reads_back {tag} written cache bytes are not UTF-8 text or not the documented shape raw={(get "raw").take 200}"])
  | "new" :: rest =>
    let fs := fields rest
    let get := fun k => (lookup fs k).getD ""
    let tag := s!"hist={st.hist} line={lineNo}"
    match (do
      let names ← parseHexList (get "names")
      let age ← (get "age").toInt?
      let now ← (get "now").toInt?
      let dl ← (get "deadline").toInt?
      let reqs ← parseReqs (get "reqs")
      let snap ← if get "res" == "ok" then parseSnap (get "snap") else some []
      let elapsed ← (get "elapsed").toNat?
      pure (names, age, now, dl, reqs, snap, elapsed) : Option _) with
    | none => .error s!"line {lineNo}: cannot parse new"
    | some (names, age, now, dl, reqs, snap, elapsed) =>
      let declared := dedupSorted (sortStrings names)
      let lookupOn := get "lookup" == "1"
      let cacheS := get "cache"
      let hasCache := cacheS != "NIL"
      let cin : CacheIn :=
        if cacheS == "NIL" || cacheS == "EMPTY" || cacheS == "READFAIL" then .absent
        else if cacheS == "BAD" then .malformed
        else match parseDoc cacheS with | some d => .doc d | none => .malformed
      let misconfig := !validConfig (get "client" != "nil") declared lookupOn
      let res := get "res"
      let isFile := get "client" == "file"
      let deadline : Option Nat := if dl < 0 then none else some dl.toNat
      let m0 := loadCache cin
      let (m1, wantFlush) := stubDeclared m0 declared
      let missing0 := missingNames m1
      -- script: rounds from the observed request log (network client) or from the file client's table
      let fileTab : List (String × SV) := match parseDoc (get "filedoc") with
        | some d => (fileClientTable d).toList
        | none => []
      let rounds := groupRounds reqs
      let order : Nat → List String := fun k =>
        if isFile then [] else match rounds[k]? with | some (_, g) => g.map (·.name) | none => []
      let ansOf : Nat → String → Ans := fun k n =>
        if isFile then (match fileTab.lookup n with | some sv => Ans.value sv | none => .notFound)
        else match rounds[k]? with
          | some (_, g) => (match g.find? (·.name == n) with | some r => r.ans | none => .fail)
          | none => .fail
      let io := initLoop isFile deadline now order ansOf (rounds.length + 2) 0 0 m1 []
      let served0 : List (String × SV) :=
        (match cin with | .doc d => d.toList.map fun (n, sv, _) => (n, sv) | _ => []) ++
        reqs.filterMap (fun r => match r.ans with | .value sv => some (r.name, sv) | _ => none) ++ fileTab
      if misconfig then
        let outs := if res == "err" then [] else [s!"PROPFAIL C10 misconfig {tag} res={res} names={get "names"} client={get "client"}"]
        .ok (mkOut st none [] s!"new:misconfig:{res}" outs)
      else
        let modelOK := io.ok
        let st1 : St := { m := io.m, handles := [], cache := none, hasCache := hasCache, allowLookup := lookupOn, expiryAge := age }
        let st2 := if wantFlush then flush st1 else st1
        let wantWrites := if wantFlush && hasCache && modelOK then showDoc (docOf io.m) else "-"
        let inCache := fun (n : String) => match cin with | .doc d => d.contains n | _ => false
        -- per-name request history
        let refetch := declared.filter fun n =>
          let rs := reqs.filter (·.name == n)
          -- a request after a value answer
          (rs.dropWhile (fun r => match r.ans with | .value _ => false | _ => true)).length > 1
        let gaps := (rounds.zip (rounds.drop 1)).map fun ((t1, _), (t2, _)) => t2 - t1
        let outs : List String :=
          (if res.startsWith "panic" then [s!"PROPFAIL C10 no_panic {tag} res={res}", s!"PROPFAIL C13 no_panic {tag} cache={cacheS.take 60}"] else []) ++
          (if res == "hang" then [s!"PROPFAIL C10 deadline_prompt {tag} construction had not returned one hour (virtual) after it began: deadline={dl} names={get "names"}"] else []) ++
          -- C10
          (if res == "ok" && !(declared.all fun n => snap.any fun e => e.name == n && e.ent.isSome)
            then [s!"PROPFAIL C10 init_complete {tag} declared={declared} snap={showSnap snap}"] else []) ++
          (if refetch.isEmpty then [] else [s!"PROPFAIL C10 no_refetch {tag} names={refetch} reqs={get "reqs"}"]) ++
          (if (reqs.filter fun r => inCache r.name).isEmpty then [] else [s!"PROPFAIL C10 cached_not_fetched {tag} reqs={get "reqs"} cache={cacheS.take 120}"]) ++
          (if gaps.all (· ≤ 10000) then [] else [s!"PROPFAIL C10 backoff_bound {tag} gaps_ms={gaps}"]) ++
          (match deadline with
           | some d => if res == "err" && elapsed > d then [s!"PROPFAIL C10 deadline_prompt {tag} deadline={d} elapsed={elapsed}"] else []
           | none => if res == "err" && !isFile then [s!"PROPFAIL C10 retries_until_success {tag} reqs={(get "reqs").take 200}"] else []) ++
          (if isFile && !missing0.isEmpty && (missing0.any fun n => (fileTab.lookup n).isNone) && !(res == "err" && elapsed == 0)
            then [s!"PROPFAIL C10 fileclient_immediate {tag} res={res} elapsed={elapsed}"] else []) ++
          (if isFile && res == "err" && modelOK && !misconfig && (missing0.all fun n => (fileTab.lookup n).isSome)
            then [s!"PROPFAIL C10 cache_or_file_suffices {tag} construction failed although every declared secret has a value in the cache or in the client's file: declared={declared} cache={cacheS.take 160} file={get "filedoc" |>.take 160}"] else []) ++
          -- C13
          (if res == "ok" && hasCache && get "wfail" != "1" && get "writes" == "-" &&
              (reqs.any fun r => match r.ans with | .value _ => true | _ => false)
            then [s!"PROPFAIL C13 flush_after_init {tag} construction fetched values from the service and returned without rewriting the cache: reqs={(get "reqs").take 200}"] else []) ++
          (if cacheS == "BAD" && !isFile && res == "ok" && !(declared.all fun n => reqs.any (·.name == n))
            then [s!"PROPFAIL C13 bad_cache_ignored {tag} declared={declared} reqs={get "reqs"}"] else []) ++
          (if res == "ok" && !(snap.all fun e => match cin, e.ent with
              | .doc d, some (sv, _, _) => (match d[e.name]? with | some (csv, _) => csv == sv | none => true)
              | _, _ => true)
            then [s!"PROPFAIL C13 cache_values_used {tag} cache={cacheS.take 120} snap={showSnap snap}"] else []) ++
          -- correspondence
          (if (res == "ok") == modelOK then [] else [s!"DIVERGE new_result {tag} code={res} model_ok={modelOK}"]) ++
          (if res == "ok" && modelOK && stripWatchers snap != snapOfModel st2
            then [s!"DIVERGE new_state {tag} code={showSnap snap} model={showSnap (snapOfModel st2)}"] else []) ++
          (if !isFile && (io.reqs.map fun (t, n, _) => (t, n)) != (reqs.map fun r => (r.tms, r.name)) then
            [s!"DIVERGE init_schedule {tag} code={reqs.map fun r => (r.tms, r.name)} model={io.reqs.map fun (t, n, _) => (t, n)}"] else []) ++
          (if !isFile && !(rounds.zipIdx.all fun ((_, g), _) => true && g.length == (dedupSorted (sortStrings (g.map (·.name)))).length)
            then [s!"DIVERGE init_round_dup {tag}"] else []) ++
          (if io.elapsedMs == elapsed || res.startsWith "panic" then [] else [s!"DIVERGE init_elapsed {tag} code={elapsed} model={io.elapsedMs}"]) ++
          (if res == "ok" && modelOK && get "writes" != wantWrites then [s!"DIVERGE init_flush {tag} code={(get "writes").take 200} model={wantWrites.take 200}"] else [])
        let key := s!"new:{res}:{if isFile then "file" else "svc"}:{if cacheS.length > 8 then "doc" else cacheS}:dl{if dl < 0 then "-" else "+"}:r{min rounds.length 15}"
        .ok (mkOut { st with wfail := get "wfail" == "1", nopoll := get "nopoll" == "1", fileTab := if isFile then some fileTab else none } (if res == "ok" then some st2 else none) served0 key outs)
  | kind :: rest =>
    let fs := fields rest
    let get := fun k => (lookup fs k).getD ""
    let tag := s!"hist={st.hist} line={lineNo}"
    match st.st with
    | none => .error s!"line {lineNo}: operation without a store"
    | some s =>
    match parseSnap (get "snap") with
    | none => .error s!"line {lineNo}: bad snap"
    | some snap =>
    let cmpState := fun (s' : St) (what : String) =>
      if stripWatchers snap == snapOfModel s' then [] else [s!"DIVERGE {what} {tag} code={showSnap snap} model={showSnap (snapOfModel s')}"]
    match kind with
    | "handle" =>
      match unhexStr (get "n") with
      | none => .error s!"line {lineNo}: bad name"
      | some n =>
        let (s', ok) := takeHandle s n
        let want := if ok then "ok" else if s.allowLookup then "nil" else "panic"
        let outs := (if get "res" == want then [] else [s!"PROPFAIL C16 secret_gate {tag} n={get "n"} res={get "res"} want={want}"]) ++ cmpState s' "handle_state"
        .ok (mkOut st (some s') st.served s!"handle:{get "res"}" outs)
    | "read" =>
      match unhexStr (get "n"), (get "now").toInt? with
      | some n, some now =>
        let (s', v) := read s n now
        let got := get "val"
        let pre := s.m[n]?.join.map (·.sv.value)
        let outs :=
          (if got == "panic" then [s!"PROPFAIL C12 handle_never_panics {tag} n={get "n"}"] else []) ++
          (if got != "panic" && some got != (pre.map fun b => "x" ++ hexBytes b) then [s!"PROPFAIL C12 handle_returns_current {tag} n={get "n"} got={got}"] else []) ++
          (if (snap.find? (·.name == n)).all (fun e => match e.ent with | some (_, la, _) => la == now | none => false) then [] else
            [s!"PROPFAIL C19 read_stamps {tag} n={get "n"} now={now} snap={showSnap snap}"]) ++
          (if v.isSome then cmpState s' "read_state" else [])
        .ok (mkOut st (some (if v.isSome then s' else s)) st.served "read" outs)
      | _, _ => .error s!"line {lineNo}: bad read"
    | "lookup" =>
      match unhexStr (get "n"), (get "now").toInt?, parseReqs (get "reqs") with
      | some n, some now, some reqs =>
        let a := match st.fileTab with
          | some tab => (match tab.lookup n with | some sv => Ans.value sv | none => Ans.notFound)
          | none => (match reqs.head? with | some r => r.ans | none => Ans.fail)
        let (s', r, sent) := Store.lookup s n a now
        let want := match r with | .handle => "handle" | .disabled => "disabled" | .failed => "err"
        let served' := st.served ++ reqs.filterMap (fun r => match r.ans with | .value sv => some (r.name, sv) | _ => none)
        let wantWrites := if r == .handle && sent && s.hasCache then showDoc (docOf s'.m) else "-"
        let reqs := if st.fileTab.isSome && sent then [({ tms := 0, kind := "get", name := n, old := 0, ans := a } : ReqL)] else reqs
        let outs :=
          (if !s.allowLookup && !known s n && !(get "res" == "disabled" && (get "reqs").isEmpty) then
            [s!"PROPFAIL C16 gate_off {tag} n={get "n"} res={get "res"} reqs={get "reqs"}"] else []) ++
          (if get "res" == "disabled" && ((get "also").any (· != 'e')) && get "also" != "-" then
            [s!"PROPFAIL C16 gate_off {tag} n={get "n"} also={get "also"} (an updater or a tagged field reached an unknown name with lookups disabled)"] else []) ++
          (if known s n && !(get "res" == "handle" && (get "reqs").isEmpty) then [s!"PROPFAIL C16 known_served {tag} n={get "n"} res={get "res"}"] else []) ++
          (if get "res" == "err" && stripWatchers snap != snapOfModel s then [s!"PROPFAIL C16 failed_installs_nothing {tag} n={get "n"} snap={showSnap snap}"] else []) ++
          (if get "res" == "err" && reqs.length > 1 then [s!"PROPFAIL C16 no_auto_retry {tag} n={get "n"} reqs={get "reqs"}"] else []) ++
          (if get "res" == "handle" && !(snap.any fun e => e.name == n && e.ent.isSome && e.handle) then [s!"PROPFAIL C16 lookup_installs {tag} n={get "n"}"] else []) ++
          (if get "res" == "handle" && sent && s.hasCache && get "writes" == "-" then [s!"PROPFAIL C13 flush_after_lookup {tag} n={get "n"}"] else []) ++
          (if get "res" == want then [] else [s!"DIVERGE lookup_result {tag} code={get "res"} model={want}"]) ++
          cmpState s' "lookup_state" ++
          (if get "writes" == wantWrites then [] else [s!"DIVERGE lookup_flush {tag} code={(get "writes").take 200} model={wantWrites.take 200}"])
        .ok (mkOut st (some s') served' s!"lookup:{get "res"}:{if sent then "req" else "noreq"}" outs)
      | _, _, _ => .error s!"line {lineNo}: bad lookup"
    | "poll" =>
      match (get "now").toInt?, parseReqs (get "reqs"), parseSvc (get "svcbefore"), parseSvc (get "svc") with
      | some now, some reqs0, some svcB, some svcA =>
        let snapItems := snapshot pinned s now
        -- the file-backed client is not observable: its answers follow from its table
        let reqs : List ReqL := match st.fileTab with
          | none => reqs0
          | some tab => (snapItems.filter (!·.expired)).map fun it =>
              { tms := 0, kind := "cond", name := it.name, old := it.version,
                ans := match tab.lookup it.name with
                  | some sv => if sv.version == it.version then Ans.notChanged else .value sv
                  | none => .notFound }
        -- optional mid-poll action before request index k
        let mid := (get "mid").splitOn "/"
        let midK := (mid[0]? >>= String.toNat?).getD 1000000
        let midKind := mid[1]?.getD ""
        let midName := (mid[2]? >>= unhexStr).getD ""
        let applyMid := fun (s : St) => match midKind with
          | "handle" => (takeHandle s midName).1
          | "read" => (read s midName now).1
          | _ => s
        let sMid := if midK < reqs.length then applyMid s else s
        let expiredItems := snapItems.filter (·.expired)
        let items : List (SnapItem × Ans) :=
          (expiredItems.map fun it => (it, Ans.notChanged)) ++
          reqs.filterMap fun r => (snapItems.find? (fun it => it.name == r.name && !it.expired)).map fun it => (it, r.ans)
        let (s', okM) := Store.poll sMid items
        let pollFailed := reqs.any fun r => match r.ans with | .value _ | .notChanged => false | _ => true
        let served' := st.served ++ reqs.filterMap (fun r => match r.ans with | .value sv => some (r.name, sv) | _ => none)
        let requested := reqs.map (·.name)
        let shouldRequest := (snapItems.filter (!·.expired)).map (·.name)
        let pre := snapOfModel s
        let dropped := pre.filter fun e => !(snap.any (·.name == e.name))
        let badDrop := dropped.filter fun e => match e.ent with
          | some (_, la, d) => d || s.expiryAge ≤ 0 || !(la == 0 || now - la > s.expiryAge) || sMid.handles.contains e.name
          | none => true
        let stale := snap.filter fun e => match e.ent with
          | some (sv, _, _) =>
            !(midKind == "handle" && midName == e.name && midK < reqs.length) &&
            st.fileTab.isNone &&
            !(((svcB.lookup e.name).map (·.version) == some sv.version) || ((svcA.lookup e.name).map (·.version) == some sv.version))
          | none => true
        let changedOnFail := stripWatchers snap != snapOfModel sMid
        let wantWrites := match s'.cache, okM with
          | some d, true => if s'.cache != sMid.cache || (items.any fun (it, a) => (pollItem it a).1.isSome) then showDoc d else "-"
          | _, _ => "-"
        let unserved := servedOK served' snap
        let outs :=
          (if (get "torn").toNat?.getD 0 == 0 then [] else
            [s!"PROPFAIL C12 complete_served_value {tag} torn={get "torn"} (bytes a handle returned earlier have since changed)",
             s!"PROPFAIL C18 value_roundtrip {tag} torn={get "torn"} (bytes a handle returned earlier have since changed)"]) ++
          (if get "midpanic" == "1" then [s!"PROPFAIL C12 handle_never_panics {tag} mid={get "mid"} (a read through a handle during the poll panicked)"] else []) ++
          (if !pollFailed && !stale.isEmpty then [s!"PROPFAIL C11 poll_ok_fresh {tag} stale={stale.map (·.name)} snap={showSnap snap} svc={get "svc"} reqs={get "reqs"}"] else []) ++
          (if pollFailed && changedOnFail then [s!"PROPFAIL C11 poll_fail_old {tag} snap={showSnap snap} pre={showSnap (snapOfModel sMid)}"] else []) ++
          (if unserved.isEmpty then [] else [s!"PROPFAIL C11 served_inv {tag} names={unserved}", s!"PROPFAIL C12 really_served {tag} names={unserved}"]) ++
          (if get "kind" == "refresh" && ((get "res" == "ok" && pollFailed) || (get "res" != "ok" && !pollFailed && !st.wfail)) then [s!"PROPFAIL C11 refresh_reports_failure {tag} res={get "res"} reqs={get "reqs"}"] else []) ++
          (if (requested.filter fun n => (requested.filter (· == n)).length > 1).isEmpty then [] else [s!"PROPFAIL C11 one_request_per_name {tag} reqs={get "reqs"}"]) ++
          (if reqs.all (·.kind == "cond") then [] else [s!"PROPFAIL C11 polls_conditionally {tag} reqs={get "reqs"}"]) ++
          (if badDrop.isEmpty then [] else [s!"PROPFAIL C19 drop_only_if {tag} dropped={badDrop.map (·.name)} pre={showSnap pre} now={now} age={s.expiryAge}"]) ++
          (if !pollFailed && s.hasCache && get "writes" != "-" &&
              (((get "writes").splitOn "|").getLast?.bind parseDocL).map (fun d => d.map fun (n, sv, _) => (n, sv)) !=
                some (snap.filterMap fun e => e.ent.map fun (sv, _, _) => (e.name, sv))
            then [s!"PROPFAIL C13 flush_whole_document {tag} writes={(get "writes").take 200} snap={showSnap snap}"] else []) ++
          (if !pollFailed && s.hasCache && get "writes" == "-" && wantWrites != "-" then
            [s!"PROPFAIL C13 flush_after_poll {tag}", s!"PROPFAIL C11 cache_holds_same {tag} a poll installed a version and the cache was not rewritten"] else []) ++
          (if sortStrings requested == sortStrings shouldRequest then [] else [s!"DIVERGE poll_requests {tag} code={sortStrings requested} model={sortStrings shouldRequest}"]) ++
          (if okM == !pollFailed then [] else [s!"DIVERGE poll_result {tag}"]) ++
          cmpState s' "poll_state" ++
          (if get "writes" == wantWrites then [] else [s!"DIVERGE poll_flush {tag} code={(get "writes").take 160} model={wantWrites.take 160}"])
        let key := s!"poll:{get "kind"}:{if pollFailed then "fail" else "ok"}:mid={midKind}:drop{dropped.length}:exp{expiredItems.length}:upd{if stripWatchers snap == pre then 0 else 1}"
        .ok (mkOut st (some s') served' key outs)
      | _, _, _, _ => .error s!"line {lineNo}: bad poll"
    | "failupd" =>
      -- an updater whose builder rejects the initial value: reported as an error; the watcher and
      -- the handle it took remain (the name stays pinned)
      match unhexStr (get "n"), (get "now").toInt? with
      | some n, some now =>
        -- NewUpdater takes a handle and reads the current bytes through it to build the initial value
        let s' := if known s n then (read (takeHandle s n).1 n now).1 else s
        let outs := (if get "res" == "err" then [] else [s!"PROPFAIL C15 build_failure_reported {tag} n={get "n"} res={get "res"}"]) ++
                    cmpState s' "failupd_state"
        .ok (mkOut st (some s') st.served "failupd" outs)
      | _, _ => .error s!"line {lineNo}: bad failupd"
    | "close" =>
      -- the shutdown flush is the poller's; a store configured without automatic polling has none
      let want := if s.hasCache && !st.nopoll then showDoc (docOf s.m) else "-"
      -- what the cache holds once the store is closed: the document written at shutdown, or - if
      -- none was written - the one written last.  Its access times must be the store's: a read
      -- refreshes the time, and the time is persisted with the next cache write (the shutdown's at
      -- the latest), or the expiry rule does not hold across a restart.
      let effective : Option Doc := if get "writes" == "-" then s.cache else parseDoc (get "writes")
      let stamps := fun (d : Doc) => d.toList.map fun (n, _, la) => (n, la)
      let lostStamps := s.hasCache && !st.wfail && !st.nopoll && (match effective with
        | some d => stamps d != stamps (docOf s.m)
        | none => !(docOf s.m).isEmpty)
      let outs := (if s.hasCache && !st.nopoll && get "writes" == "-" then [s!"PROPFAIL C13 flush_at_shutdown {tag}"] else []) ++
                  (if lostStamps then [s!"PROPFAIL C19 access_time_persisted {tag} after Close the cache holds {(effective.map showDoc).getD "nothing"} but the store's secrets and access times are {want.take 300}"] else []) ++
                  (if get "writes" == want then [] else [s!"DIVERGE close_flush {tag} code={(get "writes").take 200} model={want.take 200}"]) ++
                  cmpState s "close_state"
      .ok (mkOut st (some s) st.served "close" outs)
    | _ => if line.startsWith "#" || line.isEmpty then .ok (st, []) else .error s!"line {lineNo}: unknown line kind {kind}"
  | [] => .ok (st, [])

end Setec.Driver
