import Setec.Model.Fields
import Setec.Generated.Facts
/-!
# C20 - struct-tag plumbing delivers each named secret to its field unaltered
-/
namespace Setec.C20
open Setec.KV Setec.Fields

/-- T1: a []byte field is assigned a clone of the secret's bytes. -/
theorem fact_bytes_cloned : Facts.fieldsBytesCloned = some true := by decide

/-- the secrets requested are exactly prefix/name for each tagged field, in field order -/
theorem names_exact (pfx : String) (ps : List Parsed) :
    secretNames pfx ps = ps.map fun p => if pfx == "" then p.secretName else pfx ++ "/" ++ p.secretName := rfl

/-- untagged fields are never parsed: they take no part in Apply and stay untouched -/
theorem untagged_ignored (f : Field) (h : f.tag = none) : parseField f = .ok none := by
  simp [parseField, h]

/-- every parsed field came from a tagged field with that tag name -/
theorem parsed_from_tag (f : Field) (p : Parsed) (h : parseField f = .ok (some p)) :
    ∃ tag, f.tag = some tag ∧ p.secretName = (parseTag tag).1 ∧ p.isJSON = (parseTag tag).2 ∧
      p.fname = f.fname ∧ p.secretName ≠ "" := by
  simp only [parseField] at h
  split at h
  · simp at h
  · next tag htag =>
    refine ⟨tag, htag, ?_⟩
    split at h
    · simp at h
    · next hn =>
      split at h
      · simp at h; subst h; simp_all
      · split at h
        · simp at h
        · simp at h; subst h; simp_all

/-- rejected up front: a non-pointer / non-struct argument, an empty tag name, an unsupported
field type without the json verb, a struct without tagged fields - in every case nothing is
requested because no `Parsed` list exists -/
theorem rejects_upfront (fs : List Field) :
    parseFields false fs = .error .notPointerToStruct ∧
    (parseAll fs = .ok [] → parseFields true fs = .error .noFields) := by
  constructor
  · rfl
  · intro h; simp [parseFields, h]

theorem empty_name_rejected (f : Field) (tag : String) (h : f.tag = some tag) (hn : (parseTag tag).1 = "") :
    parseField f = .error (.emptyName f.fname) := by
  simp [parseField, h, hn]

theorem unsupported_rejected (f : Field) (tag : String) (h : f.tag = some tag)
    (hn : (parseTag tag).1 ≠ "") (hj : (parseTag tag).2 = false) (hk : f.kind = .other) :
    parseField f = .error (.unsupported f.fname) := by
  simp [parseField, h, hn, hj, hk]

theorem first_error_stops_parse (f : Field) (rest : List Field) (e : ParseErr) (h : parseField f = .error e) :
    parseAll (f :: rest) = .error e := by
  simp [parseAll, h]

/-- after Apply each supported field holds its kind's image of the secret's current bytes -/
theorem apply_fills (clone : Bool) (ja : String → Bytes → Bool) (lookup : String → Option Held) (pfx : String) (fresh : Nat) (p : Parsed) (h : Held)
    (hl : lookup (joinName pfx p.secretName) = some h) (hj : p.isJSON = false) :
    (p.kind = .bytes → ∃ b, applyField clone ja lookup pfx fresh p = (.bytes b h.content, true)) ∧
    (p.kind = .string → applyField clone ja lookup pfx fresh p = (.str h.content, true)) ∧
    (p.kind = .secret → applyField clone ja lookup pfx fresh p = (.handle (joinName pfx p.secretName), true)) := by
  refine ⟨?_, ?_, ?_⟩ <;> intro hk <;> simp [applyField, hl, hj, hk]

/-- The []byte field gets a private buffer: its identity is the fresh one, never the store's,
so a write through the field cannot alter what the store serves. -/
theorem bytes_private (ja : String → Bytes → Bool) (lookup : String → Option Held) (pfx : String) (fresh : Nat) (p : Parsed) (h : Held)
    (hl : lookup (joinName pfx p.secretName) = some h) (hj : p.isJSON = false) (hk : p.kind = .bytes)
    (hfresh : fresh ≠ h.buf) :
    ∃ b, applyField true ja lookup pfx fresh p = (.bytes b h.content, true) ∧ b ≠ h.buf := by
  exact ⟨fresh, by simp [applyField, hl, hj, hk], hfresh⟩

/-- D4 (the tree before the repair): the field received the store's own buffer. -/
theorem d4_original_aliases (ja : String → Bytes → Bool) (lookup : String → Option Held) (pfx : String) (fresh : Nat) (p : Parsed) (h : Held)
    (hl : lookup (joinName pfx p.secretName) = some h) (hj : p.isJSON = false) (hk : p.kind = .bytes) :
    applyField false ja lookup pfx fresh p = (.bytes h.buf h.content, true) := by
  simp [applyField, hl, hj, hk]

/-- a failure on one field neither prevents the others from being filled nor goes unreported:
Apply processes every field and the failed ones are exactly those reported -/
theorem errors_joined (clone : Bool) (ja : String → Bytes → Bool) (lookup : String → Option Held) (pfx : String) (fresh : Nat) (ps : List Parsed) :
    ((applyAll clone ja lookup pfx fresh ps).1.map (·.1)) = ps.map (·.fname) := by
  induction ps generalizing fresh with
  | nil => rfl
  | cons p rest ih => simp only [applyAll, List.map_cons]; rw [ih]

theorem failed_field_reported (clone : Bool) (ja : String → Bytes → Bool) (lookup : String → Option Held) (pfx : String) (fresh : Nat)
    (p : Parsed) (rest : List Parsed) (h : (applyField clone ja lookup pfx fresh p).2 = false) :
    p.fname ∈ (applyAll clone ja lookup pfx fresh (p :: rest)).2 ∧
    (applyAll clone ja lookup pfx fresh (p :: rest)).1.tail = (applyAll clone ja lookup pfx (fresh + 1) rest).1 := by
  simp [applyAll, h]

/-- non-vacuity: tag parsing on concrete tags -/
example : splitComma "db/password,json".toList = ["db/password".toList, "json".toList] ∧
    splitComma "k".toList = ["k".toList] ∧ splitComma ",json".toList = [[], "json".toList] ∧
    splitComma "k,other".toList = ["k".toList, "other".toList] := by decide

/-! ### T1: functions the model transcribes, statement by statement (white space collapsed) -/

def expected_Fields_Apply : List String := ["var errs []error", "for _, fi := range f.fields { fullName := path.Join(f.prefix, fi.secretName) if err := fi.apply(ctx, s, fullName); err != nil { errs = append(errs, fmt.Errorf(\"apply %q to field %q: %w\", fullName, fi.fieldName, err)) } }", "return errors.Join(errs...)"]

/-- Apply: every field in turn, under `path.Join(prefix, name)`; a field's failure is collected and the next field still tried -/
theorem fact_Fields_Apply_as_transcribed : Facts.body_Fields_Apply = expected_Fields_Apply := by rfl

def expected_Fields_Secrets : List String := ["out := make([]string, len(f.fields))", "for i, fi := range f.fields { out[i] = path.Join(f.prefix, fi.secretName) }", "return out"]

/-- Secrets: a fresh slice of the same joined names -/
theorem fact_Fields_Secrets_as_transcribed : Facts.body_Fields_Secrets = expected_Fields_Secrets := by rfl

def expected_fieldInfo_apply : List String := ["if f.isJSON { v, err := s.LookupSecret(ctx, fullName) if err != nil { return err } return json.Unmarshal(v.Get(), f.value.Interface()) }", "v, err := s.LookupSecret(ctx, fullName)", "if err != nil { return err }", "if f.unmarshal != nil { return f.unmarshal(v.Get()) }", "switch f.vtype { case bytesType: f.value.Elem().Set(reflect.ValueOf(bytes.Clone(v.Get()))) case stringType: f.value.Elem().Set(reflect.ValueOf(string(v.Get()))) case secretType: f.value.Elem().Set(reflect.ValueOf(v)) default: return fmt.Errorf(\"unexpected field type %v\", f.vtype) }", "return nil"]

/-- one field: look the secret up (now, from this store), then JSON, the type's own unmarshaller, a private copy of the bytes, the string, or the handle -/
theorem fact_fieldInfo_apply_as_transcribed : Facts.body_fieldInfo_apply = expected_fieldInfo_apply := by rfl

end Setec.C20
