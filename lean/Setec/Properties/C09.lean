import Setec.Proofs.DB
import Setec.Spec.DBMon
import Setec.Proofs.Wire
import Setec.Generated.Facts
import Setec.Proofs.MonitorsSound
/-!
# C09 - conditional get reports not-modified exactly when nothing changed

DB-level theorems about `DB.step Cfg.std _ _ (.getCond n v)`.  The HTTP dispatch on
`Version`/`UpdateIfChanged`, the client's short-circuit for V = 0 and the status/sentinel
mapping are in Properties/C08.lean (`Model.Http`); the file-backed client is at the end.
-/
namespace Setec.C09
open Std Setec.KV Setec.DB Setec.DBMon

theorem get_of_inv (kv : KV) (hinv : Inv kv) (n : String) (s : Secret) (hs : kv.secrets[n]? = some s) :
    ∃ b, s.versions[s.active]? = some b ∧ KV.get kv n = .ok (b, s.active) := by
  have := (hinv n s hs).1
  rw [ExtTreeMap.mem_iff_isSome_getElem?] at this
  cases hb : s.versions[s.active]? with
  | none => simp [hb] at this
  | some b => exact ⟨b, rfl, by simp [KV.get, hs, hb]⟩

/-- For a caller allowed to get the secret, a conditional get with non-zero V answers
not-modified if and only if the active version number is V. -/
theorem cond_iff (kv : KV) (hinv : Inv kv) (c : Caller) (n : String) (v : Nat) (aok sok : Bool) (s : Secret)
    (hg : grantedStd c "get" n = true) (hs : kv.secrets[n]? = some s) :
    (step Cfg.std kv c (.getCond n v) aok sok).2.1 = .notChanged ↔ s.active = v := by
  obtain ⟨b, hb, hget⟩ := get_of_inv kv hinv n s hs
  rw [step_outcome kv c _ aok sok (by simp)]
  simp only [outcome, wellFormed, actionOf, nameOf, hg, hget]
  by_cases hv : s.active = v
  · simp [hv]
  · cases aok <;> simp [hv]

/-- Otherwise it returns the currently active version with its bytes - never another version. -/
theorem cond_returns_active (kv : KV) (hinv : Inv kv) (c : Caller) (n : String) (v : Nat) (sok : Bool) (s : Secret)
    (hg : grantedStd c "get" n = true) (hs : kv.secrets[n]? = some s) (hne : s.active ≠ v) :
    ∃ b, s.versions[s.active]? = some b ∧
      step Cfg.std kv c (.getCond n v) true sok = (kv, .value b s.active, [entryOf c (.getCond n v) true]) := by
  obtain ⟨b, hb, hget⟩ := get_of_inv kv hinv n s hs
  refine ⟨b, hb, ?_⟩
  rw [step_outcome kv c _ true sok (by simp)]
  simp [outcome, wellFormed, actionOf, nameOf, hg, hget, hne]

/-- With V = 0 the answer is never not-modified (the active version is at least 1). -/
theorem v0_returns_active (kv : KV) (hinv : Inv kv) (c : Caller) (n : String) (sok : Bool) (s : Secret)
    (hg : grantedStd c "get" n = true) (hs : kv.secrets[n]? = some s) :
    ∃ b, step Cfg.std kv c (.getCond n 0) true sok = (kv, .value b s.active, [entryOf c (.getCond n 0) true]) := by
  have hpos : s.active ≠ 0 := by
    have := (hinv n s hs).2 s.active (hinv n s hs).1; omega
  obtain ⟨b, _, h⟩ := cond_returns_active kv hinv c n 0 sok s hg hs hpos
  exact ⟨b, h⟩

/-- an absent secret is reported as not-found, a missing grant as access-denied -/
theorem cond_absent (kv : KV) (c : Caller) (n : String) (v : Nat) (aok sok : Bool)
    (hg : grantedStd c "get" n = true) (hs : kv.secrets[n]? = none) :
    step Cfg.std kv c (.getCond n v) aok sok = (kv, .notFound, []) := by
  rw [step_outcome kv c _ aok sok (by simp)]
  simp [outcome, wellFormed, actionOf, nameOf, hg, KV.get, hs, kvErr]

theorem cond_denied (kv : KV) (c : Caller) (n : String) (v : Nat) (aok sok : Bool)
    (hg : grantedStd c "get" n = false) :
    (step Cfg.std kv c (.getCond n v) aok sok).2.1 = .denied := by
  rw [step_outcome kv c _ aok sok (by simp)]
  simp [outcome, wellFormed, actionOf, nameOf, hg]

/-! ### the file-backed client (client/setec/fileclient.go:85-93) -/

/-- `FileClient.GetIfChanged` over its static table -/
def fileGetIfChanged (db : ExtTreeMap String (Bytes × Nat) compare) (n : String) (old : Nat) : Res :=
  match db[n]? with
  | none => .notFound
  | some (b, v) => if v = old then .notChanged else .value b v

theorem fileclient_cond_iff (db : ExtTreeMap String (Bytes × Nat) compare) (n : String) (old : Nat) (b : Bytes) (v : Nat)
    (h : db[n]? = some (b, v)) : fileGetIfChanged db n old = .notChanged ↔ v = old := by
  simp only [fileGetIfChanged, h]; split <;> simp_all

theorem fileclient_returns_value (db : ExtTreeMap String (Bytes × Nat) compare) (n : String) (old : Nat) (b : Bytes) (v : Nat)
    (h : db[n]? = some (b, v)) (hne : v ≠ old) : fileGetIfChanged db n old = .value b v := by
  simp [fileGetIfChanged, h, hne]

/-- non-vacuity: the hypotheses of `cond_iff` are satisfiable -/
example : Inv { secrets := (∅ : SMap).insert "a" (newSecret [1]), gen := 1, disk := ∅ } := by
  intro n s h
  by_cases hn : "a" = n
  · subst hn; simp at h; subst h; exact secInv_new [1]
  · simp [ExtTreeMap.getElem?_insert, hn] at h

/-- the conditional-get arguments survive the wire: the request body the client sends
(`Wire.renderGetReq`, tied byte for byte to the real client by the `http` family) reads back
as the same name, version and UpdateIfChanged flag -/
theorem wire_get_request_roundtrip (name : String) (version : Nat) (uic : Bool) :
    Wire.readGetReq (Wire.renderGetReq name version uic) = some (name, version, uic) :=
  Wire.readGetReq_render name version uic

/-! ### the monitor clause is the specification's own behaviour -/

/-- The clause `cond` - the four outcomes, exactly - as evaluated by the driver on the real code's
answers, holds of the specification's own step in every state that satisfies the store
invariant (every reachable one). -/
theorem monitor_sound (kv : KV.KV) (c : DB.Caller) (op : DB.Op) (aok sok : Bool) (h : KV.Inv kv) :
    DBMon.c09_cond (MonSound.obsOf kv c op aok sok) = true :=
  MonSound.c09_cond_sound kv c op aok sok h

/-- T1, the client's side of the exchange: a POST with exactly the two headers the front door
asks for (it announces no encodings of its own - the transport does that and undoes it), and
the answer's body read whole, whatever its length, in both the error and the success path. -/
theorem fact_client_exchange :
    Facts.clientMethod = ["\"POST\""] ∧
    Facts.clientRequestHeaders =
      ["\"Content-Type\": \"application/json\"", "\"Sec-X-Tailscale-No-Browsers\": \"setec\""] ∧
    Facts.clientBodyReads = ["io.ReadAll(httpResp.Body)", "io.ReadAll(httpResp.Body)"] := by
  decide

/-! ### T1: functions the model transcribes, statement by statement (white space collapsed) -/

def expected_DB_GetConditional : List String := ["if !caller.Permissions.Allow(acl.ActionGet, name) { return nil, db.checkAndLog(caller, acl.ActionGet, name, 0) }", "db.mu.Lock()", "defer db.mu.Unlock()", "sv, err := db.kv.get(name)", "if err != nil { return nil, err } else if sv.Version == oldVersion { return nil, api.ErrValueNotChanged }", "if err := db.checkAndLog(caller, acl.ActionGet, name, 0); err != nil { return nil, err }", "return sv, nil"]

/-- DB.GetConditional: an ungranted caller is refused (and recorded) at once; otherwise, under the mutex: read, report not-found or not-changed without a record, else record the disclosure and return the value -/
theorem fact_DB_GetConditional_as_transcribed : Facts.body_DB_GetConditional = expected_DB_GetConditional := by rfl

end Setec.C09
