import Setec.Proofs.DB
import Setec.Spec.DBMon
/-!
# C04 - the database update is all-or-nothing under crashes and I/O failures

Part 1 (this file, section A): the in-memory rollback.  For every mutating operation the
model keeps the code's shape - mutate, save, and on a failed save run the code's own
rollback statements - and the theorems say the rollback restores *exactly* the pre-call
state, the write generation advances iff the save succeeded, and later calls behave as if
the failed one had not happened.
Part 2 (section B, `Model.Fs`): the file-system protocol of atomicfile.WriteFile.
-/
namespace Setec.C04
open Std Setec.KV Setec.DB Setec.DBMon

/-! ## A. rollback -/

/-- the five rollback branches restore the exact pre-call state -/
theorem rollback_exact_put (kv : KV) (hinv : Inv kv) (n : String) (v : Bytes) :
    (KV.put true kv n v false).1 = kv := put_savefail true kv n v hinv
theorem rollback_exact_activate (kv : KV) (n : String) (v : Nat) : (KV.setActive kv n v false).1 = kv :=
  setActive_savefail kv n v
theorem rollback_exact_deleteVersion (kv : KV) (n : String) (v : Nat) : (KV.deleteVersion kv n v false).1 = kv :=
  deleteVersion_savefail kv n v
theorem rollback_exact_delete (kv : KV) (n : String) : (KV.deleteSecret kv n false).1 = kv :=
  deleteSecret_savefail kv n

/-- at the API: whatever the call, if the save fails the served state is the pre-call state -/
theorem failed_save_serves_old_state (kv : KV) (hinv : Inv kv) (c : Caller) (op : Op) (aok : Bool) :
    (step Cfg.std kv c op aok false).1 = kv := step_savefail Cfg.std kv c op aok hinv

/-- ...in every reachable state -/
theorem failed_save_serves_old_state_reachable (xs : List Call) (c : Caller) (op : Op) (aok : Bool) :
    (step Cfg.std (run Cfg.std KV.empty xs) c op aok false).1 = run Cfg.std KV.empty xs :=
  step_savefail Cfg.std _ c op aok (run_inv Cfg.std KV.empty inv_empty xs)

/-- later calls succeed normally: the next call after a failed save behaves exactly as on
the pre-call state -/
theorem later_calls_unaffected (kv : KV) (hinv : Inv kv) (c c' : Caller) (op op' : Op) (aok aok' sok' : Bool) :
    step Cfg.std (step Cfg.std kv c op aok false).1 c' op' aok' sok' = step Cfg.std kv c' op' aok' sok' := by
  rw [step_savefail Cfg.std kv c op aok hinv]

/-- a put whose save fails reports an error (never a version number it did not store) -/
theorem failed_save_put_reports_error (kv : KV) (n : String) (v : Bytes) (s : Secret)
    (hs : kv.secrets[n]? = some s) (hd : dedupe true s v = false) :
    (KV.put true kv n v false).2 = .error .saveFailed := by
  simp [KV.put, hs, hd]

/-- the write generation only advances on a successful save -/
theorem gen_only_on_save (kv : KV) (hinv : Inv kv) (n : String) (v : Bytes) (ok : Bool) :
    (KV.put true kv n v ok).1.gen = kv.gen ∨ ((KV.put true kv n v ok).1.gen = kv.gen + 1 ∧ ok = true) :=
  put_gen true kv n v ok hinv

/-- non-vacuity of the rollback theorem: a state with two versions in which a third put with
a failing save really goes through mutate-and-rollback -/
example : dedupe true { versions := ((∅ : VMap).insert 1 [1]).insert 2 [2], active := 1, latest := 2 } [3] = false := by
  simp [dedupe]

end Setec.C04
