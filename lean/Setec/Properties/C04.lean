import Setec.Proofs.DB
import Setec.Proofs.Fs
import Setec.Spec.DBMon
import Setec.Generated.Facts
import Setec.Proofs.MonitorsSound
/-!
# C04 - the database update is all-or-nothing under crashes and I/O failures

Part 1 (this file, section A): the in-memory rollback.  For every mutating operation the
model keeps the code's shape - mutate, save, and on a failed save run the code's own
rollback statements - and the theorems say the rollback restores *exactly* the pre-call
state, the write generation advances iff the save succeeded, and later calls behave as if
the failed one had not happened.
Part 2 (section B, `Model.Fs`): the file-system protocol of atomicfile.WriteFile.
-/
namespace Setec.C04
open Std Setec.KV Setec.DB Setec.DBMon

/-! ## A. rollback -/

/-- the five rollback branches restore the exact pre-call state -/
theorem rollback_exact_put (kv : KV) (hinv : Inv kv) (n : String) (v : Bytes) :
    (KV.put true kv n v false).1 = kv := put_savefail true kv n v hinv
theorem rollback_exact_activate (kv : KV) (n : String) (v : Nat) : (KV.setActive kv n v false).1 = kv :=
  setActive_savefail kv n v
theorem rollback_exact_deleteVersion (kv : KV) (n : String) (v : Nat) : (KV.deleteVersion kv n v false).1 = kv :=
  deleteVersion_savefail kv n v
theorem rollback_exact_delete (kv : KV) (n : String) : (KV.deleteSecret kv n false).1 = kv :=
  deleteSecret_savefail kv n

/-- at the API: whatever the call, if the save fails the served state is the pre-call state -/
theorem failed_save_serves_old_state (kv : KV) (hinv : Inv kv) (c : Caller) (op : Op) (aok : Bool) :
    (step Cfg.std kv c op aok false).1 = kv := step_savefail Cfg.std kv c op aok hinv

/-- ...in every reachable state -/
theorem failed_save_serves_old_state_reachable (xs : List Call) (c : Caller) (op : Op) (aok : Bool) :
    (step Cfg.std (run Cfg.std KV.empty xs) c op aok false).1 = run Cfg.std KV.empty xs :=
  step_savefail Cfg.std _ c op aok (run_inv Cfg.std KV.empty inv_empty xs)

/-- later calls succeed normally: the next call after a failed save behaves exactly as on
the pre-call state -/
theorem later_calls_unaffected (kv : KV) (hinv : Inv kv) (c c' : Caller) (op op' : Op) (aok aok' sok' : Bool) :
    step Cfg.std (step Cfg.std kv c op aok false).1 c' op' aok' sok' = step Cfg.std kv c' op' aok' sok' := by
  rw [step_savefail Cfg.std kv c op aok hinv]

/-- a put whose save fails reports an error (never a version number it did not store) -/
theorem failed_save_put_reports_error (kv : KV) (n : String) (v : Bytes) (s : Secret)
    (hs : kv.secrets[n]? = some s) (hd : dedupe true s v = false) :
    (KV.put true kv n v false).2 = .error .saveFailed := by
  simp [KV.put, hs, hd]

/-- the write generation only advances on a successful save -/
theorem gen_only_on_save (kv : KV) (hinv : Inv kv) (n : String) (v : Bytes) (ok : Bool) :
    (KV.put true kv n v ok).1.gen = kv.gen ∨ ((KV.put true kv n v ok).1.gen = kv.gen + 1 ∧ ok = true) :=
  put_gen true kv n v ok hinv

/-- non-vacuity of the rollback theorem: a state with two versions in which a third put with
a failing save really goes through mutate-and-rollback -/
example : dedupe true { versions := ((∅ : VMap).insert 1 [1]).insert 2 [2], active := 1, latest := 2 } [3] = false := by
  simp [dedupe]

/-! ## B. the file-system protocol of a save (atomicfile.WriteFile) -/

open Setec.Fs in
/-- Kill at any instant: after any prefix of the calls of a save - for every split of the
data into partial writes - the live file holds the complete old contents, and it holds the
complete new contents (with the requested mode) exactly when the whole sequence, rename
included, has run.  Never a mixture or a truncation. -/
theorem crash_all_or_nothing (s : St) (chunks : List Bytes) (perm : Nat) (k : Nat) :
    (k < (atomicWrite chunks perm).length →
        (execs s ((atomicWrite chunks perm).take k)).target = s.target) ∧
    (k ≥ (atomicWrite chunks perm).length →
        (execs s ((atomicWrite chunks perm).take k)).target = some (chunks.flatten, perm)) := by
  constructor
  · intro hk
    exact execs_target s _ (take_no_rename chunks perm k hk)
  · intro hk
    rw [List.take_of_length_le hk, atomicWrite_result]

open Setec.Fs in
/-- The live file is never written in place: no call of the sequence other than the final
rename changes it. -/
theorem never_in_place (s : St) (c : Fs.Call) (h : c ≠ .rename) : (Fs.exec s c).target = s.target :=
  exec_target s c h

open Setec.Fs in
/-- New contents are complete and flushed to stable storage, with their final mode, before
they replace the live file. -/
theorem flushed_then_renamed (s : St) (chunks : List Bytes) (perm : Nat) :
    atomicWrite chunks perm =
      ([Fs.Call.openTmp 0o600] ++ chunks.map Fs.Call.write ++ [Fs.Call.chmod perm, Call.fsync, Call.close]) ++ [Fs.Call.rename] ∧
    execs s ([Fs.Call.openTmp 0o600] ++ chunks.map Fs.Call.write ++ [Fs.Call.chmod perm, Call.fsync, Call.close]) =
      { target := s.target, tmp := some { content := chunks.flatten, mode := perm, synced := true } } :=
  ⟨atomicWrite_split chunks perm, flushed_before_rename s chunks perm⟩

open Setec.Fs in
/-- An error from any file-system step: the calls before it, then the code's cleanup.  The
live file is exactly the old one and no temporary file is left. -/
theorem fault_leaves_old (s : St) (hs : s.tmp = none) (chunks : List Bytes) (perm : Nat) (i : Nat)
    (hi : i < (atomicWrite chunks perm).length) :
    execs s (failAt chunks perm i) = s := by
  unfold failAt
  rw [execs_append]
  have ht := execs_target s _ (take_no_rename chunks perm i hi)
  by_cases h0 : i = 0
  · subst h0; simp [execs]
  · simp only [h0, if_false, execs, List.foldl_cons, List.foldl_nil, Fs.exec]
    simp only [execs] at ht
    cases s
    simp only at hs ht ⊢
    subst hs
    generalize List.foldl Fs.exec _ _ = r at ht ⊢
    cases r; simp_all

/-- T1: the save goes through atomicfile.WriteFile with mode 0600. -/
theorem save_uses_atomic_write : Facts.dbPerm = some 0o600 := by decide

open Setec.Fs in
/-- non-vacuity: a two-chunk (partial) write killed after the first chunk leaves the old file -/
example : (execs { target := some ([1], 0o600), tmp := none } ((atomicWrite [[7], [8]] 0o600).take 2)).target = some ([1], 0o600) := by
  decide

/-- The in-process clauses `savefail_noop`, `mem_eq_disk` and `gen_iff_saved` (the write generation
moves exactly when the state does), as the driver evaluates them on the
real code's steps, hold of the specification's own step in every state that satisfies the store
invariant. -/
theorem monitors_sound (kv : KV.KV) (c : DB.Caller) (op : DB.Op) (aok sok : Bool) (h : KV.Inv kv) :
    DBMon.c04_savefail_noop (MonSound.obsOf kv c op aok sok) = true ∧
    DBMon.c04_mem_eq_disk (MonSound.obsOf kv c op aok sok) = true ∧
    DBMon.c04_gen_iff_saved (MonSound.obsOf kv c op aok sok) = true :=
  ⟨MonSound.c04_savefail_noop_sound kv c op aok sok h, MonSound.c04_mem_eq_disk_sound kv c op aok sok,
   MonSound.c04_gen_iff_saved_sound kv c op aok sok h⟩

/-- T1, `kv.save` in calls: marshal the whole map, encrypt it under the data key, marshal the
wrapper, and hand the bytes to `atomicfile.WriteFile` for the configured path with mode 0600 -
nothing else: no call to the key-encryption key, no file operation of its own (no temporary
file of its own naming, no copy kept beside the database, no rename of the live file), no
per-secret shortcut. -/
theorem fact_save_shape :
    Facts.kvSaveCalls = ["json.Marshal", "kv.dekCipher.Encrypt", "aeadContextDB", "json.Marshal", "atomicfile.WriteFile"] ∧
    Facts.kvSaveFileCalls = ["atomicfile.WriteFile(kv.path, out, 0600)"] := by
  decide

end Setec.C04
