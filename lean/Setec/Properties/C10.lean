import Setec.Proofs.Store
import Setec.Generated.Facts
/-!
# C10 - store construction returns only with a value for every declared secret

`initLoop` is initializeActive over a virtual millisecond clock; the oracles are the map
iteration order of every round and every answer of the service.  The theorems quantify
over all oracles, all deadlines and (where it matters) any number of rounds.
Hypothesis on the environment: the client returns when its context ends (recorded as the
answer `ctxErr`).
-/
namespace Setec.C10
open Std Setec.KV Setec.Store

/-- T1: the retry wait starts at 1 ms and doubles while below 4 s; the file-client special
case is present. -/
theorem backoff_constants :
    Facts.retryBaseMs = some (retryWait 0) ∧ Facts.retryCapMs = some 4000 ∧ Facts.initFileClientCase = true := by
  decide

/-- the pause between two rounds is at most 4.096 s ("a few seconds"), for every round -/
theorem backoff_bounded (k : Nat) : 1 ≤ retryWait k ∧ retryWait k ≤ 4096 :=
  ⟨retryWait_pos k, retryWait_le k⟩

/-- with or without a deadline, the time between consecutive rounds never exceeds the wait -/
theorem round_gap (deadline : Option Nat) (t k : Nat) : afterSleep deadline t (retryWait k) ≤ t + 4096 := by
  have := retryWait_le k
  cases deadline <;> simp [afterSleep] <;> omega

/-- NewStore succeeds only when every name of the active set - every declared name was
stubbed into it - has a value. -/
theorem init_ok_complete (isFile : Bool) (deadline : Option Nat) (now : Int)
    (order : Nat → List String) (ans : Nat → String → Ans) (fuel : Nat) (m : AMap)
    (h : (initLoop isFile deadline now order ans fuel 0 0 m []).ok = true) :
    missingNames (initLoop isFile deadline now order ans fuel 0 0 m []).m = [] :=
  initLoop_ok_complete isFile deadline now order ans fuel 0 0 m [] h

/-- every declared name is in the active set after stubbing: from the cache or as a stub -/
theorem declared_stubbed (m : AMap) (names : List String) (n : String) (hn : n ∈ names) :
    (stubDeclared m names).1.contains n = true := by
  induction names generalizing m with
  | nil => cases hn
  | cons x rest ih =>
    have keep : ∀ (m : AMap) (l : List String) (k : String), m.contains k = true → (stubDeclared m l).1.contains k = true := by
      intro m l
      induction l generalizing m with
      | nil => intro k h; simpa [stubDeclared] using h
      | cons y l ihl =>
        intro k h
        simp only [stubDeclared]
        split
        · apply ihl; simp [ExtTreeMap.contains_insert, h]
        · apply ihl; simp [ExtTreeMap.contains_insert, h]
    simp only [List.mem_cons] at hn
    simp only [stubDeclared]
    rcases hn with rfl | hn
    · split
      · apply keep; simp [ExtTreeMap.contains_insert]
      · apply keep; simp [ExtTreeMap.contains_insert]
    · split
      · exact ih _ hn
      · exact ih _ hn

/-- a secret already obtained (from the cache or an earlier round) is never requested:
a round only visits names that are still missing -/
theorem no_refetch (m : AMap) (order : List String) (n : String) (h : n ∈ visits m order) :
    m[n]? = some none :=
  (mem_missingNames m n).mp (visits_subset_missing m order n h)

theorem requests_only_for_missing (m : AMap) (now : Int) (ctxDone : Bool) (ans : String → Ans) (order : List String) :
    ∀ x ∈ (initRound m now ctxDone ans (visits m order)).2.2.2, m[x.1]? = some none := by
  intro x hx
  exact no_refetch m order x.1 (initRound_reqs_subset m now ctxDone ans _ x hx)

/-- with a complete cache construction returns at once without contacting the service -/
theorem full_cache_no_requests (isFile : Bool) (deadline : Option Nat) (now : Int)
    (order : Nat → List String) (ans : Nat → String → Ans) (fuel : Nat) (m : AMap) (h : missingNames m = []) :
    (initLoop isFile deadline now order ans (fuel + 1) 0 0 m []).ok = true ∧
    (initLoop isFile deadline now order ans (fuel + 1) 0 0 m []).reqs = [] ∧
    (initLoop isFile deadline now order ans (fuel + 1) 0 0 m []).elapsedMs = 0 :=
  initLoop_full_cache isFile deadline now order ans fuel m h

/-- when the caller's context has a deadline, construction returns by that deadline -
whatever the service does, for any number of rounds -/
theorem deadline_prompt (isFile : Bool) (d : Nat) (now : Int)
    (order : Nat → List String) (ans : Nat → String → Ans) (fuel : Nat) (m : AMap) :
    (initLoop isFile (some d) now order ans fuel 0 0 m []).elapsedMs ≤ d :=
  initLoop_deadline isFile d now order ans fuel 0 0 m [] (Nat.zero_le d)

/-- with a file-backed client it fails (or succeeds) at once: exactly one round, no sleep -/
theorem fileclient_immediate (deadline : Option Nat) (now : Int)
    (order : Nat → List String) (ans : Nat → String → Ans) (fuel : Nat) (m : AMap) :
    (initLoop true deadline now order ans (fuel + 1) 0 0 m []).rounds = 1 :=
  initLoop_file deadline now order ans fuel m

/-- misconfiguration is reported as an error -/
theorem misconfig (names : List String) (lookup : Bool) :
    validConfig false names lookup = false ∧ validConfig true [] false = false ∧
    (names.contains "" = true → validConfig true names lookup = false) := by
  refine ⟨by simp [validConfig], by simp [validConfig], ?_⟩
  intro h
  have : "" ∈ names := by simpa using h
  simp [validConfig, this]

/-- it keeps retrying until all succeed: if in round k every still-missing name is
answered, the loop ends successfully in that round (no deadline, enough fuel) - stated for
the first round; by `initLoop`'s recursion the same holds from any later state. -/
theorem recovers_when_all_answer (now : Int) (order : Nat → List String) (ans : Nat → String → Ans) (fuel : Nat) (m : AMap)
    (hall : (initRound m now false (ans 0) (visits m (order 0))).2.1 = 0)
    (hnab : (initRound m now false (ans 0) (visits m (order 0))).2.2.1 = false) :
    (initLoop false none now order ans (fuel + 1) 0 0 m []).ok = true := by
  simp [initLoop, deadlineReached, hall, hnab]

/-- non-vacuity: 13 consecutive failures reach the cap, and a stubbed name is visited -/
example : retryWait 12 = 4096 ∧ retryWait 13 = 4096 ∧ retryWait 3 = 8 := by decide

/-! ### T1: functions the model transcribes, statement by statement (white space collapsed) -/

def expected_Store_initializeActive : List String := ["const baseRetryInterval = 1 * time.Millisecond", "retryWait := baseRetryInterval", "_, waitingIsPointless := s.client.(*FileClient)", "for { var missing int for name, cs := range s.active.m { if cs != nil { continue } sv, err := s.client.Get(ctx, name) if err == nil { s.active.m[name] = &cachedSecret{ Secret: sv, LastAccess: s.timeNow().Unix(), Declared: true, } continue } else if ctx.Err() != nil { return err } missing++ } if missing == 0 { return nil } if waitingIsPointless { return fmt.Errorf(\"missing %d unavailable secrets\", missing) } sleepFor(ctx, retryWait) if retryWait < 4*time.Second { retryWait += retryWait } }"]

/-- initializeActive: rounds over the names that still lack a value; a context that has ended ends construction; a file-backed client gives up at once; otherwise wait (1 ms doubling up to about four seconds) and go round again -/
theorem fact_Store_initializeActive_as_transcribed : Facts.body_Store_initializeActive = expected_Store_initializeActive := by rfl

end Setec.C10
