import Setec.Proofs.DB
import Setec.Proofs.Json
import Setec.Proofs.AuditStream
import Setec.Spec.DBMon
import Setec.Generated.Facts
import Setec.Proofs.MonitorsSound
/-!
# C06 - the audit log records every disclosure, mutation attempt and denial, fail-closed

In the model one call emits its audit record (third component of `DB.step`) and the oracle
`auditOk` says whether the writer accepted it.  `step_outcome` (Proofs/DB.lean) shows that
every non-list call has the shape  refuse-ill-formed / deny+record / [conditional get:
look, stay silent if nothing is delivered] / record, and only if the record was accepted,
execute.  "Before" is therefore captured semantically: the effect of a call depends on the
oracle (`audit_fail_closed`), so no effect can precede the record.  On the real code the
harness additionally observes that the database file still has its pre-call contents when
the record reaches the sink (monitor `before_effect`).
The concurrent clause (records of concurrent requests are never interleaved) rests on the
kernel's O_APPEND write atomicity; it is a model assumption exercised by the harness.
-/
namespace Setec.C06
open Setec.KV Setec.DB Setec.DBMon

/-- every call emits at most one record; it names the caller, the operation's action, the
secret and the version given, and says whether the caller holds the grant -/
theorem at_most_one_record (kv : KV) (c : Caller) (op : Op) (aok sok : Bool) (hl : op ≠ .list) :
    (step Cfg.std kv c op aok sok).2.2 = [] ∨
    (step Cfg.std kv c op aok sok).2.2 = [entryOf c op (grantedStd c (actionOf op) (nameOf op))] := by
  rw [step_outcome kv c op aok sok hl]
  unfold outcome
  split; · simp
  split; · next h => simp at h; simp [h]
  next h =>
  simp at h
  split
  · split
    · simp
    · split; · simp
      split <;> simp [h]
  · split <;> simp [h]

/-- a value is returned only after a record "authorized" for exactly this call was accepted -/
theorem disclosure_recorded (kv : KV) (c : Caller) (op : Op) (aok sok : Bool) (hl : op ≠ .list)
    (hd : (step Cfg.std kv c op aok sok).2.1.disclosesValue = true) :
    (step Cfg.std kv c op aok sok).2.2 = [entryOf c op true] ∧ aok = true := by
  rw [step_outcome kv c op aok sok hl] at hd ⊢
  unfold outcome at hd ⊢
  split at hd; · simp [Res.disclosesValue] at hd
  split at hd; · simp [Res.disclosesValue] at hd
  split at hd
  · split at hd
    · next er _ => cases er <;> simp [kvErr, Res.disclosesValue] at hd
    · split at hd; · simp [Res.disclosesValue] at hd
      split at hd; · simp [Res.disclosesValue] at hd
      next h => simp_all
  · split at hd; · simp [Res.disclosesValue] at hd
    next h => simp_all

/-- a state change happens only after a record "authorized" for exactly this call was accepted -/
theorem mutation_recorded (kv : KV) (c : Caller) (op : Op) (aok sok : Bool) (hl : op ≠ .list)
    (hch : (step Cfg.std kv c op aok sok).1 ≠ kv) :
    (step Cfg.std kv c op aok sok).2.2 = [entryOf c op true] ∧ aok = true := by
  rw [step_outcome kv c op aok sok hl] at hch ⊢
  unfold outcome at hch ⊢
  split at hch; · simp at hch
  split at hch; · simp at hch
  split at hch
  · split at hch
    · simp at hch
    · split at hch; · simp at hch
      split at hch <;> simp at hch
  · split at hch; · simp at hch
    next h => simp_all

/-- every refusal for lack of permission leaves one record with authorized = false -/
theorem denial_recorded (kv : KV) (c : Caller) (op : Op) (aok sok : Bool) (hl : op ≠ .list)
    (hw : wellFormed op = true) (hd : grantedStd c (actionOf op) (nameOf op) = false) :
    step Cfg.std kv c op aok sok = (kv, .denied, [entryOf c op false]) := by
  rw [step_outcome kv c op aok sok hl]
  simp [outcome, hw, hd]

/-- fail-closed: if the record cannot be written the request fails, no value is returned and
no state is changed -/
theorem audit_fail_closed (kv : KV) (c : Caller) (op : Op) (sok : Bool) (hl : op ≠ .list)
    (hrec : (step Cfg.std kv c op false sok).2.2 ≠ []) :
    (step Cfg.std kv c op false sok).1 = kv ∧
    (step Cfg.std kv c op false sok).2.1.isError = true := by
  rw [step_outcome kv c op false sok hl] at hrec ⊢
  unfold outcome at hrec ⊢
  split; · simp [Res.isError]
  split; · simp [Res.isError]
  split
  · split
    · simp_all
    · split; · simp_all
      simp [Res.isError]
  · simp [Res.isError]

/-- the same for list: its single record is written first; if that fails nothing is listed -/
theorem list_fail_closed (kv : KV) (c : Caller) (sok : Bool) :
    step Cfg.std kv c .list false sok =
      (kv, .other, [{ principal := c.principal, action := "info", secret := "", version := 0, authorized := true }]) := by
  simp [step]

/-- a conditional get that finds the caller's version still current writes no record -/
theorem unchanged_poll_silent (kv : KV) (c : Caller) (n : String) (v : Nat) (aok sok : Bool)
    (h : (step Cfg.std kv c (.getCond n v) aok sok).2.1 = .notChanged) :
    (step Cfg.std kv c (.getCond n v) aok sok).2.2 = [] := by
  rw [step_outcome kv c _ aok sok (by simp)] at h ⊢
  unfold outcome at h ⊢
  split at h; · simp at h
  split at h; · simp at h
  simp only at h ⊢
  split at h
  · simp_all
  · split at h; · simp_all
    split at h <;> simp at h

/-- list writes exactly one record up front -/
theorem list_one_entry (kv : KV) (c : Caller) (aok sok : Bool) :
    (step Cfg.std kv c .list aok sok).2.2 =
      [{ principal := c.principal, action := "info", secret := "", version := 0, authorized := true }] := by
  simp only [step, std_actListAudit]; split <;> rfl

/-- non-vacuity: a granted get on an existing secret discloses a value (so the hypothesis of
`disclosure_recorded` is satisfiable) -/
example : ∃ kv c, (step Cfg.std kv c (.get "a") true true).2.1.disclosesValue = true :=
  ⟨{ secrets := (∅ : SMap).insert "a" (newSecret [1]), gen := 1, disk := ∅ },
   { principal := "p", rules := [{ actions := ["get"], secrets := ["*".toList] }] },
   by
     have hg : grantedStd { principal := "p", rules := [{ actions := ["get"], secrets := [['*']] }] } "get" "a" = true := by decide
     rw [step_outcome _ _ _ _ _ (by simp)]
     simp [outcome, wellFormed, actionOf, nameOf, exec, KV.get, newSecret, Res.disclosesValue]
     simp [hg]⟩

/-! ### the record as bytes on the log

`Model/Json.lean` is encoding/json's string escaping and the field layout of `audit.Entry`
(tied by the extracted struct definitions below and, byte for byte, by the `auditfmt` trace
family, which pushes hostile strings through the real `audit.Writer`). -/

/-- T1: the fields, order and `omitempty` options the layout model assumes, and that the
writer uses the default `json.Encoder` (HTML escaping on, no indentation) -/
theorem record_layout :
    Facts.struct_auditEntry =
      ["ID:uint64 `json:\"id\"`", "Time:time.Time `json:\"time\"`", "Principal:Principal `json:\"principal\"`",
       "Action:acl.Action `json:\"action\"`", "Authorized:bool `json:\"authorized\"`",
       "Secret:string `json:\"secret,omitempty\"`", "SecretVersion:api.SecretVersion `json:\"secretVersion,omitempty\"`"] ∧
    Facts.struct_auditPrincipal =
      ["Hostname:string `json:\"hostname\"`", "IP:netip.Addr `json:\"ip\"`", "User:string `json:\"user,omitempty\"`",
       "Tags:[]string `json:\"tags,omitempty\"`"] ∧
    Facts.auditEncoderCalls = ["Encode", "json.NewEncoder"] := by
  decide

/-- "one complete JSON line naming the caller's identity, the action, the secret (and version
where one was given) and whether it was authorized": whatever characters the hostname, user,
tags, action and secret name contain, reading the written line back yields exactly the
record that was written (and the stamped id and time), followed by the line terminator. -/
theorem record_reads_back (id : Nat) (time : Json.Str) (r : Json.Record) :
    Json.parseLine (Json.renderLine id time r) = some (id, time, r, ['\n']) :=
  Json.parseLine_render id time r

/-- no string in a record can forge, hide or alter another field: distinct records have
distinct lines -/
theorem record_injective (id id' : Nat) (time time' : Json.Str) (r r' : Json.Record)
    (h : Json.renderLine id time r = Json.renderLine id' time' r') : r = r' :=
  (Json.renderLine_injective id id' time time' r r' h).2.2

/-- a record is exactly one line: its only newline is its last character, so concatenated
records (O_APPEND writes) split back into the records written -/
theorem record_one_line (id : Nat) (time : Json.Str) (r : Json.Record) :
    ∃ body, Json.renderLine id time r = body ++ ['\n'] ∧ ∀ c ∈ body, c ≠ '\n' :=
  Json.renderLine_one_line id time r

/-- non-vacuity / regression example: a secret name that tries to close the record and open a
forged one is read back as that name -/
example :
    let r : Json.Record := { principal := { hostname := "h".toList, ip := "100.64.0.1".toList, user := [], tags := ["tag:a".toList] },
                             action := "get".toList, authorized := false,
                             secret := "x\",\"authorized\":true}\n{\"id\":1".toList, version := 7 }
    (Json.parseLine (Json.renderLine 5 "t".toList r)).map (·.2.2.1.secret) = some r.secret := by
  intro r; rw [Json.parseLine_render]; rfl

/-! ### the log as a stream: short writes and the latched encoder -/

/-- Records of requests are never truncated *inside* the log or glued together: whatever
records are written and wherever the device fails - after accepting any part of a record -
every complete line of the log is exactly one record that was written; what follows the last
complete line is at most one fragment without a newline, after which the writer (one
`json.Encoder`, which keeps its first write error) appends nothing more. -/
theorem log_lines_are_whole_records (recs : List (Nat × Json.Str × Json.Record × Option Nat)) :
    let ws := recs.map fun (id, t, r, acc) => (Json.renderLine id t r, acc)
    ∀ x ∈ (AuditStream.splitLines (AuditStream.writes true AuditStream.empty ws).stream).1,
      x ++ ['\n'] ∈ ws.map (·.1) := by
  intro ws
  apply AuditStream.complete_lines_are_records
  intro w hw
  obtain ⟨⟨id, t, r, acc⟩, _, rfl⟩ := List.mem_map.mp hw
  obtain ⟨body, hb, hn⟩ := Json.renderLine_one_line id t r
  exact ⟨body, hb, hn⟩

/-- ...and it is the latch that makes it so: a writer that made a fresh encoder for every call
would, after a short write, glue the next record onto the fragment - a line of the log that
is no record at all -/
theorem fresh_encoder_glues :
    ∃ x ∈ (AuditStream.splitLines (AuditStream.writes false AuditStream.empty
        [("ab\n".toList, some 1), ("cd\n".toList, none)]).stream).1,
      x ++ ['\n'] ∉ ["ab\n".toList, "cd\n".toList] :=
  ⟨"acd".toList, by decide, by decide⟩

/-- T1: the writer creates its encoder once, in `New`, and only ever calls `Encode` on it -/
theorem fact_one_encoder : Facts.auditEncoderSites = [("New", "json.NewEncoder"), ("WriteEntries", "Encode")] := by
  decide

/-! ### the monitor clauses are the specification's own behaviour -/

/-- `recorded` (exactly one matching record for every disclosure, state change and denial),
`fail_closed`, `unchanged_silent` and `before_effect`, as evaluated by the driver on the real
code's steps, hold of the specification's own step for every state, caller, operation and
oracle choice. -/
theorem monitors_sound (kv : KV.KV) (c : DB.Caller) (op : DB.Op) (aok sok : Bool) :
    DBMon.c06_recorded (MonSound.obsOf kv c op aok sok) = true ∧
    DBMon.c06_fail_closed (MonSound.obsOf kv c op aok sok) = true ∧
    DBMon.c06_unchanged_silent (MonSound.obsOf kv c op aok sok) = true ∧
    DBMon.c06_before_effect (MonSound.obsOf kv c op aok sok) = true :=
  ⟨MonSound.c06_recorded_sound kv c op aok sok, MonSound.c06_fail_closed_sound kv c op aok sok, MonSound.c06_unchanged_silent_sound kv c op aok sok,
   MonSound.c06_before_effect_sound kv c op aok sok⟩

/-- T1, `checkAndLog` asks the ACL about, and records, exactly what it was given: the ACL question
is `(action, secret)` with the parameters as they came in, the audit entry carries the caller's
principal, that action, that secret name, that version and the ACL's answer, and no parameter
is reassigned on the way (the model's `checkAndLog` builds its entry from the same arguments). -/
theorem fact_checkAndLog_uses_its_arguments :
    Facts.checkAndLogParams = ["caller", "action", "secret", "secretVersion"] ∧
    Facts.checkAndLogAllowArgs = ["action", "secret"] ∧
    Facts.checkAndLogEntry = [("Principal", "caller.Principal"), ("Action", "action"), ("Secret", "secret"),
      ("SecretVersion", "secretVersion"), ("Authorized", "authorized")] ∧
    Facts.checkAndLogAssigned.all (fun a => !Facts.checkAndLogParams.contains a) = true := by
  decide

/-! ### T1: functions the model transcribes, statement by statement (white space collapsed) -/

def expected_Writer_WriteEntries : List String := ["for _, e := range entries { e.ID = rand.Uint64() e.Time = time.Now().UTC() if err := l.enc.Encode(e); err != nil { return err } }", "return l.Sync()"]

/-- WriteEntries: stamp, encode with the writer's one encoder, stop at the first failure; Sync before returning -/
theorem fact_Writer_WriteEntries_as_transcribed : Facts.body_Writer_WriteEntries = expected_Writer_WriteEntries := by rfl

def expected_audit_NewFile : List String := ["f, err := os.OpenFile(path, os.O_WRONLY|os.O_APPEND|os.O_CREATE, 0600)", "if err != nil { return nil, err }", "return New(f), nil"]

/-- NewFile: write-only, append, create, owner-only -/
theorem fact_audit_NewFile_as_transcribed : Facts.body_audit_NewFile = expected_audit_NewFile := by rfl

end Setec.C06
