import Setec.Model.Cli
import Setec.Proofs.DB
import Setec.Proofs.Crypto
import Setec.Proofs.Base64
import Setec.Proofs.CacheDoc
import Setec.Proofs.Wire
import Setec.Generated.Facts
import Setec.Proofs.MonitorsSound
/-!
# C18 - secret bytes round-trip unchanged end to end, including through the CLI

Values are opaque byte lists in every model, so "byte-identical" is equality of lists.
Trusted text layer: encoding/base64 and encoding/json at each hop (exercised by the
harness with empty, NUL, newline, invalid-UTF-8, all-256-bytes and large values).
-/
namespace Setec.C18
open Std Setec.KV Setec.DB Setec.Cli Setec.Codec Setec.Crypto

/-- get-version after put returns exactly the bytes put, for every byte string -/
theorem put_getVersion (kv : KV) (n : String) (v : Bytes) (ok : Bool) (kv' : KV) (k : Nat)
    (h : KV.put true kv n v ok = (kv', .ok k)) : KV.getVersion kv' n k = .ok (v, k) :=
  KV.put_retrievable kv n v ok kv' k h

/-- the first put is also what plain get returns (version 1 is active) -/
theorem first_put_get (kv : KV) (n : String) (v : Bytes) (h : kv.secrets[n]? = none) :
    KV.get (KV.put true kv n v true).1 n = .ok (v, 1) := by
  rw [KV.put_first true kv n v h]
  simp [KV.get, newSecret]

/-- ...also after a server restart: what the reopened database serves for (name, version)
is what the running one served -/
theorem restart_preserves_bytes (kek dek : Nat) (kv : KV) (hs : Synced kv) (n : String) (k : Nat) :
    ∃ m, openFile Layout.v1 kek (fileOf Layout.v1 kek dek kv.disk) = some (dek, m) ∧
      KV.getVersion { kv with secrets := m } n k = KV.getVersion kv n k := by
  refine ⟨kv.disk, open_fileOf kek dek kv.disk, ?_⟩
  have : kv.disk = kv.secrets := hs
  simp [this, KV.getVersion]

/-- The text layer of every hop (database file, API requests and responses, cache): standard
base64 with padding round-trips every byte string - empty, NULs, invalid UTF-8, any length.
(The Lean codec is compared with encoding/base64 on every run.) -/
theorem b64_roundtrip (bs : Bytes) : Base64.decode (Base64.encode bs) = some bs :=
  Base64.decode_encode bs

/-! ### the `setec put` text policy -/

/-- binary (not valid UTF-8) input is always sent verbatim -/
theorem cli_binary_verbatim (value trimmed : Bytes) (f : Flags) (hne : value ≠ []) :
    Cli.put false value trimmed f = .send value := by
  have : value.length ≠ 0 := by simpa using hne
  simp [Cli.put, checkPutText, this]

/-- text without surrounding whitespace is sent verbatim -/
theorem cli_clean_text_verbatim (value trimmed : Bytes) (f : Flags) (hne : value ≠ [])
    (hclean : trimmed.length = value.length) : Cli.put true value trimmed f = .send value := by
  have : value.length ≠ 0 := by simpa using hne
  simp [Cli.put, checkPutText, hclean, this]

/-- text with surrounding whitespace: verbatim under --verbatim (which wins over
--trim-space), trimmed under --trim-space, refused with neither -/
theorem cli_spaced_text (value trimmed : Bytes) (f : Flags) (hsp : trimmed.length ≠ value.length) :
    Cli.put true value trimmed f =
      if f.verbatim then (if value.length = 0 && !f.emptyOK then .refuse else .send value)
      else if f.trimSpace then (if trimmed.length = 0 && !f.emptyOK then .refuse else .send trimmed)
      else .refuse := by
  simp only [Cli.put, checkPutText, hsp]
  cases f.verbatim <;> cases f.trimSpace <;> simp

/-- an empty value (after the text policy) is refused unless --empty-ok -/
theorem cli_empty (valid : Bool) (trimmed : Bytes) (f : Flags) (ht : trimmed = []) :
    Cli.put valid [] trimmed f = if f.emptyOK then .send [] else .refuse := by
  subst ht
  cases valid <;> cases h : f.emptyOK <;> simp [Cli.put, checkPutText, h]

/-- what is sent is always the input or its trimmed form - nothing else -/
theorem cli_sends_input_or_trimmed (valid : Bool) (value trimmed : Bytes) (f : Flags) (b : Bytes)
    (h : Cli.put valid value trimmed f = .send b) : b = value ∨ (b = trimmed ∧ f.trimSpace = true ∧ valid = true) := by
  unfold Cli.put at h
  cases hc : checkPutText valid value trimmed f with
  | none => simp [hc] at h
  | some v =>
    simp only [hc] at h
    split at h
    · cases h
    · cases h
      simp only [checkPutText] at hc
      (repeat' split at hc) <;> simp_all

/-- non-vacuity: " x " with --trim-space is sent as "x" -/
example : Cli.put true [32, 120, 32] [120] { verbatim := false, trimSpace := true, emptyOK := false } = .send [120] := by decide

/-- the store's cache file returns every byte string unchanged, whatever the other entries and
names in the document are: the value recorded for a name in the written document is the
value read back for it -/
theorem cache_file_roundtrip (d : Store.Doc) (n : String) :
    (CacheDoc.readDoc (CacheDoc.renderDoc d)).map (fun d' => (d'[n]?).map (·.1.value)) =
      some ((d[n]?).map (·.1.value)) := by
  rw [CacheDoc.readDoc_render]; rfl

/-- on the wire: the body a handler writes for a successful outcome (`Wire.renderRes`, tied byte
for byte to the real handlers by the `http` family) reads back as that outcome - in particular
the exact bytes and version number of a value - and the body the client sends for a put
reads back as the name and the exact bytes -/
theorem wire_roundtrip (r : DB.Res) (h : Wire.is200 r = true) :
    Wire.readRes (Wire.endpointOf r) (Wire.renderRes r) = some r :=
  Wire.readRes_render r h

theorem wire_put_request_roundtrip (name : String) (value : Bytes) :
    Wire.readPutReq (Wire.renderPutReq name value) = some (name, value) :=
  Wire.readPutReq_render name value

/-- what a result tag of the translated function stands for -/
def interpChoice (value trimmed : Bytes) : String → Option Bytes
  | "value" => some value
  | "trimmed" => some trimmed
  | _ => none

/-- T1: the atoms of the translated function are the calls the model's parameters stand for -
validity of the *whole* value, the lengths of the value and of `bytes.TrimSpace` of the whole
value - not of a prefix, a copy or a differently trimmed version. -/
theorem fact_checkPutText_atoms :
    Facts.gen_checkPutText_atoms =
      [("lenTrimmed", "len(trimmed)"), ("lenValue", "len(value)"), ("valid", "utf8.Valid(value)")] ∧
    Facts.gen_checkPutText_locals = [("trimmed", "bytes.TrimSpace(value)")] := by
  decide

/-- T1, translated: `checkPutText` of cmd/setec as regenerated from the source on every run (its
if-chain turned into a Lean expression over the atoms `utf8.Valid(value)`, the two lengths and
the two flags) is the model's decision function. -/
theorem generated_checkPutText (valid : Bool) (value trimmed : Bytes) (f : Flags) :
    Facts.gen_checkPutText_ok = true ∧
    interpChoice value trimmed
      (Facts.gen_checkPutText trimmed.length value.length f.trimSpace valid f.verbatim) =
      checkPutText valid value trimmed f := by
  refine ⟨by decide, ?_⟩
  unfold Facts.gen_checkPutText checkPutText
  cases valid
  · simp [interpChoice]
  · by_cases hl : trimmed.length = value.length
    · simp [hl, interpChoice]
    · have hl' : ((trimmed.length : Int) == (value.length : Int)) = false := by
        simp only [beq_eq_false_iff_ne, ne_eq]; omega
      cases hv : f.verbatim <;> cases ht : f.trimSpace <;> simp [hl, hl', interpChoice]

/-- The clause `acknowledged_bytes_kept` the driver evaluates on every step of the real database -
every version of every secret is still there with exactly its bytes, unless this very call
deleted it - holds of the specification's own step in every state that satisfies the store
invariant. -/
theorem monitor_bytes_kept_sound (kv : KV.KV) (c : DB.Caller) (op : DB.Op) (aok sok : Bool) (h : KV.Inv kv) :
    DBMon.c18_bytes_kept (MonSound.obsOf kv c op aok sok) = true :=
  MonSound.c18_bytes_kept_sound kv c op aok sok h

/-- T1, the client's side of the exchange: a POST with exactly the two headers the front door
asks for (it announces no encodings of its own - the transport does that and undoes it), and
the answer's body read whole, whatever its length, in both the error and the success path. -/
theorem fact_client_exchange :
    Facts.clientMethod = ["\"POST\""] ∧
    Facts.clientRequestHeaders =
      ["\"Content-Type\": \"application/json\"", "\"Sec-X-Tailscale-No-Browsers\": \"setec\""] ∧
    Facts.clientBodyReads = ["io.ReadAll(httpResp.Body)", "io.ReadAll(httpResp.Body)"] := by
  decide

/-- T1: `(*Store).Close` stops the poller and waits for it - and does nothing else: it does not
touch the values handles (and slices already handed out) refer to. -/
theorem fact_close_only_stops_the_poller :
    Facts.storeCloseBody = ["s.cancel()", "<-s.done", "return nil"] := by
  decide

/-! ### T1: functions the model transcribes, statement by statement (white space collapsed) -/

def expected_checkPutText : List String := ["if !utf8.Valid(value) { return value, nil }", "trimmed := bytes.TrimSpace(value)", "if len(trimmed) == len(value) { return value, nil } else if putArgs.Verbatim { return value, nil } else if putArgs.TrimSpace { return trimmed, nil }", "return nil, errors.New(\"text value has surrounding whitespace, \" + \"specify --verbatim to keep the space or --trim-space to remove it\")"]

/-- checkPutText: binary as it is; text without surrounding white space as it is; otherwise by flag; otherwise refused -/
theorem fact_checkPutText_as_transcribed : Facts.body_checkPutText = expected_checkPutText := by rfl

def expected_kv_get : List String := ["secret := kv.secrets[name]", "if secret == nil { return nil, ErrNotFound }", "bs, ok := secret.Versions[secret.ActiveVersion]", "if !ok { return nil, errors.New(\"[unexpected] active secret version missing from DB\") }", "return &api.SecretValue{ Value: []byte(bs), Version: secret.ActiveVersion, }, nil"]

/-- kv.get: a fresh copy of the active version's bytes and its number -/
theorem fact_kv_get_as_transcribed : Facts.body_kv_get = expected_kv_get := by rfl

end Setec.C18
