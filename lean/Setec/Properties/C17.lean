import Setec.Proofs.Backup
import Setec.Generated.Facts
/-!
# C17 - backups are consistent snapshots, change-driven, rate-limited and quiescent

`Backup.loop` over a virtual clock; oracles: the database's write generation over time, the
outcome and duration of every upload, the cancellation instant.  That every uploaded body is
a complete file that existed follows from C04 (the file is only ever replaced by rename) and
the single whole-file read (fact below); the harness opens every uploaded body with db.Open.
-/
namespace Setec.C17
open Setec.Backup

/-- T1: the wait is a direct statement of the loop body, the period is one minute, the body
of an upload is one whole-file read. -/
theorem fact_loop_shape :
    Facts.backupWaitUnconditional = some true ∧ Facts.backupPeriodMs = some period ∧
    Facts.backupReadsFileWhole = true := by decide

/-- Quiescent: the backup task never iterates without consuming time - every iteration
either uploads and waits a period, or just waits a period, or ends. -/
theorem quiescent (gens : Nat → Nat) (oks : Nat → Bool) (durs : Nat → Nat) (cancel fuel : Nat) :
    (run true gens oks durs cancel fuel).spins = false :=
  loop_no_spin gens oks durs cancel fuel 0 0 0 []

/-- At most once a minute: consecutive upload attempts are at least one period apart, for
every timeline of writes, every failure script and every cancellation instant. -/
theorem rate_limited (wa : Bool) (gens : Nat → Nat) (oks : Nat → Bool) (durs : Nat → Nat) (cancel fuel : Nat) :
    Spaced (run wa gens oks durs cancel fuel).attempts :=
  loop_spaced wa gens oks durs cancel fuel 0 0 0 [] trivial (by simp)

/-- First upload at start-up: the generation of an open database is positive, the task starts
from generation 0, so the first iteration uploads. -/
theorem first_upload (wa : Bool) (gens : Nat → Nat) (oks : Nat → Bool) (durs : Nat → Nat) (cancel fuel : Nat)
    (hpos : gens 0 ≠ 0) :
    ∃ rest, (run wa gens oks durs cancel (fuel + 1)).attempts =
      { tms := 0, gen := gens 0, ok := oks 0 && decide (0 + durs 0 ≤ max cancel 0) } :: rest := by
  simp only [run, loop, hpos, ne_eq, not_false_eq_true, if_true, List.nil_append]
  split
  · exact ⟨[], rfl⟩
  · -- the accumulator is only ever appended to
    have app : ∀ (fuel t lg k : Nat) (acc : List Attempt),
        ∃ rest, (loop wa gens oks durs cancel fuel t lg k acc).attempts = acc ++ rest := by
      intro fuel
      induction fuel with
      | zero => intro t lg k acc; exact ⟨[], by simp [loop]⟩
      | succ fuel ih =>
        intro t lg k acc
        simp only [loop]
        split
        · split
          · exact ⟨_, rfl⟩
          · obtain ⟨r, hr⟩ := ih (min (t + durs k) (max cancel t) + period) (if (oks k && decide (t + durs k ≤ max cancel t)) = true then gens t else lg) (k + 1)
              (acc ++ [{ tms := t, gen := gens t, ok := oks k && decide (t + durs k ≤ max cancel t) }])
            exact ⟨_, by rw [hr, List.append_assoc]⟩
        · split
          · split
            · exact ⟨[], by simp⟩
            · exact ih _ _ _ _
          · exact ⟨[], by simp⟩
    obtain ⟨r, hr⟩ := app fuel _ _ 1 [{ tms := 0, gen := gens 0, ok := oks 0 && decide (0 + durs 0 ≤ max cancel 0) }]
    exact ⟨r, by rw [hr]; rfl⟩

/-- Change-driven: while the generation equals the one covered by the last successful upload
an iteration uploads nothing and only waits. -/
theorem idle_iteration_only_waits (gens : Nat → Nat) (oks : Nat → Bool) (durs : Nat → Nat) (cancel fuel t lg k : Nat)
    (acc : List Attempt) (h : gens t = lg) (hc : ¬ t + period ≥ cancel) :
    loop true gens oks durs cancel (fuel + 1) t lg k acc = loop true gens oks durs cancel fuel (t + period) lg k acc :=
  loop_step_attempt true gens oks durs cancel fuel t lg k acc h rfl hc

/-- A failed upload is retried: it leaves the covered generation unchanged, so the next
iteration (one period later) finds the generation still different and uploads again. -/
theorem failed_upload_retried (gens : Nat → Nat) (oks : Nat → Bool) (durs : Nat → Nat) (cancel fuel t lg k : Nat)
    (acc : List Attempt) (hne : gens t ≠ lg) (hfail : oks k = false)
    (hc : ¬ min (t + durs k) (max cancel t) + period ≥ cancel) :
    loop true gens oks durs cancel (fuel + 1) t lg k acc =
      loop true gens oks durs cancel fuel (min (t + durs k) (max cancel t) + period) lg (k + 1)
        (acc ++ [{ tms := t, gen := gens t, ok := false }]) := by
  simp [loop, hne, hfail, hc]

/-- ...and a successful one covers exactly the generation sampled before the file was read, so
a write racing the upload is picked up by the next iteration. -/
theorem successful_upload_covers_sampled_gen (gens : Nat → Nat) (oks : Nat → Bool) (durs : Nat → Nat) (cancel fuel t lg k : Nat)
    (acc : List Attempt) (hne : gens t ≠ lg) (hok : oks k = true) (hd : t + durs k ≤ max cancel t)
    (hc : ¬ min (t + durs k) (max cancel t) + period ≥ cancel) :
    loop true gens oks durs cancel (fuel + 1) t lg k acc =
      loop true gens oks durs cancel fuel (min (t + durs k) (max cancel t) + period) (gens t) (k + 1)
        (acc ++ [{ tms := t, gen := gens t, ok := true }]) := by
  have hmin : min (t + durs k) (max cancel t) = t + durs k := by omega
  rw [hmin] at hc ⊢
  simp only [loop, hne, ne_eq, not_false_eq_true, if_true, hok, hd, decide_true, Bool.and_self, hmin]
  rw [if_neg hc]

/-- Terminates: with enough iterations the task returns once the context is cancelled. -/
theorem terminates (gens : Nat → Nat) (oks : Nat → Bool) (durs : Nat → Nat) (cancel fuel : Nat)
    (hf : cancel ≤ fuel * period) (hfp : 0 < fuel) :
    (run true gens oks durs cancel fuel).exit.isSome = true :=
  loop_terminates gens oks durs cancel fuel 0 0 0 [] (by omega) hfp

/-- D3 (the tree before the repair): with the wait inside the `if`, once an upload has
succeeded and nothing changes the loop iterates without ever waiting - it spins on the
database lock and never observes cancellation. -/
theorem d3_original_spins :
    (run false (fun _ => 1) (fun _ => true) (fun _ => 0) 600000 10).spins = true ∧
    (run false (fun _ => 1) (fun _ => true) (fun _ => 0) 600000 10).exit = none := by decide

/-- the same timeline with the repaired loop: one upload at start, then idle until cancelled -/
example : (run true (fun _ => 1) (fun _ => true) (fun _ => 0) 600000 12).attempts = [{ tms := 0, gen := 1, ok := true }] ∧
    (run true (fun _ => 1) (fun _ => true) (fun _ => 0) 600000 12).exit = some 600000 := by decide

/-! ### T1: functions the model transcribes, statement by statement (white space collapsed) -/

def expected_Server_periodicBackup : List String := ["lastWriteGen := uint64(0)", "for { gen := s.db.WriteGen() if gen != lastWriteGen { if err := s.doBackup(ctx); err != nil { } else { lastWriteGen = gen } } select { case <-time.After(time.Minute): case <-ctx.Done(): return } }"]

/-- the loop: compare the write generation with the last one uploaded, upload if they differ and remember it only on success, then wait a minute or until cancelled - whatever happened -/
theorem fact_Server_periodicBackup_as_transcribed : Facts.body_Server_periodicBackup = expected_Server_periodicBackup := by rfl

def expected_Server_doBackup : List String := ["ctx, cancel := context.WithTimeout(ctx, 5*time.Minute)", "defer cancel()", "start := time.Now()", "path := s.db.Path()", "bs, err := os.ReadFile(path)", "if err != nil { return err }", "key := backupKey()", "_, err = s.backupClient.PutObject(ctx, &s3.PutObjectInput{ Bucket: &s.backupBucket, Key: &key, Body: bytes.NewReader(bs), })", "if err != nil { return err }", "name := filepath.Base(path)", "return nil"]

/-- one upload: a five-minute limit, the live file read whole, one PutObject under a fresh key -/
theorem fact_Server_doBackup_as_transcribed : Facts.body_Server_doBackup = expected_Server_doBackup := by rfl

end Setec.C17
