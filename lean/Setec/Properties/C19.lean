import Setec.Proofs.Store
import Setec.Generated.Facts
/-!
# C19 - only stale, unreferenced, undeclared secrets expire from the store
-/
namespace Setec.C19
open Std Setec.KV Setec.Store

/-- the expiry predicate: undeclared, an age is configured, not read for longer than the age
(a last-access stamp of 0 is the zero time) -/
theorem expired_iff (age now : Int) (c : CEntry) :
    hasExpired age now c = true ↔ c.declared = false ∧ age > 0 ∧ (c.lastAccess = 0 ∨ now - c.lastAccess > age) :=
  hasExpired_iff age now c

/-- A secret is dropped only at a poll's apply step, only if the poll's snapshot marked it
expired - i.e. it was undeclared, an age is configured and it was stale at the snapshot -
and only if no handle for it exists at the apply. -/
theorem drop_only_if (p : Bool) (s sMid : St) (now : Int) (answers : String → Ans) (n : String) (c : CEntry)
    (hm : sMid.m[n]? = some (some c))
    (hgone : (poll sMid ((snapshot p s now).map fun it => (it, answers it.name))).1.m[n]? = none) :
    sMid.handles.contains n = false ∧
    ∃ c0, s.m[n]? = some (some c0) ∧ c0.declared = false ∧ s.expiryAge > 0 ∧
      (c0.lastAccess = 0 ∨ now - c0.lastAccess > s.expiryAge) := by
  simp only [poll] at hgone
  split at hgone
  · rw [hm] at hgone; cases hgone
  · rw [applyUpdates_m] at hgone
    obtain ⟨hmem, hh⟩ := foldl_applyOne_drop sMid _ n c hm hgone
    refine ⟨hh, ?_⟩
    simp only [List.mem_filterMap, List.mem_map] at hmem
    obtain ⟨⟨u, f⟩, ⟨⟨it, a⟩, ⟨it', hit', heq⟩, hpi⟩, hu⟩ := hmem
    simp only [Prod.mk.injEq] at heq
    obtain ⟨rfl, rfl⟩ := heq
    simp only at hu hpi
    have hu' : (pollItem it' (answers it'.name)).1 = some (n, none) := by rw [hpi]; exact hu
    obtain ⟨hexp, hname⟩ := pollItem_delete it' _ n hu'
    obtain ⟨c0, hc0, _, hex⟩ := mem_snapshot p s now it' hit'
    rw [hname] at hc0
    rw [hexp] at hex
    have : hasExpired s.expiryAge now c0 = true := by
      cases h : hasExpired s.expiryAge now c0
      · rw [h] at hex; simp at hex
      · rfl
    obtain ⟨h1, h2, h3⟩ := (hasExpired_iff _ _ _).mp this
    exact ⟨c0, hc0, h1, h2, h3⟩

/-- declared secrets, secrets read within the window, and all secrets when no age is set are
never marked expired -/
theorem never_expired (age now : Int) (c : CEntry)
    (h : c.declared = true ∨ age ≤ 0 ∨ (c.lastAccess ≠ 0 ∧ now - c.lastAccess ≤ age)) :
    hasExpired age now c = false := by
  cases hh : hasExpired age now c
  · rfl
  · obtain ⟨h1, h2, h3⟩ := (hasExpired_iff _ _ _).mp hh
    rcases h with h | h | h
    · simp_all
    · omega
    · rcases h3 with h3 | h3
      · exact absurd h3 h.1
      · omega

/-- a secret with a live handle is never dropped, whatever the snapshot said -/
theorem pinned_never_dropped (s : St) (u : Updates) (n : String) (c : CEntry)
    (hm : s.m[n]? = some (some c)) (hh : s.handles.contains n = true) :
    (applyUpdates s u).m[n]? ≠ none := by
  intro hgone
  rw [applyUpdates_m] at hgone
  have := (foldl_applyOne_drop s u n c hm hgone).2
  rw [hh] at this; cases this

/-- each read refreshes the last-access time... -/
theorem read_stamps (s : St) (n : String) (now : Int) (c : CEntry) (h : s.m[n]? = some (some c)) :
    (read s n now).1.m[n]? = some (some { c with lastAccess := now }) ∧ (read s n now).2 = some c.sv.value := by
  simp [Store.read, h]

/-- ...which is persisted with the next cache write -/
theorem stamp_persisted (s : St) (n : String) (now : Int) (c : CEntry) (h : s.m[n]? = some (some c)) :
    (docOf (read s n now).1.m)[n]? = some (c.sv, now) := by
  simp [docOf, ExtTreeMap.getElem?_filterMap', (read_stamps s n now c h).1]

/-- ...at the latest when the store is closed: T1, the poller's exit path is "log, lock, deferred
unlock, flush (its error only logged), return" - nothing stands between taking the lock and the
flush. -/
theorem fact_shutdown_flushes :
    Facts.runShutdownPath = ["logf", "Lock", "defer Unlock", "if(flushCacheLocked; err != nil){logf}", "return"] := by
  decide

/-- The rule holds across a restart: a secret read at `now` in a store with a cache; the store
is closed; a new process loads what the cache holds.  The entry it finds carries `now` as its
access time, so at any later `now'` the poll's expiry decision is the one the statement gives:
configured age, not declared by the new process, and not read for longer than that age -
counted from that read. -/
theorem rule_holds_across_restart (s : St) (hc : s.hasCache = true) (n : String) (now now' age : Int) (c : CEntry)
    (h : s.m[n]? = some (some c)) :
    ∃ d c', (shutdown (read s n now).1).cache = some d ∧ (loadCache (.doc d))[n]? = some (some c') ∧
      c'.sv = c.sv ∧ c'.lastAccess = now ∧
      hasExpired age now' c' = (decide (age > 0) && (now == 0 || decide (now' - now > age))) := by
  have hm := (read_stamps s n now c h).1
  have hcache : (read s n now).1.hasCache = true := by simp [Store.read, h, hc]
  refine ⟨docOf (read s n now).1.m, { c with lastAccess := now, declared := false }, ?_, ?_, rfl, rfl, ?_⟩
  · simp [shutdown, flush, hcache]
  · simp only [loadCache, docOf, ExtTreeMap.getElem?_map, ExtTreeMap.getElem?_filterMap', hm]; simp
  · simp [hasExpired]

/-- non-vacuity: an undeclared entry read 11 s ago with a 10 s age is expired; read 5 s ago it is not -/
example : hasExpired 10 111 { sv := ⟨[1], 1⟩, lastAccess := 100, declared := false } = true ∧
    hasExpired 10 105 { sv := ⟨[1], 1⟩, lastAccess := 100, declared := false } = false := by decide

/-- T1, translated: `(*Store).hasExpired` as regenerated from client/setec/store.go on every
run (its if-chain turned into a Lean expression; the local `age`, which the code computes as
now minus the entry's last access time - the zero time when it was never read, which makes
the age exceed any configured expiry - is a parameter) is the model's expiry predicate. -/
theorem generated_hasExpired (expiry now a : Int) (c : CEntry)
    (ha : if c.lastAccess = 0 then a > expiry else a = now - c.lastAccess) :
    Facts.gen_hasExpired_ok = true ∧
    Facts.gen_hasExpired a c.declared expiry = Store.hasExpired expiry now c := by
  refine ⟨by decide, ?_⟩
  unfold Facts.gen_hasExpired Store.hasExpired
  cases hd : c.declared
  · by_cases he : expiry ≤ 0
    · have : ¬ (expiry > 0) := by omega
      simp [he, this]
    · have hpos : expiry > 0 := by omega
      by_cases hl : c.lastAccess = 0
      · simp only [hl, if_true] at ha
        simp [he, hpos, hl, ha]
      · simp only [hl, if_false] at ha
        subst ha
        simp [he, hpos, hl]
  · simp

/-! ### T1: the functions the model transcribes, statement by statement (white space collapsed) -/

def expected_Store_snapshotActive : List String := ["s.active.Lock()", "defer s.active.Unlock()", "m := make(map[string]secretState)", "for name, cs := range s.active.m { _, pinned := s.active.f[name] m[name] = secretState{ expired: !pinned && s.hasExpired(cs), version: cs.Secret.Version, } }", "return m"]

/-- the poll's snapshot, under the lock: a secret counts as expired only if no handle pins it and hasExpired says so -/
theorem fact_Store_snapshotActive_as_transcribed : Facts.body_Store_snapshotActive = expected_Store_snapshotActive := by rfl

def expected_Store_hasExpired : List String := ["if cs.Declared { return false } else if s.expiryAge <= 0 { return false }", "age := s.timeNow().UTC().Sub(cs.lastAccessTime())", "return age > s.expiryAge"]

/-- hasExpired: never for a declared secret, never without an expiry age; otherwise when the time since the last access exceeds the age -/
theorem fact_Store_hasExpired_as_transcribed : Facts.body_Store_hasExpired = expected_Store_hasExpired := by rfl

end Setec.C19
