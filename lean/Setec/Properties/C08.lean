import Setec.Model.Http
import Setec.Proofs.DB
import Setec.Generated.Facts
/-!
# C08 - the HTTP front door rejects ill-formed or unidentified requests without side effects
-/
namespace Setec.C08
open Setec.KV Setec.DB Setec.Http Setec.Acl

/-- the fixed set of non-200 bodies: none depends on the request or on the database -/
def constantBodies : List String :=
  ["only POST requests allowed\n", "request body must be json\n", "access denied\n",
   "unable to identify caller\n", "bad request\n", "not found\n", "internal error\n", ""]

def accepted (r : Req) : Prop :=
  r.method = "POST" ∧ r.contentType = some "application/json" ∧ r.noBrowsers = some "setec" ∧
  (identity r).isSome ∧ r.op.isSome

instance (r : Req) : Decidable (accepted r) := by unfold accepted; infer_instance

/-- A request that is not POST + application/json + the no-browsers header, or whose caller
cannot be identified, or whose body does not decode, is answered non-2xx, never reaches the
store (state unchanged, no audit record) and its body is one of the constants. -/
theorem gates (kv : KV) (r : Req) (aok sok : Bool) (h : ¬ accepted r) :
    let out := serve Cfg.std kv r aok sok
    (out.1.status < 200 ∨ out.1.status ≥ 300) ∧ out.2.1 = kv ∧ out.2.2 = [] ∧
    out.1.body = none ∧ out.1.text ∈ constantBodies := by
  simp only [accepted, not_and] at h
  simp only [serve]
  split; · simp [errText, constantBodies]
  next h1 =>
  split; · simp [errText, constantBodies]
  next h2 =>
  split; · simp [errText, constantBodies]
  next h3 =>
  simp at h1 h2 h3
  split
  · simp [errText, constantBodies]
  · next c hc =>
    split
    · simp [errText, constantBodies]
    · next op hop =>
      exfalso
      exact h h1 h2 h3 (by simp [hc]) (by simp [hop])

/-- Accepted requests reach exactly one `DB.step` with the identified caller, and the outcome
is mapped to a status exactly. -/
theorem accepted_dispatch (kv : KV) (r : Req) (aok sok : Bool) (c : Caller) (op : Op)
    (h1 : r.method = "POST") (h2 : r.contentType = some "application/json")
    (h3 : r.noBrowsers = some "setec") (hc : identity r = some c) (hop : r.op = some op) :
    serve Cfg.std kv r aok sok =
      (respOf (step Cfg.std kv c op aok sok).2.1, (step Cfg.std kv c op aok sok).1,
       (step Cfg.std kv c op aok sok).2.2) := by
  simp [serve, h1, h2, h3, hc, hop]

/-- status mapping: 304 with an empty body for unchanged, 403 denial, 404 missing, another
non-2xx for any other failure, 200 with the result otherwise -/
theorem status_exact (res : Res) :
    (res = .notChanged → respOf res = errText 304 "") ∧
    (res = .denied → (respOf res).status = 403) ∧
    (res = .notFound → (respOf res).status = 404) ∧
    (res = .other → (respOf res).status = 500) ∧
    (res.isError = false → respOf res = { status := 200, body := some res, text := "" }) := by
  cases res <;> simp [respOf, errText, Res.isError]

/-- deleting an absent secret succeeds (200) for a caller with the delete grant -/
theorem delete_absent_ok (kv : KV) (c : Caller) (n : String) (sok : Bool)
    (hg : grantedStd c "delete" n = true) (hn : kv.secrets[n]? = none) (hp : hasPrefix Cfg.std n = false) :
    respOf (step Cfg.std kv c (.delete n) true sok).2.1 = { status := 200, body := some .done, text := "" } := by
  rw [step_outcome kv c _ true sok (by simp)]
  simp [outcome, DBMon.wellFormed, DBMon.actionOf, DBMon.nameOf, hg, exec, hp, KV.deleteSecret, hn, respOf]

/-- No non-200 reply depends on stored data: its body is one of the constants. -/
theorem no_secret_in_non200 (kv : KV) (r : Req) (aok sok : Bool)
    (h : (serve Cfg.std kv r aok sok).1.status ≠ 200) :
    (serve Cfg.std kv r aok sok).1.body = none ∧ (serve Cfg.std kv r aok sok).1.text ∈ constantBodies := by
  by_cases ha : accepted r
  · obtain ⟨h1, h2, h3, hc, hop⟩ := ha
    obtain ⟨c, hc⟩ := Option.isSome_iff_exists.mp hc
    obtain ⟨op, hop⟩ := Option.isSome_iff_exists.mp hop
    rw [accepted_dispatch kv r aok sok c op h1 h2 h3 hc hop] at h ⊢
    generalize (step Cfg.std kv c op aok sok).2.1 = res at h ⊢
    cases res <;> simp_all [respOf, errText, constantBodies]
  · have := gates kv r aok sok ha
    exact ⟨this.2.2.2.1, this.2.2.2.2⟩

/-- The permissions applied are exactly the rules granted under the secrets capability (or
under its https:// form when the first is empty); the recorded principal is the identity. -/
theorem identity_exact (r : Req) (c : Caller) (h : identity r = some c) :
    r.addrOk = true ∧ r.who.fails = false ∧ (r.who.tags ≠ [] ∨ r.who.login ≠ "") ∧
    c.principal = principalOf r ∧
    ((∃ rs, r.who.cap = some rs ∧ rs ≠ [] ∧ c.rules = rs) ∨
     (r.who.cap = some [] ∧ r.who.capHttps = some c.rules)) := by
  simp only [identity] at h
  split at h; · simp at h
  next ha =>
  split at h; · simp at h
  next hf =>
  split at h; · simp at h
  next hid =>
  simp at ha hf hid
  split at h
  · simp at h
  · next rules hcap =>
    split at h
    · next hempty =>
      split at h
      · simp at h
      · next rules2 h2 =>
        cases h
        refine ⟨ha, hf, ?_, rfl, Or.inr ⟨?_, h2⟩⟩
        · by_cases ht : r.who.tags = []
          · right; exact hid (by simp [ht])
          · left; exact ht
        · simp at hempty; rw [hcap, hempty]
    · next hne =>
      cases h
      refine ⟨ha, hf, ?_, rfl, Or.inl ⟨rules, hcap, ?_, rfl⟩⟩
      · by_cases ht : r.who.tags = []
        · right; exact hid (by simp [ht])
        · left; exact ht
      · simpa using hne

/-- the client maps 404 / 403 / 304 to its sentinels and 200 to the value -/
theorem client_sentinels (res : Res) :
    clientResult (respOf res) =
      match res with
      | .notFound => .error .notFound
      | .denied => .error .accessDenied
      | .notChanged => .error .notChanged
      | .other => .error .opaque
      | r => .ok r := by
  cases res <;> simp [respOf, errText, clientResult]

/-- C09 at this layer: with V = 0 the update flag is ignored (server dispatch) and the
client short-circuits V = 0 to a plain get. -/
theorem v0_ignored (n : String) (flag : Bool) : getOp n 0 flag = .get n ∧ clientGetIfChanged n 0 = .get n := by
  simp [getOp, clientGetIfChanged]

theorem nonzero_conditional (n : String) (v : Nat) (hv : v ≠ 0) :
    clientGetIfChanged n v = .getCond n v ∧ getOp n v false = .getVersion n v := by
  simp [getOp, clientGetIfChanged, hv]

/-- non-vacuity: an accepted request exists -/
example : accepted { method := "POST", contentType := some "application/json", noBrowsers := some "setec",
                     addrOk := true, addr := "1.2.3.4", op := some .list,
                     who := { fails := false, tags := [], login := "u@example.com", node := "n",
                              cap := some [{ actions := ["get"], secrets := [['*']] }], capHttps := some [] } } := by
  decide

/-! ### T1: the status tables, extracted from the source on every run -/

def statusNum : String → Nat
  | "StatusOK" => 200 | "StatusNotModified" => 304 | "StatusBadRequest" => 400
  | "StatusForbidden" => 403 | "StatusNotFound" => 404 | "StatusInternalServerError" => 500
  | _ => 0

/-- the sentinel a `Res` stands for, as the handler's error chain names it -/
def errName : Res → String
  | .denied => "db.ErrAccessDenied" | .notFound => "db.ErrNotFound"
  | .notChanged => "api.ErrValueNotChanged" | _ => "err != nil"

/-- `serveJSON` tests the handler's error in exactly this order with exactly these statuses, it
answers with no other status than those of the model's gates and outcomes, and the model's
`respOf` is that table; the client maps 404/403/304 back to the three sentinels. -/
theorem status_tables :
    Facts.serveErrorChain = [("db.ErrAccessDenied", "StatusForbidden"), ("db.ErrNotFound", "StatusNotFound"),
      ("api.ErrValueNotChanged", "StatusNotModified"), ("err != nil", "StatusInternalServerError")] ∧
    Facts.serveStatuses = ["StatusBadRequest", "StatusBadRequest", "StatusForbidden", "StatusInternalServerError",
      "StatusBadRequest", "StatusForbidden", "StatusNotFound", "StatusNotModified", "StatusInternalServerError",
      "StatusInternalServerError", "StatusOK"] ∧
    Facts.clientStatusErrors = [("StatusNotFound", "api.ErrNotFound"), ("StatusForbidden", "api.ErrAccessDenied"),
      ("StatusNotModified", "api.ErrValueNotChanged")] ∧
    (∀ res ∈ [Res.denied, Res.notFound, Res.notChanged, Res.other],
      some (respOf res).status = (Facts.serveErrorChain.lookup (errName res)).map statusNum) := by
  refine ⟨by decide, by decide, by decide, ?_⟩
  intro res hres
  simp only [List.mem_cons, List.mem_nil_iff, or_false] at hres
  rcases hres with h | h | h | h <;> subst h <;> decide

/-- the db method an operation of the model stands for -/
def methodOf : Op → String
  | .getCond _ _ => "GetConditional"
  | .getVersion _ _ => "GetVersion"
  | .get _ => "Get"
  | _ => "-"

/-- T1, translated: the `/api/get` handler's choice of database method, regenerated from
server/server.go on every run, is the model's `getOp`; and `Client.GetIfChanged`,
regenerated from client/setec/client.go, short-circuits exactly version 0
(`api.SecretVersionDefault`) to a plain get, as the model's `clientGetIfChanged`. -/
theorem generated_get_dispatch (name : String) (version : Nat) (flag : Bool) :
    Facts.gen_getDispatch_ok = true ∧ Facts.gen_clientGetIfChanged_ok = true ∧ Facts.secretVersionDefault = some 0 ∧
    Facts.gen_getDispatch flag version = methodOf (getOp name version flag) ∧
    (Facts.gen_clientGetIfChanged version 0 = "Get" ↔ clientGetIfChanged name version = Op.get name) := by
  refine ⟨by decide, by decide, by decide, ?_, ?_⟩
  · unfold Facts.gen_getDispatch getOp
    by_cases hv : version = 0
    · subst hv; simp [methodOf]
    · have : ((version : Int) != 0) = true := by simp; omega
      cases flag <;> simp [hv, this, methodOf]
  · unfold Facts.gen_clientGetIfChanged clientGetIfChanged getOp
    by_cases hv : version = 0
    · subst hv; simp
    · have : ((version : Int) == 0) = false := by simp; omega
      simp [hv, this]

/-- T1, who the caller is: `getIdentity` looks at nothing of the request but the connection's
peer address (and the request's context), passes exactly that address to WhoIs, and touches
nothing of the server but the WhoIs function - no header is consulted, and no state about
earlier callers is kept or read.  (The model's `identify` is a function of the peer address and
the tailnet's answer about it.) -/
theorem fact_identity_from_connection :
    Facts.identityRequestFields = ["Context", "RemoteAddr"] ∧
    Facts.identityServerFields = ["whois"] ∧
    Facts.identityWhoisArgs = ["r.Context()", "r.RemoteAddr"] := by
  decide

/-! ### T1: functions the model transcribes, statement by statement (white space collapsed) -/

def expected_Server_getIdentity : List String := ["addrPort, err := netip.ParseAddrPort(r.RemoteAddr)", "if err != nil { return db.Caller{}, fmt.Errorf(\"parsing RemoteAddr %q: %w\", r.RemoteAddr, err) }", "who, err := s.whois(r.Context(), r.RemoteAddr)", "if err != nil { return db.Caller{}, fmt.Errorf(\"calling WhoIs: %w\", err) }", "if who.Node.IsTagged() { id.Principal.Tags = who.Node.Tags } else if who.UserProfile.LoginName != \"\" { id.Principal.User = who.UserProfile.LoginName } else { return db.Caller{}, errors.New(\"failed to find caller identity\") }", "id.Principal.IP = addrPort.Addr()", "id.Principal.Hostname = who.Node.Name", "id.Permissions, err = tailcfg.UnmarshalCapJSON[acl.Rule](who.CapMap, ACLCap)", "if err == nil && len(id.Permissions) == 0 { id.Permissions, err = tailcfg.UnmarshalCapJSON[acl.Rule](who.CapMap, aclCapHTTP) }", "if err != nil { return db.Caller{}, fmt.Errorf(\"unmarshaling peer capabilities: %w\", err) }", "return id, nil"]

/-- getIdentity: the peer address parsed and handed to WhoIs; tagged node or login name; IP and host name from the connection and the node; the rules under the current capability name, under the legacy one only if that gave none -/
theorem fact_Server_getIdentity_as_transcribed : Facts.body_Server_getIdentity = expected_Server_getIdentity := by rfl

end Setec.C08
