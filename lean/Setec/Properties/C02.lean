import Setec.Proofs.DB
import Setec.Spec.DBMon
import Setec.Proofs.MonitorsSound
import Setec.Generated.Facts
/-!
# C02 - the versioned store behaves exactly as its sequential specification

The "plain map model" of the statement is `KV` (Model/KV.lean) behind `DB.step`.
The clauses of the statement are theorems about it; the correspondence run compares
every result and state of the real code with it after every step.
-/
namespace Setec.C02
open Std Setec.KV Setec.DB Setec.DBMon

/-- Every state reachable from the empty database by any finite history (any callers, any
audit/save fault script) satisfies the invariant: the active version exists and every
stored number lies in 1..latest. -/
theorem inv_reachable (xs : List Call) : Inv (run Cfg.std KV.empty xs) :=
  run_inv Cfg.std KV.empty inv_empty xs

/-- the active version always exists: `get` never reports the "[unexpected]" internal error -/
theorem get_never_internal (kv : KV) (h : Inv kv) (n : String) : KV.get kv n ≠ .error .internal := by
  unfold KV.get
  split
  · simp
  · next s hs =>
    have := (h n s hs).1
    rw [ExtTreeMap.mem_iff_isSome_getElem?] at this
    split
    · next hnone => simp [hnone] at this
    · simp

/-- first put of a name creates version 1 and makes it active -/
theorem put_first (kv : KV) (n : String) (v : Bytes) (h : kv.secrets[n]? = none) :
    KV.put true kv n v true =
      ({ secrets := kv.secrets.insert n { versions := (∅ : VMap).insert 1 v, active := 1, latest := 1 },
         gen := kv.gen + 1,
         disk := kv.secrets.insert n { versions := (∅ : VMap).insert 1 v, active := 1, latest := 1 } }, .ok 1) :=
  KV.put_first true kv n v h

/-- each later put stores its value under a fresh, strictly larger, never-used number and
leaves the active version alone -/
theorem put_fresh (kv : KV) (hinv : Inv kv) (n : String) (v : Bytes) (s : Secret)
    (hs : kv.secrets[n]? = some s) (hd : dedupe true s v = false) :
    KV.put true kv n v true =
      ({ secrets := kv.secrets.insert n (putNewMutate s v), gen := kv.gen + 1,
         disk := kv.secrets.insert n (putNewMutate s v) }, .ok (s.latest + 1))
    ∧ s.latest + 1 ∉ s.versions ∧ (putNewMutate s v).active = s.active
    ∧ ∀ k, k ∈ s.versions → k < s.latest + 1 :=
  KV.put_fresh kv n v s hs (hinv n s hs) hd

/-- re-putting the bytes of the most recently assigned version, while it still exists,
just returns its number -/
theorem put_dedupe (kv : KV) (n : String) (v : Bytes) (s : Secret) (ok : Bool)
    (hs : kv.secrets[n]? = some s) (hv : s.versions[s.latest]? = some v) :
    KV.put true kv n v ok = (kv, .ok s.latest) :=
  KV.put_dedupe kv n v s ok hs hv

/-- ...and only then: once the newest version has been deleted, a put allocates a new number -/
theorem put_after_deleting_newest (kv : KV) (hinv : Inv kv) (n : String) (v : Bytes) (s : Secret)
    (hs : kv.secrets[n]? = some s) (hgone : s.versions[s.latest]? = none) :
    (KV.put true kv n v true).2 = .ok (s.latest + 1) := by
  rw [(KV.put_fresh kv n v s hs (hinv n s hs) (dedupe_absent s v hgone)).1]

/-- a version number returned by a successful put is immediately retrievable with exactly
the bytes put -/
theorem put_retrievable (kv : KV) (n : String) (v : Bytes) (ok : Bool) (kv' : KV) (k : Nat)
    (h : KV.put true kv n v ok = (kv', .ok k)) : KV.getVersion kv' n k = .ok (v, k) :=
  KV.put_retrievable kv n v ok kv' k h

/-- the same at the API level: put then get-version through `DB.step` -/
theorem db_put_retrievable (kv : KV) (c : Caller) (n : String) (v : Bytes) (aok sok : Bool) (kv' : KV)
    (k : Nat) (es : List Entry)
    (h : step Cfg.std kv c (.put n v) aok sok = (kv', .version k, es))
    (hg : granted c "get" n = true) :
    (step Cfg.std kv' c (.getVersion n k) true true).2.1 = .value v k := by
  have hput : KV.put true kv n v sok = (kv', .ok k) := by
    simp only [step] at h
    split at h; · simp at h
    split at h
    · next e r hcl =>
      simp only [checkAndLog] at hcl
      simp at h; obtain ⟨_, rfl, _⟩ := h
      split at hcl <;> (try split at hcl) <;> simp at hcl
    split at h; · simp at h
    split at h
    · next kv2 k2 hp => simp at h; obtain ⟨rfl, rfl, _⟩ := h; exact hp
    · next kv2 er hp => simp at h; cases er <;> simp [kvErr] at h
  have := KV.put_retrievable kv n v sok kv' k hput
  simp [step, checkAndLog, allowed, granted, Cfg.std] at hg ⊢
  simp [hg, this]

/-- D2 (the tree before the repair): with the original guard
`s.Versions[s.LatestVersion] == bsValue`, putting the empty value after the newest
version was deleted returns a number that does not exist. -/
theorem d2_original_guard_violates (kv : KV) (n : String) (s : Secret)
    (hs : kv.secrets[n]? = some s) (h : s.versions[s.latest]? = none) :
    KV.put false kv n [] true = (kv, .ok s.latest) ∧ KV.getVersion kv n s.latest = .error .notFound :=
  KV.d2_original_guard kv n s true hs h

/-- only activate changes which existing version is served by default -/
theorem put_keeps_active (kv : KV) (hinv : Inv kv) (n : String) (v : Bytes) (ok : Bool) (s : Secret)
    (hs : kv.secrets[n]? = some s) :
    ∃ s', (KV.put true kv n v ok).1.secrets[n]? = some s' ∧ s'.active = s.active :=
  KV.put_active_unchanged kv n v ok s hinv hs

theorem deleteVersion_keeps_active (kv : KV) (n : String) (v : Nat) (ok : Bool) (kv' : KV)
    (h : KV.deleteVersion kv n v ok = (kv', .ok ())) :
    ∃ s s', kv.secrets[n]? = some s ∧ kv'.secrets[n]? = some s' ∧ s'.active = s.active := by
  obtain ⟨s, s', h1, h2, _, _, h5, _⟩ := KV.deleteVersion_ok kv n v ok kv' h
  exact ⟨s, s', h1, h2, h5⟩

/-- activate serves exactly the requested existing version afterwards -/
theorem activate_sets_active (kv : KV) (n : String) (v : Nat) (ok : Bool) (kv' : KV)
    (h : KV.setActive kv n v ok = (kv', .ok ())) :
    ∃ s s', kv.secrets[n]? = some s ∧ kv'.secrets[n]? = some s' ∧ v ∈ s.versions ∧ s'.active = v ∧
      s'.versions = s.versions :=
  let ⟨s, s', a, b, c, d, e, _⟩ := KV.setActive_ok kv n v ok kv' h
  ⟨s, s', a, b, c, d, e⟩

/-- the active version cannot be deleted individually -/
theorem active_not_deletable (kv : KV) (hinv : Inv kv) (n : String) (s : Secret) (ok : Bool)
    (hs : kv.secrets[n]? = some s) :
    KV.deleteVersion kv n s.active ok = (kv, .error .activeVersion) := by
  apply KV.deleteVersion_active kv n s ok hs
  have := (hinv n s hs).2 s.active (hinv n s hs).1
  omega

/-- failed calls change nothing (any caller, any fault script) -/
theorem failed_calls_noop (kv : KV) (hinv : Inv kv) (c : Caller) (op : Op) (aok sok : Bool)
    (herr : (step Cfg.std kv c op aok sok).2.1.isError = true) :
    (step Cfg.std kv c op aok sok).1 = kv :=
  MonSound.failed_calls_noop kv hinv c op aok sok herr

/-- version 0, an empty name and a reserved name are refused without any change -/
theorem invalid_arguments_refused (kv : KV) (c : Caller) (aok sok : Bool) (n : String) (v : Bytes) :
    (step Cfg.std kv c (.put "" v) aok sok).1 = kv ∧
    (step Cfg.std kv c (.activate "" 1) aok sok).1 = kv ∧
    (KV.setActive kv n 0 sok) = (kv, .error .invalidVersion) ∧
    (KV.deleteVersion kv n 0 sok) = (kv, .error .invalidVersion) := by
  simp [step, KV.setActive, KV.deleteVersion]

theorem reserved_prefix_refused (kv : KV) (c : Caller) (aok sok : Bool) (n : String) (v : Bytes) (k : Nat)
    (hp : hasPrefix Cfg.std n = true) :
    (step Cfg.std kv c (.put n v) aok sok).1 = kv ∧
    (step Cfg.std kv c (.activate n k) aok sok).1 = kv ∧ (step Cfg.std kv c (.delete n) aok sok).1 = kv ∧
    (step Cfg.std kv c (.deleteVersion n k) aok sok).1 = kv := by
  refine ⟨?_, ?_, ?_, ?_⟩ <;> simp only [step] <;> (repeat' split) <;> simp_all

/-- operations on one name never affect another -/
theorem frame (kv : KV) (hinv : Inv kv) (c : Caller) (op : Op) (aok sok : Bool) (m : String)
    (hne : opName op ≠ m) : (step Cfg.std kv c op aok sok).1.secrets[m]? = kv.secrets[m]? :=
  step_frame Cfg.std kv c op aok sok m hinv hne

/-- numbering restarts only when the whole secret is deleted -/
theorem delete_restarts_numbering (kv : KV) (n : String) (v : Bytes) (kv' : KV)
    (h : KV.deleteSecret kv n true = (kv', .ok ())) : (KV.put true kv' n v true).2 = .ok 1 :=
  KV.delete_restarts_numbering kv n v kv' h

/-- the monitor clause `c02_inv` evaluated by the driver is the Boolean form of `SecInv` -/
theorem secInv_of_monitor (s : Secret) (h : secInv s = true) : SecInv s := by
  simp only [secInv, Bool.and_eq_true, decide_eq_true_eq, List.all_eq_true] at h
  obtain ⟨⟨h1, _⟩, h3⟩ := h
  refine ⟨by simpa [ExtTreeMap.contains_iff_mem] using h1, ?_⟩
  intro k hk
  have := h3 k (ExtTreeMap.mem_keys.mpr hk)
  simpa using this

/-- non-vacuity: a concrete two-version state satisfies the invariant and the hypotheses of
`put_after_deleting_newest` (newest version 2 deleted, latest = 2). -/
example : SecInv { versions := (∅ : VMap).insert 1 [97], active := 1, latest := 2 } ∧
    ({ versions := (∅ : VMap).insert 1 [97], active := 1, latest := 2 } : Secret).versions[2]? = none := by
  refine ⟨⟨by simp, ?_⟩, by simp⟩
  intro k hk; simp at hk; subst hk; simp

/-! ### the reads, in both directions

`DBMon.c02_reads_total` is the monitor clause the driver evaluates on what the real code
answered: a granted read with the audit log working is answered exactly what the map holds,
and "not found" exactly when it holds nothing there; a listing shows exactly the names the
caller may see.  The model's own step satisfies it for every state, caller and operation, so
the clause demands nothing the specification does not. -/

/-- the specification's step satisfies the total-reads clause, always -/
theorem reads_total_on_model (kv : KV) (c : Caller) (op : Op) (aok sok : Bool) :
    c02_reads_total (MonSound.obsOf kv c op aok sok) = true :=
  MonSound.c02_reads_total_sound kv c op aok sok

/-- ...and so does it satisfy `failed_noop`, `frame`, `reads`, `delete_version`, `active`, `bytes_stable` and `put`, in every state that satisfies the
store invariant (every reachable one) -/
theorem monitors_sound (kv : KV) (hinv : Inv kv) (c : Caller) (op : Op) (aok sok : Bool) :
    c02_failed_noop (MonSound.obsOf kv c op aok sok) = true ∧
    c02_frame (MonSound.obsOf kv c op aok sok) = true ∧
    c02_reads (MonSound.obsOf kv c op aok sok) = true ∧
    c02_delete_version (MonSound.obsOf kv c op aok sok) = true ∧
    c02_active (MonSound.obsOf kv c op aok sok) = true ∧
    c02_bytes_stable (MonSound.obsOf kv c op aok sok) = true ∧
    c02_put (MonSound.obsOf kv c op aok sok) = true := by
  refine ⟨?_, MonSound.c02_frame_sound kv c op aok sok hinv, MonSound.c02_reads_sound kv c op aok sok,
          MonSound.c02_delete_version_sound kv c op aok sok hinv, MonSound.c02_active_sound kv c op aok sok hinv,
          MonSound.c02_bytes_stable_sound kv c op aok sok hinv, MonSound.c02_put_sound kv c op aok sok hinv⟩
  simp only [c02_failed_noop, MonSound.obsOf]
  by_cases h : (step Cfg.std kv c op aok sok).2.1.isError = true
  · simp [h, failed_calls_noop kv hinv c op aok sok h]
  · simp [h]

/-- ...and `inv` (every secret has its active version, versions lie between 1 and the counter, no
name is empty) in every state reachable from the empty database -/
theorem monitor_inv_sound (xs : List Call) (c : Caller) (op : Op) (aok sok : Bool) :
    c02_inv (MonSound.obsOf (run Cfg.std KV.empty xs) c op aok sok) = true :=
  MonSound.c02_inv_sound_reachable xs c op aok sok

/-- All twenty-two clauses the driver evaluates on the steps of the real database - C01's, C02's,
C04's, C06's, C09's and C18's - hold of the specification's own step in every state reachable
from the empty database: the monitors demand nothing the specification does not. -/
theorem all_monitor_clauses_sound (xs : List Call) (c : Caller) (op : Op) (aok sok : Bool) :
    ∀ cl ∈ DBMon.clauses, cl.2.2 (MonSound.obsOf (run Cfg.std KV.empty xs) c op aok sok) = true :=
  MonSound.all_clauses_sound xs c op aok sok

/-! ### T1: the four mutators, statement by statement

The model's `KV.put`, `setActive`, `deleteVersion` and `deleteSecret` (Model/KV.lean) are
transcriptions of these bodies: look the secret up; refuse what must be refused; mutate the map
in memory; save; on a failed save undo exactly that mutation (delete the version just added and
step the counter back by one; restore the previous active version; put the deleted version or
secret back) and report the error.  The extractor hands over each function's top-level
statements with white space collapsed; this is what they are expected to be, to the letter.
A rewrite of one of them - harmless or not - stops this theorem, and the check then looks for an
input on which the behaviour differs. -/

def expectedKvMutators : List (String × List String) := [
  ("put", ["s := kv.secrets[name]", "if s == nil { kv.secrets[name] = &secret{ LatestVersion: 1, ActiveVersion: 1, Versions: map[api.SecretVersion]byteString{ 1: byteString(value), }, } if err := kv.save(); err != nil { delete(kv.secrets, name) return 0, err } return 1, nil }", "bsValue := byteString(value)", "if cur, ok := s.Versions[s.LatestVersion]; ok && cur == bsValue { return s.LatestVersion, nil }", "s.LatestVersion++", "s.Versions[s.LatestVersion] = bsValue", "if err := kv.save(); err != nil { delete(s.Versions, s.LatestVersion) s.LatestVersion-- return 0, err }", "return s.LatestVersion, nil"]),
  ("setActive", ["if version == api.SecretVersionDefault { return errors.New(\"invalid version\") }", "secret := kv.secrets[name]", "if secret == nil { return ErrNotFound }", "if _, ok := secret.Versions[version]; !ok { return ErrNotFound }", "if secret.ActiveVersion == version { return nil }", "old := secret.ActiveVersion", "secret.ActiveVersion = version", "if err := kv.save(); err != nil { secret.ActiveVersion = old return err }", "return nil"]),
  ("deleteVersion", ["if version == api.SecretVersionDefault { return errors.New(\"invalid version\") }", "secret := kv.secrets[name]", "if secret == nil { return fmt.Errorf(\"secret %q: %w\", name, ErrNotFound) } else if version == secret.ActiveVersion { return errors.New(\"cannot delete active version\") }", "old, ok := secret.Versions[version]", "if !ok { return fmt.Errorf(\"version %v: %w\", version, ErrNotFound) }", "delete(secret.Versions, version)", "if err := kv.save(); err != nil { secret.Versions[version] = old return err }", "return nil"]),
  ("deleteSecret", ["secret := kv.secrets[name]", "if secret == nil { return nil }", "delete(kv.secrets, name)", "if err := kv.save(); err != nil { kv.secrets[name] = secret return err }", "return nil"])]

theorem fact_mutators_as_transcribed : Facts.kvMutatorBodies = expectedKvMutators := by rfl

end Setec.C02
