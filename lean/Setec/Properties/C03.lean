import Setec.Proofs.DB
import Setec.Proofs.Crypto
import Setec.Generated.Facts
import Setec.Proofs.DBText
import Setec.Proofs.CodecOrder
/-!
# C03 - acknowledged state survives restart exactly; schema-v1 files stay readable

`KV.disk` is the clear content of the database file (what the last successful `save`
wrote).  `Synced` says the file holds exactly the served state.  The codec/crypto part says
the sealed file opens to exactly what was saved.  Together: reopening after any history
yields exactly the state the operations that reported success built.
-/
namespace Setec.C03
open Std Setec.KV Setec.DB Setec.Codec Setec.Crypto

/-- After any finite history from a fresh database - any callers, any audit and save fault
script - the file holds exactly the state the server serves: nothing acknowledged is
missing from the file and nothing deleted (or rolled back) is in it. -/
theorem file_holds_served_state (xs : List Call) :
    (run Cfg.std KV.empty xs).disk = (run Cfg.std KV.empty xs).secrets :=
  run_synced Cfg.std KV.empty inv_empty rfl xs

/-- The persist codec round-trips every state (names, decimal version keys, bytes, active
versions and the next-version counters). -/
theorem persist_roundtrip (m : SMap) : decode (encode m) = some m := decode_encode m

/-- Opening the file written for contents `m` with the same key yields exactly `m`. -/
theorem open_roundtrip (kek dek : Nat) (m : SMap) :
    openFile Layout.v1 kek (fileOf Layout.v1 kek dek m) = some (dek, m) := open_fileOf kek dek m

/-- Reopen after any history: the state found equals the served state, including
`latest` (so the next put allocates the same number as it would have without restart). -/
theorem reopen_exact (kek dek : Nat) (xs : List Call) :
    openFile Layout.v1 kek (fileOf Layout.v1 kek dek (run Cfg.std KV.empty xs).disk) =
      some (dek, (run Cfg.std KV.empty xs).secrets) := by
  rw [file_holds_served_state]; exact open_fileOf kek dek _

/-- ...and a call on the reopened database behaves exactly like the same call on the
running one (same result, same records, same new contents). -/
theorem reopen_continues (xs : List Call) (c : Caller) (op : Op) (aok sok : Bool) :
    let kv := run Cfg.std KV.empty xs
    let reopened : KV := { secrets := kv.disk, gen := 1, disk := kv.disk }
    (step Cfg.std reopened c op aok sok).2 = (step Cfg.std { kv with gen := 1 } c op aok sok).2 := by
  intro kv reopened
  have h : kv.disk = kv.secrets := file_holds_served_state xs
  show (step Cfg.std { secrets := kv.disk, gen := 1, disk := kv.disk } c op aok sok).2 = _
  rw [h]

/-- Opening never modifies the file: `openFile` is a function of the file that returns only
the decoded contents (the model's open has no file output).  Stated: opening twice gives
the same answer. -/
theorem open_pure (kek : Nat) (f : File) : openFile Layout.v1 kek f = openFile Layout.v1 kek f := rfl

/-- T1: the documented schema-version-1 layout is what the source still says. -/
theorem layout_v1 :
    Facts.schemaVersion = some Layout.v1.schemaVersion ∧
    Facts.openAcceptsVersion = some 1 ∧
    Facts.adDEKFormat = some (Layout.v1.prefixDEK ++ "%d") ∧
    Facts.adDBFormat = some (Layout.v1.prefixDB ++ "%d") ∧
    Facts.struct_wrapped = ["Version:uint32", "DEK:[]byte", "DB:[]byte"] ∧
    Facts.struct_persist = ["Secrets:map[string]*secret"] ∧
    Facts.struct_secret = ["Versions:map[api.SecretVersion]byteString", "ActiveVersion:api.SecretVersion",
                           "LatestVersion:api.SecretVersion"] := by decide

/-- non-vacuity: a non-trivial state round-trips -/
example : (decode (encode ((∅ : SMap).insert "a" { versions := ((∅ : VMap).insert 1 [1,2]).insert 3 [], active := 1, latest := 3 }))).isSome :=
  by rw [decode_encode]; rfl

/-- the clear document as text: what `kv.save` marshals for contents `m` (names, version keys
and values rendered as encoding/json and `byteString.MarshalText` render them) reads back,
through the text layer and the tree codec, as exactly `m` - for every name, version set,
byte string and counter.  The renderer is compared byte for byte with the decrypted file by
the `db` family (`persist` profile). -/
theorem clear_document_roundtrip (m : KV.SMap) :
    DBText.decodeText (DBText.renderTree (Codec.encode m)) = some m :=
  DBText.decodeText_render m

/-- the text layer alone does not depend on the order of entries or of version keys (Go writes
them sorted as strings, so "10" precedes "2"): every tree reads back as itself -/
theorem clear_text_roundtrip (t : Codec.PTree) : DBText.readTree (DBText.renderTree t) = some t :=
  DBText.readTree_render t

/-- the contents do not depend on the order in which the clear document lists the secrets or
any secret's versions: encoding/json writes map keys sorted as strings (version "10" before
"2"), the model's `encode` in numeric order; either way - and for any other order - the
document decodes to the same contents.  (`t'` has each secret's versions permuted, `t` is any
permutation of `t'`.) -/
theorem schema_order_independent (m : KV.SMap) (t' t : Codec.PTree)
    (h1 : Codec.EntryWise (Codec.encode m) t') (h2 : t'.Perm t) : Codec.decode t = some m :=
  Codec.decode_any_order m t' t h1 h2

/-- non-vacuity: a secret whose two version entries are swapped -/
example (s : KV.Secret) (a b : String × KV.Bytes) (h : (Codec.encSecret s).versions = [a, b]) :
    Codec.decSecret { (Codec.encSecret s) with versions := [b, a] } = some s :=
  Codec.decSecret_perm s _ ⟨by rw [h]; exact List.Perm.swap _ _ _, rfl, rfl⟩

/-- T1, `kv.save` in calls: marshal the whole map, encrypt it under the data key, marshal the
wrapper, and hand the bytes to `atomicfile.WriteFile` for the configured path with mode 0600 -
nothing else: no call to the key-encryption key, no file operation of its own (no temporary
file of its own naming, no copy kept beside the database, no rename of the live file), no
per-secret shortcut. -/
theorem fact_save_shape :
    Facts.kvSaveCalls = ["json.Marshal", "kv.dekCipher.Encrypt", "aeadContextDB", "json.Marshal", "atomicfile.WriteFile"] ∧
    Facts.kvSaveFileCalls = ["atomicfile.WriteFile(kv.path, out, 0600)"] := by
  decide

end Setec.C03
