import Setec.Model.Conc
import Setec.Proofs.KV
import Setec.Generated.Facts
/-!
# C14 - concurrent requests are linearizable against the sequential specification

The theorem is about the model's interleavings: each call is a state-independent pre-step
followed by one atomic locked step.  That the code's critical sections are those steps is
tied by the extracted lock shape (below) and by the concurrent harness, which records real
histories under the race detector and decides each by an exhaustive linearizability search
against `DB.step`.  Data-race freedom itself is the race detector's verdict (sampled).
-/
namespace Setec.C14
open Setec.KV Setec.DB Setec.Conc

/-- a method's token list is well-locked: every data access comes after the lock, whose
unlock is deferred immediately, and there is no early unlock -/
def wellLocked : List String → Bool
  | toks =>
    let afterLock := toks.dropWhile (· != "lock")
    !toks.contains "unlock" &&
    (toks.takeWhile (· != "lock")).all (· != "kv") &&
    (!toks.contains "kv" || (afterLock.take 2 == ["lock", "unlock-deferred"]))

/-- T1: every exported db.DB method takes the lock (unlock deferred) before its first access
to the key/value store, and never unlocks early. -/
theorem lock_shape : Facts.dbLockShape.all (fun m => wellLocked m.2) = true ∧
    Facts.dbLockShape.map (·.1) =
      ["Path", "WriteGen", "List", "Info", "Get", "GetConditional", "GetVersion", "Put", "Activate", "DeleteVersion", "Delete"] := by
  decide

theorem lockedStep_other (cfg : Cfg) (s : Sys) (i j : Nat) (h : i ≠ j) :
    (lockedStep cfg s i).threads[j]? = s.threads[j]? := by
  simp only [lockedStep]
  split
  · split
    · simp [List.getElem?_set, h]
    · rfl
  · rfl

/-- the calls of a schedule, read off the initial thread table -/
def callsOf (s : Sys) (sched : List Nat) : List Call := sched.filterMap fun i => s.threads[i]?.map (·.call)

/-- Linearizability by construction of the lock: for every schedule of the locked steps of
any number of threads (each thread at most once), the final state is the one the
sequential specification reaches by executing the calls one at a time in the order of their
locked steps... -/
theorem lin_by_lock_state (cfg : Cfg) (s : Sys) (sched : List Nat) (hnd : sched.Nodup)
    (hpre : ∀ i ∈ sched, ∃ t, s.threads[i]? = some t ∧ t.phase = .pre) :
    (runSched cfg s sched).kv = (seqRun cfg s.kv (callsOf s sched)).1 := by
  induction sched generalizing s with
  | nil => rfl
  | cons i rest ih =>
    obtain ⟨t, ht, hp⟩ := hpre i List.mem_cons_self
    simp only [List.nodup_cons] at hnd
    simp only [runSched]
    have hkv : (lockedStep cfg s i).kv = (step cfg s.kv t.call.caller t.call.op t.call.auditOk t.call.saveOk).1 := by
      simp [lockedStep, ht, hp]
    have hrest : ∀ j ∈ rest, ∃ t', (lockedStep cfg s i).threads[j]? = some t' ∧ t'.phase = .pre := by
      intro j hj
      have hne : i ≠ j := fun e => hnd.1 (e ▸ hj)
      rw [lockedStep_other cfg s i j hne]
      exact hpre j (List.mem_cons_of_mem _ hj)
    have hcalls : ∀ (l : List Nat), (∀ j ∈ l, i ≠ j) → callsOf (lockedStep cfg s i) l = callsOf s l := by
      intro l
      induction l with
      | nil => intro _; rfl
      | cons j l ihl =>
        intro hl
        have hne : i ≠ j := hl j List.mem_cons_self
        have ihl' := ihl (fun k hk => hl k (List.mem_cons_of_mem _ hk))
        simp only [callsOf, List.filterMap_cons] at ihl' ⊢
        rw [lockedStep_other cfg s i j hne, ihl']
    have hcalls := hcalls rest (fun j hj e => hnd.1 (e ▸ hj))
    rw [ih (lockedStep cfg s i) hnd.2 hrest, hcalls, hkv]
    simp [callsOf, ht, seqRun]

/-- ...and every call's result is the result of its own locked step executed on the state the
sequential run has at that point (so two puts of different values never receive the same
version, a get never pairs one version's number with another's bytes, and a list is a
snapshot: each is a single `DB.step`). -/
theorem lin_by_lock_result (cfg : Cfg) (s : Sys) (i : Nat) (t : TState)
    (ht : s.threads[i]? = some t) (hp : t.phase = .pre) :
    ∃ t', (lockedStep cfg s i).threads[i]? = some t' ∧
      t'.res = some (step cfg s.kv t.call.caller t.call.op t.call.auditOk t.call.saveOk).2.1 ∧
      (lockedStep cfg s i).order = s.order ++ [i] := by
  have hi : i < s.threads.length := by
    rcases List.getElem?_eq_some_iff.mp ht with ⟨h, _⟩; exact h
  refine ⟨{ t with phase := .locked, res := some (step cfg s.kv t.call.caller t.call.op t.call.auditOk t.call.saveOk).2.1 }, ?_, rfl, ?_⟩
  · have hget : s.threads[i] = t := by
      have := List.getElem?_eq_getElem hi
      rw [this] at ht; exact Option.some.inj ht
    simp only [lockedStep, ht, hp, if_true]
    simp [List.getElem?_set, hi]
  · simp [lockedStep, ht, hp]

/-- the order of the locked steps is consistent with real time: a call's locked step lies
between its invocation and its return, so if call a returned before call b was invoked, a's
locked step precedes b's in every schedule (stated on the recorded order list: steps are
appended in execution order) -/
theorem order_appends (cfg : Cfg) (s : Sys) (i : Nat) :
    ∃ l, (lockedStep cfg s i).order = s.order ++ l := by
  simp only [lockedStep]
  split
  · split
    · exact ⟨[i], rfl⟩
    · exact ⟨[], by simp⟩
  · exact ⟨[], by simp⟩

/-- corollary: two puts of different values to an existing secret never receive the same
version number, in either order -/
theorem two_puts_distinct_versions (kv : KV) (hinv : Setec.KV.Inv kv) (n : String) (v1 v2 : Bytes) (s : Secret)
    (hs : kv.secrets[n]? = some s) (hne : v1 ≠ v2) (k1 k2 : Nat) (kv1 kv2 : KV)
    (h1 : Setec.KV.put true kv n v1 true = (kv1, .ok k1)) (h2 : Setec.KV.put true kv1 n v2 true = (kv2, .ok k2)) :
    k1 ≠ k2 := by
  intro heq
  subst heq
  have r1 := Setec.KV.put_retrievable kv n v1 true kv1 k1 h1
  have r2 := Setec.KV.put_retrievable kv1 n v2 true kv2 k1 h2
  -- the second put returned k1: either it deduped against k1's bytes (= v1 ≠ v2) or allocated latest+1 > k1
  unfold Setec.KV.put at h2
  simp only [Setec.KV.getVersion] at r1
  split at r1
  · cases r1
  · next s1 hs1 =>
    rw [hs1] at h2
    simp only at h2
    split at h2
    · next hd =>
      simp only [Prod.mk.injEq, Except.ok.injEq] at h2
      obtain ⟨_, hk⟩ := h2
      simp only [Setec.KV.dedupe] at hd
      split at hd
      · next cur hc =>
        rw [hk] at hc
        split at r1
        · cases r1
        · next b hb =>
          simp only [Except.ok.injEq, Prod.mk.injEq] at r1
          rw [hb] at hc
          simp only [Option.some.injEq] at hc
          simp at hd
          exact hne (by rw [← r1.1, hc, hd])
      · simp at hd
    · simp only [Setec.KV.save, if_true, Prod.mk.injEq, Except.ok.injEq] at h2
      obtain ⟨_, hk⟩ := h2
      simp only [Setec.KV.putNewMutate] at hk
      -- k1 = s1.latest + 1 but k1 is stored in s1, whose numbers are ≤ s1.latest
      have hinv1 : Setec.KV.Inv kv1 := by have := Setec.KV.put_inv true kv n v1 true hinv; rw [h1] at this; exact this
      split at r1
      · cases r1
      · next b hb =>
        have hmem : k1 ∈ s1.versions := by
          rw [Std.ExtTreeMap.mem_iff_isSome_getElem?, hb]; rfl
        have := ((hinv1 n s1 hs1).2 k1 hmem).2
        omega

/-! ### T1: functions the model transcribes, statement by statement (white space collapsed) -/

def expected_DB_List : List String := ["db.mu.Lock()", "defer db.mu.Unlock()", "err := db.auditLog.WriteEntries(&audit.Entry{ Principal: caller.Principal, Action: acl.ActionInfo, Authorized: true, })", "if err != nil { return nil, fmt.Errorf(\"writing audit log: %w\", err) }", "var ret []*api.SecretInfo", "for _, name := range db.kv.list() { if !caller.Permissions.Allow(acl.ActionInfo, name) { continue } info, err := db.kv.info(name) if err != nil { return nil, err } ret = append(ret, info) }", "slices.SortFunc(ret, func(a, b *api.SecretInfo) int { return strings.Compare(a.Name, b.Name) })", "return ret, nil"]

/-- DB.List: under the mutex from the first statement to the last - the record, every name the caller may see, sorted -/
theorem fact_DB_List_as_transcribed : Facts.body_DB_List = expected_DB_List := by rfl

end Setec.C14
