import Setec.Spec.DBMon
import Setec.Proofs.KV
import Setec.Generated.Facts
import Setec.Proofs.MonitorsSound
/-!
# C01 - no operation takes effect or reveals data without a matching ACL grant

Theorems about `DB.step Cfg.std` (one call of an exported db.DB method).
`granted c a n` is `Acl.allow true c.rules a n`, whose meaning is C07's theorem.
`Facts.dbActions` ties the action constant of each method to the source.
-/
namespace Setec.C01
open Setec.KV Setec.DB Setec.DBMon Setec.Acl

/-- T1: per method, the action constants the source passes to checkAndLog /
Permissions.Allow / the audit entry are the ones the model's `Cfg.std` uses. -/
theorem actions_table : Facts.dbActions =
    [("List", ["entry:info", "allow:info"]),
     ("Info", ["check:info"]),
     ("Get", ["check:get"]),
     ("GetConditional", ["allow:get", "check:get", "check:get"]),
     ("GetVersion", ["check:get"]),
     ("Put", ["check:put"]),
     ("Activate", ["check:activate"]),
     ("DeleteVersion", ["check:delete"]),
     ("Delete", ["check:delete"])] := by decide

theorem action_strings : Facts.aclActions =
    [("ActionActivate", "activate"), ("ActionDelete", "delete"), ("ActionGet", "get"),
     ("ActionInfo", "info"), ("ActionPut", "put")] := by decide

theorem fact_configPrefix : Facts.configPrefix = some Cfg.std.configPrefix := by decide

/-- the action `Cfg.std` checks for an operation is the one the statement names -/
def cfgAction : Op → String
  | .list => Cfg.std.actListFilter
  | .info _ => Cfg.std.actInfo
  | .get _ => Cfg.std.actGet
  | .getCond _ _ => Cfg.std.actGetCond
  | .getVersion _ _ => Cfg.std.actGetVersion
  | .put _ _ => Cfg.std.actPut
  | .activate _ _ => Cfg.std.actActivate
  | .deleteVersion _ _ => Cfg.std.actDeleteVersion
  | .delete _ => Cfg.std.actDelete

theorem cfgAction_eq (op : Op) : cfgAction op = actionOf op := by cases op <;> rfl

theorem allowed_eq (c : Caller) (a n : String) : allowed Cfg.std c a n = granted c a n := rfl

/-- Without a matching grant a well-formed call is refused as access-denied, the state is
unchanged, and the only trace is one audit record saying "not authorized". -/
theorem denied_no_effect (kv : KV) (c : Caller) (op : Op) (aok sok : Bool)
    (hl : op ≠ .list) (hw : wellFormed op = true)
    (hd : granted c (actionOf op) (nameOf op) = false) :
    step Cfg.std kv c op aok sok =
      (kv, .denied, [{ principal := c.principal, action := actionOf op, secret := nameOf op,
                       version := versionGiven op, authorized := false }]) := by
  cases op <;>
    simp_all [step, checkAndLog, allowed, granted, actionOf, nameOf, versionGiven, wellFormed, Cfg.std]

/-- The refusal is identical whether or not the secret exists (it does not depend on the state). -/
theorem denial_independent_of_state (kv kv' : KV) (c : Caller) (op : Op) (aok sok : Bool)
    (hl : op ≠ .list) (hw : wellFormed op = true)
    (hd : granted c (actionOf op) (nameOf op) = false) :
    (step Cfg.std kv c op aok sok).2 = (step Cfg.std kv' c op aok sok).2 := by
  rw [denied_no_effect kv c op aok sok hl hw hd, denied_no_effect kv' c op aok sok hl hw hd]

/-- "only if": a state change implies the grant. -/
theorem change_only_if_granted (kv : KV) (c : Caller) (op : Op) (aok sok : Bool)
    (hch : (step Cfg.std kv c op aok sok).1 ≠ kv) :
    granted c (actionOf op) (nameOf op) = true := by
  cases hg : granted c (actionOf op) (nameOf op)
  · exfalso; apply hch
    cases op with
    | list => simp [step]; split <;> rfl
    | put n v =>
      by_cases hn : n = ""
      · simp [step, hn]
      · rw [denied_no_effect kv c _ aok sok (by simp) (by simp [wellFormed, hn]) hg]
    | activate n v =>
      by_cases hn : n = ""
      · simp [step, hn]
      · rw [denied_no_effect kv c _ aok sok (by simp) (by simp [wellFormed, hn]) hg]
    | info n => rw [denied_no_effect kv c _ aok sok (by simp) rfl hg]
    | get n => rw [denied_no_effect kv c _ aok sok (by simp) rfl hg]
    | getCond n v => rw [denied_no_effect kv c _ aok sok (by simp) rfl hg]
    | getVersion n v => rw [denied_no_effect kv c _ aok sok (by simp) rfl hg]
    | deleteVersion n v => rw [denied_no_effect kv c _ aok sok (by simp) rfl hg]
    | delete n => rw [denied_no_effect kv c _ aok sok (by simp) rfl hg]
  · rfl

/-- "only if": a result carrying a value, metadata or a version number implies the grant
(list is covered by `list_exact`). -/
theorem disclosure_only_if_granted (kv : KV) (c : Caller) (op : Op) (aok sok : Bool)
    (hl : op ≠ .list)
    (hdis : (step Cfg.std kv c op aok sok).2.1.disclosesAnything = true) :
    granted c (actionOf op) (nameOf op) = true := by
  cases hg : granted c (actionOf op) (nameOf op)
  · exfalso
    by_cases hw : wellFormed op = true
    · rw [denied_no_effect kv c op aok sok hl hw hg] at hdis
      simp [Res.disclosesAnything] at hdis
    · cases op <;> simp_all [wellFormed, step, Res.disclosesAnything]
  · rfl

/-- list returns exactly the secrets on which the caller holds info: names and version
numbers only (the result type has no value field), and changes nothing. -/
theorem list_exact (kv : KV) (c : Caller) (sok : Bool) :
    step Cfg.std kv c .list true sok =
      (kv,
       .listR (((KV.list kv).filter (fun n => granted c "info" n)).filterMap
                 (fun n => match KV.info kv n with
                           | .ok (vs, a) => some (n, vs, a)
                           | .error _ => none)),
       [{ principal := c.principal, action := "info", secret := "", version := 0, authorized := true }]) := by
  simp only [step, allowed, granted, Cfg.std, Bool.not_true, Bool.false_eq_true, if_false]
  rfl

/-- The monitor clause evaluated by the driver holds on every step of the specification. -/
theorem monitor_denied_noeffect (kv : KV) (c : Caller) (op : Op) (aok sok : Bool) :
    c01_denied_noeffect
      { pre := kv, caller := c, op := op, auditOk := aok, saveOk := sok,
        res := (step Cfg.std kv c op aok sok).2.1, entries := (step Cfg.std kv c op aok sok).2.2,
        entryBefore := none, post := (step Cfg.std kv c op aok sok).1, mem := none } = true := by
  unfold c01_denied_noeffect
  split
  · rfl
  · next hop =>
    simp only
    split
    · next h =>
      simp only [Bool.and_eq_true, Bool.not_eq_true'] at h
      rw [denied_no_effect kv c op aok sok (by intro e; subst e; simp at hop) h.1 h.2]
      simp [stateEq]
    · rfl

/-- non-vacuity: a caller with a `get` grant on dev/* is denied `put` on dev/x, and the
hypotheses of `denied_no_effect` are satisfiable. -/
example : granted { principal := "p", rules := [{ actions := ["get"], secrets := ["dev/*".toList] }] }
    (actionOf (.put "dev/x" [1])) (nameOf (.put "dev/x" [1])) = false := by decide

/-! ### the monitor clauses are the specification's own behaviour -/

/-- Three C01 clauses the driver evaluates on the real code's answers - an ungranted call is
refused with access-denied and changes nothing; whatever is disclosed or changed was granted;
a listing shows exactly the names the caller may see -
hold of the specification's own step, for every state, caller, operation and oracle choice:
they demand nothing the model does not do. -/
theorem monitors_sound (kv : KV) (c : Caller) (op : Op) (aok sok : Bool) :
    c01_denied_noeffect (MonSound.obsOf kv c op aok sok) = true ∧
    c01_effect_only_if_granted (MonSound.obsOf kv c op aok sok) = true ∧
    c01_list_exact (MonSound.obsOf kv c op aok sok) = true :=
  ⟨MonSound.c01_denied_noeffect_sound kv c op aok sok, MonSound.c01_effect_only_if_granted_sound kv c op aok sok,
   MonSound.c01_list_exact_sound kv c op aok sok⟩

/-- ...and `changes_only_granted` - whichever secrets a call changed, the caller holds the call's
action on exactly those names - in every state that satisfies the store invariant. -/
theorem monitor_changes_only_granted_sound (kv : KV) (c : Caller) (op : Op) (aok sok : Bool) (h : KV.Inv kv) :
    c01_changes_only_granted (MonSound.obsOf kv c op aok sok) = true :=
  MonSound.c01_changes_only_granted_sound kv c op aok sok h

/-- T1: the identity a grant is looked up for is the connection's peer, and nothing the server
remembers about earlier requests (see C08.fact_identity_from_connection for the wording) -/
theorem fact_identity_from_connection :
    Facts.identityRequestFields = ["Context", "RemoteAddr"] ∧
    Facts.identityServerFields = ["whois"] ∧
    Facts.identityWhoisArgs = ["r.Context()", "r.RemoteAddr"] := by
  decide

/-- T1, `checkAndLog` asks the ACL about, and records, exactly what it was given: the ACL question
is `(action, secret)` with the parameters as they came in, the audit entry carries the caller's
principal, that action, that secret name, that version and the ACL's answer, and no parameter
is reassigned on the way (the model's `checkAndLog` builds its entry from the same arguments). -/
theorem fact_checkAndLog_uses_its_arguments :
    Facts.checkAndLogParams = ["caller", "action", "secret", "secretVersion"] ∧
    Facts.checkAndLogAllowArgs = ["action", "secret"] ∧
    Facts.checkAndLogEntry = [("Principal", "caller.Principal"), ("Action", "action"), ("Secret", "secret"),
      ("SecretVersion", "secretVersion"), ("Authorized", "authorized")] ∧
    Facts.checkAndLogAssigned.all (fun a => !Facts.checkAndLogParams.contains a) = true := by
  decide

/-! ### T1: functions the model transcribes, statement by statement (white space collapsed) -/

def expected_DB_checkAndLog : List String := ["var errs []error", "authorized := caller.Permissions.Allow(action, secret)", "if !authorized { errs = append(errs, ErrAccessDenied) }", "err := db.auditLog.WriteEntries(&audit.Entry{ Principal: caller.Principal, Action: action, Secret: secret, SecretVersion: secretVersion, Authorized: authorized, })", "if err != nil { errs = append(errs, fmt.Errorf(\"writing audit log: %w\", err)) }", "return multierr.New(errs...)"]

/-- checkAndLog: ask the ACL, write the entry (authorized or not), join the denial and a failed write into one error -/
theorem fact_DB_checkAndLog_as_transcribed : Facts.body_DB_checkAndLog = expected_DB_checkAndLog := by rfl

def expected_DB_Get : List String := ["if err := db.checkAndLog(caller, acl.ActionGet, name, 0); err != nil { return nil, err }", "db.mu.Lock()", "defer db.mu.Unlock()", "return db.kv.get(name)"]

/-- DB.Get: check and record first, then - under the mutex - read -/
theorem fact_DB_Get_as_transcribed : Facts.body_DB_Get = expected_DB_Get := by rfl

def expected_DB_Put : List String := ["if name == \"\" { return 0, errors.New(\"empty secret name\") }", "if err := db.checkAndLog(caller, acl.ActionPut, name, 0); err != nil { return 0, err }", "db.mu.Lock()", "defer db.mu.Unlock()", "if strings.HasPrefix(name, configPrefix) { return db.putConfigLocked(name, value) }", "return db.kv.put(name, value)"]

/-- DB.Put: refuse the empty name, check and record, then - under the mutex - the reserved prefix or the store's put -/
theorem fact_DB_Put_as_transcribed : Facts.body_DB_Put = expected_DB_Put := by rfl

end Setec.C01
