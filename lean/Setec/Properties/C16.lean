import Setec.Proofs.Lookup
import Setec.Proofs.Store
import Setec.Generated.Facts
/-!
# C16 - lookup of undeclared secrets is policy-gated, single-flight and bounded

Two models: `Store.lookup` (Model/Store.lean) for the gate and for what a lookup installs,
and the discrete-event `Lookup.run` (Model/Lookup.lean) for concurrent callers, one flight at
a time and the five-minute safety limit.  Hypotheses: singleflight gives one flight per key
at a time and hands its result to every waiter; the client returns when its context ends.
-/
namespace Setec.C16
open Std Setec.KV Setec.Lookup

/-- T1: the safety limit is five minutes and is applied once per caller (outside the
single-flight function), as the repaired code does. -/
theorem fact_fallback : Facts.lookupFallbackMs = some Mode.repaired.fallback ∧
    Facts.lookupFallbackPerFlight = some false := by decide

/-! ### the gate (sequential semantics) -/

/-- With lookups disabled an unknown name is refused and no request is sent; a known name
(declared or loaded from the cache) is served without a request. -/
theorem gate_off (s : Store.St) (n : String) (a : Store.Ans) (now : Int) (hoff : s.allowLookup = false) :
    (Store.known s n = false → Store.lookup s n a now = (s, .disabled, false)) ∧
    (Store.known s n = true → (Store.lookup s n a now).2 = (.handle, false)) := by
  constructor <;> intro hk <;> simp [Store.lookup, hk, hoff]

/-- With lookups enabled an unknown name is fetched; on success it is installed (undeclared,
stamped), cached, and a handle exists - so it is polled like any other from then on
(`Store.snapshot` ranges over the whole active set). -/
theorem lookup_installs (s : Store.St) (n : String) (sv : Store.SV) (now : Int)
    (hon : s.allowLookup = true) (hk : Store.known s n = false) :
    let r := Store.lookup s n (.value sv) now
    r.2 = (.handle, true) ∧ r.1.m[n]? = some (some { sv := sv, lastAccess := now, declared := false }) ∧
    r.1.handles.contains n = true := by
  simp only [Store.lookup, hk, hon]
  simp [Store.lookupInstall, Store.takeHandle, Store.known, Store.flush]
  have hmem : n ∈ (if n ∈ s.handles then s.handles else n :: s.handles) := by
    split
    · assumption
    · simp
  split <;> simp [hmem]

/-- A failed lookup installs nothing. -/
theorem failed_installs_nothing (s : Store.St) (n : String) (a : Store.Ans) (now : Int)
    (hon : s.allowLookup = true) (hk : Store.known s n = false) (ha : ∀ sv, a ≠ .value sv) :
    Store.lookup s n a now = (s, .failed, true) := by
  simp only [Store.lookup, hk, hon]
  cases a <;> simp_all

/-! ### concurrent callers -/

/-- In every state reachable from any set of callers and any behaviour of the service: a caller
that has returned did so no later than the end of its own context (or at its start, if
it started after that), and it reports a context error only if its own context had ended -
it is never failed merely because another caller's context was cancelled. -/
theorem reachable_inv (cs : List Caller) (script : List Svc) (fuel : Nat) :
    Inv Mode.repaired (run Mode.repaired fuel (init cs script)) :=
  run_inv Mode.repaired rfl fuel _ (init_inv Mode.repaired cs script)

/-- A caller with no deadline gets its answer within the five-minute safety limit - even if
the service never responds, whatever other callers do, for any number of callers. -/
theorem bounded_no_deadline (cs : List Caller) (script : List Svc) (fuel : Nat) (c : Caller) (t : Nat) (r : Res)
    (hmem : (c, Status.done t r) ∈ (run Mode.repaired fuel (init cs script)).callers)
    (hnd : c.deadline = none) : t ≤ c.start + 300000 := by
  have := (reachable_inv cs script fuel (c, .done t r) hmem).2.2 t r rfl
  have he : ∃ e, c.ownEnd Mode.repaired = some e ∧ e ≤ c.start + 300000 := by
    simp only [Caller.ownEnd, Mode.repaired, hnd, Bool.true_and, Option.isNone_none, if_true]
    cases c.cancelAt with
    | none => exact ⟨_, rfl, Nat.le_refl _⟩
    | some x => exact ⟨_, rfl, Nat.min_le_right _ _⟩
  obtain ⟨e, he, hle⟩ := he
  have h2 := this.1 e he
  simp only at h2
  omega

theorem not_failed_by_others (cs : List Caller) (script : List Svc) (fuel : Nat) (c : Caller) (t : Nat)
    (hmem : (c, Status.done t Res.ctx) ∈ (run Mode.repaired fuel (init cs script)).callers) :
    alive Mode.repaired c t = false :=
  ((reachable_inv cs script fuel (c, .done t .ctx) hmem).2.2 t .ctx rfl).2 rfl

/-- Single flight: a request is sent only at an instant when no flight is running (after the
one ending at that instant, if any, has been processed) - at most one request per name
is in flight at any time. -/
theorem request_only_when_idle (m : Mode) (s : State) (t : Nat)
    (h : (stepAt m s t).requests ≠ s.requests) :
    (s.flight = none ∨ (flightEnded s t).isSome) ∧ (stepAt m s t).requests = s.requests ++ [t] := by
  simp only [stepAt] at h ⊢
  split at h
  · exact absurd rfl h
  · next hfl =>
    split at h
    · refine ⟨?_, rfl⟩
      by_cases he : (flightEnded s t).isSome
      · exact Or.inr he
      · left; simpa [he] using hfl
    · exact absurd rfl h

/-- All callers waiting when the flight succeeds get a handle at that instant; when it fails
with a real error they all get that error - and no request is issued on their behalf. -/
theorem waiters_get_result (m : Mode) (t : Nat) (c : Caller) (inst : Bool) :
    newStatus m (some .handle) inst t c .waiting = .done t .handle ∧
    newStatus m (some .failed) inst t c .waiting = .done t .failed := by
  simp [newStatus]

/-- D6 (the tree before the repair): one caller with a background context against a service
that never answers is still retrying after an hour - a request every five minutes - and
returns only when the harness cancels it at 70 minutes. -/
theorem d6_original_never_returns :
    (run Mode.original 40 (init [{ start := 0, deadline := none, cancelAt := some 4200000 }] [])).callers =
      [({ start := 0, deadline := none, cancelAt := some 4200000 }, .done 4200000 .ctx)] ∧
    (run Mode.original 40 (init [{ start := 0, deadline := none, cancelAt := some 4200000 }] [])).requests.length = 14 := by
  decide

/-- the same scenario with the repaired code: one request, back after exactly five minutes -/
example : (run Mode.repaired 40 (init [{ start := 0, deadline := none, cancelAt := some 4200000 }] [])).callers =
    [({ start := 0, deadline := none, cancelAt := some 4200000 }, .done 300000 .ctx)] := by decide

/-- D8 (the tree before its repair): a lone caller, no other context anywhere, and a service
client whose requests fail after 10 s with an error that wraps a context error (its own
timeout).  The failure is taken for somebody else's cancellation: thirty requests, and the
caller hears of it only when the five-minute limit ends its wait. -/
theorem d8_original_retries :
    (run Mode.beforeD8 60 (init [{ start := 0, deadline := none, cancelAt := none }] (List.replicate 40 (.failCtx 10000)))).callers =
      [({ start := 0, deadline := none, cancelAt := none }, .done 300000 .ctx)] ∧
    (run Mode.beforeD8 60 (init [{ start := 0, deadline := none, cancelAt := none }] (List.replicate 40 (.failCtx 10000)))).requests.length = 30 := by
  decide

/-- the same with the repaired code: one request, the failed lookup reported when it fails -/
example :
    (run Mode.repaired 60 (init [{ start := 0, deadline := none, cancelAt := none }] (List.replicate 40 (.failCtx 10000)))).callers =
      [({ start := 0, deadline := none, cancelAt := none }, .done 10000 .failed)] ∧
    (run Mode.repaired 60 (init [{ start := 0, deadline := none, cancelAt := none }] (List.replicate 40 (.failCtx 10000)))).requests.length = 1 := by
  decide

/-! ### T1: functions the model transcribes, statement by statement (white space collapsed) -/

def expected_Store_lookupSecretInternal : List String := ["if _, ok := ctx.Deadline(); !ok { var cancel context.CancelFunc ctx, cancel = context.WithTimeout(ctx, 5*time.Minute) defer cancel() }", "for { ch := s.single.DoChan(\"lookup:\"+name, func() (any, error) { sv, err := s.client.Get(ctx, name) if err != nil { if ctx.Err() == nil && (errors.Is(err, context.DeadlineExceeded) || errors.Is(err, context.Canceled)) { return nil, fmt.Errorf(\"lookup %q: %v\", name, err) } return nil, fmt.Errorf(\"lookup %q: %w\", name, err) } s.active.Lock() defer s.active.Unlock() s.active.m[name] = &cachedSecret{Secret: sv, LastAccess: s.timeNow().Unix()} if err := s.flushCacheLocked(); err != nil { } return s.secretLocked(name), nil }) var res singleflight.Result select { case <-ctx.Done(): return nil, ctx.Err() case res = <-ch: } if res.Err == nil { return res.Val.(Secret), nil } else if errors.Is(res.Err, context.DeadlineExceeded) || errors.Is(res.Err, context.Canceled) { if ctx.Err() == nil { continue } } return nil, res.Err }"]

/-- lookupSecretInternal: a five-minute limit of the caller's own when it brought none; one flight per name; a failed request is reported (a context-flavoured failure of the request's own is not mistaken for the caller's); install and flush under the lock; a waiter whose own context is alive retries when the flight died of somebody else's -/
theorem fact_Store_lookupSecretInternal_as_transcribed : Facts.body_Store_lookupSecretInternal = expected_Store_lookupSecretInternal := by rfl

end Setec.C16
