import Setec.Proofs.Crypto
import Setec.Proofs.DB
import Setec.Generated.Facts
/-!
# C05 - secrets are confidential and tamper-evident at rest

Composition logic under an *ideal AEAD* (Model/Crypto.lean): what the wrapper reveals, which
files open with which key, what an adversary who can rearrange stored pieces (but cannot
forge a ciphertext under a key it does not have) can achieve.  Cryptographic strength
itself is assumed, not shown.  The real ciphers, raw bytes and mode bits are examined by
the harness (real AES256-GCM key-encryption key, every bit flip and truncation of a saved
file, marker scan of every file under the state directory).
-/
namespace Setec.C05
open Std Setec.KV Setec.Codec Setec.Crypto

/-- The database opens with the key it was created with... -/
theorem right_key_opens (kek dek : Nat) (m : SMap) :
    openFile Layout.v1 kek (fileOf Layout.v1 kek dek m) = some (dek, m) := open_fileOf kek dek m

/-- ...and with no other key. -/
theorem wrong_key_rejected (kek kek' dek : Nat) (m : SMap) (h : kek' ≠ kek) :
    openFile Layout.v1 kek' (fileOf Layout.v1 kek dek m) = none := by
  simp [openFile, fileOf, Layout.v1, aeadDec, aeadEnc, Ne.symm h]

/-- A file whose schema version is not 1 is rejected, whatever else it contains. -/
theorem bad_version_rejected (kek : Nat) (f : File) (h : f.version ≠ 1) : openFile Layout.v1 kek f = none := by
  simp [openFile, h]

/-- Splicing: combining the wrapped data key of one database with the encrypted contents of
another (created independently, hence a different data key) never opens. -/
theorem splice_rejected (kek dek dek' : Nat) (m m' : SMap) (h : dek ≠ dek') :
    openFile Layout.v1 kek { version := 1, dek := (fileOf Layout.v1 kek dek m).dek, db := (fileOf Layout.v1 kek dek' m').db } = none := by
  simp [openFile, fileOf, Layout.v1, aeadDec, aeadEnc, Ne.symm h]

/-- Swapping the roles of the two ciphertext contexts does not help either: the data-key
context and the database context differ, so a database blob is not accepted as a key blob
(associated data binds each blob to its role). -/
theorem contexts_distinct : adDEK Layout.v1.prefixDEK 1 ≠ adDB Layout.v1.prefixDB 1 := by decide

/-- Mixing pieces of two snapshots of the *same* database yields exactly the contents of the
snapshot the `DB` piece came from - the case the property explicitly does not claim to detect. -/
theorem snapshot_replay_is_snapshot (kek dek : Nat) (m m' : SMap) :
    openFile Layout.v1 kek { version := 1, dek := (fileOf Layout.v1 kek dek m).dek, db := (fileOf Layout.v1 kek dek m').db }
      = some (dek, m') := by
  simp [openFile, fileOf, Layout.v1, aeadDec, aeadEnc, decode_encode]

/-- Tamper evidence: take any file whose two ciphertexts are each either an original piece of
the saved file or sealed under a key other than the two secret keys (all an adversary without
those keys can produce).  Opening it reports an error or yields exactly the original contents. -/
theorem tamper_error_or_original (kek dek : Nat) (m : SMap) (f : File)
    (hdek : f.dek = (fileOf Layout.v1 kek dek m).dek ∨ f.dek.key ≠ kek)
    (hdb : f.db = (fileOf Layout.v1 kek dek m).db ∨ (f.db.key ≠ dek ∧ f.db.key ≠ kek)) :
    openFile Layout.v1 kek f = none ∨ openFile Layout.v1 kek f = some (dek, m) := by
  by_cases hv : f.version = 1
  · rcases hdek with hd | hd
    · rcases hdb with hb | hb
      · right
        simp [openFile, hv, hd, hb, fileOf, Layout.v1, aeadDec, aeadEnc, decode_encode]
      · left
        simp [openFile, hv, hd, fileOf, Layout.v1, aeadDec, aeadEnc, hb.1]
    · left
      simp [openFile, hv, aeadDec, hd]
  · left; exact bad_version_rejected kek f hv

/-- What the file shows to someone without keys: the schema version and two ciphertexts.
No secret name and no secret value is among the visible parts. -/
def visible (f : File) : List Nat := [f.version]

theorem no_plaintext_in_wrapper (kek dek : Nat) (m : SMap) :
    visible (fileOf Layout.v1 kek dek m) = [1] := by
  simp [visible, fileOf, Layout.v1]

/-- The key-encryption key is consulted only when the database is opened or created: the
step function of a running database (`DB.step`) has no key argument at all - saves use the
data key held in memory.  T1: in the source only `newKV` and `openOrCreateKV` call the
key-encryption key. -/
theorem kek_only_at_open : Facts.kekUsers = ["newKV", "openOrCreateKV"] := by decide

/-- Secret-bearing files are created readable by their owner only. -/
theorem perms_owner_only :
    Facts.dbPerm = some 0o600 ∧ Facts.auditPerm = some 0o600 ∧ Facts.cachePerm = some 0o600 ∧
    (0o600 &&& 0o077 = 0) := by decide

/-- The audit record has no field that could carry a secret value. -/
theorem audit_entry_has_no_value_field :
    Facts.auditEntryFields =
      ["ID", "Time", "Principal", "Action", "Authorized", "Secret", "SecretVersion"] := by decide

/-- non-vacuity: two distinct data keys exist and a forged blob under a foreign key is rejected -/
example : openFile Layout.v1 7 { version := 1, dek := aeadEnc 99 (adDEK "setec DEK v" 1) 5, db := aeadEnc 5 (adDB "setec database v" 1) [] } = none := by
  simp [openFile, aeadDec, aeadEnc]

/-- T1, `kv.save` in calls: marshal the whole map, encrypt it under the data key, marshal the
wrapper, and hand the bytes to `atomicfile.WriteFile` for the configured path with mode 0600 -
nothing else: no call to the key-encryption key, no file operation of its own (no temporary
file of its own naming, no copy kept beside the database, no rename of the live file), no
per-secret shortcut. -/
theorem fact_save_shape :
    Facts.kvSaveCalls = ["json.Marshal", "kv.dekCipher.Encrypt", "aeadContextDB", "json.Marshal", "atomicfile.WriteFile"] ∧
    Facts.kvSaveFileCalls = ["atomicfile.WriteFile(kv.path, out, 0600)"] := by
  decide

/-! ### T1: functions the model transcribes, statement by statement (white space collapsed) -/

def expected_openOrCreateKV : List String := ["bs, err := os.ReadFile(path)", "if errors.Is(err, fs.ErrNotExist) { return newKV(path, kek) } else if err != nil { return nil, err }", "var wrapped wrapped", "if err := json.Unmarshal(bs, &wrapped); err != nil { return nil, fmt.Errorf(\"loading encrypted database: %w\", err) }", "if wrapped.Version != 1 { return nil, fmt.Errorf(\"unsupported database version %d\", err) }", "reader := keyset.NewBinaryReader(bytes.NewReader(wrapped.DEK))", "dek, err := keyset.ReadWithAssociatedData(reader, kek, aeadContextDEK(wrapped.Version))", "if err != nil { return nil, fmt.Errorf(\"decrypting DEK: %w\", err) }", "dekCipher, err := aead.New(dek)", "if err != nil { return nil, fmt.Errorf(\"constructing cipher from DEK: %w\", err) }", "clear, err := dekCipher.Decrypt(wrapped.DB, aeadContextDB(wrapped.Version))", "if err != nil { return nil, fmt.Errorf(\"decrypting database: %w\", err) }", "var persist persist", "if err := json.Unmarshal(clear, &persist); err != nil { return nil, fmt.Errorf(\"unmarshaling decrypted database: %w\", err) }", "ret := &kv{ path: path, secrets: persist.Secrets, dek: dek, dekCipher: dekCipher, dekRaw: wrapped.DEK, kekCipher: kek, gen: 1, }", "return ret, nil"]

/-- openOrCreateKV: read the file (none: create); the wrapper, its version, the data key unwrapped by the key-encryption key with the versioned associated data, the database decrypted with it, decoded - any failure is an error -/
theorem fact_openOrCreateKV_as_transcribed : Facts.body_openOrCreateKV = expected_openOrCreateKV := by rfl

end Setec.C05
