import Setec.Model.Updater
import Setec.Generated.Facts
import Setec.Proofs.Updater2
/-!
# C15 - updaters and watchers never miss the latest secret value

Invariants over *all* interleavings of installs with the sub-steps of NewUpdater and
Updater.Get (the model's atomic steps are the code's critical sections: an install +
notification is one step under the store lock; drain, read and build-and-swap are
separate steps under the updater's mutex).
-/
namespace Setec.C15
open Setec.Updater

/-- the invariant -/
def Inv (s : State) : Prop :=
  -- no lost update: at rest, a notification is pending or the last (re)build read the newest install
  (s.phase = .idle → s.pending = true ∨ s.lastRead = s.cur) ∧
  -- a rebuild in progress has either read the newest install or a notification is pending again
  (s.phase = .read → s.pending = true ∨ s.input = s.cur) ∧
  -- registration: the watcher is registered before the first read
  (s.phase = .registered → True) ∧
  -- a notification is pending only if an install happened since the last drain (or registration)
  (s.pending = true → s.sinceDrain > 0) ∧
  -- closers: the current value is open, every closed identity is older, none is closed twice
  (s.valueId ∉ s.closed) ∧ s.closed.Nodup ∧ (∀ i ∈ s.closed, i < s.nextId) ∧ s.valueId < s.nextId ∧
  -- the current value was built from an install that existed
  s.valueSrc ≤ s.cur ∧ s.input ≤ s.cur ∧ s.lastRead ≤ s.cur ∧
  -- once NewUpdater has returned there is a value
  (s.phase = .idle ∨ s.phase = .drained → s.valueId ≠ 0)

theorem inv_init : Inv init := by
  simp [Inv, init]

theorem inv_step (s s' : State) (e : Ev) (h : Inv s) (hs : step s e = some s') : Inv s' := by
  obtain ⟨h1, h2, _, h4, h5, h6, h7, h8, h9, h10, h11, h12⟩ := h
  cases e with
  | install =>
    simp only [step, Option.some.injEq] at hs; subst hs
    refine ⟨fun _ => Or.inl rfl, fun _ => Or.inl rfl, fun _ => trivial, fun _ => by simp, h5, h6, h7, h8, ?_, ?_, ?_, h12⟩ <;> simp <;> omega
  | initRead =>
    simp only [step] at hs
    split at hs
    · next hp =>
      simp only [Option.some.injEq] at hs; subst hs
      refine ⟨by simp, fun _ => Or.inr rfl, by simp, h4, h5, h6, h7, h8, h9, by simp, h11, by simp⟩
    · cases hs
  | initBuild =>
    simp only [step] at hs
    split at hs
    · next hp =>
      obtain ⟨hph, hb, hv, hn⟩ := hp
      simp only [Option.some.injEq] at hs; subst hs
      have hcl : ∀ i ∈ s.closed, i < 1 := by intro i hi; have := h7 i hi; omega
      refine ⟨fun _ => ?_, by simp, by simp, h4, ?_, h6, ?_, by simp, h10, h10, h10, by simp⟩
      · exact h2 hph
      · intro hc; have := hcl 1 hc; omega
      · intro i hi; have := hcl i hi; simp; omega
    · cases hs
  | drain =>
    simp only [step] at hs
    split at hs
    · split at hs
      · simp only [Option.some.injEq] at hs; subst hs
        next hidle _ =>
        exact ⟨by simp, by simp, by simp, by simp, h5, h6, h7, h8, h9, h10, h11, fun _ => h12 (Or.inl hidle)⟩
      · simp only [Option.some.injEq] at hs; subst hs
        exact ⟨h1, h2, fun _ => trivial, h4, h5, h6, h7, h8, h9, h10, h11, h12⟩
    · cases hs
  | readCur =>
    simp only [step] at hs
    split at hs
    · simp only [Option.some.injEq] at hs; subst hs
      exact ⟨by simp, fun _ => Or.inr rfl, by simp, h4, h5, h6, h7, h8, h9, by simp, h11, by simp⟩
    · cases hs
  | build ok =>
    simp only [step] at hs
    split at hs
    · next hp =>
      obtain ⟨hph, hv⟩ := hp
      cases ok with
      | true =>
        simp only [if_true, Option.some.injEq] at hs; subst hs
        refine ⟨fun _ => h2 hph, by simp, by simp, h4, ?_, ?_, ?_, by simp, h10, h10, h10, ?_⟩
        · simp only [List.mem_cons, not_or]
          exact ⟨by omega, fun hc => by have := h7 _ hc; omega⟩
        · exact List.nodup_cons.mpr ⟨h5, h6⟩
        · intro i hi
          simp only [List.mem_cons] at hi
          show i < s.nextId + 1
          rcases hi with rfl | hi
          · omega
          · have := h7 i hi; omega
        · intro _; show s.nextId ≠ 0; omega
      | false =>
        simp only [Bool.false_eq_true, if_false, Option.some.injEq] at hs; subst hs
        exact ⟨fun _ => h2 hph, by simp, by simp, h4, h5, h6, h7, h8, h9, h10, h10, fun _ => hv⟩
    · cases hs

/-- the invariant holds after every finite sequence of enabled events -/
theorem inv_run (es : List Ev) (s s' : State) (h : Inv s) (hr : run s es = some s') : Inv s' := by
  induction es generalizing s with
  | nil => simp [run] at hr; subst hr; exact h
  | cons e es ih =>
    simp only [run] at hr
    split at hr
    · next s1 hs1 => exact ih s1 (inv_step s s1 e h hs1) hr
    · cases hr

/-- No lost update: in every reachable state in which no Get is in progress, either a
notification is pending - so the next Get rebuilds - or the last rebuild attempt already
read the newest installed bytes; however many installs arrived, in any interleaving. -/
theorem no_lost_update (es : List Ev) (s : State) (hr : run init es = some s) (hidle : s.phase = .idle) :
    s.pending = true ∨ s.lastRead = s.cur :=
  (inv_run es init s inv_init hr).1 hidle

/-- ...hence a Get that runs to completion after the last install (drain, read, successful
build with no install in between) returns a value built from the newest bytes, clears the
error, closes exactly the replaced value and leaves the new one open. -/
theorem get_after_last_install_is_fresh (es : List Ev) (s : State) (hr : run init es = some s)
    (hidle : s.phase = .idle) (hp : s.pending = true) :
    ∃ s3, run s [.drain, .readCur, .build true] = some s3 ∧
      s3.valueSrc = s.cur ∧ s3.err = false ∧ s3.phase = .idle ∧ s3.pending = false ∧
      s3.closed = s.valueId :: s.closed ∧ s3.valueId ∉ s3.closed := by
  have hinv := inv_run es init s inv_init hr
  have hv : s.valueId ≠ 0 := hinv.2.2.2.2.2.2.2.2.2.2.2 (Or.inl hidle)
  have hlt : s.valueId < s.nextId := hinv.2.2.2.2.2.2.2.1
  have hcl := hinv.2.2.2.2.2.2.1
  refine ⟨{ s with pending := false, phase := .idle, input := s.cur, lastRead := s.cur, valueSrc := s.cur,
                   valueId := s.nextId, nextId := s.nextId + 1, err := false, closed := s.valueId :: s.closed,
                   builds := s.builds + 1, sinceDrain := 0 },
          by simp [run, step, hidle, hp, hv], rfl, rfl, rfl, rfl, rfl, ?_⟩
  simp only [List.mem_cons, not_or]
  exact ⟨by omega, fun hc => by have := hcl _ hc; omega⟩

/-- The value is rebuilt only if an install happened since the previous drain (or since the
updater was created): without a pending notification Get changes nothing, and a
notification is pending only after an install. -/
theorem rebuild_only_after_install (es : List Ev) (s : State) (hr : run init es = some s) (hidle : s.phase = .idle) :
    (s.pending = false → step s .drain = some s) ∧ (s.pending = true → s.sinceDrain > 0) := by
  have hinv := inv_run es init s inv_init hr
  exact ⟨fun hp => by simp [step, hidle, hp], hinv.2.2.2.1⟩

/-- If building the new value fails the previous value keeps being returned (same identity,
not closed) and Err reports the failure; the next successful rebuild clears it. -/
theorem build_failure_keeps_old (s s' : State) (h : step s (.build false) = some s') :
    s'.valueId = s.valueId ∧ s'.valueSrc = s.valueSrc ∧ s'.closed = s.closed ∧ s'.err = true := by
  simp only [step] at h
  split at h
  · simp at h; subst h; exact ⟨rfl, rfl, rfl, rfl⟩
  · cases h

/-- A replaced value is closed exactly once and the current value is never closed, in every
reachable state. -/
theorem closed_exactly_once (es : List Ev) (s : State) (hr : run init es = some s) :
    s.closed.Nodup ∧ s.valueId ∉ s.closed := by
  have hinv := inv_run es init s inv_init hr
  exact ⟨hinv.2.2.2.2.2.1, hinv.2.2.2.2.1⟩

/-- non-vacuity: three installs between two Gets; the second Get sees install 3 -/
example : ∃ s, run init [.initRead, .initBuild, .install, .install, .install, .drain, .readCur, .build true] = some s ∧
    s.valueSrc = 3 ∧ s.pending = false ∧ s.closed = [1] ∧ s.builds = 2 := by
  refine ⟨_, rfl, ?_⟩; decide

/-- T1: `Updater.Get` is one critical section - lock, deferred unlock, and the builder runs
inside it with no unlock in between - so the model's drain / read / build sub-steps of one Get
cannot interleave with another Get's (the `Ev` sequences above are per-Get atomic). -/
theorem fact_get_atomic :
    Facts.storeLockTokens.lookup "Updater.Get" = some ["lock:mu", "defer-unlock:mu", "build"] ∧
    Facts.storeLockTokens.lookup "Updater.Err" = some ["lock:mu", "defer-unlock:mu"] := by
  decide

/-! ### concurrent Get callers -/

/-- Two goroutines calling Get on one updater, installs arriving at any moment: with the
mutex held across a Get's three sub-steps (the code: `fact_get_atomic`), whenever no Get is in
progress a notification is pending or the value is built from the newest install - no update
is lost, for every interleaving. -/
theorem concurrent_gets_no_lost_update (es : List Updater2.Ev) (s : Updater2.State)
    (hr : Updater2.run true Updater2.init es = some s)
    (h1 : s.g1.phase = .idle) (h2 : s.g2.phase = .idle) : s.pending = true ∨ s.valueSrc = s.cur :=
  (Updater2.inv_run es Updater2.init s Updater2.inv_init hr).2.1 h1 h2

/-- ...and the mutex is what makes it so: with the same sub-steps not covered by it (a Get that
releases the lock around the builder) there is an interleaving after which both callers are
done, no notification is pending, and the value is built from an install that is not the
newest - it stays stale until some later install. -/
theorem unlocked_gets_lose_update :
    ∃ es s, Updater2.run false Updater2.init es = some s ∧ s.g1.phase = .idle ∧ s.g2.phase = .idle ∧
      s.pending = false ∧ s.valueSrc ≠ s.cur :=
  ⟨[.install, .drain false, .readCur false, .install, .drain true, .readCur true, .build true, .build false],
   _, rfl, by decide, by decide, by decide, by decide⟩

end Setec.C15
