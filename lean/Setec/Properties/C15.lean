import Setec.Model.Updater
import Setec.Model.Watchers
import Setec.Generated.Facts
import Setec.Proofs.Updater2
/-!
# C15 - updaters and watchers never miss the latest secret value

Invariants over *all* interleavings of installs with the sub-steps of NewUpdater and
Updater.Get (the model's atomic steps are the code's critical sections: an install +
notification is one step under the store lock; drain, read and build-and-swap are
separate steps under the updater's mutex).
-/
namespace Setec.C15
open Setec.Updater

/-- the invariant -/
def Inv (s : State) : Prop :=
  -- no lost update: at rest, a notification is pending or the last (re)build read the newest install
  (s.phase = .idle → s.pending = true ∨ s.lastRead = s.cur) ∧
  -- a rebuild in progress has either read the newest install or a notification is pending again
  (s.phase = .read → s.pending = true ∨ s.input = s.cur) ∧
  -- registration: the watcher is registered before the first read
  (s.phase = .registered → True) ∧
  -- a notification is pending only if an install happened since the last drain (or registration)
  (s.pending = true → s.sinceDrain > 0) ∧
  -- closers: the current value is open, every closed identity is older, none is closed twice
  (s.valueId ∉ s.closed) ∧ s.closed.Nodup ∧ (∀ i ∈ s.closed, i < s.nextId) ∧ s.valueId < s.nextId ∧
  -- the current value was built from an install that existed
  s.valueSrc ≤ s.cur ∧ s.input ≤ s.cur ∧ s.lastRead ≤ s.cur ∧
  -- once NewUpdater has returned there is a value
  (s.phase = .idle ∨ s.phase = .drained → s.valueId ≠ 0)

theorem inv_init : Inv init := by
  simp [Inv, init]

theorem inv_step (s s' : State) (e : Ev) (h : Inv s) (hs : step s e = some s') : Inv s' := by
  obtain ⟨h1, h2, _, h4, h5, h6, h7, h8, h9, h10, h11, h12⟩ := h
  cases e with
  | install =>
    simp only [step, Option.some.injEq] at hs; subst hs
    refine ⟨fun _ => Or.inl rfl, fun _ => Or.inl rfl, fun _ => trivial, fun _ => by simp, h5, h6, h7, h8, ?_, ?_, ?_, h12⟩ <;> simp <;> omega
  | initRead =>
    simp only [step] at hs
    split at hs
    · next hp =>
      simp only [Option.some.injEq] at hs; subst hs
      refine ⟨by simp, fun _ => Or.inr rfl, by simp, h4, h5, h6, h7, h8, h9, by simp, h11, by simp⟩
    · cases hs
  | initBuild =>
    simp only [step] at hs
    split at hs
    · next hp =>
      obtain ⟨hph, hb, hv, hn⟩ := hp
      simp only [Option.some.injEq] at hs; subst hs
      have hcl : ∀ i ∈ s.closed, i < 1 := by intro i hi; have := h7 i hi; omega
      refine ⟨fun _ => ?_, by simp, by simp, h4, ?_, h6, ?_, by simp, h10, h10, h10, by simp⟩
      · exact h2 hph
      · intro hc; have := hcl 1 hc; omega
      · intro i hi; have := hcl i hi; simp; omega
    · cases hs
  | drain =>
    simp only [step] at hs
    split at hs
    · split at hs
      · simp only [Option.some.injEq] at hs; subst hs
        next hidle _ =>
        exact ⟨by simp, by simp, by simp, by simp, h5, h6, h7, h8, h9, h10, h11, fun _ => h12 (Or.inl hidle)⟩
      · simp only [Option.some.injEq] at hs; subst hs
        exact ⟨h1, h2, fun _ => trivial, h4, h5, h6, h7, h8, h9, h10, h11, h12⟩
    · cases hs
  | readCur =>
    simp only [step] at hs
    split at hs
    · simp only [Option.some.injEq] at hs; subst hs
      exact ⟨by simp, fun _ => Or.inr rfl, by simp, h4, h5, h6, h7, h8, h9, by simp, h11, by simp⟩
    · cases hs
  | build ok =>
    simp only [step] at hs
    split at hs
    · next hp =>
      obtain ⟨hph, hv⟩ := hp
      cases ok with
      | true =>
        simp only [if_true, Option.some.injEq] at hs; subst hs
        refine ⟨fun _ => h2 hph, by simp, by simp, h4, ?_, ?_, ?_, by simp, h10, h10, h10, ?_⟩
        · simp only [List.mem_cons, not_or]
          exact ⟨by omega, fun hc => by have := h7 _ hc; omega⟩
        · exact List.nodup_cons.mpr ⟨h5, h6⟩
        · intro i hi
          simp only [List.mem_cons] at hi
          show i < s.nextId + 1
          rcases hi with rfl | hi
          · omega
          · have := h7 i hi; omega
        · intro _; show s.nextId ≠ 0; omega
      | false =>
        simp only [Bool.false_eq_true, if_false, Option.some.injEq] at hs; subst hs
        exact ⟨fun _ => h2 hph, by simp, by simp, h4, h5, h6, h7, h8, h9, h10, h10, fun _ => hv⟩
    · cases hs

/-- the invariant holds after every finite sequence of enabled events -/
theorem inv_run (es : List Ev) (s s' : State) (h : Inv s) (hr : run s es = some s') : Inv s' := by
  induction es generalizing s with
  | nil => simp [run] at hr; subst hr; exact h
  | cons e es ih =>
    simp only [run] at hr
    split at hr
    · next s1 hs1 => exact ih s1 (inv_step s s1 e h hs1) hr
    · cases hr

/-- No lost update: in every reachable state in which no Get is in progress, either a
notification is pending - so the next Get rebuilds - or the last rebuild attempt already
read the newest installed bytes; however many installs arrived, in any interleaving. -/
theorem no_lost_update (es : List Ev) (s : State) (hr : run init es = some s) (hidle : s.phase = .idle) :
    s.pending = true ∨ s.lastRead = s.cur :=
  (inv_run es init s inv_init hr).1 hidle

/-- ...hence a Get that runs to completion after the last install (drain, read, successful
build with no install in between) returns a value built from the newest bytes, clears the
error, closes exactly the replaced value and leaves the new one open. -/
theorem get_after_last_install_is_fresh (es : List Ev) (s : State) (hr : run init es = some s)
    (hidle : s.phase = .idle) (hp : s.pending = true) :
    ∃ s3, run s [.drain, .readCur, .build true] = some s3 ∧
      s3.valueSrc = s.cur ∧ s3.err = false ∧ s3.phase = .idle ∧ s3.pending = false ∧
      s3.closed = s.valueId :: s.closed ∧ s3.valueId ∉ s3.closed := by
  have hinv := inv_run es init s inv_init hr
  have hv : s.valueId ≠ 0 := hinv.2.2.2.2.2.2.2.2.2.2.2 (Or.inl hidle)
  have hlt : s.valueId < s.nextId := hinv.2.2.2.2.2.2.2.1
  have hcl := hinv.2.2.2.2.2.2.1
  refine ⟨{ s with pending := false, phase := .idle, input := s.cur, lastRead := s.cur, valueSrc := s.cur,
                   valueId := s.nextId, nextId := s.nextId + 1, err := false, closed := s.valueId :: s.closed,
                   builds := s.builds + 1, sinceDrain := 0 },
          by simp [run, step, hidle, hp, hv], rfl, rfl, rfl, rfl, rfl, ?_⟩
  simp only [List.mem_cons, not_or]
  exact ⟨by omega, fun hc => by have := hcl _ hc; omega⟩

/-- The value is rebuilt only if an install happened since the previous drain (or since the
updater was created): without a pending notification Get changes nothing, and a
notification is pending only after an install. -/
theorem rebuild_only_after_install (es : List Ev) (s : State) (hr : run init es = some s) (hidle : s.phase = .idle) :
    (s.pending = false → step s .drain = some s) ∧ (s.pending = true → s.sinceDrain > 0) := by
  have hinv := inv_run es init s inv_init hr
  exact ⟨fun hp => by simp [step, hidle, hp], hinv.2.2.2.1⟩

/-- If building the new value fails the previous value keeps being returned (same identity,
not closed) and Err reports the failure; the next successful rebuild clears it. -/
theorem build_failure_keeps_old (s s' : State) (h : step s (.build false) = some s') :
    s'.valueId = s.valueId ∧ s'.valueSrc = s.valueSrc ∧ s'.closed = s.closed ∧ s'.err = true := by
  simp only [step] at h
  split at h
  · simp at h; subst h; exact ⟨rfl, rfl, rfl, rfl⟩
  · cases h

/-- A replaced value is closed exactly once and the current value is never closed, in every
reachable state. -/
theorem closed_exactly_once (es : List Ev) (s : State) (hr : run init es = some s) :
    s.closed.Nodup ∧ s.valueId ∉ s.closed := by
  have hinv := inv_run es init s inv_init hr
  exact ⟨hinv.2.2.2.2.2.1, hinv.2.2.2.2.1⟩

/-- non-vacuity: three installs between two Gets; the second Get sees install 3 -/
example : ∃ s, run init [.initRead, .initBuild, .install, .install, .install, .drain, .readCur, .build true] = some s ∧
    s.valueSrc = 3 ∧ s.pending = false ∧ s.closed = [1] ∧ s.builds = 2 := by
  refine ⟨_, rfl, ?_⟩; decide

/-! ### several updaters on one secret, created while updates are in flight -/

/-- a sub-step of NewUpdater / Get does not touch the store's install counter -/
theorem step_cur (w w' : State) (e : Ev) (he : e ≠ .install) (h : step w e = some w') : w'.cur = w.cur := by
  cases e with
  | install => exact absurd rfl he
  | initRead => simp only [step] at h; split at h <;> simp at h; subst h; rfl
  | initBuild => simp only [step] at h; split at h <;> simp at h; subst h; rfl
  | drain =>
    simp only [step] at h
    split at h
    · split at h <;> (simp at h; subst h; rfl)
    · cases h
  | readCur => simp only [step] at h; split at h <;> simp at h; subst h; rfl
  | build ok =>
    simp only [step] at h
    split at h
    · cases ok <;> (simp at h; subst h; rfl)
    · cases h

/-- the system invariant: every updater ever created is on the store's notification list,
satisfies `Inv`, and the installs it has seen are exactly those since its registration -/
def SysInv (s : Watchers.Sys) : Prop :=
  ∀ w ∈ s.ws, w.listed = true ∧ Inv w.st ∧ w.base + w.st.cur = s.installs

theorem sys_inv_init : SysInv Watchers.init := by
  intro p hp; simp [Watchers.init] at hp

theorem sys_inv_step (s s' : Watchers.Sys) (e : Watchers.Ev) (h : SysInv s)
    (hs : Watchers.step false s e = some s') : SysInv s' := by
  cases e with
  | install =>
    simp only [Watchers.step, Option.some.injEq] at hs; subst hs
    intro p hp
    simp only [List.mem_map] at hp
    obtain ⟨q, hq, rfl⟩ := hp
    obtain ⟨hl, hi, hb⟩ := h q hq
    have hst : (if q.listed = true then Watchers.installed q.st else Watchers.missed q.st) = Watchers.installed q.st := by
      simp [hl]
    refine ⟨hl, ?_, ?_⟩
    · show Inv (if q.listed = true then Watchers.installed q.st else Watchers.missed q.st)
      rw [hst]; exact inv_step q.st _ .install hi rfl
    · show q.base + (if q.listed = true then Watchers.installed q.st else Watchers.missed q.st).cur = s.installs + 1
      rw [hst]
      show q.base + (q.st.cur + 1) = s.installs + 1
      omega
  | register =>
    simp only [Watchers.step, Option.some.injEq] at hs; subst hs
    intro p hp
    simp only [List.mem_append, List.mem_singleton] at hp
    rcases hp with hp | rfl
    · exact h p hp
    · exact ⟨rfl, inv_init, by simp [Updater.init]⟩
  | upd i e =>
    simp only [Watchers.step] at hs
    split at hs
    · cases hs
    · next hne =>
      split at hs
      · cases hs
      · next p hp =>
        split at hs
        · cases hs
        · next w' hw =>
          simp only [Option.some.injEq] at hs; subst hs
          intro q hq
          rcases List.mem_or_eq_of_mem_set hq with hq | rfl
          · exact h q hq
          · obtain ⟨hl, hi, hb⟩ := h p (List.mem_of_getElem? hp)
            exact ⟨hl, inv_step p.st w' e hi hw, by show p.base + w'.cur = s.installs; rw [step_cur p.st w' e hne hw]; exact hb⟩
  | registerLate r => simp [Watchers.step] at hs
  | registerStale k => simp [Watchers.step] at hs

theorem sys_inv_run (es : List Watchers.Ev) (s s' : Watchers.Sys) (h : SysInv s)
    (hr : Watchers.run false s es = some s') : SysInv s' := by
  induction es generalizing s with
  | nil => simp [Watchers.run] at hr; subst hr; exact h
  | cons e es ih =>
    simp only [Watchers.run] at hr
    split at hr
    · next s1 hs1 => exact ih s1 (sys_inv_step s s1 e h hs1) hr
    · cases hr

/-- Any number of updaters on one secret, each created at any moment - before, between or
during installs - and each one's NewUpdater and Gets cut into sub-steps that interleave freely
with installs and with the other updaters' sub-steps: in every reachable state, every updater
*ever created* is still on the store's notification list; if it is at rest, either a
notification is pending for it or its last (re)build read the newest install *of the store*
(`base + lastRead = installs`); and none has closed its current value or closed a value
twice. -/
theorem every_updater_no_lost_update (es : List Watchers.Ev) (s : Watchers.Sys)
    (hr : Watchers.run false Watchers.init es = some s) (w : Watchers.W) (hw : w ∈ s.ws) :
    w.listed = true ∧
    (w.st.phase = .idle → w.st.pending = true ∨ w.base + w.st.lastRead = s.installs) ∧
    w.st.closed.Nodup ∧ w.st.valueId ∉ w.st.closed := by
  obtain ⟨hl, hi, hb⟩ := sys_inv_run es Watchers.init s sys_inv_init hr w hw
  refine ⟨hl, fun hidle => ?_, hi.2.2.2.2.2.1, hi.2.2.2.2.1⟩
  rcases hi.1 hidle with h | h
  · exact Or.inl h
  · exact Or.inr (by rw [h]; exact hb)

/-- non-vacuity: two updaters, the second created between two installs while the first is in
the middle of a Get; both end up on the store's install 2 (base + valueSrc = 2), the first
with a notification still pending from the install that overtook its Get -/
example : ∃ s, Watchers.run false Watchers.init
    [.register, .upd 0 .initRead, .upd 0 .initBuild, .install, .upd 0 .drain, .register, .install,
     .upd 1 .initRead, .upd 0 .readCur, .upd 1 .initBuild, .upd 0 (.build true),
     .upd 1 .drain, .upd 1 .readCur, .upd 1 (.build true)] = some s ∧
    s.installs = 2 ∧ s.ws.map (fun w => (w.base, w.st.valueSrc, w.st.pending, w.st.phase)) =
      [(0, 2, true, .idle), (1, 1, false, .idle)] := by
  refine ⟨_, rfl, ?_⟩; decide

/-- ...and registering before the first read is what makes it so: a watcher that is added to
the store's list only after its initial bytes were read (`registerLate`) misses an install that
falls in between - it is at rest with nothing pending and a value built from old bytes. -/
theorem late_registration_loses_update :
    ∃ es s w, Watchers.run true Watchers.init es = some s ∧ w ∈ s.ws ∧ w.st.phase = .idle ∧
      w.st.pending = false ∧ w.base + w.st.lastRead ≠ s.installs :=
  ⟨[.install, .registerLate 0, .upd 0 .initBuild], _, _, rfl, List.mem_singleton.mpr rfl, by decide, by decide, by decide⟩

/-- ...and so is appending to the list *as it is at that moment*: if the new list is computed
from a copy taken earlier (two NewUpdater calls on a name that has to be looked up, each
giving up the lock for the lookup), the updater registered in between drops off the list; an
install later it is at rest, nothing is pending, and its value is built from old bytes - for
good. -/
theorem stale_list_loses_updater :
    ∃ es s w, Watchers.run true Watchers.init es = some s ∧ w ∈ s.ws ∧ w.listed = false ∧
      w.st.phase = .idle ∧ w.st.pending = false ∧ w.base + w.st.lastRead ≠ s.installs :=
  ⟨[.register, .registerStale 0, .upd 0 .initRead, .upd 0 .initBuild, .upd 1 .initRead, .upd 1 .initBuild, .install],
   _, _, rfl, List.mem_cons_self, by decide, by decide, by decide, by decide⟩

/-- T1: `Updater.Get` is one critical section - lock, deferred unlock, and the channel check,
the read of the secret and the builder all run inside it, in that order, with no unlock in
between - so the model's drain / read / build sub-steps of one Get cannot interleave with
another Get's (the `Ev` sequences above are per-Get atomic). -/
theorem fact_get_atomic :
    Facts.storeLockTokens.lookup "Updater.Get" = some ["lock:mu", "defer-unlock:mu", "drain", "read", "build"] ∧
    Facts.storeLockTokens.lookup "Updater.Err" = some ["lock:mu", "defer-unlock:mu"] := by
  decide

/-- scan a function's tokens: every occurrence of `tok` happens while `active` is held
(function literals are scopes of their own, as in C12's scan) -/
def onlyUnderLock (tok : String) : List String → List Bool → Bool
  | [], _ => true
  | t :: ts, st =>
    if t == "func{" then onlyUnderLock tok ts (false :: st)
    else if t == "}" then onlyUnderLock tok ts st.tail
    else if t == "lock:active" then onlyUnderLock tok ts (true :: st.tail)
    else if t == "unlock:active" then onlyUnderLock tok ts (false :: st.tail)
    else if t == tok then st.head? == some true && onlyUnderLock tok ts st
    else onlyUnderLock tok ts st

/-- T1, the atomic steps of `Watchers.step` are the code's critical sections and orders:
* NewUpdater obtains its watcher (registration) before it reads the initial bytes, and builds
  last - the model's `register`, `initRead`, `initBuild`, never `registerLate`;
* the one place that registers appends to the list as it is in that very statement
  (`register`; the extractor writes `register-stale` for anything else) - never `registerStale`;
* the watcher is appended to the store's list, a new value is installed, and watchers are
  notified only while the store's lock is held - nowhere else in the client - and
  applyUpdates installs then notifies inside one critical section (`install` is one step). -/
theorem fact_watch_order :
    Facts.storeLockTokens.lookup "NewUpdater" = some ["watch", "read", "build"] ∧
    Facts.storeLockTokens.all (fun f => onlyUnderLock "register" f.2 [false] &&
      onlyUnderLock "install" f.2 [false] && onlyUnderLock "notify" f.2 [false]) = true ∧
    (Facts.storeLockTokens.filter fun f => f.2.contains "register").map (·.1) = ["Store.lookupWatcher"] ∧
    Facts.storeLockTokens.all (fun f => !f.2.contains "register-stale") = true ∧
    Facts.storeLockTokens.lookup "Store.applyUpdates" =
      some ["lock:active", "defer-unlock:active", "install", "notify", "flush"] := by
  decide

/-- the scan is not vacuous: a registration after the lock was given up is rejected -/
example : onlyUnderLock "register" ["lock:active", "unlock:active", "register"] [false] = false := by decide

/-! ### concurrent Get callers -/

/-- Two goroutines calling Get on one updater, installs arriving at any moment: with the
mutex held across a Get's three sub-steps (the code: `fact_get_atomic`), whenever no Get is in
progress a notification is pending or the value is built from the newest install - no update
is lost, for every interleaving. -/
theorem concurrent_gets_no_lost_update (es : List Updater2.Ev) (s : Updater2.State)
    (hr : Updater2.run true Updater2.init es = some s)
    (h1 : s.g1.phase = .idle) (h2 : s.g2.phase = .idle) : s.pending = true ∨ s.valueSrc = s.cur :=
  (Updater2.inv_run es Updater2.init s Updater2.inv_init hr).2.1 h1 h2

/-- ...and the mutex is what makes it so: with the same sub-steps not covered by it (a Get that
releases the lock around the builder) there is an interleaving after which both callers are
done, no notification is pending, and the value is built from an install that is not the
newest - it stays stale until some later install. -/
theorem unlocked_gets_lose_update :
    ∃ es s, Updater2.run false Updater2.init es = some s ∧ s.g1.phase = .idle ∧ s.g2.phase = .idle ∧
      s.pending = false ∧ s.valueSrc ≠ s.cur :=
  ⟨[.install, .drain false, .readCur false, .install, .drain true, .readCur true, .build true, .build false],
   _, rfl, by decide, by decide, by decide, by decide⟩

/-! ### T1: the functions the model transcribes, statement by statement (white space collapsed) -/

def expected_Updater_Get : List String := ["u.mu.Lock()", "defer u.mu.Unlock()", "select { case <-u.w.Ready(): nv, err := u.newValue(u.w.Get()) if err != nil { } else { if c, ok := any(u.value).(io.Closer); ok { c.Close() } u.value = nv } u.err = err return u.value default: }", "return u.value"]

/-- Updater.Get: under the updater's mutex - take a pending notification if there is one, read the secret, build; on success close the old value if it is a Closer and swap, record the error either way -/
theorem fact_Updater_Get_as_transcribed : Facts.body_Updater_Get = expected_Updater_Get := by rfl

def expected_Store_lookupWatcher : List String := ["s.active.Lock()", "defer s.active.Unlock()", "var secret Secret", "if _, ok := s.active.m[name]; ok { secret = s.secretLocked(name) } else if !s.allowLookup { return watcher{}, errors.New(\"lookup is not enabled\") } else { got, err := func() (Secret, error) { s.active.Unlock() defer s.active.Lock() return s.lookupSecretInternal(ctx, name) }() if err != nil { return watcher{}, err } secret = got }", "w := watcher{ready: make(chan struct{}, 1), Secret: secret}", "s.active.w[name] = append(s.active.w[name], w)", "return w, nil"]

/-- lookupWatcher: under the store's lock (given up only around the lookup of an unknown name) - a one-slot channel, appended to the name's list as it is at that moment -/
theorem fact_Store_lookupWatcher_as_transcribed : Facts.body_Store_lookupWatcher = expected_Store_lookupWatcher := by rfl

def expected_watcher_notify : List String := ["select { case w.ready <- struct{}{}: default: }"]

/-- notify: a non-blocking send into the one-slot channel -/
theorem fact_watcher_notify_as_transcribed : Facts.body_watcher_notify = expected_watcher_notify := by rfl

end Setec.C15
