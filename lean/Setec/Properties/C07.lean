import Setec.Proofs.Glob
import Setec.Model.Acl
import Setec.Generated.Facts
/-!
# C07 - ACL patterns are whole-name globs; '*' matches any run of characters

Property theorems only.  `Glob` (Proofs/Glob.lean) is the independent
character-level specification.  `Facts.dotNL` is extracted from acl/acl.go on
every run: `some true` iff the compiled expression carries flag `s`.
-/
namespace Setec.C07
open Setec.Glob Setec.Acl

/-- T1 side-condition: the source compiles the pattern with `(?s)`. -/
theorem fact_dotNL : Facts.dotNL = some true := by decide

/-- The matcher the code runs (with the extracted flag) accepts exactly the glob language. -/
theorem match_iff_glob (pat name : List Char) :
    implMatch (Facts.dotNL.getD false) pat name = true ↔ Glob pat name := by
  rw [fact_dotNL]; exact implMatch_iff_glob pat name

/-- The statement's own wording: the pattern matches exactly when its literal pieces (the
pattern split at '*') occur in the name in order, anchored at both ends, with each '*'
standing for an arbitrary (possibly empty) run of characters. -/
theorem match_iff_pieces (pat name : List Char) :
    implMatch true pat name = true ↔ ∃ gaps, assemble (splitStar pat) gaps = some name := by
  rw [implMatch_iff_glob]; exact glob_iff_pieces pat name

/-- A pattern without '*' matches only the identical name. -/
theorem nostar_exact (pat name : List Char) (h : pat.contains '*' = false) :
    implMatch true pat name = true ↔ pat = name := by
  rw [implMatch_iff_glob]
  exact ⟨glob_nostar_eq pat name h, fun e => e ▸ glob_self_of_nostar pat h⟩

/-- '*' alone matches every name, whatever characters it contains
    ('/', newline, regexp metacharacters included). -/
theorem star_matches_all (name : List Char) : implMatch true ['*'] name = true := by
  rw [implMatch_iff_glob]
  induction name with
  | nil => exact Glob.starZero Glob.nil
  | cons c s ih => exact Glob.starMore ih

/-- No character other than '*' is special: a literal character in the pattern
    must be matched by itself. -/
theorem metachars_inert (c : Char) (hc : c ≠ '*') (p s : List Char) (c' : Char) :
    implMatch true (c :: p) (c' :: s) = true ↔ (c' = c ∧ implMatch true p s = true) := by
  rw [implMatch_iff_glob, implMatch_iff_glob]
  constructor
  · intro h; cases h with
    | lit _ h' => exact ⟨rfl, h'⟩
    | starZero _ => exact absurd rfl hc
    | starMore _ => exact absurd rfl hc
  · rintro ⟨rfl, h⟩; exact Glob.lit hc h

/-- A rule set allows iff one single rule lists the action and has a matching pattern. -/
theorem allow_iff (d : Bool) (rs : Rules) (a : String) (n : List Char) :
    allow d rs a n = true ↔
      ∃ r ∈ rs, (∃ x ∈ r.actions, x = a) ∧ (∃ p ∈ r.secrets, implMatch d p n = true) := by
  simp [allow, Rule.allow, List.any_eq_true]

/-- the empty rule set allows nothing -/
theorem allow_empty (d : Bool) (a : String) (n : List Char) : allow d [] a n = false := rfl

/-- adding rules never revokes access -/
theorem allow_mono (d : Bool) (rs rs' : Rules) (a : String) (n : List Char)
    (hsub : ∀ r ∈ rs, r ∈ rs') (h : allow d rs a n = true) : allow d rs' a n = true := by
  rw [allow_iff] at *
  obtain ⟨r, hr, h1, h2⟩ := h
  exact ⟨r, hsub r hr, h1, h2⟩

/-- D1 witness: without flag `s`, '*' does not match across a newline; with it, it does. -/
example : implMatch false ['*'] ['a', '\n', 'b'] = false := by decide
example : implMatch true ['*'] ['a', '\n', 'b'] = true := by decide
example : assemble (splitStar "dev/*/db".toList) ["prod".toList] = some "dev/prod/db".toList := by decide
/-- non-vacuity of `allow_iff` -/
example : allow true [{ actions := ["get"], secrets := ["dev/*".toList] }] "get" "dev/x".toList = true := by decide

/-! ### T1: functions the model transcribes, statement by statement (white space collapsed) -/

def expected_Secret_Match : List String := ["s := string(pat)", "if !strings.Contains(s, \"*\") && s == val { return true }", "parts := strings.Split(s, \"*\")", "for i := range parts { parts[i] = regexp.QuoteMeta(parts[i]) }", "re := regexp.MustCompile(fmt.Sprintf(\"(?s)^%s$\", strings.Join(parts, \".*\")))", "return re.MatchString(val)"]

/-- Match: the pattern split at `*`, every piece quoted, joined by `.*`, anchored at both ends with the dot matching newlines (the literal fast path for a pattern without `*`) -/
theorem fact_Secret_Match_as_transcribed : Facts.body_Secret_Match = expected_Secret_Match := by rfl

def expected_Rules_Allow : List String := ["for _, r := range rr { if r.Allow(action, secret) { return true } }", "return false"]

/-- Rules.Allow: some rule allows -/
theorem fact_Rules_Allow_as_transcribed : Facts.body_Rules_Allow = expected_Rules_Allow := by rfl

def expected_Rule_Allow : List String := ["actionMatches := func(acts []Action) bool { for _, a := range acts { if a == action { return true } } return false }", "secretMatches := func(secs []Secret) bool { for _, s := range secs { if s.Match(secret) { return true } } return false }", "return actionMatches(r.Action) && secretMatches(r.Secret)"]

/-- Rule.Allow: one of the rule's actions is the action and one of its patterns matches the name - each pattern on its own -/
theorem fact_Rule_Allow_as_transcribed : Facts.body_Rule_Allow = expected_Rule_Allow := by rfl

end Setec.C07
