import Setec.Proofs.Store
import Setec.Generated.Facts
import Setec.Proofs.Cadence
/-!
# C11 - a successful poll brings every known secret to the server's active version

A poll = snapshot of (name, expired?, version), one conditional fetch per unexpired name in
any order (the service may change between requests: each answer is the service's active
value *at that request*), then apply-all-or-nothing.  Freshness is judged by version number,
as the protocol does.  Coalescing of overlapping refreshes relies on
golang.org/x/sync/singleflight (trusted; sampled by the concurrent harness).
-/
namespace Setec.C11
open Std Setec.KV Setec.Store

/-- T1: the repaired snapshot rule is in the source (a pinned name is never reported expired). -/
theorem fact_pinned_polled : Facts.storePinnedPolled = some true := by decide

/-- T1: both jitter terms use interval/10. -/
theorem fact_jitter : Facts.jitterDivisor = some 10 := by decide

/-- When a poll fails (any request fails), no value changes. -/
theorem poll_fail_old (s : St) (items : List (SnapItem × Ans))
    (h : (items.any fun x => (pollItem x.1 x.2).2) = true) : poll s items = (s, false) := by
  rw [poll_eq]; simp [h]

/-- When a poll completes without error: a secret whose request was answered with a value
now has that value's version - and exactly its bytes whenever the version number differs
from the one held; a secret answered "not changed" keeps what it had, which the service
just confirmed to be the active version.  Every unexpired name of the snapshot is covered,
in any request order, with the service free to change between requests. -/
theorem poll_ok_fresh (s : St) (items : List (SnapItem × Ans)) (s' : St)
    (hnd : (items.map (·.1.name)).Nodup) (hok : poll s items = (s', true))
    (it : SnapItem) (a : Ans) (hmem : (it, a) ∈ items) (hne : it.expired = false)
    (c : CEntry) (hm : s.m[it.name]? = some (some c)) (hv : it.version = c.sv.version) :
    (∀ sv, a = .value sv → ∃ c', s'.m[it.name]? = some (some c') ∧ c'.sv.version = sv.version ∧
        (sv.version ≠ it.version → c'.sv = sv)) ∧
    (a = .notChanged → s'.m[it.name]? = some (some c)) := by
  rw [poll_eq] at hok
  split at hok
  · cases hok
  · simp only [Prod.mk.injEq, and_true] at hok
    subst hok
    rw [applyUpdates_m]
    have hnd' := updatesOf_nodup items hnd
    -- no update for this name unless pollItem produced one
    have hnone : (pollItem it a).1 = none → (List.foldl applyOne s (updatesOf items)).m[it.name]? = some (some c) := by
      intro hp
      rw [foldl_applyOne_notin]
      · exact hm
      · intro x hx heq
        have := update_for_item items hnd it a hmem x hx heq
        rw [hp] at this; cases this
    constructor
    · intro sv ha
      subst ha
      by_cases hsame : sv.version = it.version
      · refine ⟨c, hnone (by simp [pollItem, hne, hsame]), by rw [hsame, hv], fun h => absurd hsame h⟩
      · refine ⟨{ c with sv := sv }, ?_, rfl, fun _ => rfl⟩
        apply foldl_applyOne_update _ _ _ _ _ hnd'
        · simp only [updatesOf, List.mem_filterMap]
          exact ⟨(it, .value sv), hmem, by simp [pollItem, hne, hsame]⟩
        · exact hm
    · intro ha
      subst ha
      exact hnone (by simp [pollItem, hne])

/-- With the repaired rule a name that has a handle is never reported expired, so it is
requested in every poll and `poll_ok_fresh` applies to it... -/
theorem pinned_is_polled (s : St) (now : Int) (it : SnapItem) (h : it ∈ snapshot true s now)
    (hh : s.handles.contains it.name = true) : it.expired = false := by
  obtain ⟨c, _, _, he⟩ := mem_snapshot true s now it h
  rw [he, hh]; simp

/-- ...whereas under the original rule (defect D5) a stale pinned undeclared secret is marked
expired: no request is made for it and the apply step skips it, so it keeps its old value
whatever the service's active version is. -/
theorem d5_original_rule_never_refreshes (s : St) (now : Int) (it : SnapItem) (a : Ans) (c : CEntry)
    (h : it ∈ snapshot false s now) (hm : s.m[it.name]? = some (some c))
    (hexp : hasExpired s.expiryAge now c = true) (hh : s.handles.contains it.name = true) :
    it.expired = true ∧ (pollItem it a).1 = some (it.name, none) ∧
    (applyOne s (it.name, none)).m[it.name]? = some (some c) := by
  obtain ⟨c', hc', _, he⟩ := mem_snapshot false s now it h
  rw [hm] at hc'
  simp only [Option.some.injEq] at hc'
  subst hc'
  have hx : it.expired = true := by rw [he, hexp]; simp
  have hmem : it.name ∈ s.handles := by simpa using hh
  exact ⟨hx, by simp [pollItem, hx], by simp [applyOne, hmem, hm]⟩

theorem foldl_applyOne_value (s : St) (u : Updates) (n : String) (c' : CEntry)
    (h : (u.foldl applyOne s).m[n]? = some (some c')) :
    (∃ c, s.m[n]? = some (some c) ∧ c.sv = c'.sv) ∨ (∃ sv, (n, some sv) ∈ u ∧ c'.sv = sv) := by
  induction u generalizing s with
  | nil => exact Or.inl ⟨c', h, rfl⟩
  | cons x u ih =>
    simp only [List.foldl_cons] at h
    rcases ih (applyOne s x) h with ⟨c, hc, hsv⟩ | ⟨sv, hmem, hsv⟩
    · by_cases hx : x.1 = n
      · obtain ⟨k, v⟩ := x
        simp only at hx; subst hx
        cases v with
        | none =>
          simp only [applyOne] at hc
          split at hc
          · exact Or.inl ⟨c, hc, hsv⟩
          · simp at hc
        | some sv =>
          simp only [applyOne] at hc
          split at hc
          · next c0 h0 =>
            simp at hc
            right
            exact ⟨sv, List.mem_cons_self, by rw [← hsv, ← hc]⟩
          · exact Or.inl ⟨c, hc, hsv⟩
      · rw [applyOne_other s x n hx] at hc
        exact Or.inl ⟨c, hc, hsv⟩
    · exact Or.inr ⟨sv, List.mem_cons_of_mem _ hmem, hsv⟩

theorem pollItem_value (it : SnapItem) (a : Ans) (n : String) (sv : SV)
    (h : (pollItem it a).1 = some (n, some sv)) : a = .value sv ∧ it.name = n := by
  simp only [pollItem] at h
  split at h
  · simp at h
  · split at h
    · simp at h
    · split at h
      · simp at h; exact ⟨by rw [h.2], h.1⟩
      · simp at h
    · simp at h

/-- Every value the store holds after a poll - successful or not - was there before or is
the service's answer to a request of this poll for that very name: never a torn value or
another secret's value. -/
theorem served_inv (s : St) (items : List (SnapItem × Ans)) (n : String) (c' : CEntry)
    (h : (poll s items).1.m[n]? = some (some c')) :
    (∃ c, s.m[n]? = some (some c) ∧ c.sv = c'.sv) ∨
    (∃ it sv, (it, Ans.value sv) ∈ items ∧ it.name = n ∧ c'.sv = sv) := by
  rw [poll_eq] at h
  split at h
  · exact Or.inl ⟨c', h, rfl⟩
  · simp only at h
    rw [applyUpdates_m] at h
    rcases foldl_applyOne_value s _ n c' h with hl | ⟨sv, hmem, hsv⟩
    · exact Or.inl hl
    · obtain ⟨it, a, hin, hp, _⟩ := mem_updatesOf_name items _ hmem
      obtain ⟨ha, hn⟩ := pollItem_value it a n sv hp
      subst ha
      exact Or.inr ⟨it, sv, hin, hn, hsv⟩

/-- Background polls happen once per configured interval within plus or minus 10 percent: in Go's
truncating integer arithmetic, for every interval i (ns) with 2*i/10 > 0 - the guard under
which rand.Intn does not panic - and every draw r < 2*i/10, the jitter r - i/10 lies within
i/10 of zero.  The period is chosen once, before the loop. -/
theorem cadence (i r : Nat) (hr : r < 2 * i / 10) :
    (i : Int) - i / 10 ≤ (i : Int) + ((r : Int) - i / 10) ∧ (i : Int) + ((r : Int) - i / 10) ≤ (i : Int) + i / 10 := by
  omega

/-- The same for the expression *as it stands in the source*: `Facts.gen_pollPeriod` is
(*Store).run's ticker period translated by the fact extractor (Go's truncating division,
`intn` standing for rand.Intn).  For every interval for which rand.Intn's argument is positive
and every function that answers within `[0, n)`, the period handed to the ticker lies within
a tenth of the interval on either side; and it is computed once, before the loop
(`gen_pollPeriod_ok`: one `newTicker` call in straight-line code, no `Reset`). -/
theorem cadence_generated (i : Int) (intn : Int → Int) (hi : 0 < 2 * i / 10)
    (hd : ∀ n, 0 < n → 0 ≤ intn n ∧ intn n < n) :
    i - i / 10 ≤ Facts.gen_pollPeriod i intn ∧ Facts.gen_pollPeriod i intn ≤ i + i / 10 ∧
    Facts.gen_pollPeriod_ok = true := by
  have h0 : 0 ≤ i := by omega
  have h2 : (0 : Int) ≤ 2 * i := by omega
  have := hd (2 * i / 10) hi
  simp only [Facts.gen_pollPeriod, Int.tdiv_eq_ediv_of_nonneg h0, Int.tdiv_eq_ediv_of_nonneg h2]
  refine ⟨by omega, by omega, by decide⟩

/-- non-vacuity of `cadence_generated`: a 5 s interval and the largest draw give 5.5 s less one tick -/
example : Facts.gen_pollPeriod 5000000000 (fun n => n - 1) = 5499999999 := by decide

/-- Which interval that is: `Facts.gen_pollInterval` is StoreConfig.pollInterval and
`Facts.gen_startsPoller` the guard of NewStore's one `go s.run(ctx, pi, done)`, both translated
from the source on every run.  For every configured positive `PollInterval` p (ns) and every
rand.Intn: the interval NewStore works with is p itself, the poller is started with it, and
(p of at least 5 ns, below which rand.Intn's argument is zero) the ticker period lies within a
tenth of *the configured* interval on either side.  Nothing is claimed about what an unset or
negative interval means (the default and "polling disabled" are not part of the statement). -/
theorem configured_interval_generated (p : Int) (intn : Int → Int) (hp : 0 < p)
    (hd : ∀ n, 0 < n → 0 ≤ intn n ∧ intn n < n) :
    Facts.gen_pollInterval_ok = true ∧ Facts.gen_startsPoller_ok = true ∧
    Facts.gen_pollInterval p = p ∧
    Facts.gen_startsPoller (Facts.gen_pollInterval p) = true ∧
    (5 ≤ p → p - p / 10 ≤ Facts.gen_pollPeriod (Facts.gen_pollInterval p) intn ∧
      Facts.gen_pollPeriod (Facts.gen_pollInterval p) intn ≤ p + p / 10) := by
  have hne : ¬ p = 0 := by omega
  have hI : Facts.gen_pollInterval p = p := by
    unfold Facts.gen_pollInterval; simp [hne]
  refine ⟨by decide, by decide, hI, ?_, ?_⟩
  · rw [hI]; unfold Facts.gen_startsPoller; simp; omega
  · intro h
    rw [hI]
    have c := cadence_generated p intn (by omega) hd
    exact ⟨c.1, c.2.1⟩

/-- non-vacuity of `configured_interval_generated`: a 5 s interval, the smallest and the largest draw -/
example : Facts.gen_pollPeriod (Facts.gen_pollInterval 5000000000) (fun _ => 0) = 4500000000 ∧
    Facts.gen_pollPeriod (Facts.gen_pollInterval 5000000000) (fun n => n - 1) = 5499999999 ∧
    Facts.gen_startsPoller (Facts.gen_pollInterval 5000000000) = true := by decide

/-- The `cadence` monitor never raises an alarm on what the translated code does with an ideal
ticker: for every interval of at least 5 ns, every rand.Intn, and three or more ticks of the
period the source computes (`gen_pollPeriod`), the clause the driver evaluates on the real
store's poll times (`Cadence.cadenceOK`) holds; and a ticker whose period lies outside a tenth of
the interval is refused from its first tick on. -/
theorem cadence_monitor_sound (i : Int) (intn : Int → Int) (n : Nat) (hi : 5 ≤ i) (hn : 3 ≤ n)
    (hd : ∀ m, 0 < m → 0 ≤ intn m ∧ intn m < m) :
    Cadence.cadenceOK i (Cadence.ticks (Facts.gen_pollPeriod i intn) 0 n) = true ∧
    (∀ p, (p < i - i / 10 ∨ i + i / 10 < p) → Cadence.cadenceOK i (Cadence.ticks p 0 n) = false) := by
  have c := cadence_generated i intn (by omega) hd
  exact ⟨Cadence.cadenceOK_of_period i _ n hn c.1 c.2.1,
         fun p hp => Cadence.cadenceOK_refuses i p n (by omega) hp⟩

/-- The clause is the statement's own words, for any arrival times whatever (no ticker assumed). -/
theorem cadence_clause_is_the_statement (i : Int) (polls : List Int) :
    Cadence.cadenceOK i polls = true ↔
      3 ≤ polls.length ∧ ∀ g ∈ Cadence.gaps 0 polls, i - i / 10 ≤ g ∧ g ≤ i + i / 10 :=
  Cadence.cadenceOK_iff i polls

/-- Nor does the family's correspondence clause (`Cadence.modelOK`, "some draw in range makes the
translated period expression equal to what was observed, and every gap equals the first")
diverge on that behaviour: from the first tick of an ideal ticker the draw is recovered exactly. -/
theorem cadence_model_clause_sound (i : Int) (intn : Int → Int) (n : Nat) (hi : 5 ≤ i)
    (hd : ∀ m, 0 < m → 0 ≤ intn m ∧ intn m < m) :
    Cadence.modelOK Facts.gen_pollPeriod i (Cadence.ticks (Facts.gen_pollPeriod i intn) 0 (n + 1)) = true := by
  have h0 : 0 ≤ i := by omega
  have h2 : (0 : Int) ≤ 2 * i := by omega
  have hr := hd (2 * i / 10) (by omega)
  unfold Cadence.modelOK
  rw [Cadence.gaps_ticks]
  simp only [Cadence.ticks, List.headD_cons, Facts.gen_pollPeriod, Int.tdiv_eq_ediv_of_nonneg h0,
    Int.tdiv_eq_ediv_of_nonneg h2, List.all_replicate]
  have e : 0 + (i + (intn (2 * i / 10) - i / 10)) - i + i / 10 = intn (2 * i / 10) := by omega
  simp only [e]
  simp [hr.1, hr.2]

/-- non-vacuity of `cadence_monitor_sound`: a 50 ms store, three ticks at the smallest draw; a minute's period refused -/
example : Cadence.cadenceOK 50000000 (Cadence.ticks (Facts.gen_pollPeriod 50000000 (fun _ => 0)) 0 3) = true ∧
    Cadence.cadenceOK 50000000 (Cadence.ticks 60000000000 0 3) = false := by decide

/-- non-vacuity of `cadence` and `poll_ok_fresh`'s hypotheses -/
example : (7 : Nat) < 2 * 50 / 10 := by decide

/-! ### T1: the functions the model transcribes, statement by statement (white space collapsed) -/

def expected_Store_poll : List String := ["var errs []error", "for name, sv := range s.snapshotActive() { if sv.expired { updates[name] = nil continue } got, err := s.client.GetIfChanged(ctx, name, sv.version) if errors.Is(err, api.ErrValueNotChanged) { continue } else if err != nil { errs = append(errs, err) continue } if got.Version != sv.version { updates[name] = got } }", "return errors.Join(errs...)"]

/-- the poll's round of requests: one conditional get per known secret (an expired one is marked for removal instead), `not changed` skipped, any other error collected, a value installed only if its version differs from the one asked about -/
theorem fact_Store_poll_as_transcribed : Facts.body_Store_poll = expected_Store_poll := by rfl

def expected_Store_applyUpdates : List String := ["if len(updates) == 0 { return nil }", "s.active.Lock()", "defer s.active.Unlock()", "for name, sv := range updates { if sv == nil { if _, ok := s.active.f[name]; ok { continue } delete(s.active.m, name) continue } s.active.m[name].Secret = sv for _, w := range s.active.w[name] { w.notify() } }", "return s.flushCacheLocked()"]

/-- installing a round's results: nothing to do for an empty round; under the store's lock: an expired secret is dropped unless a handle pins it, a value replaces the old one and every watcher of the name is notified; one cache flush at the end -/
theorem fact_Store_applyUpdates_as_transcribed : Facts.body_Store_applyUpdates = expected_Store_applyUpdates := by rfl

end Setec.C11
