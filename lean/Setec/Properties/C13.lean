import Setec.Proofs.Store
import Setec.Proofs.Fs
import Setec.Proofs.CacheDoc
import Setec.Generated.Facts
/-!
# C13 - the local cache persists the active set faithfully and tolerates loss or corruption

A cache document is a JSON object name -> (value, lastAccess) (`Doc`).  Text layer
(encoding/json, base64) trusted; the harness classifies arbitrary cache bytes by decoding
them with the documented shape and feeds the class to the model.
-/
namespace Setec.C13
open Std Setec.KV Setec.Store

/-- A flush writes one complete document of the whole active set: every known secret with
its latest version, bytes and last-access stamp. -/
theorem flush_is_whole_set (s : St) (h : s.hasCache = true) (n : String) :
    (flush s).cache = some (docOf s.m) ∧
    (docOf s.m)[n]? = (s.m[n]?).bind (fun e => e.map fun c => (c.sv, c.lastAccess)) := by
  simp [flush, h, docOf, ExtTreeMap.getElem?_filterMap']

/-- A store started from that document knows exactly the same secrets with the same versions,
bytes and last-access stamps (all undeclared until the new configuration declares them):
with the service unreachable it serves exactly those values. -/
theorem cache_roundtrip (m : AMap) (n : String) :
    (loadCache (.doc (docOf m)))[n]? =
      (m[n]?).bind (fun e => e.map fun c => some { c with declared := false }) := by
  simp only [loadCache, docOf, ExtTreeMap.getElem?_map, ExtTreeMap.getElem?_filterMap']
  cases h : m[n]? with
  | none => simp
  | some e => cases e <;> simp

/-- in particular, reading through a handle after a restart from the cache yields the same bytes -/
theorem restart_serves_same (s : St) (n : String) (c : CEntry) (now : Int) (h : s.m[n]? = some (some c)) :
    ∃ c', (loadCache (.doc (docOf s.m)))[n]? = some (some c') ∧ c'.sv = c.sv ∧ c'.lastAccess = c.lastAccess := by
  refine ⟨{ c with declared := false }, ?_, rfl, rfl⟩
  rw [cache_roundtrip, h]; simp

/-- ...and the same through the bytes of the file: the document as `flushCacheLocked` renders it
(`CacheDoc.renderDoc`, tied byte for byte to the code by the store trace family) reads back as
exactly that document - for all names, byte strings, versions and access times - so the store
restarted from the written bytes holds the same secrets. -/
theorem cache_bytes_roundtrip (m : AMap) :
    (CacheDoc.readDoc (CacheDoc.renderDoc (docOf m))).map (fun d => loadCache (.doc d)) =
      some (loadCache (.doc (docOf m))) := by
  rw [CacheDoc.readDoc_render]; rfl

/-- non-vacuity: a name made of JSON syntax and a binary value survive the file -/
example :
    let d : Doc := (∅ : Doc).insert "\"},\"x\":{" ({ value := [0, 255, 10], version := 3 }, -1)
    CacheDoc.readDoc (CacheDoc.renderDoc d) = some d := by intro d; exact CacheDoc.readDoc_render d

/-- The cache is rewritten whenever new values are installed: after a lookup... -/
theorem flush_after_lookup (s : St) (n : String) (sv : SV) (now : Int) (h : s.hasCache = true) :
    (lookupInstall s n sv now).cache =
      some (docOf (s.m.insert n (some { sv := sv, lastAccess := now, declared := false }))) := by
  simp only [lookupInstall, takeHandle]
  split <;> simp [flush, h]

/-- ...and after a poll that changed anything. -/
theorem flush_after_apply (s : St) (u : Updates) (h : s.hasCache = true) (hu : u ≠ []) :
    (applyUpdates s u).cache = some (docOf (applyUpdates s u).m) := by
  have hc : (u.foldl applyOne s).hasCache = true := by
    clear hu
    induction u generalizing s with
    | nil => exact h
    | cons x u ih => simp only [List.foldl_cons]; exact ih _ (by rw [(applyOne_age s x).2]; exact h)
  have hne : u.isEmpty = false := by cases u <;> simp_all
  simp [applyUpdates, hne, flush, hc]

/-- T1, where the cache is rewritten: installing poll results, installing a looked-up secret
and shutting the poller down each end in an *unguarded* flush under the store's lock (the
extractor writes `flush?` for a flush inside an if / case / loop body); construction flushes
when a declared name had to be stubbed in (`flush?`, the flag `stubDeclared` returns). -/
theorem fact_flush_points :
    Facts.storeLockTokens.lookup "Store.applyUpdates" =
      some ["lock:active", "defer-unlock:active", "install", "notify", "flush"] ∧
    Facts.storeLockTokens.lookup "Store.lookupSecretInternal" =
      some ["singleflight", "func{", "request", "lock:active", "defer-unlock:active", "flush", "}"] ∧
    Facts.storeLockTokens.lookup "Store.run" = some ["lock:active", "defer-unlock:active", "flush"] ∧
    Facts.storeLockTokens.lookup "NewStore" = some ["flush?"] ∧
    Facts.runShutdownPath = ["logf", "Lock", "defer Unlock", "if(flushCacheLocked; err != nil){logf}", "return"] := by
  decide

/-- A cache that is absent, unreadable, not decodable or not of the documented shape is
ignored as a whole: the store starts exactly as if there were no cache. -/
theorem all_or_nothing_load : loadCache .malformed = loadCache .absent ∧ loadCache .absent = (∅ : AMap) := ⟨rfl, rfl⟩

/-- a map without any value: every declared name ends up stubbed as missing -/
theorem stub_all_missing (names : List String) (m : AMap) (hno : ∀ (k : String) (c : CEntry), m[k]? ≠ some (some c))
    (n : String) (hn : n ∈ names ∨ m[n]? = some none) :
    ((stubDeclared m names).1)[n]? = some none := by
  induction names generalizing m with
  | nil =>
    rcases hn with hn | hn
    · cases hn
    · simpa [stubDeclared] using hn
  | cons x rest ih =>
    simp only [stubDeclared]
    split
    · next c hc => exact absurd hc (hno x c)
    · apply ih
      · intro k c
        by_cases hy : x = k
        · subst hy; simp
        · simp [ExtTreeMap.getElem?_insert, hy]; exact hno k c
      · by_cases hx : x = n
        · right; subst hx; simp
        · rcases hn with hn | hn
          · simp only [List.mem_cons] at hn
            rcases hn with rfl | hn
            · exact absurd rfl hx
            · exact Or.inl hn
          · right; simp [ExtTreeMap.getElem?_insert, hx, hn]

/-- so with a malformed cache every declared name is fetched from the service (it is stubbed
as missing, and construction visits exactly the missing names - C10) -/
theorem malformed_cache_fetches_all (names : List String) (n : String) (hn : n ∈ names) :
    ((stubDeclared (loadCache .malformed) names).1)[n]? = some none :=
  stub_all_missing names _ (by intro k c; simp [loadCache]) n (Or.inl hn)

/-- The same file is accepted by the file-backed client with identical results for every
non-empty secret (positive version). -/
theorem fileclient_accepts (m : AMap) (n : String) (c : CEntry) (h : m[n]? = some (some c))
    (hn : n ≠ "") (hv : c.sv.version > 0) (hne : c.sv.value ≠ []) :
    (fileClientTable (docOf m))[n]? = some c.sv := by
  simp [fileClientTable, docOf, h, hn, hv, hne]

/-- The file cache is replaced atomically with owner-only permissions: FileCache.Write is
atomicfile.WriteFile with mode 0600 (T1), whose protocol is `Fs.atomicWrite` (traced on
every run): after any prefix of its calls the cache file is the complete old document, and
the complete new one exactly when the rename has run; an error leaves the old one. -/
theorem cache_write_atomic (s : Fs.St) (chunks : List Bytes) (k : Nat) :
    Facts.cachePerm = some 0o600 ∧
    (k < (Fs.atomicWrite chunks 0o600).length → (Fs.execs s ((Fs.atomicWrite chunks 0o600).take k)).target = s.target) ∧
    (k ≥ (Fs.atomicWrite chunks 0o600).length →
        (Fs.execs s ((Fs.atomicWrite chunks 0o600).take k)).target = some (chunks.flatten, 0o600)) := by
  refine ⟨by decide, ?_, ?_⟩
  · intro hk; exact Fs.execs_target s _ (Fs.take_no_rename chunks 0o600 k hk)
  · intro hk; rw [List.take_of_length_le hk, Fs.atomicWrite_result]

/-- T1: the file cache is one call each way - `atomicfile.WriteFile` with owner-only permissions
(the write traced call by call in the `fs` family, modelled by `Fs.atomicWrite`) and
`os.ReadFile` - with nothing of its own in between (no temporary file of its own naming, no
in-place write). -/
theorem fact_file_cache_is_atomicfile :
    Facts.fileCacheWriteBody = ["return atomicfile.WriteFile(string(f), data, 0600)"] ∧
    Facts.fileCacheReadBody = ["return os.ReadFile(string(f))"] := by
  decide

/-! ### T1: the functions the model transcribes, statement by statement (white space collapsed) -/

def expected_Store_flushCacheLocked : List String := ["if s.cache == nil { return nil }", "data, err := json.Marshal(s.active.m)", "if err != nil { return fmt.Errorf(\"encoding state: %w\", err) } else if err := s.cache.Write(data); err != nil { return fmt.Errorf(\"updating cache: %w\", err) }", "return nil"]

/-- the cache write: the whole active set marshalled and handed to the cache in one call, its error returned -/
theorem fact_Store_flushCacheLocked_as_transcribed : Facts.body_Store_flushCacheLocked = expected_Store_flushCacheLocked := by rfl

end Setec.C13
