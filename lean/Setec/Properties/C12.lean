import Setec.Proofs.Store
import Setec.Properties.C11
import Setec.Generated.Facts
/-!
# C12 - a Secret handle always yields a complete, really-served value, never blocking

Level: partial.  The invariants below are proved for every sequence of the model's atomic
steps (each critical section of store.go under `active.Lock` is one step: take a handle, read
through a handle, apply a poll's updates, install a looked-up secret); requests to the
service are never part of a step - their answers enter as oracle inputs - so no step that
holds the lock waits for the network.  That the code's critical sections are those steps,
that reads do not block while a request is in flight and that there is no data race are
runtime facts: observed by the concurrent harness under the race detector, not proved.
-/
namespace Setec.C12
open Std Setec.KV Setec.Store

/-- no stubs after construction, and every name with a handle has a value -/
def HInv (s : St) : Prop :=
  (∀ n : String, s.m[n]? ≠ some none) ∧ (∀ n : String, s.handles.contains n = true → ∃ c : CEntry, s.m[n]? = some (some c))

theorem hinv_takeHandle (s : St) (n : String) (h : HInv s) : HInv (takeHandle s n).1 := by
  obtain ⟨h1, h2⟩ := h
  simp only [takeHandle]
  split
  · next hk =>
    refine ⟨h1, ?_⟩
    intro m hm
    simp only at hm
    split at hm
    · exact h2 m hm
    · simp only [List.contains_cons, Bool.or_eq_true, beq_iff_eq] at hm
      rcases hm with rfl | hm
      · simp only [known] at hk
        have hmem : m ∈ s.m := by simpa [ExtTreeMap.contains_iff_mem] using hk
        rw [ExtTreeMap.mem_iff_isSome_getElem?] at hmem
        cases hv : s.m[m]? with
        | none => simp [hv] at hmem
        | some e =>
          cases e with
          | none => exact absurd hv (h1 m)
          | some c => exact ⟨c, rfl⟩
      · exact h2 m hm
  · exact ⟨h1, h2⟩

theorem hinv_read (s : St) (n : String) (now : Int) (h : HInv s) : HInv (read s n now).1 := by
  obtain ⟨h1, h2⟩ := h
  simp only [Store.read]
  split
  · next c hc =>
    refine ⟨?_, ?_⟩
    · intro m
      by_cases hm : n = m
      · subst hm; simp
      · simp [ExtTreeMap.getElem?_insert, hm]; exact h1 m
    · intro m hm
      by_cases hnm : n = m
      · subst hnm; exact ⟨{ c with lastAccess := now }, by simp⟩
      · obtain ⟨c', hc'⟩ := h2 m hm
        exact ⟨c', by simp [ExtTreeMap.getElem?_insert, hnm, hc']⟩
  · exact ⟨h1, h2⟩

theorem hinv_applyOne (s : St) (x : String × Option SV) (h : HInv s) : HInv (applyOne s x) := by
  obtain ⟨h1, h2⟩ := h
  obtain ⟨k, v⟩ := x
  cases v with
  | none =>
    simp only [applyOne]
    split
    · exact ⟨h1, h2⟩
    · next hh =>
      refine ⟨?_, ?_⟩
      · intro m
        by_cases hm : k = m
        · subst hm; simp
        · simp [ExtTreeMap.getElem?_erase, hm]; exact h1 m
      · intro m hm
        have hne : k ≠ m := by
          intro e; subst e; exact hh hm
        obtain ⟨c, hc⟩ := h2 m hm
        exact ⟨c, by simp [ExtTreeMap.getElem?_erase, hne, hc]⟩
  | some sv =>
    simp only [applyOne]
    split
    · next c hc =>
      refine ⟨?_, ?_⟩
      · intro m
        by_cases hm : k = m
        · subst hm; simp
        · simp [ExtTreeMap.getElem?_insert, hm]; exact h1 m
      · intro m hm
        by_cases hkm : k = m
        · subst hkm; exact ⟨{ c with sv := sv }, by simp⟩
        · obtain ⟨c', hc'⟩ := h2 m hm
          exact ⟨c', by simp [ExtTreeMap.getElem?_insert, hkm, hc']⟩
    · exact ⟨h1, h2⟩

theorem hinv_flush (s : St) (h : HInv s) : HInv (flush s) := by
  simp only [flush]; split <;> exact h

theorem hinv_applyUpdates (s : St) (u : Updates) (h : HInv s) : HInv (applyUpdates s u) := by
  simp only [applyUpdates]
  split
  · exact h
  · apply hinv_flush
    have : ∀ (u : Updates) (s : St), HInv s → HInv (u.foldl applyOne s) := by
      intro u
      induction u with
      | nil => intro s h; exact h
      | cons x u ih => intro s h; simp only [List.foldl_cons]; exact ih _ (hinv_applyOne s x h)
    exact this u s h

theorem hinv_poll (s : St) (items : List (SnapItem × Ans)) (h : HInv s) : HInv (poll s items).1 := by
  rw [poll_eq]
  split
  · exact h
  · exact hinv_applyUpdates s _ h

theorem hinv_lookupInstall (s : St) (n : String) (sv : SV) (now : Int) (h : HInv s) :
    HInv (lookupInstall s n sv now) := by
  obtain ⟨h1, h2⟩ := h
  apply hinv_takeHandle
  apply hinv_flush
  refine ⟨?_, ?_⟩
  · intro m
    by_cases hm : n = m
    · subst hm; simp
    · simp [ExtTreeMap.getElem?_insert, hm]; exact h1 m
  · intro m hm
    by_cases hnm : n = m
    · subst hnm; exact ⟨{ sv := sv, lastAccess := now, declared := false }, by simp⟩
    · obtain ⟨c, hc⟩ := h2 m hm
      exact ⟨c, by simp [ExtTreeMap.getElem?_insert, hnm, hc]⟩

/-- the steps of a running store -/
inductive Step
  | takeHandle (n : String)
  | read (n : String) (now : Int)
  | poll (items : List (SnapItem × Ans))
  | lookupInstall (n : String) (sv : SV) (now : Int)
  | close          -- cancels the poller and flushes; the active set is untouched

def stepSt (s : St) : Step → St
  | .takeHandle n => (takeHandle s n).1
  | .read n now => (read s n now).1
  | .poll items => (poll s items).1
  | .lookupInstall n sv now => lookupInstall s n sv now
  | .close => flush s

theorem hinv_step (s : St) (e : Step) (h : HInv s) : HInv (stepSt s e) := by
  cases e with
  | takeHandle n => exact hinv_takeHandle s n h
  | read n now => exact hinv_read s n now h
  | poll items => exact hinv_poll s items h
  | lookupInstall n sv now => exact hinv_lookupInstall s n sv now h
  | close => exact hinv_flush s h

/-- From the moment a handle exists, for every sequence of reads, polls (with any expiry
marks and any answers), lookups and Close: calling it cannot fault - the name is in the
active set with a value - and expiry never removes it. -/
theorem handle_always_has_value (s : St) (es : List Step) (h : HInv s) (n : String)
    (hn : s.handles.contains n = true) :
    ∃ c : CEntry, (es.foldl stepSt s).m[n]? = some (some c) ∧ (es.foldl stepSt s).handles.contains n = true := by
  induction es generalizing s with
  | nil => obtain ⟨c, hc⟩ := h.2 n hn; exact ⟨c, hc, hn⟩
  | cons e es ih =>
    simp only [List.foldl_cons]
    apply ih (stepSt s e) (hinv_step s e h)
    -- handles only grow
    cases e with
    | takeHandle m =>
      simp only [stepSt, takeHandle]
      split
      · simp only; split
        · exact hn
        · have : n ∈ s.handles := by simpa using hn
          simp [this]
      · exact hn
    | read m now => simp only [stepSt, Store.read]; split <;> exact hn
    | poll items =>
      simp only [stepSt]
      rw [poll_eq]
      split
      · exact hn
      · simp only [applyUpdates]
        split
        · exact hn
        · rw [(flush_m _).2, foldl_applyOne_handles]; exact hn
    | lookupInstall m sv now =>
      simp only [stepSt, lookupInstall, takeHandle]
      split
      · simp only; split
        · rw [(flush_m _).2]; exact hn
        · have : n ∈ s.handles := by simpa using hn
          simp [(flush_m _).2, this]
      · rw [(flush_m _).2]; exact hn
    | close => simp only [stepSt]; rw [(flush_m _).2]; exact hn

/-- a read through a handle returns exactly the bytes currently installed for that name
(never another name's, never a mixture: values are replaced whole, not mutated) -/
theorem read_returns_current (s : St) (n : String) (now : Int) (c : CEntry) (h : s.m[n]? = some (some c)) :
    (Store.read s n now).2 = some c.sv.value := by
  simp [Store.read, h]

/-- once a poll has applied a value, every later read returns it (or a newer one installed by
a later poll): the read right after the apply sees exactly the installed bytes -/
theorem read_after_apply (s : St) (u : Updates) (n : String) (sv : SV) (c : CEntry) (now : Int)
    (hnd : (u.map (·.1)).Nodup) (hmem : (n, some sv) ∈ u) (hm : s.m[n]? = some (some c)) :
    (Store.read (applyUpdates s u) n now).2 = some sv.value := by
  have hne : u.isEmpty = false := by cases u <;> simp_all
  have : (applyUpdates s u).m[n]? = some (some { c with sv := sv }) := by
    rw [applyUpdates_m]; exact foldl_applyOne_update s u n sv c hnd hmem hm
  simp [Store.read, this]

/-- the values a handle can yield are really-served ones: C11.served_inv applies to every poll -/
theorem values_really_served (s : St) (items : List (SnapItem × Ans)) (n : String) (c' : CEntry)
    (h : (poll s items).1.m[n]? = some (some c')) :
    (∃ c, s.m[n]? = some (some c) ∧ c.sv = c'.sv) ∨
    (∃ it sv, (it, Ans.value sv) ∈ items ∧ it.name = n ∧ c'.sv = sv) :=
  C11.served_inv s items n c' h

/-! ### T1: what the code does under `active.Lock` -/

/-- scan a function's lock tokens: a request to the service or a single-flight call must not
occur while `active` is held (function literals are separate scopes: they run later or in
their own goroutine) -/
def noRequestUnderLock : List String → List Bool → Bool
  | [], _ => true
  | t :: ts, st =>
    if t == "func{" then noRequestUnderLock ts (false :: st)
    else if t == "}" then noRequestUnderLock ts st.tail
    else if t == "lock:active" then noRequestUnderLock ts (true :: st.tail)
    else if t == "unlock:active" then noRequestUnderLock ts (false :: st.tail)
    else if t == "request" || t == "singleflight" then st.head? != some true && noRequestUnderLock ts st
    else noRequestUnderLock ts st

/-- no function of the client store sends a request to the service (or waits on the
single-flight group) while holding the lock that handles take: a read through a handle never
waits for a request.  The handle itself is one critical section under that lock. -/
theorem fact_no_request_under_lock :
    Facts.storeLockTokens.all (fun f => noRequestUnderLock f.2 [false]) = true ∧
    Facts.storeLockTokens.lookup "Store.secretLocked" = some ["func{", "lock:active", "defer-unlock:active", "}"] := by
  decide

/-- the scan is not vacuous: it rejects a request made under the lock -/
example : noRequestUnderLock ["lock:active", "defer-unlock:active", "request"] [false] = false := by decide

/-- T1: `(*Store).Close` stops the poller and waits for it - and does nothing else: it does not
touch the values handles (and slices already handed out) refer to. -/
theorem fact_close_only_stops_the_poller :
    Facts.storeCloseBody = ["s.cancel()", "<-s.done", "return nil"] := by
  decide

/-! ### T1: the functions the model transcribes, statement by statement (white space collapsed) -/

def expected_Store_secretLocked : List String := ["if _, ok := s.active.m[name]; !ok { return nil }", "f, ok := s.active.f[name]", "if !ok { f = func() []byte { s.active.Lock() defer s.active.Unlock() s.countSecretFetch.Add(1) cs := s.active.m[name] cs.LastAccess = s.timeNow().Unix() return cs.Secret.Value } s.active.f[name] = f }", "return f"]

/-- a handle: one closure per name, one critical section per read - count, look the entry up now, stamp the access time, return the current value's bytes -/
theorem fact_Store_secretLocked_as_transcribed : Facts.body_Store_secretLocked = expected_Store_secretLocked := by rfl

def expected_Store_Secret : List String := ["sec := s.secretOrNil(name)", "if sec == nil && !s.allowLookup { panic(fmt.Sprintf(\"secret %q not found in StoreConfig with lookup disabled\", name)) }", "return sec"]

/-- Secret: nil for an unknown name becomes a panic only when lookups are disabled -/
theorem fact_Store_Secret_as_transcribed : Facts.body_Store_Secret = expected_Store_Secret := by rfl

end Setec.C12
