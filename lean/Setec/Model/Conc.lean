import Setec.Model.DB
/-
Interleaving semantics for concurrent db.DB calls (C14).

Every exported method has the shape
    [pre-step: permission check + audit record - touches no database state]
    [locked step: the whole data access under db.mu, unlock deferred]
(conditional get and list do everything inside the locked step).  A schedule is a sequence
of events "thread t performs its next step"; only locked steps read or change the state.
Trusted: sync.Mutex gives mutual exclusion (a locked region is one atomic step) and the Go
memory model makes the effects of a critical section visible to the next one.
-/
namespace Setec.Conc
open Setec.KV Setec.DB

structure Call where
  caller : Caller
  op : Op
  auditOk : Bool
  saveOk : Bool

inductive Phase
  | pre       -- before its locked step
  | locked    -- has performed its locked step (result fixed)
  deriving DecidableEq

structure TState where
  call : Call
  phase : Phase
  res : Option Res

structure Sys where
  kv : KV
  threads : List TState
  order : List Nat          -- thread indices in the order of their locked steps

/-- thread `i` performs its locked step: one `DB.step` on the current state -/
def lockedStep (cfg : Cfg) (s : Sys) (i : Nat) : Sys :=
  match s.threads[i]? with
  | some t =>
    if t.phase = .pre then
      let r := step cfg s.kv t.call.caller t.call.op t.call.auditOk t.call.saveOk
      { kv := r.1,
        threads := s.threads.set i { t with phase := .locked, res := some r.2.1 },
        order := s.order ++ [i] }
    else s
  | none => s

/-- a schedule of locked steps (pre-steps do not touch the state and are omitted: any
interleaving of them with the locked steps yields the same states) -/
def runSched (cfg : Cfg) (s : Sys) : List Nat → Sys
  | [] => s
  | i :: rest => runSched cfg (lockedStep cfg s i) rest

/-- the sequential specification: the calls executed one at a time in a given order -/
def seqRun (cfg : Cfg) (kv : KV) : List Call → KV × List Res
  | [] => (kv, [])
  | c :: rest =>
    let r := step cfg kv c.caller c.op c.auditOk c.saveOk
    let (kv', rs) := seqRun cfg r.1 rest
    (kv', r.2.1 :: rs)

end Setec.Conc
