import Setec.Model.Glob
/-
Model of `acl.Rule.Allow` and `acl.Rules.Allow` (acl/acl.go:74-110).
Actions are strings exactly as in the code (`type Action string`).
-/
namespace Setec.Acl
open Setec.Glob

structure Rule where
  actions : List String
  secrets : List (List Char)
  deriving Repr, DecidableEq

abbrev Rules := List Rule

/-- `Rule.Allow`: some listed action equals `a` AND some pattern matches `n` -/
def Rule.allow (dotNL : Bool) (r : Rule) (a : String) (n : List Char) : Bool :=
  r.actions.any (· == a) && r.secrets.any (fun p => implMatch dotNL p n)

/-- `Rules.Allow`: some single rule allows -/
def allow (dotNL : Bool) (rs : Rules) (a : String) (n : List Char) : Bool :=
  rs.any (fun r => r.allow dotNL a n)

end Setec.Acl
