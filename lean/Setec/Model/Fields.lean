import Setec.Model.KV
/-
Model of client/setec/fields.go: tag parsing, type validation, secret names, per-kind
assignment.  A struct shape is a list of fields (reflect.VisibleFields order); field types
are abstracted to the kinds the code distinguishes.  Buffers have identities so that "a
private copy of the bytes" can be stated: a []byte field holds (buffer id, contents).
Trusted: package reflect, path.Join on clean slash-separated inputs, encoding/json.
-/
namespace Setec.Fields
open Setec.KV

inductive Kind
  | bytes                     -- []byte
  | string
  | secret                    -- setec.Secret
  | unmarshaler (accepts : Bytes → Bool)   -- (pointer to) a type implementing encoding.BinaryUnmarshaler
  | other                     -- any other type: only usable with the json verb

structure Field where
  fname : String
  tag : Option String         -- the value of the `setec` struct tag, if present
  kind : Kind

structure Parsed where
  fname : String
  secretName : String
  isJSON : Bool
  kind : Kind

inductive ParseErr
  | notPointerToStruct
  | emptyName (field : String)
  | unsupported (field : String)
  | noFields
  deriving DecidableEq, Repr

/-- strings.Split(tag, ",") -/
def splitComma : List Char → List (List Char)
  | [] => [[]]
  | c :: cs =>
    if c = ',' then [] :: splitComma cs
    else match splitComma cs with
         | [] => [[c]]
         | p :: ps => (c :: p) :: ps

/-- name = text before the first comma; json iff a later comma-separated part is "json" -/
def parseTag (tag : String) : String × Bool :=
  match splitComma tag.toList with
  | [] => ("", false)
  | n :: rest => (String.ofList n, rest.contains "json".toList)

def parseField (f : Field) : Except ParseErr (Option Parsed) :=
  match f.tag with
  | none => .ok none
  | some tag =>
    let (n, js) := parseTag tag
    if n == "" then .error (.emptyName f.fname) else
    let p : Parsed := { fname := f.fname, secretName := n, isJSON := js, kind := f.kind }
    if js then .ok (some p) else
    match f.kind with
    | .other => .error (.unsupported f.fname)
    | _ => .ok (some p)

def parseAll : List Field → Except ParseErr (List Parsed)
  | [] => .ok []
  | f :: rest =>
    match parseField f with
    | .error e => .error e
    | .ok none => parseAll rest
    | .ok (some p) =>
      match parseAll rest with
      | .error e => .error e
      | .ok ps => .ok (p :: ps)

/-- ParseFields: `isPtrToStruct` is what reflect says about the argument -/
def parseFields (isPtrToStruct : Bool) (fs : List Field) : Except ParseErr (List Parsed) :=
  if !isPtrToStruct then .error .notPointerToStruct else
  match parseAll fs with
  | .error e => .error e
  | .ok [] => .error .noFields
  | .ok ps => .ok ps

/-- path.Join(prefix, name) on clean inputs -/
def joinName (pfx name : String) : String := if pfx == "" then name else pfx ++ "/" ++ name

def secretNames (pfx : String) (ps : List Parsed) : List String := ps.map fun p => joinName pfx p.secretName

/-! ### apply -/

/-- what a field holds after Apply -/
inductive Val
  | unchanged
  | bytes (buf : Nat) (content : Bytes)     -- buffer identity and contents
  | str (content : Bytes)
  | handle (name : String)
  | unmarshaled (input : Bytes)
  | decoded (input : Bytes)
  deriving DecidableEq, Repr

/-- a secret as the store holds it: the identity of the buffer it serves and its bytes -/
structure Held where
  buf : Nat
  content : Bytes

/-- apply one field.  `cloneBytes = true` is the repaired code (bytes.Clone); `false` the
original, where the field receives the store's own buffer (defect D4).  `fresh` is an
unused buffer identity. -/
def applyField (cloneBytes : Bool) (jsonAccepts : String → Bytes → Bool) (lookup : String → Option Held)
    (pfx : String) (fresh : Nat) (p : Parsed) : Val × Bool :=     -- value, ok?
  match lookup (joinName pfx p.secretName) with
  | none => (.unchanged, false)
  | some h =>
    if p.isJSON then
      -- whether the bytes decode into the field's type is encoding/json's verdict (an oracle)
      (if jsonAccepts p.fname h.content then (.decoded h.content, true) else (.unchanged, false))
    else match p.kind with
      | .unmarshaler acc => if acc h.content then (.unmarshaled h.content, true) else (.unchanged, false)
      | .bytes => (.bytes (if cloneBytes then fresh else h.buf) h.content, true)
      | .string => (.str h.content, true)
      | .secret => (.handle (joinName pfx p.secretName), true)
      | .other => (.unchanged, false)

/-- Apply: every tagged field is processed, failures are collected -/
def applyAll (cloneBytes : Bool) (jsonAccepts : String → Bytes → Bool) (lookup : String → Option Held) (pfx : String) (fresh : Nat) :
    List Parsed → List (String × Val) × List String      -- (field, value), failed field names
  | [] => ([], [])
  | p :: rest =>
    let (v, ok) := applyField cloneBytes jsonAccepts lookup pfx fresh p
    let (vs, errs) := applyAll cloneBytes jsonAccepts lookup pfx (fresh + 1) rest
    ((p.fname, v) :: vs, if ok then errs else p.fname :: errs)

end Setec.Fields
