import Setec.Model.KV
import Setec.Model.Acl
/-
Model of db/db.go: permission check + audit record (`checkAndLog`) around the
KV operations, the `_internal/` prefix, empty-name checks, conditional get and
list.  One `step` is one call of an exported `db.DB` method.

Oracles per step: `auditOk` (does the audit writer accept the record) and
`saveOk` (does kv.save succeed).  At most one audit record is attempted per call.
-/
namespace Setec.DB
open Setec.KV Setec.Acl

/-- Constants the model takes from the source (Generated/Facts.lean). -/
structure Cfg where
  dotNL : Bool            -- regexp flag s in acl.Secret.Match
  guardPresent : Bool     -- repaired dedupe guard in kv.put
  actInfo : String
  actGet : String
  actGetCond : String
  actGetVersion : String
  actPut : String
  actActivate : String
  actDeleteVersion : String
  actDelete : String
  actListAudit : String   -- action in List's audit record
  actListFilter : String  -- action of List's per-name filter
  configPrefix : String

def Cfg.std : Cfg :=
  { dotNL := true, guardPresent := true, actInfo := "info", actGet := "get", actGetCond := "get",
    actGetVersion := "get", actPut := "put", actActivate := "activate",
    actDeleteVersion := "delete", actDelete := "delete", actListAudit := "info", actListFilter := "info",
    configPrefix := "_internal/" }

structure Caller where
  principal : String
  rules : Rules

structure Entry where
  principal : String
  action : String
  secret : String
  version : Nat
  authorized : Bool
  deriving DecidableEq, Repr

instance : Inhabited Entry := ⟨{ principal := "", action := "", secret := "", version := 0, authorized := false }⟩

inductive Op
  | list
  | info (n : String)
  | get (n : String)
  | getCond (n : String) (v : Nat)
  | getVersion (n : String) (v : Nat)
  | put (n : String) (val : Bytes)
  | activate (n : String) (v : Nat)
  | deleteVersion (n : String) (v : Nat)
  | delete (n : String)
  deriving DecidableEq

/-- error classes as the server distinguishes them (server.go:366-383) -/
inductive Res
  | value (b : Bytes) (v : Nat)
  | infoR (name : String) (vs : List Nat) (active : Nat)
  | listR (items : List (String × List Nat × Nat))
  | version (v : Nat)
  | done
  | denied          -- errors.Is(err, ErrAccessDenied)
  | notFound        -- errors.Is(err, ErrNotFound)
  | notChanged      -- errors.Is(err, ErrValueNotChanged)
  | other           -- any other error
  deriving DecidableEq, Repr

def allowed (cfg : Cfg) (c : Caller) (a : String) (n : String) : Bool :=
  allow cfg.dotNL c.rules a n.toList

/-- checkAndLog: returns the entry it attempts to write and the resulting error, if any.
`denied` wins over the audit failure in the server's classification because
`errors.Is(multierr, ErrAccessDenied)` is tested first. -/
def checkAndLog (cfg : Cfg) (c : Caller) (a : String) (n : String) (v : Nat) (auditOk : Bool) :
    Entry × Option Res :=
  let auth := allowed cfg c a n
  let e : Entry := { principal := c.principal, action := a, secret := n, version := v, authorized := auth }
  (e, if !auth then some .denied else if !auditOk then some .other else none)

def kvErr : Err → Res
  | .notFound => .notFound
  | _ => .other

def hasPrefix (cfg : Cfg) (n : String) : Bool := cfg.configPrefix.toList.isPrefixOf n.toList

def step (cfg : Cfg) (kv : KV) (c : Caller) (op : Op) (auditOk saveOk : Bool) :
    KV × Res × List Entry :=
  match op with
  | .list =>
    let e : Entry := { principal := c.principal, action := cfg.actListAudit, secret := "", version := 0, authorized := true }
    if !auditOk then (kv, .other, [e]) else
    let names := (list kv).filter (fun n => allowed cfg c cfg.actListFilter n)
    let items := names.filterMap (fun n => match info kv n with
                                           | .ok (vs, a) => some (n, vs, a)
                                           | .error _ => none)
    (kv, .listR items, [e])
  | .info n =>
    match checkAndLog cfg c cfg.actInfo n 0 auditOk with
    | (e, some r) => (kv, r, [e])
    | (e, none) =>
      match info kv n with
      | .ok (vs, a) => (kv, .infoR n vs a, [e])
      | .error er => (kv, kvErr er, [e])
  | .get n =>
    match checkAndLog cfg c cfg.actGet n 0 auditOk with
    | (e, some r) => (kv, r, [e])
    | (e, none) =>
      match get kv n with
      | .ok (b, v) => (kv, .value b v, [e])
      | .error er => (kv, kvErr er, [e])
  | .getVersion n v =>
    match checkAndLog cfg c cfg.actGetVersion n v auditOk with
    | (e, some r) => (kv, r, [e])
    | (e, none) =>
      match getVersion kv n v with
      | .ok (b, v) => (kv, .value b v, [e])
      | .error er => (kv, kvErr er, [e])
  | .getCond n old =>
    if !allowed cfg c cfg.actGetCond n then
      let (e, r) := checkAndLog cfg c cfg.actGetCond n 0 auditOk
      (kv, r.getD .other, [e])
    else
      match get kv n with
      | .error er => (kv, kvErr er, [])
      | .ok (b, v) =>
        if v = old then (kv, .notChanged, [])
        else match checkAndLog cfg c cfg.actGetCond n 0 auditOk with
          | (e, some r) => (kv, r, [e])
          | (e, none) => (kv, .value b v, [e])
  | .put n val =>
    if n = "" then (kv, .other, []) else
    match checkAndLog cfg c cfg.actPut n 0 auditOk with
    | (e, some r) => (kv, r, [e])
    | (e, none) =>
      if hasPrefix cfg n then (kv, .other, [e]) else
      match put cfg.guardPresent kv n val saveOk with
      | (kv', .ok v) => (kv', .version v, [e])
      | (kv', .error er) => (kv', kvErr er, [e])
  | .activate n v =>
    if n = "" then (kv, .other, []) else
    match checkAndLog cfg c cfg.actActivate n v auditOk with
    | (e, some r) => (kv, r, [e])
    | (e, none) =>
      if hasPrefix cfg n then (kv, .other, [e]) else
      match setActive kv n v saveOk with
      | (kv', .ok ()) => (kv', .done, [e])
      | (kv', .error er) => (kv', kvErr er, [e])
  | .deleteVersion n v =>
    match checkAndLog cfg c cfg.actDeleteVersion n v auditOk with
    | (e, some r) => (kv, r, [e])
    | (e, none) =>
      if hasPrefix cfg n then (kv, .other, [e]) else
      match deleteVersion kv n v saveOk with
      | (kv', .ok ()) => (kv', .done, [e])
      | (kv', .error er) => (kv', kvErr er, [e])
  | .delete n =>
    match checkAndLog cfg c cfg.actDelete n 0 auditOk with
    | (e, some r) => (kv, r, [e])
    | (e, none) =>
      if hasPrefix cfg n then (kv, .other, [e]) else
      match deleteSecret kv n saveOk with
      | (kv', .ok ()) => (kv', .done, [e])
      | (kv', .error er) => (kv', kvErr er, [e])

end Setec.DB
