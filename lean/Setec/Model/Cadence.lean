/- The clause of C11's `cadence` monitor as a pure function (used by Driver/StoreDrv), and the
   ideal ticker it is proved sound for in Proofs/Cadence.  Core Lean only. -/
namespace Setec.Cadence

/-- distances between consecutive arrivals, the first one measured from `prev` -/
def gaps : Int → List Int → List Int
  | _, [] => []
  | prev, a :: rest => (a - prev) :: gaps a rest

/-- the clause of C11's `cadence` monitor: at least three polls seen, every gap within a tenth of
the interval on either side -/
def cadenceOK (i : Int) (polls : List Int) : Bool :=
  polls.length ≥ 3 && (gaps 0 polls).all fun g => i - i / 10 ≤ g && g ≤ i + i / 10

/-- what a ticker of period `p` started at `s` delivers: `n` arrivals -/
def ticks (p : Int) : Int → Nat → List Int
  | _, 0 => []
  | s, n + 1 => (s + p) :: ticks p (s + p) n

end Setec.Cadence
