/- The clause of C11's `cadence` monitor as a pure function (used by Driver/StoreDrv), and the
   ideal ticker it is proved sound for in Proofs/Cadence.  Core Lean only. -/
namespace Setec.Cadence

/-- distances between consecutive arrivals, the first one measured from `prev` -/
def gaps : Int → List Int → List Int
  | _, [] => []
  | prev, a :: rest => (a - prev) :: gaps a rest

/-- the clause of C11's `cadence` monitor: at least three polls seen, every gap within a tenth of
the interval on either side -/
def cadenceOK (i : Int) (polls : List Int) : Bool :=
  polls.length ≥ 3 && (gaps 0 polls).all fun g => i - i / 10 ≤ g && g ≤ i + i / 10

/-- what a ticker of period `p` started at `s` delivers: `n` arrivals -/
def ticks (p : Int) : Int → Nat → List Int
  | _, 0 => []
  | s, n + 1 => (s + p) :: ticks p (s + p) n

/-- the correspondence clause of the `cadence` family: the first arrival is the period expression
`period` (the translated source; `fun _ => r` stands for rand.Intn answering r) for the draw that
arrival implies, that draw is in rand.Intn's range, and every later gap equals the first -/
def modelOK (period : Int → (Int → Int) → Int) (i : Int) (polls : List Int) : Bool :=
  let p1 := polls.headD 0
  let r := p1 - i + Int.tdiv i 10
  0 ≤ r && r < Int.tdiv (2 * i) 10 && period i (fun _ => r) == p1 && (gaps 0 polls).all (· == p1)

end Setec.Cadence
