import Setec.Model.DB
/-
Model of server/server.go: `serveJSON` (method / content-type / no-browsers gates, caller
identity from WhoIs, body decoding, dispatch to db.DB, error -> status mapping) and of the
status -> sentinel mapping in client/setec/client.go (`do`, `GetIfChanged`).

Trusted: net/http (routing by path, header canonicalisation), encoding/json (the harness
classifies a body by decoding it with the same request type), tailcfg.UnmarshalCapJSON.
-/
namespace Setec.Http
open Setec.KV Setec.DB Setec.Acl

/-- the tailnet's answer for the request's source address -/
structure WhoIs where
  fails : Bool                   -- WhoIs returned an error
  tags : List String             -- node tags (non-empty = tagged node)
  login : String                 -- user profile login name
  node : String                  -- node name
  cap : Option Rules             -- grants under "tailscale.com/cap/secrets"; none = unparsable
  capHttps : Option Rules        -- grants under "https://tailscale.com/cap/secrets"

structure Req where
  method : String
  contentType : Option String
  noBrowsers : Option String
  addrOk : Bool                  -- RemoteAddr parses as ip:port
  addr : String                  -- the ip
  op : Option Op                 -- none: the body does not decode as this endpoint's request type
  who : WhoIs

structure Resp where
  status : Nat
  body : Option Res              -- some = 200 with the JSON result; none = a constant text body
  text : String                  -- the constant text body (http.Error appends a newline)
  deriving DecidableEq

/-- the principal recorded for a caller (audit.Principal): hostname, ip, user, tags -/
def principalOf (r : Req) : String :=
  r.who.node ++ "|" ++ r.addr ++ "|" ++ (if r.who.tags.isEmpty then r.who.login else "") ++ "|" ++
    ",".intercalate r.who.tags

/-- getIdentity (server.go:283-319) -/
def identity (r : Req) : Option Caller :=
  if !r.addrOk then none
  else if r.who.fails then none
  else if r.who.tags.isEmpty && r.who.login == "" then none
  else
    match r.who.cap with
    | none => none
    | some rules =>
      if rules.isEmpty then
        match r.who.capHttps with
        | none => none
        | some rules2 => some { principal := principalOf r, rules := rules2 }
      else some { principal := principalOf r, rules := rules }

def errText (status : Nat) (t : String) : Resp := { status := status, body := none, text := t }

/-- error -> status (server.go:366-383) -/
def respOf : Res → Resp
  | .denied => errText 403 "access denied\n"
  | .notFound => errText 404 "not found\n"
  | .notChanged => errText 304 ""
  | .other => errText 500 "internal error\n"
  | r => { status := 200, body := some r, text := "" }

/-- serveJSON -/
def serve (cfg : Cfg) (kv : KV) (r : Req) (auditOk saveOk : Bool) : Resp × KV × List Entry :=
  if r.method != "POST" then (errText 400 "only POST requests allowed\n", kv, [])
  else if r.contentType != some "application/json" then (errText 400 "request body must be json\n", kv, [])
  else if r.noBrowsers != some "setec" then (errText 403 "access denied\n", kv, [])
  else match identity r with
    | none => (errText 500 "unable to identify caller\n", kv, [])
    | some c =>
      match r.op with
      | none => (errText 400 "bad request\n", kv, [])
      | some op =>
        let (kv', res, es) := step cfg kv c op auditOk saveOk
        (respOf res, kv', es)

/-- dispatch of /api/get on Version / UpdateIfChanged (server.go:227-240) -/
def getOp (name : String) (version : Nat) (updateIfChanged : Bool) : Op :=
  if version ≠ 0 then (if updateIfChanged then .getCond name version else .getVersion name version)
  else .get name

/-! ### the client side (client/setec/client.go) -/

inductive ClientErr
  | notFound | accessDenied | notChanged | opaque
  deriving DecidableEq, Repr

/-- `do`: status -> sentinel -/
def clientResult (r : Resp) : Except ClientErr Res :=
  if r.status = 200 then (match r.body with | some b => .ok b | none => .error .opaque)
  else if r.status = 404 then .error .notFound
  else if r.status = 403 then .error .accessDenied
  else if r.status = 304 then .error .notChanged
  else .error .opaque

/-- the request `Client.GetIfChanged` sends: V = 0 short-circuits to a plain Get -/
def clientGetIfChanged (name : String) (old : Nat) : Op :=
  if old = 0 then getOp name 0 false else getOp name old true

end Setec.Http
