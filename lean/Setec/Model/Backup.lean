/-
Model of server/backup.go `periodicBackup` over a virtual millisecond clock.

  lastGen := 0
  loop: gen := WriteGen(); if gen != lastGen { upload; on success lastGen = gen }
        wait one period or until cancelled

`gens t` is the database's write generation at time t (positive), `oks k` / `durs k` the
outcome and duration of the k-th upload attempt, `cancel` the instant the server's context
is cancelled.  `waitAlways = true` is the repaired loop (the wait is unconditional);
`false` is the original, where the wait sits inside the `if` (defect D3).
Trusted: the AWS SDK below HTTPClient.Do; os.ReadFile of a file that is only ever replaced
by rename returns one complete version (C04).
-/
namespace Setec.Backup

structure Attempt where
  tms : Nat
  gen : Nat
  ok : Bool
  deriving DecidableEq, Repr

structure Out where
  attempts : List Attempt      -- oldest first
  exit : Option Nat            -- when the task returned (none: still running when fuel ran out)
  spins : Bool                 -- the loop iterates without consuming time
  lastGen : Nat
  deriving DecidableEq, Repr

def period : Nat := 60000

def loop (waitAlways : Bool) (gens : Nat → Nat) (oks : Nat → Bool) (durs : Nat → Nat) (cancel : Nat) :
    Nat → Nat → Nat → Nat → List Attempt → Out
  | 0, _, lastGen, _, acc => { attempts := acc, exit := none, spins := false, lastGen := lastGen }
  | fuel + 1, t, lastGen, k, acc =>
    if gens t ≠ lastGen then
      let t1 := min (t + durs k) (max cancel t)     -- an upload is cut short by cancellation
      let ok := oks k && t + durs k ≤ max cancel t
      let lastGen' := if ok then gens t else lastGen
      let acc' := acc ++ [{ tms := t, gen := gens t, ok := ok }]
      if t1 + period ≥ cancel then { attempts := acc', exit := some (max t1 cancel), spins := false, lastGen := lastGen' }
      else loop waitAlways gens oks durs cancel fuel (t1 + period) lastGen' (k + 1) acc'
    else if waitAlways then
      if t + period ≥ cancel then { attempts := acc, exit := some (max t cancel), spins := false, lastGen := lastGen }
      else loop waitAlways gens oks durs cancel fuel (t + period) lastGen k acc
    else
      -- original: nothing to do and no wait: the next iteration starts at the same instant
      { attempts := acc, exit := none, spins := true, lastGen := lastGen }

def run (waitAlways : Bool) (gens : Nat → Nat) (oks : Nat → Bool) (durs : Nat → Nat) (cancel fuel : Nat) : Out :=
  loop waitAlways gens oks durs cancel fuel 0 0 0 []

end Setec.Backup
