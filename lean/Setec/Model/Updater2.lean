/-
Two goroutines calling `Get` on one Updater (C15, "concurrent Get callers").  `locked = true`
is the code: `Get` holds the updater's mutex from its channel check to the swap, so a second
`Get` starts only when the first has finished.  `locked = false` is the same three sub-steps
without the mutex held across them (what releasing it around the builder amounts to).
Installs interleave freely in both.
-/
namespace Setec.Updater2

inductive Phase
  | idle | drained | read
  deriving DecidableEq, Repr

structure Getter where
  phase : Phase
  input : Nat
  deriving DecidableEq, Repr

structure State where
  cur : Nat            -- index of the latest install
  pending : Bool       -- a notification is waiting in the one-slot channel
  g1 : Getter
  g2 : Getter
  valueSrc : Nat       -- install index the current value was built from
  deriving DecidableEq, Repr

inductive Ev
  | install
  | drain (second : Bool)
  | readCur (second : Bool)
  | build (second : Bool)
  deriving DecidableEq, Repr

def init : State := { cur := 0, pending := false, g1 := ⟨.idle, 0⟩, g2 := ⟨.idle, 0⟩, valueSrc := 0 }

def getG (s : State) (second : Bool) : Getter := if second then s.g2 else s.g1
def setG (s : State) (second : Bool) (g : Getter) : State := if second then { s with g2 := g } else { s with g1 := g }

def step (locked : Bool) (s : State) : Ev → Option State
  | .install => some { s with cur := s.cur + 1, pending := true }
  | .drain i =>
    let g := getG s i
    let other := getG s (!i)
    if g.phase = .idle ∧ (locked = false ∨ other.phase = .idle) then
      (if s.pending then some (setG { s with pending := false } i { g with phase := .drained }) else some s)
    else none
  | .readCur i =>
    let g := getG s i
    if g.phase = .drained then some (setG s i { phase := .read, input := s.cur }) else none
  | .build i =>
    let g := getG s i
    if g.phase = .read then some (setG { s with valueSrc := g.input } i { g with phase := .idle }) else none

def run (locked : Bool) (s : State) : List Ev → Option State
  | [] => some s
  | e :: es => match step locked s e with | some s' => run locked s' es | none => none

end Setec.Updater2
