import Setec.Model.Updater
/-
Any number of updaters on one watched secret, created at any moment - also while installs
are arriving (C15: "several updaters on one secret, updaters created while updates are in
flight").  The store side is one counter of installs; every updater ever created carries the
number of installs that preceded its registration (`base`), whether it is (still) on the
store's notification list for the name (`listed`), and its own `Updater.State`, whose `cur`
counts the installs since its registration.

* `install`: the store sets the new value and notifies every watcher on the list, in one
  critical section (applyUpdates, store.go) - one atomic step.  An updater that is not on the
  list sees the new bytes when it next reads, but gets no notification.
* `register`: lookupWatcher appends the watcher to the name's list under the store's lock, in
  one statement (`s.active.w[name] = append(s.active.w[name], w)`, watcher.go), before
  NewUpdater reads the initial bytes.
* `upd i e`: one sub-step (`initRead`, `initBuild`, `drain`, `readCur`, `build`) of updater i.

Two orders the code avoids, enabled only with `variant = true`:
* `registerLate r`: the registration is done after the initial bytes were read (at install
  count `r`).
* `registerStale k`: the new list is computed from a copy of the list taken when only `k`
  watchers were on it (read before the lock was given up for the lookup, written after): the
  watchers registered in between drop off the list.
-/
namespace Setec.Watchers
open Setec.Updater

structure W where
  base : Nat
  listed : Bool
  st : State
  deriving DecidableEq, Repr

structure Sys where
  installs : Nat
  ws : List W
  deriving DecidableEq, Repr

inductive Ev
  | install
  | register
  | upd (i : Nat) (e : Updater.Ev)
  | registerLate (r : Nat)
  | registerStale (k : Nat)
  deriving DecidableEq, Repr

def init : Sys := { installs := 0, ws := [] }

/-- what an install does to a listed updater: `Updater.step _ .install` -/
def installed (w : State) : State :=
  { w with cur := w.cur + 1, pending := true, sinceDrain := w.sinceDrain + 1 }

/-- ... and to one that is not on the list: the bytes move on, nobody tells it -/
def missed (w : State) : State :=
  { w with cur := w.cur + 1, sinceDrain := w.sinceDrain + 1 }

def step (variant : Bool) (s : Sys) : Ev → Option Sys
  | .install =>
    some { installs := s.installs + 1,
           ws := s.ws.map fun w => { w with st := if w.listed then installed w.st else missed w.st } }
  | .register => some { s with ws := s.ws ++ [{ base := s.installs, listed := true, st := Updater.init }] }
  | .upd i e =>
    if e = .install then none else
    match s.ws[i]? with
    | none => none
    | some w =>
      match Updater.step w.st e with
      | none => none
      | some st' => some { s with ws := s.ws.set i { w with st := st' } }
  | .registerLate r =>
    if variant = true ∧ r ≤ s.installs then
      -- the initial bytes were read when `r` installs had happened; the watcher exists only now
      some { s with ws := s.ws ++ [{ base := r, listed := true,
                                     st := { Updater.init with cur := s.installs - r, phase := .read, input := 0 } }] }
    else none
  | .registerStale k =>
    if variant = true then
      some { s with ws := (s.ws.mapIdx fun i w => if i < k then w else { w with listed := false }) ++
                          [{ base := s.installs, listed := true, st := Updater.init }] }
    else none

def run (variant : Bool) (s : Sys) : List Ev → Option Sys
  | [] => some s
  | e :: es => match step variant s e with | some s' => run variant s' es | none => none

end Setec.Watchers
