import Setec.Model.Updater
/-
Any number of updaters on one watched secret, created at any moment - also while installs
are arriving (C15: "several updaters on one secret, updaters created while updates are in
flight").  The store side is one counter of installs; every updater carries the number of
installs that preceded its registration (`base`) and its own `Updater.State`, whose `cur`
counts the installs it has been notified of.

* `install`: the store sets the new value and notifies every registered watcher, in one
  critical section (applyUpdates, store.go) - one atomic step that advances every updater.
* `register`: lookupWatcher appends the watcher to the name's list under the same lock
  (watcher.go), before NewUpdater reads the initial bytes.
* `upd i e`: one sub-step (`initRead`, `initBuild`, `drain`, `readCur`, `build`) of updater i.
* `registerLate r` (only with `late = true`, which is not the code): the same registration
  done after the initial bytes were read at install count `r` - the order the code avoids.
-/
namespace Setec.Watchers
open Setec.Updater

structure Sys where
  installs : Nat
  ws : List (Nat × State)
  deriving DecidableEq, Repr

inductive Ev
  | install
  | register
  | upd (i : Nat) (e : Updater.Ev)
  | registerLate (r : Nat)
  deriving DecidableEq, Repr

def init : Sys := { installs := 0, ws := [] }

/-- what an install does to one registered updater: `Updater.step _ .install` -/
def installed (w : State) : State :=
  { w with cur := w.cur + 1, pending := true, sinceDrain := w.sinceDrain + 1 }

def step (late : Bool) (s : Sys) : Ev → Option Sys
  | .install => some { installs := s.installs + 1, ws := s.ws.map fun p => (p.1, installed p.2) }
  | .register => some { s with ws := s.ws ++ [(s.installs, Updater.init)] }
  | .upd i e =>
    if e = .install then none else
    match s.ws[i]? with
    | none => none
    | some p =>
      match Updater.step p.2 e with
      | none => none
      | some w' => some { s with ws := s.ws.set i (p.1, w') }
  | .registerLate r =>
    if late = true ∧ r ≤ s.installs then
      -- the initial bytes were read when `r` installs had happened; the watcher exists only now
      some { s with ws := s.ws ++ [(r, { Updater.init with cur := s.installs - r, phase := .read, input := 0 })] }
    else none

def run (late : Bool) (s : Sys) : List Ev → Option Sys
  | [] => some s
  | e :: es => match step late s e with | some s' => run late s' es | none => none

end Setec.Watchers
