import Std.Data.ExtTreeMap
/-
Model of db/kv.go: the versioned store behind `db.DB`.

Every Go `map` is a `Std.ExtTreeMap` (extensional equality, sorted keys).
Each mutating operation takes `saveOk : Bool`, the oracle for `kv.save()`, and
keeps the code's own shape: mutate in memory, save, and on a failed save run the
code's rollback statements (they are separate functions here so that
"rollback restores exactly the pre-state" is a theorem about what the code does,
not a definition).

Version numbers are `Nat` (code: uint32; wrap-around needs 2^32 puts to one
secret and is outside the model, see DESIGN section 4).
-/
namespace Setec.KV
open Std

abbrev Bytes := List UInt8
abbrev VMap := ExtTreeMap Nat Bytes compare

structure Secret where
  versions : VMap
  active : Nat
  latest : Nat

abbrev SMap := ExtTreeMap String Secret compare

structure KV where
  secrets : SMap   -- what the running server serves (kv.secrets)
  gen : Nat        -- write generation (kv.gen)
  disk : SMap      -- clear contents of the database file (what the last successful save wrote)

inductive Err
  | notFound        -- db.ErrNotFound
  | invalidVersion  -- "invalid version"
  | activeVersion   -- "cannot delete active version"
  | saveFailed      -- save() returned an error
  | internal        -- "[unexpected] active secret version missing from DB"
  deriving DecidableEq, Repr

def empty : KV := { secrets := ∅, gen := 0, disk := ∅ }

/-- kv.save(): serialise the whole map, encrypt, atomically replace the file; gen++ only on
success; on failure the file is unchanged (kv.go:222-251; atomicity of the replacement is
`Model.Fs`, C04 part B). -/
def save (kv : KV) (saveOk : Bool) : KV :=
  if saveOk then { kv with gen := kv.gen + 1, disk := kv.secrets } else kv

/-! ### read operations -/

def list (kv : KV) : List String := kv.secrets.keys

def info (kv : KV) (name : String) : Except Err (List Nat × Nat) :=
  match kv.secrets[name]? with
  | none => .error .notFound
  | some s => .ok (s.versions.keys, s.active)

def get (kv : KV) (name : String) : Except Err (Bytes × Nat) :=
  match kv.secrets[name]? with
  | none => .error .notFound
  | some s =>
    match s.versions[s.active]? with
    | none => .error .internal
    | some b => .ok (b, s.active)

def getVersion (kv : KV) (name : String) (v : Nat) : Except Err (Bytes × Nat) :=
  match kv.secrets[name]? with
  | none => .error .notFound
  | some s =>
    match s.versions[v]? with
    | none => .error .notFound
    | some b => .ok (b, v)

/-! ### put (kv.go:323-355) -/

def newSecret (value : Bytes) : Secret :=
  { versions := (∅ : VMap).insert 1 value, active := 1, latest := 1 }

/-- `s.LatestVersion++; s.Versions[s.LatestVersion] = bsValue` -/
def putNewMutate (s : Secret) (value : Bytes) : Secret :=
  { s with versions := s.versions.insert (s.latest + 1) value, latest := s.latest + 1 }

/-- `delete(s.Versions, s.LatestVersion); s.LatestVersion--` -/
def putNewRollback (s : Secret) : Secret :=
  { s with versions := s.versions.erase s.latest, latest := s.latest - 1 }

/-- The dedupe guard.  `guardPresent = true` is the repaired guard
(`cur, ok := s.Versions[s.LatestVersion]; ok && cur == bsValue`);
`false` is the original (`s.Versions[s.LatestVersion] == bsValue`, which reads
the zero value "" for a deleted newest version: defect D2). -/
def dedupe (guardPresent : Bool) (s : Secret) (value : Bytes) : Bool :=
  match s.versions[s.latest]? with
  | some cur => cur == value
  | none => !guardPresent && value == []

def put (guardPresent : Bool) (kv : KV) (name : String) (value : Bytes) (saveOk : Bool) :
    KV × Except Err Nat :=
  match kv.secrets[name]? with
  | none =>
    let kv1 := { kv with secrets := kv.secrets.insert name (newSecret value) }
    let kv2 := save kv1 saveOk
    if saveOk then (kv2, .ok 1)
    else ({ kv2 with secrets := kv2.secrets.erase name }, .error .saveFailed)
  | some s =>
    if dedupe guardPresent s value then (kv, .ok s.latest)
    else
      let s1 := putNewMutate s value
      let kv1 := { kv with secrets := kv.secrets.insert name s1 }
      let kv2 := save kv1 saveOk
      if saveOk then (kv2, .ok s1.latest)
      else ({ kv2 with secrets := kv2.secrets.insert name (putNewRollback s1) }, .error .saveFailed)

/-! ### setActive (kv.go:359-380) -/

def setActive (kv : KV) (name : String) (v : Nat) (saveOk : Bool) : KV × Except Err Unit :=
  if v = 0 then (kv, .error .invalidVersion) else
  match kv.secrets[name]? with
  | none => (kv, .error .notFound)
  | some s =>
    if ¬ v ∈ s.versions then (kv, .error .notFound)
    else if s.active = v then (kv, .ok ())
    else
      let old := s.active
      let s1 := { s with active := v }
      let kv1 := { kv with secrets := kv.secrets.insert name s1 }
      let kv2 := save kv1 saveOk
      if saveOk then (kv2, .ok ())
      else ({ kv2 with secrets := kv2.secrets.insert name { s1 with active := old } }, .error .saveFailed)

/-! ### deleteVersion (kv.go:383-403) -/

def deleteVersion (kv : KV) (name : String) (v : Nat) (saveOk : Bool) : KV × Except Err Unit :=
  if v = 0 then (kv, .error .invalidVersion) else
  match kv.secrets[name]? with
  | none => (kv, .error .notFound)
  | some s =>
    if v = s.active then (kv, .error .activeVersion)
    else match s.versions[v]? with
    | none => (kv, .error .notFound)
    | some old =>
      let s1 := { s with versions := s.versions.erase v }
      let kv1 := { kv with secrets := kv.secrets.insert name s1 }
      let kv2 := save kv1 saveOk
      if saveOk then (kv2, .ok ())
      else ({ kv2 with secrets := kv2.secrets.insert name { s1 with versions := s1.versions.insert v old } },
            .error .saveFailed)

/-! ### deleteSecret (kv.go:406-417) -/

def deleteSecret (kv : KV) (name : String) (saveOk : Bool) : KV × Except Err Unit :=
  match kv.secrets[name]? with
  | none => (kv, .ok ())
  | some s =>
    let kv1 := { kv with secrets := kv.secrets.erase name }
    let kv2 := save kv1 saveOk
    if saveOk then (kv2, .ok ())
    else ({ kv2 with secrets := kv2.secrets.insert name s }, .error .saveFailed)

end Setec.KV
