import Setec.Model.Crypto
import Setec.Model.Json
import Setec.Model.Base64
/-
The clear `persist` document of db/kv.go as text (C03, C05, C18): what `kv.save` marshals
before encrypting and what `openOrCreateKV` unmarshals after decrypting.

    {"Secrets":{"<name>":{"Versions":{"<n>":"<base64>",...},"ActiveVersion":<n>,"LatestVersion":<n>},...}}

`Codec.PTree` is this document as a tree (lists in file order); this file is its text layer:
names and version keys as JSON strings (`Json.quote`), values as base64 text
(`byteString.MarshalText`), numbers in decimal.  The order of map entries is encoding/json's
(keys sorted as strings - so version "10" precedes "2"); the reader does not depend on it.
-/
namespace Setec.DBText
open Setec.Json Setec.Codec

/-! ### generic comma-separated lists -/

def renderList {α} (f : α → Str) : List α → Str
  | [] => []
  | [a] => f a
  | a :: b :: rest => f a ++ ',' :: renderList f (b :: rest)

def readItems {α} (item : Str → Option (α × Str)) (close : Char) : Nat → Str → Option (List α × Str)
  | 0, _ => none
  | fuel + 1, s =>
    match item s with
    | some (a, c :: rest) =>
      if c = ',' then (readItems item close fuel rest).map fun (as, r) => (a :: as, r)
      else if c = close then some ([a], rest) else none
    | _ => none

/-- zero or more items up to and including the closing bracket -/
def readList {α} (item : Str → Option (α × Str)) (close : Char) (s : Str) : Option (List α × Str) :=
  match s with
  | [] => none
  | c :: rest => if c = close then some ([], rest) else readItems item close s.length s

/-! ### the document -/

def kVersions : Str := ":{\"Versions\":{".toList
def kActive : Str := ",\"ActiveVersion\":".toList
def kLatest : Str := ",\"LatestVersion\":".toList
def kOpen : Str := "{\"Secrets\":{".toList

def renderVersion (kv : String × KV.Bytes) : Str :=
  quote kv.1.toList ++ (':' :: '"' :: (Base64.encode kv.2 ++ ['"']))

def renderSecret (e : String × PSecret) : Str :=
  quote e.1.toList ++ (kVersions ++ (renderList renderVersion e.2.versions ++ ('}' :: (kActive ++ (digits e.2.active ++
    (kLatest ++ (digits e.2.latest ++ ['}'])))))))

def renderTree (t : PTree) : Str := kOpen ++ (renderList renderSecret t ++ ['}', '}'])

/-- the characters up to the next double quote -/
def spanQuote : Str → Str × Str
  | [] => ([], [])
  | c :: rest => if c = '"' then ([], c :: rest) else let (a, b) := spanQuote rest; (c :: a, b)

def readVersion (s : Str) : Option ((String × KV.Bytes) × Str) :=
  (readQuoted s).bind fun (k, s) =>
  (strip [':', '"'] s).bind fun s =>
  let (b64, s) := spanQuote s
  (Base64.decode b64).bind fun v =>
  (strip ['"'] s).map fun s => ((String.ofList k, v), s)

def readSecret (s : Str) : Option ((String × PSecret) × Str) :=
  (readQuoted s).bind fun (name, s) =>
  (strip kVersions s).bind fun s =>
  (readList readVersion '}' s).bind fun (vs, s) =>
  (strip kActive s).bind fun s =>
  (readNat s).bind fun (act, s) =>
  (strip kLatest s).bind fun s =>
  (readNat s).bind fun (lat, s) =>
  (strip ['}'] s).map fun s => ((String.ofList name, { versions := vs, active := act, latest := lat }), s)

def readTree (s : Str) : Option PTree :=
  (strip kOpen s).bind fun s =>
  (readList readSecret '}' s).bind fun (t, s) =>
  if s = ['}'] then some t else none

/-- `kv.save`'s clear bytes for contents `m` (entries in the tree's order) and the inverse -/
def decodeText (s : Str) : Option KV.SMap := (readTree s).bind decode

end Setec.DBText
