import Setec.Model.KV
/-
Model of `tailscale.com/atomicfile.WriteFile` (the dependency used by kv.save and
FileCache.Write) as a sequence of file-system calls over a two-object file system: the
live file (`target`) and the temporary file next to it (`tmp`).

  stat target; CreateTemp(dir(target), base(target)+".tmp*") 0600; Write(data) [any split
  into chunks]; Chmod(perm); Sync; Close; rename(tmp, target)
  on any error: Close; Remove(tmp)

Trusted: the kernel (rename(2) replaces the target atomically; the effects of completed
system calls of a killed process persist).  The code of atomicfile is not translated; its
system-call sequence is traced on every run and compared with `atomicWrite`.
-/
namespace Setec.Fs
open Setec.KV

structure TmpFile where
  content : Bytes
  mode : Nat
  synced : Bool       -- everything written so far has been fsync'ed
  deriving DecidableEq, Repr

structure St where
  target : Option (Bytes × Nat)     -- live file: content and mode; none = absent
  tmp : Option TmpFile
  deriving DecidableEq, Repr

inductive Call
  | openTmp (mode : Nat)
  | write (chunk : Bytes)
  | chmod (mode : Nat)
  | fsync
  | close
  | rename
  | unlinkTmp
  deriving DecidableEq, Repr

def exec (s : St) : Call → St
  | .openTmp m => { s with tmp := some { content := [], mode := m, synced := true } }
  | .write c => { s with tmp := s.tmp.map fun t => { t with content := t.content ++ c, synced := false } }
  | .chmod m => { s with tmp := s.tmp.map fun t => { t with mode := m } }
  | .fsync => { s with tmp := s.tmp.map fun t => { t with synced := true } }
  | .close => s
  | .rename => match s.tmp with
    | some t => { target := some (t.content, t.mode), tmp := none }
    | none => s
  | .unlinkTmp => { s with tmp := none }

def execs (s : St) (cs : List Call) : St := cs.foldl exec s

/-- the calls of one successful WriteFile; `chunks` is any split of the data -/
def atomicWrite (chunks : List Bytes) (perm : Nat) : List Call :=
  [.openTmp 0o600] ++ chunks.map .write ++ [.chmod perm, .fsync, .close, .rename]

/-- what the code does when call number `i` fails: the calls before it, then Close and
Remove of the temporary file (a failed CreateTemp has nothing to clean up) -/
def failAt (chunks : List Bytes) (perm : Nat) (i : Nat) : List Call :=
  (atomicWrite chunks perm).take i ++ (if i = 0 then [] else [.close, .unlinkTmp])

end Setec.Fs
