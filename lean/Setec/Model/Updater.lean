/-
Small-step model of setec.Updater / watcher (client/setec/store.go:748-810, watcher.go).

One watched secret, one updater.  The store side is the counter `cur` of installs (install
k makes the bytes of install k current).  An install sets the value and notifies every
watcher of the name under the store lock: one atomic step that sets `pending` (the
one-slot channel; a second notification while the slot is full is dropped).
`Updater.Get` holds the updater's own mutex, so Gets of one updater are serialised; its
three sub-steps - drain the channel, read the secret's current bytes, build and swap - can
be interleaved with installs.  Several updaters on one secret evolve independently given
`cur`, so one is modelled.
-/
namespace Setec.Updater

inductive Phase
  | registered     -- watcher registered (under the store lock), initial value not yet read
  | idle           -- no Get in progress
  | drained        -- Get took the notification, has not read the secret yet
  | read           -- Get has read the current bytes (install index `input`) and is building
  deriving DecidableEq, Repr

structure State where
  cur : Nat            -- index of the latest install (0 = value present at registration)
  pending : Bool       -- a notification is waiting in the channel
  phase : Phase
  input : Nat          -- install index read by the rebuild in progress
  lastRead : Nat       -- install index read by the last completed (re)build attempt
  valueSrc : Nat       -- install index the current value was built from
  valueId : Nat        -- identity of the current value
  nextId : Nat         -- fresh identities
  err : Bool           -- the last rebuild failed
  closed : List Nat    -- identities of values that have been closed
  builds : Nat         -- how often the builder ran
  sinceDrain : Nat     -- installs since the last drain (or since registration)
  deriving DecidableEq, Repr

inductive Ev
  | install            -- the store installs a new version and notifies
  | initRead           -- NewUpdater reads the current bytes for the initial value
  | initBuild          -- ... and builds it (failure = NewUpdater returns an error; not modelled further)
  | drain              -- Get: select on the channel; finds a token or not
  | readCur            -- Get: w.Get()
  | build (ok : Bool)  -- Get: newValue(...) succeeds or fails
  deriving DecidableEq, Repr

def init : State :=
  { cur := 0, pending := false, phase := .registered, input := 0, lastRead := 0, valueSrc := 0,
    valueId := 0, nextId := 1, err := false, closed := [], builds := 0, sinceDrain := 0 }

/-- `none`: the event is not enabled in this state -/
def step (s : State) : Ev → Option State
  | .install => some { s with cur := s.cur + 1, pending := true, sinceDrain := s.sinceDrain + 1 }
  | .initRead => if s.phase = .registered then some { s with phase := .read, input := s.cur } else none
  | .initBuild =>
    if s.phase = .read ∧ s.builds = 0 ∧ s.valueId = 0 ∧ s.nextId = 1 then
      some { s with phase := .idle, lastRead := s.input, valueSrc := s.input, valueId := 1, nextId := 2, builds := 1 }
    else none
  | .drain =>
    if s.phase = .idle then
      (if s.pending then some { s with pending := false, phase := .drained, sinceDrain := 0 }
       else some s)        -- no change: Get returns the existing value
    else none
  | .readCur => if s.phase = .drained then some { s with phase := .read, input := s.cur } else none
  | .build ok =>
    if s.phase = .read ∧ s.valueId ≠ 0 then
      (if ok then
        some { s with phase := .idle, lastRead := s.input, valueSrc := s.input, closed := s.valueId :: s.closed,
                      valueId := s.nextId, nextId := s.nextId + 1, err := false, builds := s.builds + 1 }
       else
        some { s with phase := .idle, lastRead := s.input, err := true, builds := s.builds + 1 })
    else none

def run (s : State) : List Ev → Option State
  | [] => some s
  | e :: es => match step s e with | some s' => run s' es | none => none

end Setec.Updater
