/-
Model of Store.lookupSecretInternal (client/setec/store.go:369-416) for one secret name:
concurrent callers with their own contexts, one in-flight request at a time
(golang.org/x/sync/singleflight, trusted), retry only when the flight was ended by
someone else's context, and the five-minute safety limit for callers without a deadline.

Discrete-event simulation over a virtual millisecond clock.  `Mode` selects between the
repaired code (safety limit applied once per caller, waiting with select on the caller's
own context) and the original (safety limit per flight, blocking singleflight.Do).
Hypothesis: the client returns when its context ends.
-/
namespace Setec.Lookup

inductive Res
  | handle      -- a working handle
  | failed      -- the service reported an error (no automatic retry)
  | ctx         -- the caller's context ended
  deriving DecidableEq, Repr

/-- what the service does with one request -/
inductive Svc
  | answer (latency : Nat)
  | fail (latency : Nat)
  | failCtx (latency : Nat)   -- fails with an error that wraps a context error although every context is alive
                              -- (the client's own per-request timeout)
  | hang
  deriving DecidableEq, Repr

structure Mode where
  perCaller : Bool     -- the safety limit bounds the caller (true) or each flight (false)
  select : Bool        -- a waiter leaves when its own context ends (true) or blocks until the flight ends
  fallback : Nat       -- the safety limit in ms
  ownFailureIsFailure : Bool := true
                       -- a request that failed with a context-flavoured error while its governing context
                       -- is alive is reported as a failed lookup (true, the code after the repair of D8) or
                       -- taken for somebody else's cancellation and retried (false, the code before)

def Mode.repaired : Mode := { perCaller := true, select := true, fallback := 300000 }
def Mode.original : Mode := { perCaller := false, select := false, fallback := 300000 }
/-- the code between the repairs of D6 and D8 -/
def Mode.beforeD8 : Mode := { perCaller := true, select := true, fallback := 300000, ownFailureIsFailure := false }

structure Caller where
  start : Nat
  deadline : Option Nat     -- the context carries a deadline
  cancelAt : Option Nat     -- the context is cancelled at this time (no deadline information)
  deriving DecidableEq, Repr

def omin : Option Nat → Option Nat → Option Nat
  | none, b => b
  | a, none => a
  | some a, some b => some (min a b)

/-- when the caller's own context (as the code sees it) ends -/
def Caller.ownEnd (m : Mode) (c : Caller) : Option Nat :=
  let base := omin c.deadline c.cancelAt
  if m.perCaller && c.deadline.isNone then omin base (some (c.start + m.fallback)) else base

inductive Status
  | notStarted
  | waiting
  | done (t : Nat) (r : Res)
  deriving DecidableEq, Repr

structure Flight where
  owner : Nat
  ends : Nat
  res : Res          -- handle = the request succeeded; failed; ctx = the flight's context ended
  deriving DecidableEq, Repr

structure State where
  now : Nat
  callers : List (Caller × Status)
  flight : Option Flight
  script : List Svc          -- behaviour of the service for the coming requests
  installed : Bool           -- the secret is in the store
  requests : List Nat        -- start times of the requests sent so far
  deriving Repr

def alive (m : Mode) (c : Caller) (t : Nat) : Bool :=
  match c.ownEnd m with | some e => t < e | none => true

/-- start a flight owned by caller `i` at time `t` -/
def startFlight (m : Mode) (i : Nat) (c : Caller) (t : Nat) (script : List Svc) : Flight × List Svc :=
  let ctxEnd : Option Nat :=
    if m.perCaller then c.ownEnd m
    else (match c.deadline with
          | some d => omin (some d) c.cancelAt
          | none => omin (some (t + m.fallback)) c.cancelAt)
  let (b, rest) := match script with | [] => (Svc.hang, []) | b :: r => (b, r)
  let natural : Option (Nat × Res) := match b with
    | .answer l => some (t + l, .handle)
    | .fail l => some (t + l, .failed)
    | .failCtx l => some (t + l, if m.ownFailureIsFailure then .failed else .ctx)
    | .hang => none
  let f : Flight := match natural, ctxEnd with
    | some (e, r), some ce => if e ≤ ce then { owner := i, ends := e, res := r } else { owner := i, ends := ce, res := .ctx }
    | some (e, r), none => { owner := i, ends := e, res := r }
    | none, some ce => { owner := i, ends := ce, res := .ctx }
    | none, none => { owner := i, ends := t + 1000000000, res := .ctx }   -- never (no context end at all)
  (f, rest)

/-- the next instant at which something happens -/
def nextTime (m : Mode) (s : State) : Option Nat :=
  let starts := s.callers.filterMap fun (c, st) => if st == .notStarted then some c.start else none
  let ends := if m.select then s.callers.filterMap (fun (c, st) => if st == .waiting then c.ownEnd m else none) else []
  let fl := match s.flight with | some f => [f.ends] | none => []
  (starts ++ ends ++ fl).foldl (fun acc t => match acc with | none => some t | some a => some (min a t)) none

/-- the result of the flight if it ends exactly at `t` -/
def flightEnded (s : State) (t : Nat) : Option Res :=
  match s.flight with
  | some f => if f.ends == t then some f.res else none
  | none => none

/-- what happens to one caller at time `t` -/
def newStatus (m : Mode) (ended : Option Res) (installed : Bool) (t : Nat) (c : Caller) : Status → Status
  | .done t' r => .done t' r
  | .waiting =>
    match ended with
    | some .handle => .done t .handle
    | some .failed => .done t .failed
    | e =>
      -- the caller's own context has ended: with select it leaves at once; with the blocking
      -- Do it only finds out when the flight ends
      if !alive m c t && (m.select || e == some .ctx) then .done t .ctx else .waiting
  | .notStarted =>
    if c.start == t then
      (if installed then .done t .handle
       else if !m.select || alive m c t then .waiting else .done t .ctx)
    else .notStarted

/-- process everything that happens at time `t`: the flight may end; waiters return, leave or
stay; new callers arrive; if someone is waiting and no flight is running, the first waiter
starts one -/
def stepAt (m : Mode) (s : State) (t : Nat) : State :=
  let ended := flightEnded s t
  let installed := s.installed || ended == some .handle
  let callers := s.callers.map fun (c, st) => (c, newStatus m ended installed t c st)
  let flight := if ended.isSome then none else s.flight
  match flight with
  | some f => { s with now := t, callers := callers, flight := some f, installed := installed }
  | none =>
    match (callers.zipIdx.find? fun ((_, st), _) => st == .waiting) with
    | some ((c, _), i) =>
      let (f, rest) := startFlight m i c t s.script
      { now := t, callers := callers, flight := some f, script := rest, installed := installed, requests := s.requests ++ [t] }
    | none => { s with now := t, callers := callers, flight := none, installed := installed }

def run (m : Mode) : Nat → State → State
  | 0, s => s
  | fuel + 1, s =>
    match nextTime m s with
    | none => s
    | some t => run m fuel (stepAt m s t)

def init (cs : List Caller) (script : List Svc) : State :=
  { now := 0, callers := cs.map (·, .notStarted), flight := none, script := script, installed := false, requests := [] }

end Setec.Lookup
