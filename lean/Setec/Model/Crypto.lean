import Setec.Model.KV
import Std.Data.String.ToNat
/-
Model of the persistence layer of db/kv.go (lines 24-251).

* `Codec`: the clear `persist` document at JSON-tree level: an object keyed by secret name
  whose values carry `Versions` (object keyed by the *decimal* version number, values =
  the bytes, base64 in the text), `ActiveVersion`, `LatestVersion`.  The text layer
  (encoding/json, encoding/base64) is trusted and exercised by the harness, which parses
  the decrypted file with the documented layout independently of package db.
* `Crypto`: an ideal (symbolic) AEAD: a ciphertext is the triple (key, associated data,
  plaintext); decryption succeeds iff key and associated data agree.  tink's
  `testutil.DummyAEAD` is literally this; real AES-GCM / XChaCha20-Poly1305 are assumed to
  behave like it (cryptographic strength is assumed, not shown).
-/
namespace Setec.Codec
open Std Setec.KV

structure PSecret where
  versions : List (String × Bytes)   -- JSON object: decimal key -> bytes
  active : Nat
  latest : Nat
  deriving DecidableEq

abbrev PTree := List (String × PSecret)   -- the "Secrets" object

def encSecret (s : Secret) : PSecret :=
  { versions := s.versions.toList.map (fun kb => (Nat.repr kb.1, kb.2)), active := s.active, latest := s.latest }

def decVersions : List (String × Bytes) → Option (List (Nat × Bytes))
  | [] => some []
  | (k, b) :: rest =>
    match k.toNat?, decVersions rest with
    | some n, some xs => some ((n, b) :: xs)
    | _, _ => none

def decSecret (p : PSecret) : Option Secret :=
  match decVersions p.versions with
  | some xs => some { versions := ExtTreeMap.ofList xs compare, active := p.active, latest := p.latest }
  | none => none

def encode (m : SMap) : PTree := m.toList.map (fun ns => (ns.1, encSecret ns.2))

def decEntries : PTree → Option (List (String × Secret))
  | [] => some []
  | (n, p) :: rest =>
    match decSecret p, decEntries rest with
    | some s, some xs => some ((n, s) :: xs)
    | _, _ => none

def decode (t : PTree) : Option SMap :=
  match decEntries t with
  | some xs => some (ExtTreeMap.ofList xs compare)
  | none => none

end Setec.Codec

namespace Setec.Crypto
open Std Setec.KV Setec.Codec

/-- ideal AEAD ciphertext -/
structure Sealed (α : Type) where
  key : Nat
  ad : String
  plain : α

def aeadEnc {α} (k : Nat) (ad : String) (p : α) : Sealed α := ⟨k, ad, p⟩
def aeadDec {α} (k : Nat) (ad : String) (c : Sealed α) : Option α :=
  if c.key = k ∧ c.ad = ad then some c.plain else none

/-- the on-disk wrapper (`wrapped` in kv.go) -/
structure File where
  version : Nat
  dek : Sealed Nat        -- the data key (an identifier), wrapped under the caller's key
  db : Sealed PTree       -- the persist document, sealed under the data key

def adDEK (prefixDEK : String) (v : Nat) : String := prefixDEK ++ Nat.repr v
def adDB (prefixDB : String) (v : Nat) : String := prefixDB ++ Nat.repr v

structure Layout where
  schemaVersion : Nat
  prefixDEK : String     -- "setec DEK v"
  prefixDB : String      -- "setec database v"

def Layout.v1 : Layout := { schemaVersion := 1, prefixDEK := "setec DEK v", prefixDB := "setec database v" }

/-- kv.save(): what is written for contents `m` by a database whose data key is `dek` -/
def fileOf (L : Layout) (kek dek : Nat) (m : SMap) : File :=
  { version := L.schemaVersion,
    dek := aeadEnc kek (adDEK L.prefixDEK L.schemaVersion) dek,
    db := aeadEnc dek (adDB L.prefixDB L.schemaVersion) (encode m) }

/-- openOrCreateKV on an existing file: version check, unwrap the data key with the
caller's key, decrypt, decode.  Returns the data key and the contents. -/
def openFile (L : Layout) (kek : Nat) (f : File) : Option (Nat × SMap) :=
  if f.version ≠ 1 then none else
  match aeadDec kek (adDEK L.prefixDEK f.version) f.dek with
  | none => none
  | some dek =>
    match aeadDec dek (adDB L.prefixDB f.version) f.db with
    | none => none
    | some t =>
      match decode t with
      | none => none
      | some m => some (dek, m)

end Setec.Crypto
