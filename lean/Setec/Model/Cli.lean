import Setec.Model.KV
/-
Model of the text policy of `setec put` (cmd/setec/setec.go:378-448, 549-565):
`checkPutText` followed by the empty-value check.  `valid` is utf8.Valid(value) and
`trimmed` is bytes.TrimSpace(value) (Unicode White_Space); both are Go standard-library
functions, trusted, and computed by the harness on the same input.
-/
namespace Setec.Cli
open Setec.KV

structure Flags where
  verbatim : Bool
  trimSpace : Bool
  emptyOK : Bool
  deriving DecidableEq, Repr

inductive Outcome
  | send (value : Bytes)     -- exactly these bytes are put
  | refuse                   -- nothing is sent, non-zero exit
  deriving DecidableEq, Repr

/-- checkPutText -/
def checkPutText (valid : Bool) (value trimmed : Bytes) (f : Flags) : Option Bytes :=
  if !valid then some value
  else if trimmed.length = value.length then some value
  else if f.verbatim then some value
  else if f.trimSpace then some trimmed
  else none

/-- the file / pipe branch of runPut -/
def put (valid : Bool) (value trimmed : Bytes) (f : Flags) : Outcome :=
  match checkPutText valid value trimmed f with
  | none => .refuse
  | some v => if v.length = 0 && !f.emptyOK then .refuse else .send v

end Setec.Cli
