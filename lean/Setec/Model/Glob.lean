/-
Model of `acl.Secret.Match` (acl/acl.go:48-68).

The code splits the pattern on '*', regexp-quotes the pieces, joins them with
".*", anchors the result with ^...$ and runs Go's regexp matcher.  Go's `.`
matches any character except '\n' unless flag `s` is set; the flag is the
parameter `dotNL` here and is extracted from the source (Generated/Facts.lean).

Trusted: Go regexp semantics for the fragment  ^ lit (.* lit)* $  and
`regexp.QuoteMeta` (quoted pieces match themselves literally).
-/
namespace Setec.Glob

/-- `strings.Split(s, "*")` -/
def splitStar : List Char → List (List Char)
  | [] => [[]]
  | c :: cs =>
    if c = '*' then [] :: splitStar cs
    else match splitStar cs with
         | [] => [[c]]
         | p :: ps => (c :: p) :: ps

/-- what regexp `.` accepts -/
def dotOk (dotNL : Bool) (c : Char) : Bool := dotNL || c != '\n'

/-- `.*l` followed by continuation `k` on the rest -/
def scan (dotNL : Bool) (l : List Char) (k : List Char → Bool) : List Char → Bool
  | [] => l.isPrefixOf [] && k (List.drop l.length [])
  | c :: s' => (l.isPrefixOf (c :: s') && k ((c :: s').drop l.length)) ||
               (dotOk dotNL c && scan dotNL l k s')

/-- `.*l1 ... .*ln$` -/
def matchTail (dotNL : Bool) : List (List Char) → List Char → Bool
  | [], s => s.isEmpty
  | l :: ls, s => scan dotNL l (matchTail dotNL ls) s

/-- `^l0.*l1 ... .*ln$` -/
def reMatch (dotNL : Bool) : List (List Char) → List Char → Bool
  | [], _ => false
  | l :: ls, s => l.isPrefixOf s && matchTail dotNL ls (s.drop l.length)

/-- `acl.Secret.Match` -/
def implMatch (dotNL : Bool) (pat val : List Char) : Bool :=
  if !pat.contains '*' && pat == val then true else reMatch dotNL (splitStar pat) val

end Setec.Glob
