/-
Standard base64 with padding (RFC 4648 section 4), as encoding/base64.StdEncoding: the text
layer of every secret value in JSON (database file, API, cache).  Arithmetic is on `Nat`
sextets so that the reassembly lemmas are linear arithmetic.
-/
namespace Setec.Base64

def alphabet : List Char :=
  "ABCDEFGHIJKLMNOPQRSTUVWXYZabcdefghijklmnopqrstuvwxyz0123456789+/".toList

def encChar (n : Nat) : Char := alphabet.getD n 'A'

def decChar (c : Char) : Option Nat :=
  let i := alphabet.findIdx (· == c)
  if i < 64 then some i else none

def encode : List UInt8 → List Char
  | a :: b :: c :: rest =>
    encChar (a.toNat / 4) :: encChar ((a.toNat % 4) * 16 + b.toNat / 16) ::
    encChar ((b.toNat % 16) * 4 + c.toNat / 64) :: encChar (c.toNat % 64) :: encode rest
  | [a, b] =>
    [encChar (a.toNat / 4), encChar ((a.toNat % 4) * 16 + b.toNat / 16), encChar ((b.toNat % 16) * 4), '=']
  | [a] => [encChar (a.toNat / 4), encChar ((a.toNat % 4) * 16), '=', '=']
  | [] => []

def decode : List Char → Option (List UInt8)
  | [] => some []
  | w :: x :: y :: z :: rest =>
    if z = '=' then
      if !rest.isEmpty then none
      else if y = '=' then
        match decChar w, decChar x with
        | some w, some x => some [UInt8.ofNat (w * 4 + x / 16)]
        | _, _ => none
      else
        match decChar w, decChar x, decChar y with
        | some w, some x, some y => some [UInt8.ofNat (w * 4 + x / 16), UInt8.ofNat ((x % 16) * 16 + y / 4)]
        | _, _, _ => none
    else
      match decChar w, decChar x, decChar y, decChar z, decode rest with
      | some w, some x, some y, some z, some r =>
        some (UInt8.ofNat (w * 4 + x / 16) :: UInt8.ofNat ((x % 16) * 16 + y / 4) :: UInt8.ofNat ((y % 4) * 64 + z) :: r)
      | _, _, _, _, _ => none
  | _ => none

end Setec.Base64
