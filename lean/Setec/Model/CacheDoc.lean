import Setec.Model.Store
import Setec.Model.Json
import Setec.Model.Base64
/-
The cache document as bytes (C13, C18): what `flushCacheLocked` hands to `Cache.Write` -
`json.Marshal(map[string]*cachedSecret)` - and a reader for that layout.

    {"<name>":{"secret":{"Value":"<base64>","Version":<n>},"lastAccess":"<int>"}, ...}

Keys in ascending order (encoding/json sorts map keys; on valid UTF-8 the byte order is the
code point order, which is `compare` on `String`), names escaped as JSON strings (`Json.quote`),
values in standard padded base64 (`Base64.encode`), the access time as a quoted decimal
(`json:",string"`).  A nil `Value` is written `null` by Go; the model has no nil/empty
distinction and the correspondence check normalises it to `""`.
-/
namespace Setec.CacheDoc
open Std Setec.Json Setec.Store

def kSecretValue : Str := ":{\"secret\":{\"Value\":\"".toList
def kVersion : Str := "\",\"Version\":".toList
def kLastAccess : Str := "},\"lastAccess\":\"".toList
def kEnd : Str := "\"}".toList

def intDigits (i : Int) : Str := if i < 0 then '-' :: digits i.natAbs else digits i.natAbs

def renderEntry (e : String × (SV × Int)) : Str :=
  quote e.1.toList ++ (kSecretValue ++ (Base64.encode e.2.1.value ++ (kVersion ++ (digits e.2.1.version ++
    (kLastAccess ++ (intDigits e.2.2 ++ kEnd))))))

def renderEntries : List (String × (SV × Int)) → Str
  | [] => []
  | [e] => renderEntry e
  | e :: f :: rest => renderEntry e ++ ',' :: renderEntries (f :: rest)

def renderDoc (d : Doc) : Str := '{' :: (renderEntries d.toList ++ ['}'])

/-! ### reader -/

def isB64 (c : Char) : Bool := c != '"'

/-- the characters up to the next double quote -/
def spanQuote : Str → Str × Str
  | [] => ([], [])
  | c :: rest => if c = '"' then ([], c :: rest) else let (a, b) := spanQuote rest; (c :: a, b)

def readInt (s : Str) : Option (Int × Str) :=
  match s with
  | '-' :: rest => (readNat rest).map fun (n, r) => (-(n : Int), r)
  | _ => (readNat s).map fun (n, r) => ((n : Int), r)

def readEntry (s : Str) : Option ((String × (SV × Int)) × Str) :=
  (readQuoted s).bind fun (name, s) =>
  (strip kSecretValue s).bind fun s =>
  let (b64, s) := spanQuote s
  (Base64.decode b64).bind fun value =>
  (strip kVersion s).bind fun s =>
  (readNat s).bind fun (ver, s) =>
  (strip kLastAccess s).bind fun s =>
  (readInt s).bind fun (la, s) =>
  (strip kEnd s).map fun s => ((String.ofList name, ({ value := value, version := ver }, la)), s)

def readEntries : Nat → Str → Option (List (String × (SV × Int)) × Str)
  | 0, _ => none
  | fuel + 1, s =>
    match readEntry s with
    | some (e, c :: rest) =>
      if c = ',' then (readEntries fuel rest).map fun (es, r) => (e :: es, r)
      else if c = '}' then some ([e], rest) else none
    | _ => none

def readDoc (s : Str) : Option Doc :=
  match s with
  | '{' :: rest =>
    if rest = ['}'] then some ∅
    else match readEntries rest.length rest with
      | some (es, []) => some (ExtTreeMap.ofList es compare)
      | _ => none
  | _ => none

end Setec.CacheDoc
