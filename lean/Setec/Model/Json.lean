/-
The audit record as bytes on the log (C06: "one complete JSON line naming the caller's
identity, the action, the secret (and version where one was given) and whether it was
authorized").

`escape` is encoding/json's `appendString` with HTML escaping on (what `json.Encoder` uses by
default, and `audit.Writer` does not switch off); `renderRecord` is the field layout of
`audit.Entry`/`audit.Principal` (struct order, `omitempty` on user, tags, secret and
secretVersion).  The random id and the timestamp that `WriteEntries` stamps on the entry are
rendered from the observed values (`id` digits, RFC 3339 text): they contain no character
that needs escaping.  Strings are sequences of Unicode scalar values: a Go string that is not
valid UTF-8 is outside the model (names, hostnames and users reach the server through
`encoding/json` decoding or Tailscale's WhoIs, both of which deliver valid UTF-8).
-/
namespace Setec.Json

abbrev Str := List Char

def hexDigit (n : Nat) : Char :=
  if n < 10 then Char.ofNat (48 + n) else if n < 16 then Char.ofNat (87 + n) else '?'

/-- one character of a JSON string body, as Go writes it -/
def escapeChar (c : Char) : Str :=
  if c = '"' then ['\\', '"']
  else if c = '\\' then ['\\', '\\']
  else if c = Char.ofNat 8 then ['\\', 'b']
  else if c = Char.ofNat 12 then ['\\', 'f']
  else if c = '\n' then ['\\', 'n']
  else if c = '\r' then ['\\', 'r']
  else if c = '\t' then ['\\', 't']
  else if c.toNat < 32 ∨ c = '<' ∨ c = '>' ∨ c = '&' then
    ['\\', 'u', '0', '0', hexDigit (c.toNat / 16), hexDigit (c.toNat % 16)]
  else if c = Char.ofNat 0x2028 then ['\\', 'u', '2', '0', '2', '8']
  else if c = Char.ofNat 0x2029 then ['\\', 'u', '2', '0', '2', '9']
  else [c]

def escape : Str → Str
  | [] => []
  | c :: cs => escapeChar c ++ escape cs

def quote (s : Str) : Str := '"' :: (escape s ++ ['"'])

/-! ### the reader's side: what any JSON parser recovers from a string token -/

def hexVal (c : Char) : Option Nat :=
  if 48 ≤ c.toNat ∧ c.toNat ≤ 57 then some (c.toNat - 48)
  else if 97 ≤ c.toNat ∧ c.toNat ≤ 102 then some (c.toNat - 87)
  else if 65 ≤ c.toNat ∧ c.toNat ≤ 70 then some (c.toNat - 55)
  else none

def hex4 (a b c d : Char) : Option Nat :=
  match hexVal a, hexVal b, hexVal c, hexVal d with
  | some a, some b, some c, some d => some (((a * 16 + b) * 16 + c) * 16 + d)
  | _, _, _, _ => none

def unesc1 (e : Char) : Option Char :=
  if e = '"' then some '"' else if e = '\\' then some '\\' else if e = '/' then some '/'
  else if e = 'b' then some (Char.ofNat 8) else if e = 'f' then some (Char.ofNat 12)
  else if e = 'n' then some '\n' else if e = 'r' then some '\r' else if e = 't' then some '\t'
  else none

def consFst (c : Char) (r : Option (Str × Str)) : Option (Str × Str) := r.map fun (s, rest) => (c :: s, rest)

def onHex (h : Option Nat) (k : Option (Str × Str)) : Option (Str × Str) :=
  match h with
  | some n => consFst (Char.ofNat n) k
  | none => none

def onEsc (h : Option Char) (k : Option (Str × Str)) : Option (Str × Str) :=
  match h with
  | some ch => consFst ch k
  | none => none

/-- read a JSON string body up to its closing quote: the decoded text and what follows.
Raw control characters are rejected, as every JSON parser does. -/
def readString : Str → Option (Str × Str)
  | [] => none
  | c :: rest =>
    if c = '"' then some ([], rest)
    else if c = '\\' then
      match rest with
      | [] => none
      | e :: rest' =>
        if e = 'u' then
          match rest' with
          | a :: b :: c2 :: d :: rest'' => onHex (hex4 a b c2 d) (readString rest'')
          | _ => none
        else onEsc (unesc1 e) (readString rest')
    else if c.toNat < 32 then none
    else consFst c (readString rest)

/-- a quoted string token -/
def readQuoted : Str → Option (Str × Str)
  | '"' :: rest => readString rest
  | _ => none

/-! ### the record -/

structure Principal where
  hostname : Str
  ip : Str            -- netip.Addr's text form ("" for the zero address): digits, '.', ':', hex
  user : Str
  tags : List Str
  deriving DecidableEq, Repr

structure Record where
  principal : Principal
  action : Str
  authorized : Bool
  secret : Str
  version : Nat
  deriving DecidableEq, Repr

def digitChar (d : Nat) : Char := Char.ofNat (48 + d)

/-- decimal digits, most significant first (strconv.AppendUint) -/
def digits (n : Nat) : Str :=
  if _h : n < 10 then [digitChar n] else digits (n / 10) ++ [digitChar (n % 10)]
termination_by n
decreasing_by omega

def joinComma : List Str → Str
  | [] => []
  | [x] => x
  | x :: y :: rest => x ++ ',' :: joinComma (y :: rest)

def kHost : Str := "{\"hostname\":".toList
def kIp : Str := ",\"ip\":".toList
def kUser : Str := ",\"user\":".toList
def kTags : Str := ",\"tags\":[".toList
def kPrincipal : Str := ",\"principal\":".toList
def kAction : Str := ",\"action\":".toList
def kAuthorized : Str := ",\"authorized\":".toList
def kTrue : Str := "true".toList
def kFalse : Str := "false".toList
def kSecret : Str := ",\"secret\":".toList
def kVersion : Str := ",\"secretVersion\":".toList
def kId : Str := "{\"id\":".toList
def kTime : Str := ",\"time\":".toList

def renderPrincipal (p : Principal) : Str :=
  kHost ++ (quote p.hostname ++ (kIp ++ (quote p.ip ++
  ((if p.user = [] then [] else kUser ++ quote p.user) ++
  ((if p.tags = [] then [] else kTags ++ (joinComma (p.tags.map quote) ++ [']'])) ++ ['}'])))))

/-- the part of the line after the id and time fields -/
def renderTail (r : Record) (rest : Str) : Str :=
  kPrincipal ++ (renderPrincipal r.principal ++
  (kAction ++ (quote r.action ++
  (kAuthorized ++ ((if r.authorized then kTrue else kFalse) ++
  ((if r.secret = [] then [] else kSecret ++ quote r.secret) ++
  ((if r.version = 0 then [] else kVersion ++ digits r.version) ++ ('}' :: rest))))))))

/-- the whole line as `json.Encoder.Encode` writes it, given the stamped id and time text -/
def renderLine (id : Nat) (time : Str) (r : Record) : Str :=
  kId ++ (digits id ++ (kTime ++ (quote time ++ renderTail r ['\n'])))

/-! ### a reader for that layout -/

def strip : Str → Str → Option Str
  | [], s => some s
  | _ :: _, [] => none
  | p :: ps, c :: cs => if p = c then strip ps cs else none

def isDigit (c : Char) : Bool := 48 ≤ c.toNat && c.toNat ≤ 57

def readNatAux (acc : Nat) : Str → Nat × Str
  | [] => (acc, [])
  | c :: rest => if isDigit c then readNatAux (acc * 10 + (c.toNat - 48)) rest else (acc, c :: rest)

/-- a non-empty run of digits -/
def readNat : Str → Option (Nat × Str)
  | [] => none
  | c :: rest => if isDigit c then some (readNatAux 0 (c :: rest)) else none

def readTags : Nat → Str → Option (List Str × Str)
  | 0, _ => none
  | fuel + 1, s =>
    match readQuoted s with
    | some (t, c :: rest) =>
      if c = ',' then (readTags fuel rest).map fun (ts, r) => (t :: ts, r)
      else if c = ']' then some ([t], rest) else none
    | _ => none

def optField (key : Str) (s : Str) : Option (Str × Str) :=
  match strip key s with
  | some s' => readQuoted s'
  | none => some ([], s)

def parsePrincipal (s : Str) : Option (Principal × Str) :=
  (strip kHost s).bind fun s =>
  (readQuoted s).bind fun (host, s) =>
  (strip kIp s).bind fun s =>
  (readQuoted s).bind fun (ip, s) =>
  (optField kUser s).bind fun (user, s) =>
  (match strip kTags s with
   | some s' => readTags s'.length s'
   | none => some ([], s)).bind fun (tags, s) =>
  (strip ['}'] s).map fun s => ({ hostname := host, ip := ip, user := user, tags := tags }, s)

def parseBool (s : Str) : Option (Bool × Str) :=
  match strip kTrue s with
  | some s' => some (true, s')
  | none => (strip kFalse s).map fun s' => (false, s')

def parseTail (s : Str) : Option (Record × Str) :=
  (strip kPrincipal s).bind fun s =>
  (parsePrincipal s).bind fun (p, s) =>
  (strip kAction s).bind fun s =>
  (readQuoted s).bind fun (action, s) =>
  (strip kAuthorized s).bind fun s =>
  (parseBool s).bind fun (auth, s) =>
  (optField kSecret s).bind fun (secret, s) =>
  (match strip kVersion s with
   | some s' => readNat s'
   | none => some (0, s)).bind fun (ver, s) =>
  (strip ['}'] s).map fun s =>
    ({ principal := p, action := action, authorized := auth, secret := secret, version := ver }, s)

def parseLine (s : Str) : Option (Nat × Str × Record × Str) :=
  (strip kId s).bind fun s =>
  (readNat s).bind fun (id, s) =>
  (strip kTime s).bind fun s =>
  (readQuoted s).bind fun (time, s) =>
  (parseTail s).map fun (r, s) => (id, time, r, s)

end Setec.Json
