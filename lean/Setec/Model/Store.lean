import Setec.Model.KV
/-
Model of client/setec/store.go: the active set (`active.m`, handles `active.f`), cache
load/flush, construction with retry/back-off, polling (snapshot / conditional fetch per
name / apply-all-or-nothing), lookup of undeclared names, expiry.

Time: `now` is the injected wall clock in whole seconds (StoreConfig.TimeNow); the retry
loop of construction runs on a separate virtual clock in milliseconds.
Oracles: the order in which Go iterates the map, and every answer of the service.
-/
namespace Setec.Store
open Std Setec.KV

structure SV where
  value : Bytes
  version : Nat
  deriving DecidableEq, Repr

structure CEntry where
  sv : SV
  lastAccess : Int      -- unix seconds; 0 = never (reads as the zero time)
  declared : Bool
  deriving DecidableEq, Repr

abbrev AMap := ExtTreeMap String (Option CEntry) compare     -- none = stub (only during construction)
abbrev Doc := ExtTreeMap String (SV × Int) compare            -- a cache document (a JSON object): name -> value, lastAccess

structure St where
  m : AMap
  handles : List String        -- names for which a handle (active.f) exists
  cache : Option Doc           -- the last document written to the cache (none = nothing written yet)
  hasCache : Bool
  allowLookup : Bool
  expiryAge : Int              -- seconds; ≤ 0 = no expiry

/-- answers of the service to one request -/
inductive Ans
  | value (sv : SV)
  | notChanged
  | notFound
  | fail             -- any other error
  | ctxErr           -- the request's context ended
  deriving DecidableEq, Repr

/-! ### cache -/

/-- what the store finds in its cache at start-up -/
inductive CacheIn
  | absent                   -- no cache configured, empty, or Read failed
  | malformed                -- does not decode, or not the documented shape (empty key, null entry, null secret)
  | doc (d : Doc)

/-- loadCache + json.Unmarshal + isActiveSetValid: all or nothing -/
def loadCache : CacheIn → AMap
  | .absent | .malformed => ∅
  | .doc d => d.map fun _ x => some { sv := x.1, lastAccess := x.2, declared := false }

/-- the document of the whole active set (flushCacheLocked); stubs never occur after construction -/
def docOf (m : AMap) : Doc :=
  m.filterMap fun _ e => e.map fun c => (c.sv, c.lastAccess)

def flush (s : St) : St := if s.hasCache then { s with cache := some (docOf s.m) } else s

/-- the poller's exit path when the store is closed (`case <-ctx.Done()` in run): take the
lock, write the cache, return - unconditionally -/
def shutdown (s : St) : St := flush s

/-! ### construction -/

/-- "stub in" declared names missing from the cache, mark the others declared;
returns the new map and whether a flush is wanted after initialisation -/
def stubDeclared (m : AMap) : List String → AMap × Bool
  | [] => (m, false)
  | n :: rest =>
    match m[n]? with
    | some (some c) =>
      let (m', w) := stubDeclared (m.insert n (some { c with declared := true })) rest
      (m', w)
    | _ =>
      let (m', _) := stubDeclared (m.insert n none) rest
      (m', true)

def missingNames (m : AMap) : List String := m.toList.filterMap fun (n, e) => if e.isNone then some n else none

/-- capped doubling back-off of initializeActive: the wait after round k, in ms -/
def retryWait : Nat → Nat
  | 0 => 1
  | k + 1 => if retryWait k < 4000 then retryWait k + retryWait k else retryWait k

structure InitOut where
  ok : Bool
  elapsedMs : Nat
  rounds : Nat
  m : AMap
  reqs : List (Nat × String × Ans)     -- (time in ms, name, answer) in order

/-- the names one round of initializeActive visits: exactly the still-missing names, in the
order the map iteration produced them (`order` is the oracle; names it omits come last) -/
def visits (m : AMap) (order : List String) : List String :=
  let miss := missingNames m
  (order.eraseDups.filter fun n => miss.contains n) ++ miss.filter fun n => !order.contains n

/-- One round of initializeActive over the names to visit: a value is installed (declared,
stamped now); after any other answer the round stops if the context has ended, else the
name stays missing. -/
def initRound (m : AMap) (now : Int) (ctxDone : Bool) (ans : String → Ans) :
    List String → AMap × Nat × Bool × List (String × Ans)
  | [] => (m, 0, false, [])
  | n :: rest =>
    match ans n with
    | .value sv =>
      let (m', miss, ab, rs) := initRound (m.insert n (some { sv := sv, lastAccess := now, declared := true })) now ctxDone ans rest
      (m', miss, ab, (n, .value sv) :: rs)
    | a =>
      -- `ctx.Err() != nil` after a failed request: the context ended before or during it
      if ctxDone || a == .ctxErr then (m, 0, true, [(n, a)])
      else
        let (m', miss, ab, rs) := initRound m now ctxDone ans rest
        (m', miss + 1, ab, (n, a) :: rs)

def deadlineReached (deadline : Option Nat) (t : Nat) : Bool :=
  match deadline with | some d => t ≥ d | none => false

/-- sleepFor(ctx, wait): until the wait is over or the context ends -/
def afterSleep (deadline : Option Nat) (t wait : Nat) : Nat :=
  match deadline with | some d => min (t + wait) (max d t) | none => t + wait

/-- when a request fails after the context has ended the time is the deadline at the latest -/
def abortTime (deadline : Option Nat) (t : Nat) : Nat :=
  match deadline with | some d => max t d | none => t

/-- initializeActive.  `order k` / `ans k` are the oracles for round k: the map iteration
order and the service's answer per name.  `deadline` is the context's deadline in ms
(none = no deadline).  `fuel` bounds the number of rounds explored. -/
def initLoop (isFile : Bool) (deadline : Option Nat) (now : Int)
    (order : Nat → List String) (ans : Nat → String → Ans) :
    Nat → Nat → Nat → AMap → List (Nat × String × Ans) → InitOut
  | 0, k, t, m, acc => { ok := false, elapsedMs := t, rounds := k, m := m, reqs := acc }
  | fuel + 1, k, t, m, acc =>
    let (m', miss, aborted, rs) := initRound m now (deadlineReached deadline t) (ans k) (visits m (order k))
    let acc' := acc ++ rs.map fun (n, a) => (t, n, a)
    if aborted then
      { ok := false, elapsedMs := abortTime deadline t, rounds := k + 1, m := m', reqs := acc' }
    else if miss = 0 then { ok := true, elapsedMs := t, rounds := k + 1, m := m', reqs := acc' }
    else if isFile then { ok := false, elapsedMs := t, rounds := k + 1, m := m', reqs := acc' }
    else
      initLoop isFile deadline now order ans fuel (k + 1) (afterSleep deadline t (retryWait k)) m' acc'

/-- configuration checks of NewStore (store.go:177-187, 850-873) -/
def validConfig (hasClient : Bool) (names : List String) (allowLookup : Bool) : Bool :=
  hasClient && !(names.isEmpty && !allowLookup) && !names.contains ""

/-! ### handles and reads -/

def known (s : St) (n : String) : Bool := s.m.contains n

/-- secretLocked: a handle exists from now on if the name is known -/
def takeHandle (s : St) (n : String) : St × Bool :=
  if known s n then ({ s with handles := if s.handles.contains n then s.handles else n :: s.handles }, true)
  else (s, false)

/-- calling a handle: returns the current bytes and stamps the access time -/
def read (s : St) (n : String) (now : Int) : St × Option Bytes :=
  match s.m[n]? with
  | some (some c) => ({ s with m := s.m.insert n (some { c with lastAccess := now }) }, some c.sv.value)
  | _ => (s, none)

/-! ### expiry and polling -/

/-- hasExpired: undeclared, an age is configured, last access longer ago than the age
(`lastAccess = 0` is the zero time, i.e. infinitely long ago) -/
def hasExpired (age : Int) (now : Int) (c : CEntry) : Bool :=
  !c.declared && age > 0 && (c.lastAccess == 0 || now - c.lastAccess > age)

structure SnapItem where
  name : String
  expired : Bool
  version : Nat
  deriving DecidableEq, Repr

/-- snapshotActive.  `pinnedPolls = true` is the repaired rule (a name with a handle is never
reported expired, so it keeps being polled); `false` is the original (defect D5). -/
def snapshot (pinnedPolls : Bool) (s : St) (now : Int) : List SnapItem :=
  s.m.toList.filterMap fun (n, e) => e.map fun c =>
    { name := n, expired := hasExpired s.expiryAge now c && !(pinnedPolls && s.handles.contains n),
      version := c.sv.version }

/-- an update collected by poll: none = "delete me" -/
abbrev Updates := List (String × Option SV)

/-- what poll does with one snapshot item and the service's answer -/
def pollItem (it : SnapItem) (a : Ans) : Option (String × Option SV) × Bool :=
  if it.expired then (some (it.name, none), false)
  else match a with
    | .notChanged => (none, false)
    | .value sv => if sv.version ≠ it.version then (some (it.name, some sv), false) else (none, false)
    | _ => (none, true)

/-- applyUpdates -/
def applyOne (s : St) : String × Option SV → St
  | (n, none) => if s.handles.contains n then s else { s with m := s.m.erase n }
  | (n, some sv) =>
    match s.m[n]? with
    | some (some c) => { s with m := s.m.insert n (some { c with sv := sv }) }
    | _ => s

def applyUpdates (s : St) (u : Updates) : St :=
  if u.isEmpty then s else flush (u.foldl applyOne s)

/-- a whole poll: the items in the order the map iteration produced them, each with the
service's answer (ignored for expired items).  Returns the new state and whether the poll
succeeded. -/
def poll (s : St) (items : List (SnapItem × Ans)) : St × Bool :=
  let rs := items.map fun (it, a) => pollItem it a
  if rs.any (·.2) then (s, false)
  else (applyUpdates s (rs.filterMap (·.1)), true)

/-- the table a file-backed client builds from a document (fileclient.go:43-74): entries
with a positive version and a non-empty value -/
def fileClientTable (d : Doc) : ExtTreeMap String SV compare :=
  d.filterMap fun n x => if n != "" && x.1.version > 0 && !x.1.value.isEmpty then some x.1 else none

/-! ### lookup -/

/-- lookupSecretInternal after a successful fetch: install, flush, hand out a handle -/
def lookupInstall (s : St) (n : String) (sv : SV) (now : Int) : St :=
  (takeHandle (flush { s with m := s.m.insert n (some { sv := sv, lastAccess := now, declared := false }) }) n).1

inductive LookupRes
  | handle       -- a working handle
  | disabled     -- "lookup is not enabled", no request sent
  | failed       -- the fetch failed; nothing installed
  deriving DecidableEq, Repr

/-- LookupSecret with the service's answer as oracle (used only when a request is sent) -/
def lookup (s : St) (n : String) (a : Ans) (now : Int) : St × LookupRes × Bool :=
  if known s n then ((takeHandle s n).1, .handle, false)
  else if !s.allowLookup then (s, .disabled, false)
  else match a with
    | .value sv => (lookupInstall s n sv now, .handle, true)
    | _ => (s, .failed, true)

end Setec.Store
