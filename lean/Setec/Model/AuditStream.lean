import Setec.Model.Json
/-
The audit log as a byte stream behind `audit.Writer` (C06: "records ... are never
interleaved, truncated or lost"; fail-closed).

`audit.Writer` keeps one `json.Encoder` for its whole life, and encoding/json's Encoder keeps
the first write error for ever: once a `Write` has failed - possibly after the device accepted
part of the record (a short write) - every later `Encode` returns that error without calling
`Write` again.  `latched = false` models a writer that would make a fresh encoder per call
(the log then goes on after a fragment).
-/
namespace Setec.AuditStream
open Setec.Json

structure Log where
  stream : Str          -- what the append-only file holds
  failed : Bool         -- the encoder has seen a write error

def empty : Log := { stream := [], failed := false }

/-- one `WriteEntries` call for a record whose line is `line`; `accept = none`: the device takes
all of it; `accept = some k`: it takes the first `k` characters (fewer than all) and fails.
Returns the new log and whether the call succeeded. -/
def write (latched : Bool) (l : Log) (line : Str) (accept : Option Nat) : Log × Bool :=
  if latched && l.failed then (l, false)
  else match accept with
    | none => ({ l with stream := l.stream ++ line }, true)
    | some k => ({ stream := l.stream ++ line.take (min k (line.length - 1)), failed := true }, false)

def writes (latched : Bool) (l : Log) : List (Str × Option Nat) → Log
  | [] => l
  | (line, acc) :: rest => writes latched (write latched l line acc).1 rest

/-- the complete (newline-terminated) lines of a stream and the unterminated rest -/
def splitLines : Str → List Str × Str
  | [] => ([], [])
  | c :: cs =>
    let (ls, rest) := splitLines cs
    if c = '\n' then ([] :: ls, rest)
    else match ls with
      | [] => ([], c :: rest)
      | l :: ls' => ((c :: l) :: ls', rest)

end Setec.AuditStream
