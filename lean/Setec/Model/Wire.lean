import Setec.Model.DB
import Setec.Model.DBText
/-
The API's wire bodies as text (C18, C08, C09): what the handlers' `json.Marshal(resp)` writes
for each successful outcome, and what `setec.Client` sends for the requests that carry secret
bytes or the conditional-get arguments.  Renderer + reader per shape; the round-trip theorems
are in Proofs/Wire.lean, the renderers are compared byte for byte with the real handler
output and the real client's request bodies by the `http` family.

    get      {"Value":"<base64>","Version":<n>}
    put      <n>
    activate / delete / delete-version   {}
    info     {"Name":"<name>","Versions":[<n>,...],"ActiveVersion":<n>}
    list     [<info>,...]
    GetRequest  {"Name":"<name>","Version":<n>,"UpdateIfChanged":<bool>}
    PutRequest  {"Name":"<name>","Value":"<base64>"}

A nil slice is written `null` by Go (an empty value, an empty list); the correspondence check
normalises that to the empty form, which the model cannot tell apart.
-/
namespace Setec.Wire
open Setec.Json Setec.DBText Setec.DB

def kValue : Str := "{\"Value\":\"".toList
def kVersion : Str := "\",\"Version\":".toList
def kName : Str := "{\"Name\":".toList
def kVersions : Str := ",\"Versions\":[".toList
def kActive : Str := ",\"ActiveVersion\":".toList
def kReqVersion : Str := ",\"Version\":".toList
def kUIC : Str := ",\"UpdateIfChanged\":".toList
def kReqValue : Str := ",\"Value\":\"".toList

abbrev Info := String × List Nat × Nat

def renderInfo (i : Info) : Str :=
  kName ++ (quote i.1.toList ++ (kVersions ++ (renderList digits i.2.1 ++ (']' :: (kActive ++ (digits i.2.2 ++ ['}']))))))

/-- the body of a 200 answer -/
def renderRes : Res → Str
  | .value b v => kValue ++ (Base64.encode b ++ (kVersion ++ (digits v ++ ['}'])))
  | .version k => digits k
  | .done => ['{', '}']
  | .infoR n vs a => renderInfo (n, vs, a)
  | .listR items => '[' :: (renderList renderInfo items ++ [']'])
  | _ => []

def renderGetReq (name : String) (version : Nat) (uic : Bool) : Str :=
  kName ++ (quote name.toList ++ (kReqVersion ++ (digits version ++ (kUIC ++ ((if uic then kTrue else kFalse) ++ ['}'])))))

def renderPutReq (name : String) (value : KV.Bytes) : Str :=
  kName ++ (quote name.toList ++ (kReqValue ++ (Base64.encode value ++ ['"', '}'])))

/-! ### readers -/

def readNatItem (s : Str) : Option (Nat × Str) := readNat s

def readInfo (s : Str) : Option (Info × Str) :=
  (strip kName s).bind fun s =>
  (readQuoted s).bind fun (n, s) =>
  (strip kVersions s).bind fun s =>
  (readList readNatItem ']' s).bind fun (vs, s) =>
  (strip kActive s).bind fun s =>
  (readNat s).bind fun (a, s) =>
  (strip ['}'] s).map fun s => ((String.ofList n, vs, a), s)

def readValue (s : Str) : Option (Res × Str) :=
  (strip kValue s).bind fun s =>
  let (b64, s) := DBText.spanQuote s
  (Base64.decode b64).bind fun b =>
  (strip kVersion s).bind fun s =>
  (readNat s).bind fun (v, s) =>
  (strip ['}'] s).map fun s => (Res.value b v, s)

/-- read a 200 body, given the endpoint that answered -/
def readRes (endpoint : String) (s : Str) : Option Res :=
  if endpoint == "get" then
    match readValue s with | some (r, []) => some r | _ => none
  else if endpoint == "put" then
    match readNat s with | some (k, []) => some (.version k) | _ => none
  else if endpoint == "info" then
    match readInfo s with | some ((n, vs, a), []) => some (.infoR n vs a) | _ => none
  else if endpoint == "list" then
    match s with
    | '[' :: rest => (match readList readInfo ']' rest with | some (items, []) => some (.listR items) | _ => none)
    | _ => none
  else if s = ['{', '}'] then some .done else none

def readGetReq (s : Str) : Option (String × Nat × Bool) :=
  (strip kName s).bind fun s =>
  (readQuoted s).bind fun (n, s) =>
  (strip kReqVersion s).bind fun s =>
  (readNat s).bind fun (v, s) =>
  (strip kUIC s).bind fun s =>
  (parseBool s).bind fun (b, s) =>
  if s = ['}'] then some (String.ofList n, v, b) else none

def readPutReq (s : Str) : Option (String × KV.Bytes) :=
  (strip kName s).bind fun s =>
  (readQuoted s).bind fun (n, s) =>
  (strip kReqValue s).bind fun s =>
  let (b64, s) := DBText.spanQuote s
  (Base64.decode b64).bind fun v =>
  if s = ['"', '}'] then some (String.ofList n, v) else none

end Setec.Wire
