import Setec.Model.Wire
import Setec.Proofs.DBText
/- The API's wire bodies round-trip: reading back what a handler or the client wrote yields the
outcome / the request, for all names, byte strings and numbers. -/
namespace Setec.Wire
open Setec.Json Setec.DBText Setec.DB

/-! ### generic lists whose items need not be quoted strings -/

theorem readItems_render' {α} (f : α → Str) (item : Str → Option (α × Str)) (close : Char)
    (hitem : ∀ a c rest, (c = ',' ∨ c = close) → item (f a ++ c :: rest) = some (a, c :: rest)) (hc : close ≠ ',')
    (l : List α) (hne : l ≠ []) (rest : Str) (fuel : Nat) (hf : l.length ≤ fuel) :
    readItems item close fuel (renderList f l ++ close :: rest) = some (l, rest) := by
  induction l generalizing fuel with
  | nil => exact absurd rfl hne
  | cons a as ih =>
    cases fuel with
    | zero => simp at hf
    | succ fuel =>
      cases as with
      | nil =>
        simp only [renderList, readItems, hitem a close rest (Or.inr rfl), hc, if_false, if_true]
      | cons b bs =>
        simp only [renderList, List.append_assoc, List.cons_append, readItems]
        rw [hitem a ',' _ (Or.inl rfl)]
        have := ih (by simp) fuel (by simp at hf ⊢; omega)
        simp [this]

theorem readList_render' {α} (f : α → Str) (item : Str → Option (α × Str)) (close : Char)
    (hitem : ∀ a c rest, (c = ',' ∨ c = close) → item (f a ++ c :: rest) = some (a, c :: rest)) (hc : close ≠ ',')
    (hhead : ∀ a, ∃ c tl, f a = c :: tl ∧ c ≠ close) (l : List α) (rest : Str) :
    readList item close (renderList f l ++ close :: rest) = some (l, rest) := by
  cases l with
  | nil => simp [renderList, readList]
  | cons a as =>
    have hpos : ∀ a, 0 < (f a).length := by intro a; obtain ⟨c, t, ht, _⟩ := hhead a; simp [ht]
    have hlen := length_le_renderList f hpos (a :: as) (close :: rest)
    have hr := readItems_render' f item close hitem hc (a :: as) (by simp) rest _ hlen
    obtain ⟨c, tl, hfa, hcc⟩ := hhead a
    have hshape : ∃ tl', renderList f (a :: as) = c :: tl' := by
      cases as with
      | nil => exact ⟨tl, by simp [renderList, hfa]⟩
      | cons b bs => exact ⟨tl ++ ',' :: renderList f (b :: bs), by simp [renderList, hfa]⟩
    obtain ⟨tl', h⟩ := hshape
    rw [h] at hr hlen ⊢
    simp only [List.cons_append, readList]
    rw [if_neg hcc]
    exact hr

/-! ### numbers as list items -/

theorem readNatItem_digits (n : Nat) (c : Char) (rest : Str) (h : c = ',' ∨ c = ']') :
    readNatItem (digits n ++ c :: rest) = some (n, c :: rest) := by
  unfold readNatItem
  apply readNat_digits
  intro c' tl heq
  simp only [List.cons.injEq] at heq
  rw [← heq.1]
  rcases h with h | h <;> subst h <;> decide

theorem digits_head_ne (n : Nat) (x : Char) (hx : isDigit x = false) : ∃ c tl, digits n = c :: tl ∧ c ≠ x := by
  obtain ⟨c, tl, hc, hd⟩ := digits_head_isDigit n
  exact ⟨c, tl, hc, by intro e; subst e; simp [hd] at hx⟩

/-! ### responses -/

theorem readInfo_render (i : Info) (rest : Str) : readInfo (renderInfo i ++ rest) = some (i, rest) := by
  obtain ⟨n, vs, a⟩ := i
  simp only [readInfo, renderInfo, List.append_assoc, strip_append, Option.bind_some, readQuoted_quote, List.cons_append]
  rw [readList_render' digits readNatItem ']' (fun a c rest h => readNatItem_digits a c rest h) (by decide)
    (fun a => digits_head_ne a ']' (by decide))]
  simp only [Option.bind_some, strip_append]
  rw [readNat_digits a _ (by intro c tl h; simp only [List.nil_append, List.cons.injEq] at h; rw [← h.1]; decide)]
  simp [strip, String.ofList_toList]

theorem readValue_render (b : KV.Bytes) (v : Nat) (rest : Str) :
    readValue (renderRes (.value b v) ++ rest) = some (.value b v, rest) := by
  have hk : kVersion = '"' :: kVersion.tail := by decide
  simp only [readValue, renderRes, List.append_assoc, strip_append, Option.bind_some]
  have hs : DBText.spanQuote (Base64.encode b ++ (kVersion ++ (digits v ++ (['}'] ++ rest)))) =
      (Base64.encode b, kVersion ++ (digits v ++ (['}'] ++ rest))) := by
    conv => lhs; rw [hk]
    rw [List.cons_append, DBText.spanQuote_of_noquote _ _ (DBText.encode_noquote b), ← List.cons_append, ← hk]
  rw [hs]
  simp only [Base64.decode_encode, Option.bind_some, strip_append]
  rw [readNat_digits v _ (by intro c tl h; simp only [List.cons_append, List.nil_append, List.cons.injEq] at h; rw [← h.1]; decide)]
  simp [strip]

/-- the endpoint whose 200 answer carries this outcome -/
def endpointOf : Res → String
  | .value _ _ => "get" | .version _ => "put" | .infoR _ _ _ => "info" | .listR _ => "list" | _ => "activate"

def is200 : Res → Bool
  | .value _ _ | .version _ | .infoR _ _ _ | .listR _ | .done => true
  | _ => false

/-- Every successful outcome reads back from its wire body as itself: the bytes of a value,
its version number, the version a put allocated, names and version lists. -/
theorem readRes_render (r : Res) (h : is200 r = true) : readRes (endpointOf r) (renderRes r) = some r := by
  cases r with
  | value b v =>
    have := readValue_render b v []
    simp only [List.append_nil] at this
    simp [readRes, endpointOf, this]
  | version k =>
    have : readNat (digits k) = some (k, []) := by
      have := readNat_digits k [] (by intro c tl h; cases h)
      simpa using this
    have h1 : ("put" == "get") = false := by decide
    simp [readRes, endpointOf, renderRes, this, h1]
  | done =>
    have h1 : ("activate" == "get") = false := by decide
    have h2 : ("activate" == "put") = false := by decide
    have h3 : ("activate" == "info") = false := by decide
    have h4 : ("activate" == "list") = false := by decide
    simp [readRes, endpointOf, renderRes, h1, h2, h3, h4]
  | infoR n vs a =>
    have := readInfo_render (n, vs, a) []
    simp only [List.append_nil] at this
    have h1 : ("info" == "get") = false := by decide
    have h2 : ("info" == "put") = false := by decide
    simp [readRes, endpointOf, renderRes, this, h1, h2]
  | listR items =>
    have h1 : ("list" == "get") = false := by decide
    have h2 : ("list" == "put") = false := by decide
    have h3 : ("list" == "info") = false := by decide
    have hl := readList_render' renderInfo readInfo ']'
      (fun a c rest _ => readInfo_render a (c :: rest)) (by decide)
      (fun a => ⟨'{', _, by simp only [renderInfo]; rfl, by decide⟩) items []
    simp [readRes, endpointOf, renderRes, h1, h2, h3, hl]
  | denied => simp [is200] at h
  | notFound => simp [is200] at h
  | notChanged => simp [is200] at h
  | other => simp [is200] at h

/-! ### requests -/

theorem readGetReq_render (name : String) (version : Nat) (uic : Bool) :
    readGetReq (renderGetReq name version uic) = some (name, version, uic) := by
  have hk : kUIC = ',' :: kUIC.tail := by decide
  simp only [readGetReq, renderGetReq, List.append_assoc, strip_append, Option.bind_some, readQuoted_quote]
  rw [readNat_digits version _ (by intro c tl h; rw [hk] at h; simp only [List.cons_append, List.cons.injEq] at h; rw [← h.1]; decide)]
  simp only [Option.bind_some, strip_append]
  rw [parseBool_render _ _ (fun _ => trivial)]
  simp [String.ofList_toList]

theorem readPutReq_render (name : String) (value : KV.Bytes) :
    readPutReq (renderPutReq name value) = some (name, value) := by
  simp only [readPutReq, renderPutReq, List.append_assoc, strip_append, Option.bind_some, readQuoted_quote]
  have hs : DBText.spanQuote (Base64.encode value ++ ['"', '}']) = (Base64.encode value, ['"', '}']) :=
    DBText.spanQuote_of_noquote _ ['}'] (DBText.encode_noquote value)
  rw [hs]
  simp [Base64.decode_encode, String.ofList_toList]

end Setec.Wire
