import Setec.Model.AuditStream
import Setec.Proofs.Json
namespace Setec.AuditStream
open Setec.Json

def flat : List Str → Str
  | [] => []
  | l :: ls => l ++ '\n' :: flat ls

theorem flat_append (a b : List Str) : flat (a ++ b) = flat a ++ flat b := by
  induction a with
  | nil => rfl
  | cons x xs ih => simp [flat, ih]

theorem splitLines_noNL (frag : Str) (h : NoNL frag) : splitLines frag = ([], frag) := by
  induction frag with
  | nil => rfl
  | cons c cs ih =>
    have hc : c ≠ '\n' := h c (by simp)
    have := ih (fun x hx => h x (List.mem_cons_of_mem _ hx))
    simp [splitLines, this, hc]

theorem splitLines_line (body rest : Str) (h : NoNL body) :
    splitLines (body ++ '\n' :: rest) = (body :: (splitLines rest).1, (splitLines rest).2) := by
  induction body with
  | nil => simp [splitLines]
  | cons c cs ih =>
    have hc : c ≠ '\n' := h c (by simp)
    have := ih (fun x hx => h x (List.mem_cons_of_mem _ hx))
    simp [splitLines, this, hc]

theorem splitLines_flat (lines : List Str) (frag : Str) (hl : ∀ x ∈ lines, NoNL x) (hf : NoNL frag) :
    splitLines (flat lines ++ frag) = (lines, frag) := by
  induction lines with
  | nil => simpa [flat] using splitLines_noNL frag hf
  | cons l ls ih =>
    have := ih (fun x hx => hl x (List.mem_cons_of_mem _ hx))
    simp only [flat, List.append_assoc, List.cons_append]
    rw [splitLines_line l _ (hl l (by simp)), this]

/-- every record line handed to the writer is a body without newline followed by the newline
(`Json.renderLine_one_line`) -/
def IsLine (line : Str) : Prop := ∃ body, line = body ++ ['\n'] ∧ NoNL body

theorem NoNL_take (s : Str) (k : Nat) (h : NoNL s) : NoNL (s.take k) :=
  fun c hc => h c (List.mem_of_mem_take hc)

/-- the invariant of the latched writer: the stream is whole lines - each one a record that
was written - followed by at most one fragment without a newline, and a fragment is there
only once the writer has failed for good -/
def Inv (written : List Str) (l : Log) : Prop :=
  ∃ lines frag, l.stream = flat lines ++ frag ∧ NoNL frag ∧ (∀ x ∈ lines, NoNL x ∧ x ++ ['\n'] ∈ written) ∧
    (frag ≠ [] → l.failed = true)

theorem inv_write (written : List Str) (l : Log) (line : Str) (acc : Option Nat) (hline : IsLine line)
    (h : Inv written l) : Inv (written ++ [line]) (write true l line acc).1 := by
  obtain ⟨lines, frag, hs, hf, hl, hfail⟩ := h
  have hl' : ∀ x ∈ lines, NoNL x ∧ x ++ ['\n'] ∈ written ++ [line] :=
    fun x hx => ⟨(hl x hx).1, List.mem_append_left _ (hl x hx).2⟩
  unfold write
  by_cases hfd : l.failed = true
  · simp only [hfd, Bool.and_self, if_true]
    exact ⟨lines, frag, hs, hf, hl', hfail⟩
  · have hfrag : frag = [] := by
      by_cases hne : frag = []
      · exact hne
      · exact absurd (hfail hne) hfd
    subst hfrag
    simp only [List.append_nil] at hs
    have hnf : l.failed = false := by cases h : l.failed <;> simp_all
    simp only [hnf, Bool.and_false, Bool.false_eq_true, if_false]
    obtain ⟨body, hb, hnl⟩ := hline
    cases acc with
    | none =>
      refine ⟨lines ++ [body], [], ?_, NoNL_nil, ?_, fun h => absurd rfl h⟩
      · simp [hs, hb, flat_append, flat]
      · intro x hx
        rcases List.mem_append.mp hx with hx | hx
        · exact hl' x hx
        · simp only [List.mem_cons, List.mem_nil_iff, or_false] at hx
          subst hx
          exact ⟨hnl, by rw [← hb]; simp⟩
    | some k =>
      refine ⟨lines, line.take (min k (line.length - 1)), by simp [hs], ?_, hl', fun _ => rfl⟩
      -- a proper prefix of the line lies inside its body
      rw [hb]
      have hlen : min k ((body ++ ['\n']).length - 1) ≤ body.length := by simp; omega
      rw [List.take_append_of_le_length hlen]
      exact NoNL_take body _ hnl

theorem inv_writes (ws : List (Str × Option Nat)) (written : List Str) (l : Log)
    (hall : ∀ w ∈ ws, IsLine w.1) (h : Inv written l) :
    Inv (written ++ ws.map (·.1)) (writes true l ws) := by
  induction ws generalizing written l with
  | nil => simpa [writes] using h
  | cons w ws ih =>
    obtain ⟨line, acc⟩ := w
    simp only [writes, List.map_cons]
    have h1 := inv_write written l line acc (hall (line, acc) (by simp)) h
    have := ih (written ++ [line]) (write true l line acc).1 (fun w hw => hall w (List.mem_cons_of_mem _ hw)) h1
    simpa [List.append_assoc] using this

/-- Whatever records are written and wherever the device fails (after accepting any part of a
record), every complete line of the log is exactly one of the records that were written, and
the rest is at most one fragment without a newline. -/
theorem complete_lines_are_records (ws : List (Str × Option Nat)) (hall : ∀ w ∈ ws, IsLine w.1) :
    ∀ x ∈ (splitLines (writes true empty ws).stream).1, x ++ ['\n'] ∈ ws.map (·.1) := by
  have hinv : Inv [] empty := ⟨[], [], rfl, NoNL_nil, (fun x hx => by cases hx), fun h => absurd rfl h⟩
  obtain ⟨lines, frag, hs, hf, hl, _⟩ := inv_writes ws [] empty hall hinv
  rw [hs, splitLines_flat lines frag (fun x hx => (hl x hx).1) hf]
  intro x hx
  simpa using (hl x hx).2

end Setec.AuditStream
