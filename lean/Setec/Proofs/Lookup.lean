import Setec.Model.Lookup
namespace Setec.Lookup

/-- per-caller invariant: not yet started callers lie in the future; a waiting caller's own
context is alive; a finished caller finished no later than its own context's end (or at
its start, if it started later) and reports a context error only if its own context had
ended -/
def CInv (m : Mode) (now : Nat) (c : Caller) (st : Status) : Prop :=
  (st = .notStarted → now ≤ c.start) ∧
  (st = .waiting → alive m c now = true) ∧
  (∀ t r, st = .done t r → (∀ e, c.ownEnd m = some e → t ≤ max e c.start) ∧ (r = .ctx → alive m c t = false))

def Inv (m : Mode) (s : State) : Prop := ∀ x ∈ s.callers, CInv m s.now x.1 x.2

theorem alive_iff (m : Mode) (c : Caller) (t : Nat) :
    alive m c t = true ↔ ∀ e, c.ownEnd m = some e → t < e := by
  simp only [alive]
  cases h : c.ownEnd m with
  | none => simp
  | some e => simp

theorem newStatus_inv (m : Mode) (hsel : m.select = true) (ended : Option Res) (inst : Bool) (now t : Nat)
    (c : Caller) (st : Status) (h : CInv m now c st)
    (hw : st = .waiting → ∀ e, c.ownEnd m = some e → t ≤ e)
    (hn : st = .notStarted → t ≤ c.start) :
    CInv m t c (newStatus m ended inst t c st) := by
  obtain ⟨h1, h2, h3⟩ := h
  cases st with
  | done t' r =>
    simp only [newStatus]
    exact ⟨by simp, by simp, fun t'' r' heq => by cases heq; exact h3 t' r rfl⟩
  | waiting =>
    have hle := hw rfl
    have mk : ∀ r, r ≠ Res.ctx → CInv m t c (.done t r) := by
      intro r hr
      refine ⟨by simp, by simp, fun t'' r' heq => ?_⟩
      cases heq
      exact ⟨fun e he => by have := hle e he; omega, fun hc => absurd hc hr⟩
    simp only [newStatus]
    split
    · exact mk _ (by simp)
    · exact mk _ (by simp)
    · simp only [hsel, Bool.true_or, Bool.and_true]
      split
      · next hal =>
        refine ⟨by simp, by simp, fun t'' r' heq => ?_⟩
        cases heq
        exact ⟨fun e he => by have := hle e he; omega, fun _ => by simpa using hal⟩
      · next hal =>
        exact ⟨by simp, fun _ => by simpa using hal, by simp⟩
  | notStarted =>
    have hle := hn rfl
    simp only [newStatus]
    split
    · next hst =>
      have hst : c.start = t := by simpa using hst
      split
      · refine ⟨by simp, by simp, fun t'' r' heq => ?_⟩
        cases heq
        exact ⟨fun e _ => by omega, by simp⟩
      · simp only [hsel, Bool.not_true, Bool.false_or]
        split
        · next hal => exact ⟨by simp, fun _ => hal, by simp⟩
        · next hal =>
          refine ⟨by simp, by simp, fun t'' r' heq => ?_⟩
          cases heq
          exact ⟨fun e _ => by omega, fun _ => by simpa using hal⟩
    · next hst =>
      have : c.start ≠ t := by simpa using hst
      exact ⟨fun _ => hle, by simp, by simp⟩

theorem foldl_min_le (l : List Nat) (acc : Option Nat) (T : Nat)
    (h : l.foldl (fun acc t => match acc with | none => some t | some a => some (min a t)) acc = some T) :
    (∀ x ∈ l, T ≤ x) ∧ (∀ a, acc = some a → T ≤ a) := by
  induction l generalizing acc with
  | nil => simp only [List.foldl_nil] at h; subst h; simp
  | cons y l ih =>
    simp only [List.foldl_cons] at h
    obtain ⟨h1, h2⟩ := ih _ h
    cases acc with
    | none =>
      simp only at h2
      have := h2 y rfl
      exact ⟨fun x hx => by
        simp only [List.mem_cons] at hx
        rcases hx with rfl | hx
        · exact this
        · exact h1 x hx, by simp⟩
    | some a =>
      simp only at h2
      have := h2 (min a y) rfl
      exact ⟨fun x hx => by
        simp only [List.mem_cons] at hx
        rcases hx with rfl | hx
        · omega
        · exact h1 x hx, fun a' ha' => by cases ha'; omega⟩

theorem nextTime_le (m : Mode) (hsel : m.select = true) (s : State) (T : Nat) (h : nextTime m s = some T) :
    (∀ x ∈ s.callers, x.2 = .waiting → ∀ e, x.1.ownEnd m = some e → T ≤ e) ∧
    (∀ x ∈ s.callers, x.2 = .notStarted → T ≤ x.1.start) := by
  simp only [nextTime, hsel, if_true] at h
  obtain ⟨hall, _⟩ := foldl_min_le _ none T h
  constructor
  · intro x hx hst e he
    apply hall
    simp only [List.mem_append, List.mem_filterMap]
    left; right
    exact ⟨x, hx, by obtain ⟨c, st⟩ := x; simp only at hst he; subst hst; simp [he]⟩
  · intro x hx hst
    apply hall
    simp only [List.mem_append, List.mem_filterMap]
    left; left
    exact ⟨x, hx, by obtain ⟨c, st⟩ := x; simp only at hst; subst hst; simp⟩

theorem stepAt_callers (m : Mode) (s : State) (t : Nat) :
    (stepAt m s t).callers =
      s.callers.map (fun x => (x.1, newStatus m (flightEnded s t) (s.installed || flightEnded s t == some .handle) t x.1 x.2)) ∧
    (stepAt m s t).now = t := by
  simp only [stepAt]
  split
  · exact ⟨rfl, rfl⟩
  · split
    · exact ⟨rfl, rfl⟩
    · exact ⟨rfl, rfl⟩

theorem stepAt_inv (m : Mode) (hsel : m.select = true) (s : State) (T : Nat)
    (hinv : Inv m s) (h : nextTime m s = some T) : Inv m (stepAt m s T) := by
  obtain ⟨hw, hn⟩ := nextTime_le m hsel s T h
  obtain ⟨hc, hnow⟩ := stepAt_callers m s T
  intro x hx
  rw [hc] at hx
  rw [hnow]
  obtain ⟨y, hy, rfl⟩ := List.mem_map.mp hx
  exact newStatus_inv m hsel _ _ s.now T y.1 y.2 (hinv y hy) (hw y hy) (hn y hy)

theorem run_inv (m : Mode) (hsel : m.select = true) (fuel : Nat) (s : State) (hinv : Inv m s) :
    Inv m (run m fuel s) := by
  induction fuel generalizing s with
  | zero => exact hinv
  | succ fuel ih =>
    simp only [run]
    split
    · exact hinv
    · next t ht => exact ih _ (stepAt_inv m hsel s t hinv ht)

theorem init_inv (m : Mode) (cs : List Caller) (script : List Svc) : Inv m (init cs script) := by
  intro x hx
  simp only [init, List.mem_map] at hx
  obtain ⟨c, _, rfl⟩ := hx
  exact ⟨fun _ => Nat.zero_le _, by simp, by simp⟩

end Setec.Lookup
