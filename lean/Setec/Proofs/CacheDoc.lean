import Setec.Model.CacheDoc
import Setec.Proofs.Json
import Setec.Proofs.Base64
import Setec.Proofs.Crypto
/- Reading back the cache document the store writes yields the document, for all names,
byte strings, versions and access times. -/
namespace Setec.CacheDoc
open Std Setec.Json Setec.Store

theorem encChar_ne_quote (n : Nat) : Base64.encChar n ≠ '"' := by
  by_cases h : n < 64
  · have : ∀ n : Fin 64, Base64.encChar n.val ≠ '"' := by decide +kernel
    exact this ⟨n, h⟩
  · have : Base64.encChar n = 'A' := by
      unfold Base64.encChar
      have hl : Base64.alphabet.length = 64 := by decide +kernel
      rw [List.getD_eq_getElem?_getD, List.getElem?_eq_none (by omega)]
      rfl
    rw [this]; decide

theorem spanQuote_of_noquote (a rest : Str) (h : ∀ c ∈ a, c ≠ '"') :
    spanQuote (a ++ '"' :: rest) = (a, '"' :: rest) := by
  induction a with
  | nil => simp [spanQuote]
  | cons c cs ih =>
    have hc : c ≠ '"' := h c (by simp)
    simp only [List.cons_append, spanQuote, hc, if_false]
    rw [ih (fun x hx => h x (List.mem_cons_of_mem _ hx))]

theorem encode_noquote (bs : List UInt8) : ∀ c ∈ Base64.encode bs, c ≠ '"' := by
  fun_induction Base64.encode bs with
  | case1 a b c rest ih =>
    intro x hx
    simp only [List.mem_cons] at hx
    rcases hx with h | h | h | h | h
    · subst h; exact encChar_ne_quote _
    · subst h; exact encChar_ne_quote _
    · subst h; exact encChar_ne_quote _
    · subst h; exact encChar_ne_quote _
    · exact ih x h
  | case2 a b =>
    intro x hx
    simp only [List.mem_cons, List.mem_nil_iff, or_false] at hx
    rcases hx with h | h | h | h
    · subst h; exact encChar_ne_quote _
    · subst h; exact encChar_ne_quote _
    · subst h; exact encChar_ne_quote _
    · subst h; decide
  | case3 a =>
    intro x hx
    simp only [List.mem_cons, List.mem_nil_iff, or_false] at hx
    rcases hx with h | h | h | h
    · subst h; exact encChar_ne_quote _
    · subst h; exact encChar_ne_quote _
    · subst h; decide
    · subst h; decide
  | case4 => intro x hx; cases hx

theorem readInt_intDigits (i : Int) (rest : Str) (hr : ∀ c tl, rest = c :: tl → isDigit c = false) :
    readInt (intDigits i ++ rest) = some (i, rest) := by
  unfold intDigits
  split
  · next h =>
    simp only [List.cons_append, readInt, readNat_digits _ rest hr, Option.map_some]
    congr 2; omega
  · next h =>
    obtain ⟨c, tl, hc, hd⟩ := digits_head_isDigit i.natAbs
    have hne : c ≠ '-' := by intro e; subst e; revert hd; decide
    have : readInt (digits i.natAbs ++ rest) = (readNat (digits i.natAbs ++ rest)).map fun (n, r) => ((n : Int), r) := by
      rw [hc]; simp only [List.cons_append]; unfold readInt; split
      · next heq => simp only [List.cons.injEq] at heq; exact absurd heq.1 hne
      · rfl
    rw [this, readNat_digits _ rest hr]
    simp only [Option.map_some]
    congr 2; omega

theorem readEntry_render (e : String × (SV × Int)) (rest : Str) :
    readEntry (renderEntry e ++ rest) = some (e, rest) := by
  obtain ⟨name, sv, la⟩ := e
  obtain ⟨value, version⟩ := sv
  have hk1 : kEnd = '"' :: kEnd.tail := by decide
  have hk2 : kLastAccess = '}' :: kLastAccess.tail := by decide
  have hk3 : kVersion = '"' :: kVersion.tail := by decide
  simp only [readEntry, renderEntry, List.append_assoc, readQuoted_quote, Option.bind_some, strip_append]
  have hs : spanQuote (Base64.encode value ++ (kVersion ++ (digits version ++ (kLastAccess ++ (intDigits la ++ (kEnd ++ rest)))))) =
      (Base64.encode value, kVersion ++ (digits version ++ (kLastAccess ++ (intDigits la ++ (kEnd ++ rest))))) := by
    conv => lhs; rw [hk3]
    rw [List.cons_append, spanQuote_of_noquote _ _ (encode_noquote value)]
    rw [← List.cons_append, ← hk3]
  rw [hs]
  simp only [Base64.decode_encode, Option.bind_some, strip_append]
  rw [readNat_digits version _ (by
    intro c tl h; rw [hk2] at h; simp only [List.cons_append, List.cons.injEq] at h; rw [← h.1]; decide)]
  simp only [Option.bind_some, strip_append]
  rw [readInt_intDigits la _ (by
    intro c tl h; rw [hk1] at h; simp only [List.cons_append, List.cons.injEq] at h; rw [← h.1]; decide)]
  simp only [Option.bind_some, strip_append, Option.map_some, String.ofList_toList]

theorem readEntries_render (es : List (String × (SV × Int))) (hne : es ≠ []) (rest : Str) (fuel : Nat)
    (hf : es.length ≤ fuel) :
    readEntries fuel (renderEntries es ++ '}' :: rest) = some (es, rest) := by
  induction es generalizing fuel with
  | nil => exact absurd rfl hne
  | cons e es ih =>
    cases fuel with
    | zero => simp at hf
    | succ fuel =>
      cases es with
      | nil =>
        simp only [renderEntries, readEntries]
        rw [readEntry_render e _]
        simp
      | cons f fs =>
        simp only [renderEntries, List.append_assoc, List.cons_append, readEntries]
        rw [readEntry_render e _]
        have := ih (by simp) fuel (by simp at hf ⊢; omega)
        simp [this]

theorem renderEntry_length_pos (e : String × (SV × Int)) : 0 < (renderEntry e).length := by
  simp [renderEntry, quote]

theorem length_le_renderEntries (es : List (String × (SV × Int))) (rest : Str) :
    es.length ≤ (renderEntries es ++ rest).length := by
  induction es with
  | nil => simp
  | cons e es ih =>
    cases es with
    | nil =>
      have := renderEntry_length_pos e
      simp only [renderEntries, List.length_cons, List.length_nil, List.length_append]; omega
    | cons f fs =>
      have := renderEntry_length_pos e
      simp only [renderEntries, List.append_assoc, List.cons_append, List.length_append, List.length_cons] at ih ⊢
      omega

/-- Reading back the document the store wrote yields exactly that document: every name
(whatever characters it holds), every byte string, version and access time. -/
theorem readDoc_render (d : Doc) : readDoc (renderDoc d) = some d := by
  simp only [renderDoc, readDoc]
  cases hl : d.toList with
  | nil =>
    have : d = ∅ := by
      have := Setec.Codec.ofList_toList d
      rw [hl] at this
      rw [← this]; rfl
    simp [renderEntries, this]
  | cons e es =>
    have hne : renderEntries (e :: es) ++ ['}'] ≠ ['}'] := by
      intro h
      have := congrArg List.length h
      have h2 := length_le_renderEntries (e :: es) ['}']
      cases es with
      | nil =>
        have := renderEntry_length_pos e
        simp only [renderEntries, List.length_append, List.length_cons, List.length_nil] at *
        omega
      | cons f fs =>
        have := renderEntry_length_pos e
        simp only [renderEntries, List.append_assoc, List.cons_append, List.length_append, List.length_cons, List.length_nil] at *
        omega
    rw [if_neg hne]
    rw [readEntries_render (e :: es) (by simp) [] _ (length_le_renderEntries _ _)]
    simp only
    rw [← hl, Setec.Codec.ofList_toList]

end Setec.CacheDoc
