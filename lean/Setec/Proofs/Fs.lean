import Setec.Model.Fs
namespace Setec.Fs
open Setec.KV

/-- only `rename` touches the live file -/
theorem exec_target (s : St) (c : Call) (h : c ≠ .rename) : (exec s c).target = s.target := by
  cases c <;> simp_all [exec]

theorem execs_target (s : St) (cs : List Call) (h : ∀ c ∈ cs, c ≠ .rename) : (execs s cs).target = s.target := by
  induction cs generalizing s with
  | nil => rfl
  | cons c cs ih =>
    simp only [execs, List.foldl_cons]
    have := ih (exec s c) (fun c' hc' => h c' (List.mem_cons_of_mem _ hc'))
    simp only [execs] at this
    rw [this, exec_target s c (h c List.mem_cons_self)]

theorem execs_append (s : St) (a b : List Call) : execs s (a ++ b) = execs (execs s a) b := by
  simp [execs, List.foldl_append]

/-- the writes only append to the temporary file -/
theorem execs_writes (tg : Option (Bytes × Nat)) (t : TmpFile) (chunks : List Bytes) :
    execs { target := tg, tmp := some t } (chunks.map .write) =
      { target := tg, tmp := some { t with content := t.content ++ chunks.flatten,
                                           synced := t.synced && chunks.isEmpty } } := by
  induction chunks generalizing t with
  | nil => simp [execs]
  | cons c cs ih =>
    simp only [List.map_cons, execs, List.foldl_cons, exec, Option.map_some]
    have := ih { t with content := t.content ++ c, synced := false }
    simp only [execs] at this
    rw [this]; simp [List.append_assoc]

/-- state after CreateTemp and all the writes -/
theorem after_writes (s : St) (chunks : List Bytes) :
    execs s ([Call.openTmp 0o600] ++ chunks.map Call.write) =
      { target := s.target, tmp := some { content := chunks.flatten, mode := 0o600, synced := chunks.isEmpty } } := by
  rw [execs_append]
  have : execs s [Call.openTmp 0o600] = { target := s.target, tmp := some { content := [], mode := 0o600, synced := true } } := by
    simp [execs, exec]
  rw [this, execs_writes]; simp

/-- the temporary file is complete and flushed at the moment it replaces the live file -/
theorem flushed_before_rename (s : St) (chunks : List Bytes) (perm : Nat) :
    execs s ([Call.openTmp 0o600] ++ chunks.map Call.write ++ [Call.chmod perm, Call.fsync, Call.close]) =
      { target := s.target, tmp := some { content := chunks.flatten, mode := perm, synced := true } } := by
  rw [execs_append, after_writes]; simp [execs, exec]

theorem atomicWrite_split (chunks : List Bytes) (perm : Nat) :
    atomicWrite chunks perm =
      ([Call.openTmp 0o600] ++ chunks.map Call.write ++ [Call.chmod perm, Call.fsync, Call.close]) ++ [Call.rename] := by
  simp [atomicWrite]

/-- the complete sequence installs exactly the data with exactly the requested mode -/
theorem atomicWrite_result (s : St) (chunks : List Bytes) (perm : Nat) :
    execs s (atomicWrite chunks perm) = { target := some (chunks.flatten, perm), tmp := none } := by
  rw [atomicWrite_split, execs_append, flushed_before_rename]; simp [execs, exec]

theorem atomicWrite_length (chunks : List Bytes) (perm : Nat) :
    (atomicWrite chunks perm).length = chunks.length + 5 := by
  simp [atomicWrite]

theorem prefix_no_rename (chunks : List Bytes) (perm : Nat) :
    ∀ c ∈ ([Call.openTmp 0o600] ++ chunks.map Call.write ++ [Call.chmod perm, Call.fsync, Call.close]), c ≠ Call.rename := by
  intro c hc
  simp at hc
  rcases hc with h | h | h | h | h
  · subst h; simp
  · obtain ⟨a, _, rfl⟩ := h; simp
  · subst h; simp
  · subst h; simp
  · subst h; simp

theorem take_no_rename (chunks : List Bytes) (perm : Nat) (k : Nat) (hk : k < (atomicWrite chunks perm).length) :
    ∀ c ∈ (atomicWrite chunks perm).take k, c ≠ Call.rename := by
  intro c hc
  rw [atomicWrite_split] at hc hk
  have hk' : k ≤ ([Call.openTmp 0o600] ++ chunks.map Call.write ++ [Call.chmod perm, Call.fsync, Call.close]).length := by
    simp at hk ⊢; omega
  rw [List.take_append_of_le_length hk'] at hc
  exact prefix_no_rename chunks perm c (List.mem_of_mem_take hc)

end Setec.Fs
