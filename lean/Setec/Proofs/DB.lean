import Setec.Model.DB
import Setec.Proofs.KV
import Setec.Spec.DBMon
/-! Structure lemmas for `DB.step`: the post-state is the pre-state or the post-state of
exactly one KV operation on the operation's own name. -/
namespace Setec.DB
open Setec.KV

theorem checkAndLog_res (cfg : Cfg) (c : Caller) (a n : String) (v : Nat) (aok : Bool) (e : Entry) (r : Res)
    (h : checkAndLog cfg c a n v aok = (e, some r)) : r = .denied ∨ r = .other := by
  simp only [checkAndLog] at h
  split at h
  · simp at h; exact Or.inl h.2.symm
  · split at h
    · simp at h; exact Or.inr h.2.symm
    · simp at h

/-- `Acl.allow true`: the meaning of a grant (C07) -/
def grantedStd (c : Caller) (a n : String) : Bool := Acl.allow true c.rules a n.toList

theorem allowed_std (c : Caller) (a n : String) : allowed Cfg.std c a n = grantedStd c a n := rfl
@[simp] theorem std_actInfo : Cfg.std.actInfo = "info" := rfl
@[simp] theorem std_actGet : Cfg.std.actGet = "get" := rfl
@[simp] theorem std_actGetCond : Cfg.std.actGetCond = "get" := rfl
@[simp] theorem std_actGetVersion : Cfg.std.actGetVersion = "get" := rfl
@[simp] theorem std_actPut : Cfg.std.actPut = "put" := rfl
@[simp] theorem std_actActivate : Cfg.std.actActivate = "activate" := rfl
@[simp] theorem std_actDeleteVersion : Cfg.std.actDeleteVersion = "delete" := rfl
@[simp] theorem std_actDelete : Cfg.std.actDelete = "delete" := rfl
@[simp] theorem std_actListAudit : Cfg.std.actListAudit = "info" := rfl
@[simp] theorem std_actListFilter : Cfg.std.actListFilter = "info" := rfl
@[simp] theorem std_guardPresent : Cfg.std.guardPresent = true := rfl

/-- the KV mutation an operation may perform -/
def kvPost (cfg : Cfg) (kv : KV) (op : Op) (sok : Bool) : KV :=
  match op with
  | .put n v => (put cfg.guardPresent kv n v sok).1
  | .activate n v => (setActive kv n v sok).1
  | .deleteVersion n v => (deleteVersion kv n v sok).1
  | .delete n => (deleteSecret kv n sok).1
  | _ => kv

theorem step_state (cfg : Cfg) (kv : KV) (c : Caller) (op : Op) (aok sok : Bool) :
    (step cfg kv c op aok sok).1 = kv ∨ (step cfg kv c op aok sok).1 = kvPost cfg kv op sok := by
  cases op with
  | list => left; simp only [step]; split <;> rfl
  | info n => left; simp only [step]; split <;> (try split) <;> rfl
  | get n => left; simp only [step]; split <;> (try split) <;> rfl
  | getVersion n v => left; simp only [step]; split <;> (try split) <;> rfl
  | getCond n v =>
    left; simp only [step]
    split
    · rfl
    · split
      · rfl
      · split
        · rfl
        · split <;> rfl
  | put n v =>
    simp only [step, kvPost]
    split; · left; rfl
    split; · left; rfl
    split; · left; rfl
    right; split <;> simp_all
  | activate n v =>
    simp only [step, kvPost]
    split; · left; rfl
    split; · left; rfl
    split; · left; rfl
    right; split <;> simp_all
  | deleteVersion n v =>
    simp only [step, kvPost]
    split; · left; rfl
    split; · left; rfl
    right; split <;> simp_all
  | delete n =>
    simp only [step, kvPost]
    split; · left; rfl
    split; · left; rfl
    right; split <;> simp_all

theorem kvPost_inv (cfg : Cfg) (kv : KV) (op : Op) (sok : Bool) (h : Inv kv) : Inv (kvPost cfg kv op sok) := by
  cases op <;> simp only [kvPost] <;> first
    | exact h
    | exact put_inv _ _ _ _ _ h
    | exact setActive_inv _ _ _ _ h
    | exact deleteVersion_inv _ _ _ _ h
    | exact deleteSecret_inv _ _ _ h

theorem kvPost_savefail (cfg : Cfg) (kv : KV) (op : Op) (h : Inv kv) : kvPost cfg kv op false = kv := by
  cases op <;> simp only [kvPost] <;> first
    | rfl
    | exact put_savefail _ _ _ _ h
    | exact setActive_savefail _ _ _
    | exact deleteVersion_savefail _ _ _
    | exact deleteSecret_savefail _ _

theorem kvPost_synced (cfg : Cfg) (kv : KV) (op : Op) (sok : Bool) (h : Inv kv) (hs : Synced kv) :
    Synced (kvPost cfg kv op sok) := by
  cases op <;> simp only [kvPost] <;> first
    | exact hs
    | exact put_synced _ _ _ _ _ h hs
    | exact setActive_synced _ _ _ _ hs
    | exact deleteVersion_synced _ _ _ _ hs
    | exact deleteSecret_synced _ _ _ hs

theorem step_synced (cfg : Cfg) (kv : KV) (c : Caller) (op : Op) (aok sok : Bool) (h : Inv kv) (hs : Synced kv) :
    Synced (step cfg kv c op aok sok).1 := by
  rcases step_state cfg kv c op aok sok with e | e <;> rw [e]
  · exact hs
  · exact kvPost_synced cfg kv op sok h hs

def opName : Op → String
  | .list => ""
  | .info n | .get n | .getCond n _ | .getVersion n _ | .put n _ | .activate n _
  | .deleteVersion n _ | .delete n => n

theorem kvPost_frame (cfg : Cfg) (kv : KV) (op : Op) (sok : Bool) (m : String) (h : Inv kv)
    (hne : opName op ≠ m) : (kvPost cfg kv op sok).secrets[m]? = kv.secrets[m]? := by
  cases op <;> simp only [kvPost, opName] at * <;> first
    | rfl
    | exact put_frame _ _ _ _ _ _ h hne
    | exact setActive_frame _ _ _ _ _ hne
    | exact deleteVersion_frame _ _ _ _ _ hne
    | exact deleteSecret_frame _ _ _ _ hne

/-- every step preserves the invariant -/
theorem step_inv (cfg : Cfg) (kv : KV) (c : Caller) (op : Op) (aok sok : Bool) (h : Inv kv) :
    Inv (step cfg kv c op aok sok).1 := by
  rcases step_state cfg kv c op aok sok with e | e <;> rw [e]
  · exact h
  · exact kvPost_inv cfg kv op sok h

/-- a failed save leaves exactly the pre-call state -/
theorem step_savefail (cfg : Cfg) (kv : KV) (c : Caller) (op : Op) (aok : Bool) (h : Inv kv) :
    (step cfg kv c op aok false).1 = kv := by
  rcases step_state cfg kv c op aok false with e | e <;> rw [e]
  exact kvPost_savefail cfg kv op h

/-- operations on one name never affect another -/
theorem step_frame (cfg : Cfg) (kv : KV) (c : Caller) (op : Op) (aok sok : Bool) (m : String)
    (h : Inv kv) (hne : opName op ≠ m) :
    (step cfg kv c op aok sok).1.secrets[m]? = kv.secrets[m]? := by
  rcases step_state cfg kv c op aok sok with e | e <;> rw [e]
  exact kvPost_frame cfg kv op sok m h hne

/-! ### normal form of a step: pre-check, grant, audit, execution -/

open Setec.DBMon in
def entryOf (c : Caller) (op : Op) (auth : Bool) : Entry :=
  { principal := c.principal, action := actionOf op, secret := nameOf op,
    version := versionGiven op, authorized := auth }

/-- what the operation does once it is granted and recorded -/
def exec (kv : KV) (op : Op) (sok : Bool) : KV × Res :=
  match op with
  | .list => (kv, .other)
  | .info n => (kv, match info kv n with | .ok (vs, a) => .infoR n vs a | .error er => kvErr er)
  | .get n | .getCond n _ => (kv, match get kv n with | .ok (b, v) => .value b v | .error er => kvErr er)
  | .getVersion n v => (kv, match getVersion kv n v with | .ok (b, v) => .value b v | .error er => kvErr er)
  | .put n val =>
    if hasPrefix Cfg.std n then (kv, .other) else
    match put true kv n val sok with
    | (kv', .ok v) => (kv', .version v)
    | (kv', .error er) => (kv', kvErr er)
  | .activate n v =>
    if hasPrefix Cfg.std n then (kv, .other) else
    match setActive kv n v sok with
    | (kv', .ok ()) => (kv', .done)
    | (kv', .error er) => (kv', kvErr er)
  | .deleteVersion n v =>
    if hasPrefix Cfg.std n then (kv, .other) else
    match deleteVersion kv n v sok with
    | (kv', .ok ()) => (kv', .done)
    | (kv', .error er) => (kv', kvErr er)
  | .delete n =>
    if hasPrefix Cfg.std n then (kv, .other) else
    match deleteSecret kv n sok with
    | (kv', .ok ()) => (kv', .done)
    | (kv', .error er) => (kv', kvErr er)

open Setec.DBMon in
/-- The shape of every non-list call: refuse an ill-formed request; else deny without a
grant (one record, authorized=false); else - for a conditional get - look first and stay
silent when nothing is delivered; else record (authorized=true) and only if the record was
accepted execute. -/
def outcome (kv : KV) (c : Caller) (op : Op) (aok sok : Bool) : KV × Res × List Entry :=
  if !wellFormed op then (kv, .other, [])
  else if !grantedStd c (actionOf op) (nameOf op) then (kv, .denied, [entryOf c op false])
  else match op with
    | .getCond n old =>
      (match get kv n with
       | .error er => (kv, kvErr er, [])
       | .ok (b, v) =>
         if v = old then (kv, .notChanged, [])
         else if !aok then (kv, .other, [entryOf c op true])
         else (kv, .value b v, [entryOf c op true]))
    | _ =>
      if !aok then (kv, .other, [entryOf c op true])
      else ((exec kv op sok).1, (exec kv op sok).2, [entryOf c op true])

open Setec.DBMon in
theorem step_outcome (kv : KV) (c : Caller) (op : Op) (aok sok : Bool) (hl : op ≠ .list) :
    step Cfg.std kv c op aok sok = outcome kv c op aok sok := by
  cases op with
  | list => exact absurd rfl hl
  | getCond n v =>
    simp only [step, outcome, checkAndLog, allowed_std, entryOf, actionOf, nameOf, versionGiven, wellFormed, std_actGetCond]
    by_cases hg : grantedStd c "get" n = true <;> cases aok <;> simp [hg] <;> (repeat' split) <;> simp_all
  | info n =>
    simp only [step, outcome, exec, checkAndLog, allowed_std, entryOf, actionOf, nameOf, versionGiven, wellFormed, std_actInfo]
    by_cases hg : grantedStd c "info" n = true <;> cases aok <;> simp [hg] <;> (repeat' split) <;> simp_all
  | get n =>
    simp only [step, outcome, exec, checkAndLog, allowed_std, entryOf, actionOf, nameOf, versionGiven, wellFormed, std_actGet]
    by_cases hg : grantedStd c "get" n = true <;> cases aok <;> simp [hg] <;> (repeat' split) <;> simp_all
  | getVersion n v =>
    simp only [step, outcome, exec, checkAndLog, allowed_std, entryOf, actionOf, nameOf, versionGiven, wellFormed, std_actGetVersion]
    by_cases hg : grantedStd c "get" n = true <;> cases aok <;> simp [hg] <;> (repeat' split) <;> simp_all
  | put n v =>
    simp only [step, outcome, exec, checkAndLog, allowed_std, entryOf, actionOf, nameOf, versionGiven, wellFormed, std_actPut, std_guardPresent]
    by_cases hn : n = "" <;> by_cases hg : grantedStd c "put" n = true <;> cases aok <;> simp [hn, hg] <;> (repeat' split) <;> simp_all
  | activate n v =>
    simp only [step, outcome, exec, checkAndLog, allowed_std, entryOf, actionOf, nameOf, versionGiven, wellFormed, std_actActivate]
    by_cases hn : n = "" <;> by_cases hg : grantedStd c "activate" n = true <;> cases aok <;> simp [hn, hg] <;> (repeat' split) <;> simp_all
  | deleteVersion n v =>
    simp only [step, outcome, exec, checkAndLog, allowed_std, entryOf, actionOf, nameOf, versionGiven, wellFormed, std_actDeleteVersion]
    by_cases hg : grantedStd c "delete" n = true <;> cases aok <;> simp [hg] <;> (repeat' split) <;> simp_all
  | delete n =>
    simp only [step, outcome, exec, checkAndLog, allowed_std, entryOf, actionOf, nameOf, versionGiven, wellFormed, std_actDelete]
    by_cases hg : grantedStd c "delete" n = true <;> cases aok <;> simp [hg] <;> (repeat' split) <;> simp_all

/-- histories -/
structure Call where
  caller : Caller
  op : Op
  auditOk : Bool
  saveOk : Bool

def run (cfg : Cfg) (kv : KV) : List Call → KV
  | [] => kv
  | x :: xs => run cfg (step cfg kv x.caller x.op x.auditOk x.saveOk).1 xs

theorem run_inv (cfg : Cfg) (kv : KV) (h : Inv kv) (xs : List Call) : Inv (run cfg kv xs) := by
  induction xs generalizing kv with
  | nil => exact h
  | cons x xs ih => exact ih _ (step_inv cfg kv x.caller x.op x.auditOk x.saveOk h)

theorem run_synced (cfg : Cfg) (kv : KV) (h : Inv kv) (hs : Synced kv) (xs : List Call) :
    Synced (run cfg kv xs) := by
  induction xs generalizing kv with
  | nil => exact hs
  | cons x xs ih =>
    exact ih _ (step_inv cfg kv x.caller x.op x.auditOk x.saveOk h)
             (step_synced cfg kv x.caller x.op x.auditOk x.saveOk h hs)

end Setec.DB
