import Setec.Model.Cadence
/- Soundness and completeness of the `cadence` monitor clause for a ticker of constant period. -/
namespace Setec.Cadence

theorem gaps_ticks (p s : Int) (n : Nat) : gaps s (ticks p s n) = List.replicate n p := by
  induction n generalizing s with
  | zero => rfl
  | succ n ih => simp [ticks, gaps, ih, List.replicate_succ]; omega

theorem length_ticks (p s : Int) (n : Nat) : (ticks p s n).length = n := by
  induction n generalizing s with
  | zero => rfl
  | succ n ih => simp [ticks, ih]

/-- Soundness of the monitor clause: whatever period within a tenth of the interval the ticker
has, three or more of its ticks are accepted. -/
theorem cadenceOK_of_period (i p : Int) (n : Nat) (hn : 3 ≤ n)
    (hlo : i - i / 10 ≤ p) (hhi : p ≤ i + i / 10) : cadenceOK i (ticks p 0 n) = true := by
  unfold cadenceOK
  rw [gaps_ticks, length_ticks]
  simp [List.all_replicate, hlo, hhi]
  omega

/-- and completeness of the clause for a ticker: a period outside the band is refused -/
theorem cadenceOK_refuses (i p : Int) (n : Nat) (hn : 1 ≤ n)
    (hout : p < i - i / 10 ∨ i + i / 10 < p) : cadenceOK i (ticks p 0 n) = false := by
  unfold cadenceOK
  rw [gaps_ticks, length_ticks]
  cases n with
  | zero => omega
  | succ m =>
    simp [List.replicate_succ]
    intro _ h1 h2
    omega

/-- The clause says what the statement says, for any arrival times whatever (no ticker assumed):
it holds exactly when three polls or more were seen and every distance between consecutive polls
(the first measured from the store's start) lies within a tenth of the interval on either side. -/
theorem cadenceOK_iff (i : Int) (polls : List Int) :
    cadenceOK i polls = true ↔
      3 ≤ polls.length ∧ ∀ g ∈ gaps 0 polls, i - i / 10 ≤ g ∧ g ≤ i + i / 10 := by
  simp [cadenceOK, List.all_eq_true]

end Setec.Cadence
