import Setec.Model.Json
/-
Proofs about the audit record's text form: reading back what was written yields the record,
for all strings; the line holds exactly one newline, its last character.
-/
namespace Setec.Json

/-! ### strip -/

theorem strip_append (p s : Str) : strip p (p ++ s) = some s := by
  induction p with
  | nil => cases s <;> rfl
  | cons c cs ih => simp [strip, ih]

/-- the two texts differ at some position before either ends -/
def mismatch : Str → Str → Bool
  | p :: ps, q :: qs => if p = q then mismatch ps qs else true
  | _, _ => false

theorem strip_mismatch (p q s : Str) (h : mismatch p q = true) : strip p (q ++ s) = none := by
  induction p generalizing q with
  | nil => cases q <;> simp [mismatch] at h
  | cons c cs ih =>
    cases q with
    | nil => simp [mismatch] at h
    | cons d ds =>
      simp only [mismatch] at h
      simp only [List.cons_append, strip]
      split
      · next heq => simp [heq] at h; exact ih ds h
      · rfl

/-! ### one character -/

theorem hex4_byte (n : Fin 128) :
    hex4 '0' '0' (hexDigit (n.val / 16)) (hexDigit (n.val % 16)) = some n.val := by
  revert n; decide +kernel

theorem readString_u (a b c d : Char) (tl : Str) :
    readString ('\\' :: 'u' :: a :: b :: c :: d :: tl) = onHex (hex4 a b c d) (readString tl) := by
  rw [readString.eq_def]; simp

theorem readString_esc (e : Char) (tl : Str) (he : e ≠ 'u') :
    readString ('\\' :: e :: tl) = onEsc (unesc1 e) (readString tl) := by
  rw [readString.eq_def]; simp only [he]; simp

theorem readString_plain (c : Char) (tl : Str) (h1 : c ≠ '"') (h2 : c ≠ '\\') (h3 : ¬ c.toNat < 32) :
    readString (c :: tl) = consFst c (readString tl) := by
  rw [readString.eq_def]; simp [h1, h2, h3]

theorem char_eq_of_toNat (c : Char) (n : Nat) (h : c.toNat = n) : c = Char.ofNat n := by
  rw [← h, Char.ofNat_toNat]

/-- reading back one written character -/
theorem readString_escapeChar (c : Char) (tl : Str) :
    readString (escapeChar c ++ tl) = consFst c (readString tl) := by
  unfold escapeChar
  split
  · next h => subst h; rw [List.cons_append, List.cons_append, readString_esc _ _ (by decide)]; rfl
  split
  · next h => subst h; rw [List.cons_append, List.cons_append, readString_esc _ _ (by decide)]; rfl
  split
  · next h => subst h; rw [List.cons_append, List.cons_append, readString_esc _ _ (by decide)]; rfl
  split
  · next h => subst h; rw [List.cons_append, List.cons_append, readString_esc _ _ (by decide)]; rfl
  split
  · next h => subst h; rw [List.cons_append, List.cons_append, readString_esc _ _ (by decide)]; rfl
  split
  · next h => subst h; rw [List.cons_append, List.cons_append, readString_esc _ _ (by decide)]; rfl
  split
  · next h => subst h; rw [List.cons_append, List.cons_append, readString_esc _ _ (by decide)]; rfl
  split
  · next _ _ _ _ _ _ _ h =>
    have hlt : c.toNat < 128 := by
      rcases h with h | h | h | h
      · omega
      · subst h; decide
      · subst h; decide
      · subst h; decide
    simp only [List.cons_append, List.nil_append]
    rw [readString_u]
    have := hex4_byte ⟨c.toNat, hlt⟩
    simp only at this
    rw [this]
    simp only [onHex, Char.ofNat_toNat]
  split
  · next h => subst h; simp only [List.cons_append, List.nil_append]; rw [readString_u]; rfl
  split
  · next h => subst h; simp only [List.cons_append, List.nil_append]; rw [readString_u]; rfl
  · next h1 h2 _ _ _ _ _ h8 _ _ =>
    have h3 : ¬ c.toNat < 32 := fun hc => h8 (Or.inl hc)
    simp only [List.cons_append, List.nil_append]
    exact readString_plain c tl h1 h2 h3

/-- reading back a written string body: the text, and exactly what followed the closing quote -/
theorem readString_escape (s rest : Str) : readString (escape s ++ '"' :: rest) = some (s, rest) := by
  induction s with
  | nil => simp only [escape, List.nil_append]; rw [readString.eq_def]; simp
  | cons c cs ih =>
    simp only [escape, List.append_assoc]
    rw [readString_escapeChar, ih]
    rfl

theorem readQuoted_quote (s rest : Str) : readQuoted (quote s ++ rest) = some (s, rest) := by
  simp only [quote, List.cons_append, readQuoted, List.append_assoc]
  exact readString_escape s rest

/-! ### numbers -/

theorem isDigit_digitChar (d : Nat) (h : d < 10) : isDigit (digitChar d) = true := by
  have : ∀ d : Fin 10, isDigit (digitChar d.val) = true := by decide
  exact this ⟨d, h⟩

theorem digitChar_val (d : Nat) (h : d < 10) : (digitChar d).toNat - 48 = d := by
  have : ∀ d : Fin 10, (digitChar d.val).toNat - 48 = d.val := by decide
  exact this ⟨d, h⟩

def valAux (acc : Nat) (ds : Str) : Nat := ds.foldl (fun a c => a * 10 + (c.toNat - 48)) acc

theorem readNatAux_append (ds rest : Str) (acc : Nat) (h : ∀ c ∈ ds, isDigit c = true) :
    readNatAux acc (ds ++ rest) = readNatAux (valAux acc ds) rest := by
  induction ds generalizing acc with
  | nil => rfl
  | cons d ds ih =>
    simp only [List.cons_append, readNatAux, h d (by simp), if_true]
    rw [ih _ (fun c hc => h c (List.mem_cons_of_mem _ hc))]
    rfl

theorem digits_all_digit (n : Nat) : ∀ c ∈ digits n, isDigit c = true := by
  induction n using Nat.strongRecOn with
  | _ n ih =>
    unfold digits
    split
    · next h => intro c hc; simp only [List.mem_cons, List.mem_nil_iff, or_false] at hc; subst hc; exact isDigit_digitChar n h
    · next h =>
      intro c hc
      rcases List.mem_append.mp hc with hc | hc
      · exact ih _ (by omega) c hc
      · simp only [List.mem_cons, List.mem_nil_iff, or_false] at hc; subst hc
        exact isDigit_digitChar _ (Nat.mod_lt _ (by omega))

theorem valAux_digits (n : Nat) : valAux 0 (digits n) = n := by
  induction n using Nat.strongRecOn with
  | _ n ih =>
    unfold digits
    split
    · next h => simp [valAux, digitChar_val n h]
    · next h =>
      have := ih (n / 10) (by omega)
      simp only [valAux] at this ⊢
      rw [List.foldl_append, this]
      simp only [List.foldl_cons, List.foldl_nil, digitChar_val _ (Nat.mod_lt n (by omega : 0 < 10))]
      omega

theorem digits_ne_nil (n : Nat) : digits n ≠ [] := by
  unfold digits; split <;> simp

theorem digits_head_isDigit (n : Nat) : ∃ c tl, digits n = c :: tl ∧ isDigit c = true := by
  induction n using Nat.strongRecOn with
  | _ n ih =>
    unfold digits
    split
    · next h => exact ⟨_, [], rfl, isDigit_digitChar n h⟩
    · next h =>
      obtain ⟨c, tl, hc, hd⟩ := ih (n / 10) (by omega)
      exact ⟨c, tl ++ [digitChar (n % 10)], by rw [hc]; rfl, hd⟩

theorem readNat_digits (n : Nat) (rest : Str) (hr : ∀ c tl, rest = c :: tl → isDigit c = false) :
    readNat (digits n ++ rest) = some (n, rest) := by
  obtain ⟨c, tl, hc, hd⟩ := digits_head_isDigit n
  have h1 : readNat (digits n ++ rest) = some (readNatAux 0 (digits n ++ rest)) := by
    rw [hc]; simp [readNat, hd]
  rw [h1, readNatAux_append _ _ _ (digits_all_digit n), valAux_digits]
  cases rest with
  | nil => rfl
  | cons c tl => simp [readNatAux, hr c tl rfl]

/-! ### tags -/

theorem readTags_join (tags : List Str) (hne : tags ≠ []) (rest : Str) (fuel : Nat) (hf : tags.length ≤ fuel) :
    readTags fuel (joinComma (tags.map quote) ++ ']' :: rest) = some (tags, rest) := by
  induction tags generalizing fuel with
  | nil => exact absurd rfl hne
  | cons t ts ih =>
    cases fuel with
    | zero => simp at hf
    | succ fuel =>
      cases ts with
      | nil =>
        simp only [List.map, joinComma, readTags, readQuoted_quote]
        simp
      | cons u us =>
        simp only [List.map, joinComma, List.append_assoc, List.cons_append, readTags, readQuoted_quote]
        have := ih (by simp) fuel (by simp at hf ⊢; omega)
        simp only [List.map] at this
        simp [this]

theorem length_tags_le (tags : List Str) (rest : Str) :
    tags.length ≤ (joinComma (tags.map quote) ++ ']' :: rest).length := by
  induction tags with
  | nil => simp
  | cons t ts ih =>
    cases ts with
    | nil => simp [joinComma, quote]
    | cons u us =>
      simp only [List.map, joinComma, List.append_assoc, List.cons_append, List.length_append, List.length_cons] at ih ⊢
      omega

/-! ### the record -/

theorem optField_present (key s rest : Str) (h : s ≠ []) :
    optField key ((if s = [] then [] else key ++ quote s) ++ rest) = some (s, rest) := by
  simp only [h, if_false, List.append_assoc, optField, strip_append, readQuoted_quote]

theorem optField_absent (key : Str) (s rest q : Str) (h : s = []) (hm : mismatch key q = true) :
    optField key ((if s = [] then [] else key ++ quote s) ++ (q ++ rest)) = some (s, q ++ rest) := by
  simp only [h, if_true, List.nil_append, optField, strip_mismatch key q rest hm]

theorem parsePrincipal_render (p : Principal) (rest : Str) :
    parsePrincipal (renderPrincipal p ++ rest) = some (p, rest) := by
  obtain ⟨host, ip, user, tags⟩ := p
  simp only [parsePrincipal, renderPrincipal, List.append_assoc, strip_append, Option.bind_some, readQuoted_quote]
  -- user
  have huser : ∀ tl : Str, (tl = kTags ++ tl.drop kTags.length ∨ tl = '}' :: tl.tail) →
      optField kUser ((if user = [] then [] else kUser ++ quote user) ++ tl) = some (user, tl) := by
    intro tl htl
    by_cases hu : user = []
    · rcases htl with h | h
      · rw [h]; exact optField_absent kUser user _ kTags hu (by decide)
      · rw [h]; exact optField_absent kUser user tl.tail ['}'] hu (by decide)
    · exact optField_present kUser user tl hu
  by_cases ht : tags = []
  · subst ht
    simp only [if_true, List.nil_append]
    rw [huser _ (Or.inr rfl)]
    simp only [Option.bind_some]
    have : strip kTags ('}' :: rest) = none := strip_mismatch kTags ['}'] rest (by decide)
    simp [this, strip]
  · simp only [ht, if_false, List.append_assoc]
    rw [huser _ (Or.inl (by simp))]
    simp only [Option.bind_some, strip_append, List.cons_append, List.nil_append]
    rw [readTags_join tags ht _ _ (length_tags_le tags _)]
    simp [strip]

theorem parseBool_render (b : Bool) (rest : Str) (hr : mismatch kTrue rest = false → True) :
    parseBool ((if b then kTrue else kFalse) ++ rest) = some (b, rest) := by
  cases b
  · simp only [Bool.false_eq_true, if_false, parseBool, strip_mismatch kTrue kFalse rest (by decide), strip_append]; rfl
  · simp only [if_true, parseBool, strip_append]

/-- Reading back the record part of a line yields the record and exactly the text after it -
for every hostname, user, tag list, action and secret name, whatever characters they hold. -/
theorem parseTail_render (r : Record) (rest : Str) : parseTail (renderTail r rest) = some (r, rest) := by
  obtain ⟨p, action, auth, secret, version⟩ := r
  simp only [parseTail, renderTail, strip_append, Option.bind_some]
  rw [parsePrincipal_render]
  simp only [Option.bind_some, strip_append, readQuoted_quote]
  rw [parseBool_render _ _ (fun _ => trivial)]
  simp only [Option.bind_some]
  have hsecret : ∀ tl : Str, (tl = kVersion ++ tl.drop kVersion.length ∨ tl = '}' :: tl.tail) →
      optField kSecret ((if secret = [] then [] else kSecret ++ quote secret) ++ tl) = some (secret, tl) := by
    intro tl htl
    by_cases hs : secret = []
    · rcases htl with h | h
      · rw [h]; exact optField_absent kSecret secret _ kVersion hs (by decide)
      · rw [h]; exact optField_absent kSecret secret tl.tail ['}'] hs (by decide)
    · exact optField_present kSecret secret tl hs
  by_cases hv : version = 0
  · subst hv
    simp only [if_true, List.nil_append]
    rw [hsecret _ (Or.inr rfl)]
    simp only [Option.bind_some]
    have : strip kVersion ('}' :: rest) = none := strip_mismatch kVersion ['}'] rest (by decide)
    simp [this, strip]
  · simp only [hv, if_false, List.append_assoc]
    rw [hsecret _ (Or.inl (by simp))]
    simp only [Option.bind_some, strip_append]
    rw [readNat_digits version ('}' :: rest) (by intro c tl h; simp only [List.cons.injEq] at h; rw [← h.1]; decide)]
    simp [strip]

/-- the whole line reads back as the stamped id and time and the record -/
theorem parseLine_render (id : Nat) (time : Str) (r : Record) :
    parseLine (renderLine id time r) = some (id, time, r, ['\n']) := by
  simp only [parseLine, renderLine, strip_append, Option.bind_some]
  rw [readNat_digits id _ (by
    intro c tl h
    have : kTime = ',' :: kTime.tail := by decide
    rw [this] at h
    simp only [List.cons_append, List.cons.injEq] at h
    rw [← h.1]; decide)]
  simp only [Option.bind_some, strip_append, readQuoted_quote, parseTail_render, Option.map_some]

/-- two different records never share a line (no string in a record can forge another field) -/
theorem renderLine_injective (id id' : Nat) (time time' : Str) (r r' : Record)
    (h : renderLine id time r = renderLine id' time' r') : id = id' ∧ time = time' ∧ r = r' := by
  have h1 := parseLine_render id time r
  rw [h, parseLine_render] at h1
  simp only [Option.some.injEq, Prod.mk.injEq] at h1
  exact ⟨h1.1.symm, h1.2.1.symm, h1.2.2.1.symm⟩

/-! ### one line -/

def NoNL (s : Str) : Prop := ∀ c ∈ s, c ≠ '\n'

theorem NoNL_append {a b : Str} (ha : NoNL a) (hb : NoNL b) : NoNL (a ++ b) := by
  intro c hc
  rcases List.mem_append.mp hc with h | h
  · exact ha c h
  · exact hb c h

theorem NoNL_nil : NoNL [] := by intro c hc; cases hc

theorem NoNL_hexDigit (n : Nat) : hexDigit n ≠ '\n' := by
  by_cases h : n < 16
  · have : ∀ n : Fin 16, hexDigit n.val ≠ '\n' := by decide
    exact this ⟨n, h⟩
  · have : hexDigit n = '?' := by
      unfold hexDigit
      rw [if_neg (by omega), if_neg h]
    rw [this]; decide

theorem NoNL_escapeChar (c : Char) : NoNL (escapeChar c) := by
  unfold escapeChar
  intro x hx
  repeat' split at hx
  all_goals (simp only [List.mem_cons, List.mem_nil_iff, or_false] at hx)
  all_goals (first
    | (rcases hx with h | h | h | h | h | h <;> subst h <;> first | decide | exact NoNL_hexDigit _)
    | (rcases hx with h | h <;> subst h <;> decide)
    | (subst hx; assumption))

theorem NoNL_escape (s : Str) : NoNL (escape s) := by
  induction s with
  | nil => exact NoNL_nil
  | cons c cs ih => exact NoNL_append (NoNL_escapeChar c) ih

theorem NoNL_quote (s : Str) : NoNL (quote s) := by
  intro c hc
  simp only [quote, List.mem_cons, List.mem_append, List.mem_nil_iff, or_false] at hc
  rcases hc with h | h | h
  · subst h; decide
  · exact NoNL_escape s c h
  · subst h; decide

theorem NoNL_digitChar (d : Nat) (h : d < 10) : digitChar d ≠ '\n' := by
  have : ∀ d : Fin 10, digitChar d.val ≠ '\n' := by decide
  exact this ⟨d, h⟩

theorem NoNL_digits (n : Nat) : NoNL (digits n) := by
  induction n using Nat.strongRecOn with
  | _ n ih =>
    unfold digits
    split
    · next h => intro c hc; simp only [List.mem_cons, List.mem_nil_iff, or_false] at hc; subst hc; exact NoNL_digitChar n h
    · next h =>
      apply NoNL_append (ih _ (by omega))
      intro c hc; simp only [List.mem_cons, List.mem_nil_iff, or_false] at hc; subst hc
      exact NoNL_digitChar _ (Nat.mod_lt _ (by omega))

theorem NoNL_joinComma (l : List Str) (h : ∀ s ∈ l, NoNL s) : NoNL (joinComma l) := by
  induction l with
  | nil => exact NoNL_nil
  | cons x xs ih =>
    cases xs with
    | nil => simpa [joinComma] using h x (by simp)
    | cons y ys =>
      simp only [joinComma]
      apply NoNL_append (h x (by simp))
      intro c hc
      simp only [List.mem_cons] at hc
      rcases hc with hc | hc
      · subst hc; decide
      · exact ih (fun s hs => h s (List.mem_cons_of_mem _ hs)) c (by simpa using hc)

theorem NoNL_lit (k : Str) (h : k.all (· != '\n') = true) : NoNL k := by
  intro c hc
  have := List.all_eq_true.mp h c hc
  simpa using this

theorem NoNL_ite (c : Prop) [Decidable c] (a b : Str) (ha : NoNL a) (hb : NoNL b) : NoNL (if c then a else b) := by
  split <;> assumption

/-- A record occupies exactly one line: the only newline character in it is the terminator,
whatever the caller's hostname, user, tags or the secret's name contain. -/
theorem renderLine_one_line (id : Nat) (time : Str) (r : Record) :
    ∃ body, renderLine id time r = body ++ ['\n'] ∧ NoNL body := by
  refine ⟨kId ++ (digits id ++ (kTime ++ (quote time ++ renderTail r []))), ?_, ?_⟩
  · simp [renderLine, renderTail, List.append_assoc]
  · have hq : ∀ l : List Str, NoNL (joinComma (l.map quote)) := by
      intro l
      apply NoNL_joinComma
      intro s hs
      obtain ⟨t, _, ht⟩ := List.mem_map.mp hs
      rw [← ht]; exact NoNL_quote t
    unfold renderTail renderPrincipal
    repeat' (first
      | apply NoNL_append
      | apply NoNL_ite
      | exact NoNL_quote _
      | exact NoNL_digits _
      | exact hq _
      | exact NoNL_nil
      | exact NoNL_lit _ (by decide))

end Setec.Json
