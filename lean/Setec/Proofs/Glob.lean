import Setec.Model.Glob
/-! Helper lemmas and the core equivalence for the glob matcher (C07). -/
namespace Setec.Glob

/-- Independent character-level specification of whole-name glob matching:
a literal consumes itself, `*` consumes zero or more arbitrary characters. -/
inductive Glob : List Char → List Char → Prop
  | nil : Glob [] []
  | lit {c p s} : c ≠ '*' → Glob p s → Glob (c :: p) (c :: s)
  | starZero {p s} : Glob p s → Glob ('*' :: p) s
  | starMore {p c s} : Glob ('*' :: p) s → Glob ('*' :: p) (c :: s)

theorem splitStar_ne_nil (cs : List Char) : splitStar cs ≠ [] := by
  induction cs with
  | nil => simp [splitStar]
  | cons c cs ih =>
    rw [splitStar]
    split
    · simp
    · split <;> simp

theorem reMatch_nil (d : Bool) (s : List Char) : reMatch d (splitStar []) s = s.isEmpty := by
  simp [splitStar, reMatch, matchTail]

theorem splitStar_lit (c : Char) (cs p : List Char) (ps : List (List Char)) (hc : c ≠ '*')
    (h : splitStar cs = p :: ps) : splitStar (c :: cs) = (c :: p) :: ps := by
  rw [splitStar]; simp [hc, h]

theorem reMatch_lit (d : Bool) (c : Char) (cs s : List Char) (hc : c ≠ '*') :
    reMatch d (splitStar (c :: cs)) s =
      (match s with
       | [] => false
       | c' :: s' => c' == c && reMatch d (splitStar cs) s') := by
  have hne := splitStar_ne_nil cs
  cases h : splitStar cs with
  | nil => exact absurd h hne
  | cons p ps =>
    rw [splitStar_lit c cs p ps hc h]
    cases s with
    | nil => simp [reMatch]
    | cons c' s' =>
      simp only [reMatch, List.isPrefixOf, List.length_cons, List.drop_succ_cons]
      by_cases hcc : c' = c
      · subst hcc; simp
      · have : (c == c') = false := by simp [Ne.symm hcc]
        simp [this, hcc]

theorem reMatch_star (d : Bool) (cs s : List Char) :
    reMatch d (splitStar ('*' :: cs)) s =
      (reMatch d (splitStar cs) s ||
       (match s with
        | [] => false
        | c :: s' => dotOk d c && reMatch d (splitStar ('*' :: cs)) s')) := by
  have hne := splitStar_ne_nil cs
  have e : splitStar ('*' :: cs) = [] :: splitStar cs := by simp [splitStar]
  rw [e]
  cases h : splitStar cs with
  | nil => exact absurd h hne
  | cons l ls =>
    simp only [reMatch, List.isPrefixOf, List.length_nil, List.drop_zero, Bool.true_and]
    cases s <;> simp [matchTail, scan]

/-- Core equivalence: with flag `s` the regexp the code builds accepts exactly
the glob language. -/
theorem reMatch_iff_glob (p s : List Char) :
    reMatch true (splitStar p) s = true ↔ Glob p s := by
  induction p generalizing s with
  | nil =>
    rw [reMatch_nil]
    constructor
    · intro h; cases s with
      | nil => exact Glob.nil
      | cons _ _ => simp at h
    · intro h; cases h; rfl
  | cons c cs ih =>
    by_cases hc : c = '*'
    · subst hc
      induction s with
      | nil =>
        rw [reMatch_star]
        simp only [Bool.or_false]
        constructor
        · intro h; exact Glob.starZero ((ih []).mp h)
        · intro h; cases h with
          | starZero h' => exact (ih []).mpr h'
      | cons a s' ihs =>
        rw [reMatch_star]
        simp only [dotOk, Bool.true_or, Bool.true_and, Bool.or_eq_true]
        constructor
        · rintro (h | h)
          · exact Glob.starZero ((ih _).mp h)
          · exact Glob.starMore (ihs.mp h)
        · intro h; cases h with
          | starZero h' => exact Or.inl ((ih _).mpr h')
          | starMore h' => exact Or.inr (ihs.mpr h')
          | lit hne _ => exact absurd rfl hne
    · rw [reMatch_lit _ _ _ _ hc]
      cases s with
      | nil =>
        simp only
        constructor
        · intro h; cases h
        · intro h; cases h with
          | starZero _ => exact absurd rfl hc
      | cons a s' =>
        simp only [Bool.and_eq_true, beq_iff_eq]
        constructor
        · rintro ⟨rfl, h⟩; exact Glob.lit hc ((ih _).mp h)
        · intro h; cases h with
          | lit _ h' => exact ⟨rfl, (ih _).mpr h'⟩
          | starZero _ => exact absurd rfl hc
          | starMore _ => exact absurd rfl hc

/-- a star-free pattern matches itself -/
theorem glob_self_of_nostar (p : List Char) (h : p.contains '*' = false) : Glob p p := by
  induction p with
  | nil => exact Glob.nil
  | cons c cs ih =>
    simp only [List.contains_cons, Bool.or_eq_false_iff, beq_eq_false_iff_ne, ne_eq] at h
    exact Glob.lit (fun e => h.1 e.symm) (ih (by simpa using h.2))

/-- a star-free pattern matches only itself -/
theorem glob_nostar_eq (p s : List Char) (h : p.contains '*' = false) (g : Glob p s) : p = s := by
  induction g with
  | nil => rfl
  | lit hc _ ih =>
    simp only [List.contains_cons, Bool.or_eq_false_iff] at h
    rw [ih (by simpa using h.2)]
  | starZero _ _ => simp at h
  | starMore _ _ => simp at h

theorem implMatch_iff_glob (p s : List Char) : implMatch true p s = true ↔ Glob p s := by
  unfold implMatch
  split
  · next h =>
    simp only [Bool.and_eq_true, Bool.not_eq_true', beq_iff_eq] at h
    obtain ⟨h1, rfl⟩ := h
    exact ⟨fun _ => glob_self_of_nostar p h1, fun _ => rfl⟩
  · exact reMatch_iff_glob p s

end Setec.Glob
