import Setec.Model.Glob
/-! Helper lemmas and the core equivalence for the glob matcher (C07). -/
namespace Setec.Glob

/-- Independent character-level specification of whole-name glob matching:
a literal consumes itself, `*` consumes zero or more arbitrary characters. -/
inductive Glob : List Char → List Char → Prop
  | nil : Glob [] []
  | lit {c p s} : c ≠ '*' → Glob p s → Glob (c :: p) (c :: s)
  | starZero {p s} : Glob p s → Glob ('*' :: p) s
  | starMore {p c s} : Glob ('*' :: p) s → Glob ('*' :: p) (c :: s)

theorem splitStar_ne_nil (cs : List Char) : splitStar cs ≠ [] := by
  induction cs with
  | nil => simp [splitStar]
  | cons c cs ih =>
    rw [splitStar]
    split
    · simp
    · split <;> simp

theorem reMatch_nil (d : Bool) (s : List Char) : reMatch d (splitStar []) s = s.isEmpty := by
  simp [splitStar, reMatch, matchTail]

theorem splitStar_lit (c : Char) (cs p : List Char) (ps : List (List Char)) (hc : c ≠ '*')
    (h : splitStar cs = p :: ps) : splitStar (c :: cs) = (c :: p) :: ps := by
  rw [splitStar]; simp [hc, h]

theorem reMatch_lit (d : Bool) (c : Char) (cs s : List Char) (hc : c ≠ '*') :
    reMatch d (splitStar (c :: cs)) s =
      (match s with
       | [] => false
       | c' :: s' => c' == c && reMatch d (splitStar cs) s') := by
  have hne := splitStar_ne_nil cs
  cases h : splitStar cs with
  | nil => exact absurd h hne
  | cons p ps =>
    rw [splitStar_lit c cs p ps hc h]
    cases s with
    | nil => simp [reMatch]
    | cons c' s' =>
      simp only [reMatch, List.isPrefixOf, List.length_cons, List.drop_succ_cons]
      by_cases hcc : c' = c
      · subst hcc; simp
      · have : (c == c') = false := by simp [Ne.symm hcc]
        simp [this, hcc]

theorem reMatch_star (d : Bool) (cs s : List Char) :
    reMatch d (splitStar ('*' :: cs)) s =
      (reMatch d (splitStar cs) s ||
       (match s with
        | [] => false
        | c :: s' => dotOk d c && reMatch d (splitStar ('*' :: cs)) s')) := by
  have hne := splitStar_ne_nil cs
  have e : splitStar ('*' :: cs) = [] :: splitStar cs := by simp [splitStar]
  rw [e]
  cases h : splitStar cs with
  | nil => exact absurd h hne
  | cons l ls =>
    simp only [reMatch, List.isPrefixOf, List.length_nil, List.drop_zero, Bool.true_and]
    cases s <;> simp [matchTail, scan]

/-- Core equivalence: with flag `s` the regexp the code builds accepts exactly
the glob language. -/
theorem reMatch_iff_glob (p s : List Char) :
    reMatch true (splitStar p) s = true ↔ Glob p s := by
  induction p generalizing s with
  | nil =>
    rw [reMatch_nil]
    constructor
    · intro h; cases s with
      | nil => exact Glob.nil
      | cons _ _ => simp at h
    · intro h; cases h; rfl
  | cons c cs ih =>
    by_cases hc : c = '*'
    · subst hc
      induction s with
      | nil =>
        rw [reMatch_star]
        simp only [Bool.or_false]
        constructor
        · intro h; exact Glob.starZero ((ih []).mp h)
        · intro h; cases h with
          | starZero h' => exact (ih []).mpr h'
      | cons a s' ihs =>
        rw [reMatch_star]
        simp only [dotOk, Bool.true_or, Bool.true_and, Bool.or_eq_true]
        constructor
        · rintro (h | h)
          · exact Glob.starZero ((ih _).mp h)
          · exact Glob.starMore (ihs.mp h)
        · intro h; cases h with
          | starZero h' => exact Or.inl ((ih _).mpr h')
          | starMore h' => exact Or.inr (ihs.mpr h')
          | lit hne _ => exact absurd rfl hne
    · rw [reMatch_lit _ _ _ _ hc]
      cases s with
      | nil =>
        simp only
        constructor
        · intro h; cases h
        · intro h; cases h with
          | starZero _ => exact absurd rfl hc
      | cons a s' =>
        simp only [Bool.and_eq_true, beq_iff_eq]
        constructor
        · rintro ⟨rfl, h⟩; exact Glob.lit hc ((ih _).mp h)
        · intro h; cases h with
          | lit _ h' => exact ⟨rfl, (ih _).mpr h'⟩
          | starZero _ => exact absurd rfl hc
          | starMore _ => exact absurd rfl hc

/-- a star-free pattern matches itself -/
theorem glob_self_of_nostar (p : List Char) (h : p.contains '*' = false) : Glob p p := by
  induction p with
  | nil => exact Glob.nil
  | cons c cs ih =>
    simp only [List.contains_cons, Bool.or_eq_false_iff, beq_eq_false_iff_ne, ne_eq] at h
    exact Glob.lit (fun e => h.1 e.symm) (ih (by simpa using h.2))

/-- a star-free pattern matches only itself -/
theorem glob_nostar_eq (p s : List Char) (h : p.contains '*' = false) (g : Glob p s) : p = s := by
  induction g with
  | nil => rfl
  | lit hc _ ih =>
    simp only [List.contains_cons, Bool.or_eq_false_iff] at h
    rw [ih (by simpa using h.2)]
  | starZero _ _ => simp at h
  | starMore _ _ => simp at h

theorem implMatch_iff_glob (p s : List Char) : implMatch true p s = true ↔ Glob p s := by
  unfold implMatch
  split
  · next h =>
    simp only [Bool.and_eq_true, Bool.not_eq_true', beq_iff_eq] at h
    obtain ⟨h1, rfl⟩ := h
    exact ⟨fun _ => glob_self_of_nostar p h1, fun _ => rfl⟩
  · exact reMatch_iff_glob p s

/-! ### the statement's own wording: literal pieces in order with arbitrary gaps -/

/-- `l0 ++ x1 ++ l1 ++ ... ++ xn ++ ln` for pieces `l0..ln` and gaps `x1..xn` -/
def assemble : List (List Char) → List (List Char) → Option (List Char)
  | [l], [] => some l
  | l :: l' :: ls, x :: xs => (assemble (l' :: ls) xs).map fun r => l ++ x ++ r
  | _, _ => none

theorem assemble_cons_head (c : Char) (l0 : List Char) (ls xs : List (List Char)) :
    assemble ((c :: l0) :: ls) xs = (assemble (l0 :: ls) xs).map (c :: ·) := by
  cases ls with
  | nil => cases xs <;> simp [assemble]
  | cons l' ls' =>
    cases xs with
    | nil => simp [assemble]
    | cons x xs' =>
      simp only [assemble, Option.map_map]
      congr 1

theorem glob_star_iff (p s : List Char) : Glob ('*' :: p) s ↔ ∃ x r, s = x ++ r ∧ Glob p r := by
  constructor
  · intro h
    induction s with
    | nil =>
      cases h with
      | starZero h' => exact ⟨[], [], rfl, h'⟩
    | cons a s' ih =>
      cases h with
      | starZero h' => exact ⟨[], a :: s', rfl, h'⟩
      | starMore h' =>
        obtain ⟨x, r, hs, hr⟩ := ih h'
        exact ⟨a :: x, r, by rw [hs]; rfl, hr⟩
      | lit hne _ => exact absurd rfl hne
  · rintro ⟨x, r, rfl, hr⟩
    induction x with
    | nil => exact Glob.starZero hr
    | cons a x ih => exact Glob.starMore ih

/-- A pattern matches a name exactly when the pattern's literal pieces (the pattern split at
'*') occur in the name in order, anchored at both ends, with arbitrary text in the gaps. -/
theorem glob_iff_pieces (p s : List Char) : Glob p s ↔ ∃ xs, assemble (splitStar p) xs = some s := by
  induction p generalizing s with
  | nil =>
    constructor
    · intro h; cases h; exact ⟨[], rfl⟩
    · rintro ⟨xs, h⟩
      cases xs <;> simp [splitStar, assemble] at h
      subst h; exact Glob.nil
  | cons c cs ih =>
    have hne := splitStar_ne_nil cs
    cases hsp : splitStar cs with
    | nil => exact absurd hsp hne
    | cons l0 ls =>
      by_cases hc : c = '*'
      · subst hc
        have e : splitStar ('*' :: cs) = [] :: l0 :: ls := by simp [splitStar, hsp]
        rw [e, glob_star_iff]
        constructor
        · rintro ⟨x, r, rfl, hr⟩
          obtain ⟨xs, hxs⟩ := (ih r).mp hr
          rw [hsp] at hxs
          exact ⟨x :: xs, by simp [assemble, hxs]⟩
        · rintro ⟨xs, h⟩
          cases xs with
          | nil => simp [assemble] at h
          | cons x xs' =>
            simp only [assemble, List.nil_append, Option.map_eq_some_iff] at h
            obtain ⟨r, hr, rfl⟩ := h
            exact ⟨x, r, rfl, (ih r).mpr ⟨xs', by rw [hsp]; exact hr⟩⟩
      · rw [splitStar_lit c cs l0 ls hc hsp]
        constructor
        · intro h
          cases h with
          | lit _ h' =>
            obtain ⟨xs, hxs⟩ := (ih _).mp h'
            rw [hsp] at hxs
            exact ⟨xs, by rw [assemble_cons_head, hxs]; rfl⟩
          | starZero _ => exact absurd rfl hc
          | starMore _ => exact absurd rfl hc
        · rintro ⟨xs, h⟩
          rw [assemble_cons_head] at h
          simp only [Option.map_eq_some_iff] at h
          obtain ⟨r, hr, rfl⟩ := h
          exact Glob.lit hc ((ih r).mpr ⟨xs, by rw [hsp]; exact hr⟩)

end Setec.Glob
