import Setec.Model.DBText
import Setec.Proofs.Json
import Setec.Proofs.Base64
import Setec.Proofs.Crypto
/- The text layer of the database's clear document round-trips, for every tree. -/
namespace Setec.DBText
open Setec.Json Setec.Codec

/-! ### generic lists -/

theorem readItems_render {α} (f : α → Str) (item : Str → Option (α × Str)) (close : Char)
    (hitem : ∀ a rest, item (f a ++ rest) = some (a, rest)) (hc : close ≠ ',')
    (l : List α) (hne : l ≠ []) (rest : Str) (fuel : Nat) (hf : l.length ≤ fuel) :
    readItems item close fuel (renderList f l ++ close :: rest) = some (l, rest) := by
  induction l generalizing fuel with
  | nil => exact absurd rfl hne
  | cons a as ih =>
    cases fuel with
    | zero => simp at hf
    | succ fuel =>
      cases as with
      | nil =>
        simp only [renderList, readItems, hitem, hc, if_false, if_true]
      | cons b bs =>
        simp only [renderList, List.append_assoc, List.cons_append, readItems, hitem, if_true]
        have := ih (by simp) fuel (by simp at hf ⊢; omega)
        simp [this]

theorem length_le_renderList {α} (f : α → Str) (hpos : ∀ a, 0 < (f a).length) (l : List α) (rest : Str) :
    l.length ≤ (renderList f l ++ rest).length := by
  induction l with
  | nil => simp
  | cons a as ih =>
    cases as with
    | nil => have := hpos a; simp only [renderList, List.length_cons, List.length_nil, List.length_append]; omega
    | cons b bs =>
      have := hpos a
      simp only [renderList, List.append_assoc, List.cons_append, List.length_append, List.length_cons] at ih ⊢
      omega

theorem renderList_head {α} (f : α → Str) (hq : ∀ a, ∃ tl, f a = '"' :: tl) (l : List α) (hne : l ≠ []) :
    ∃ tl, renderList f l = '"' :: tl := by
  cases l with
  | nil => exact absurd rfl hne
  | cons a as =>
    obtain ⟨tl, h⟩ := hq a
    cases as with
    | nil => exact ⟨tl, by simp [renderList, h]⟩
    | cons b bs => exact ⟨tl ++ ',' :: renderList f (b :: bs), by simp [renderList, h]⟩

theorem readList_render {α} (f : α → Str) (item : Str → Option (α × Str)) (close : Char)
    (hitem : ∀ a rest, item (f a ++ rest) = some (a, rest)) (hc : close ≠ ',') (hcq : close ≠ '"')
    (hq : ∀ a, ∃ tl, f a = '"' :: tl) (l : List α) (rest : Str) :
    readList item close (renderList f l ++ close :: rest) = some (l, rest) := by
  cases l with
  | nil => simp [renderList, readList]
  | cons a as =>
    obtain ⟨tl, h⟩ := renderList_head f hq (a :: as) (by simp)
    have hpos : ∀ a, 0 < (f a).length := by intro a; obtain ⟨t, ht⟩ := hq a; simp [ht]
    have hlen := length_le_renderList f hpos (a :: as) (close :: rest)
    have := readItems_render f item close hitem hc (a :: as) (by simp) rest _ hlen
    rw [h] at this hlen ⊢
    simp only [List.cons_append, readList]
    rw [if_neg (by intro e; exact hcq e.symm)]
    exact this

/-! ### the document -/

theorem encChar_ne_quote (n : Nat) : Base64.encChar n ≠ '"' := by
  by_cases h : n < 64
  · have : ∀ n : Fin 64, Base64.encChar n.val ≠ '"' := by decide +kernel
    exact this ⟨n, h⟩
  · have : Base64.encChar n = 'A' := by
      unfold Base64.encChar
      have hl : Base64.alphabet.length = 64 := by decide +kernel
      rw [List.getD_eq_getElem?_getD, List.getElem?_eq_none (by omega)]
      rfl
    rw [this]; decide

theorem encode_noquote (bs : List UInt8) : ∀ c ∈ Base64.encode bs, c ≠ '"' := by
  fun_induction Base64.encode bs with
  | case1 a b c rest ih =>
    intro x hx
    simp only [List.mem_cons] at hx
    rcases hx with h | h | h | h | h
    · subst h; exact encChar_ne_quote _
    · subst h; exact encChar_ne_quote _
    · subst h; exact encChar_ne_quote _
    · subst h; exact encChar_ne_quote _
    · exact ih x h
  | case2 a b =>
    intro x hx
    simp only [List.mem_cons, List.mem_nil_iff, or_false] at hx
    rcases hx with h | h | h | h
    · subst h; exact encChar_ne_quote _
    · subst h; exact encChar_ne_quote _
    · subst h; exact encChar_ne_quote _
    · subst h; decide
  | case3 a =>
    intro x hx
    simp only [List.mem_cons, List.mem_nil_iff, or_false] at hx
    rcases hx with h | h | h | h
    · subst h; exact encChar_ne_quote _
    · subst h; exact encChar_ne_quote _
    · subst h; decide
    · subst h; decide
  | case4 => intro x hx; cases hx

theorem spanQuote_of_noquote (a rest : Str) (h : ∀ c ∈ a, c ≠ '"') :
    spanQuote (a ++ '"' :: rest) = (a, '"' :: rest) := by
  induction a with
  | nil => simp [spanQuote]
  | cons c cs ih =>
    have hc : c ≠ '"' := h c (by simp)
    simp only [List.cons_append, spanQuote, hc, if_false]
    rw [ih (fun x hx => h x (List.mem_cons_of_mem _ hx))]

theorem readVersion_render (kv : String × KV.Bytes) (rest : Str) :
    readVersion (renderVersion kv ++ rest) = some (kv, rest) := by
  obtain ⟨k, v⟩ := kv
  simp only [readVersion, renderVersion, List.append_assoc, readQuoted_quote, Option.bind_some, List.cons_append,
    List.nil_append]
  have h1 : strip [':', '"'] (':' :: '"' :: (Base64.encode v ++ '"' :: rest)) = some (Base64.encode v ++ '"' :: rest) := by
    simp [strip]
  rw [h1]
  simp only [Option.bind_some, spanQuote_of_noquote _ _ (encode_noquote v), Base64.decode_encode]
  simp [strip, String.ofList_toList]

theorem readSecret_render (e : String × PSecret) (rest : Str) :
    readSecret (renderSecret e ++ rest) = some (e, rest) := by
  obtain ⟨name, vs, act, lat⟩ := e
  have hk1 : kLatest = ',' :: kLatest.tail := by decide
  simp only [readSecret, renderSecret, List.append_assoc, readQuoted_quote, Option.bind_some, strip_append, List.cons_append]
  rw [readList_render renderVersion readVersion '}' readVersion_render (by decide) (by decide)
    (by intro a; exact ⟨_, by simp only [renderVersion, quote, List.cons_append]; rfl⟩)]
  simp only [Option.bind_some, strip_append]
  rw [readNat_digits act _ (by
    intro c tl h; rw [hk1] at h; simp only [List.cons_append, List.cons.injEq] at h; rw [← h.1]; decide)]
  simp only [Option.bind_some, strip_append]
  rw [readNat_digits lat _ (by
    intro c tl h; simp only [List.nil_append, List.cons.injEq] at h; rw [← h.1]; decide)]
  simp [strip, String.ofList_toList]

/-- Reading back the clear document yields the tree that was written: every secret name and
version key (whatever characters), every byte string and counter. -/
theorem readTree_render (t : PTree) : readTree (renderTree t) = some t := by
  simp only [readTree, renderTree, strip_append, Option.bind_some]
  have : renderList renderSecret t ++ ['}', '}'] = renderList renderSecret t ++ '}' :: ['}'] := rfl
  rw [this, readList_render renderSecret readSecret '}' readSecret_render (by decide) (by decide)
    (by intro a; exact ⟨_, by simp only [renderSecret, quote, List.cons_append]; rfl⟩)]
  simp

/-- text layer composed with the tree codec: the clear bytes `kv.save` produces for contents
`m` decode to exactly `m` -/
theorem decodeText_render (m : KV.SMap) : decodeText (renderTree (encode m)) = some m := by
  simp only [decodeText, readTree_render, Option.bind_some]
  exact Setec.Codec.decode_encode m

end Setec.DBText
