import Setec.Model.Backup
namespace Setec.Backup

/-- the repaired loop never spins -/
theorem loop_no_spin (gens : Nat → Nat) (oks : Nat → Bool) (durs : Nat → Nat) (cancel fuel t lg k : Nat) (acc : List Attempt) :
    (loop true gens oks durs cancel fuel t lg k acc).spins = false := by
  induction fuel generalizing t lg k acc with
  | zero => rfl
  | succ fuel ih =>
    simp only [loop]
    split
    · split
      · rfl
      · exact ih _ _ _ _
    · simp only [if_true]
      split
      · rfl
      · exact ih _ _ _ _

/-- every attempt recorded by the loop lies at or after the loop's current time, and
consecutive attempts are at least one period apart -/
def Spaced : List Attempt → Prop
  | [] => True
  | [_] => True
  | a :: b :: rest => a.tms + period ≤ b.tms ∧ Spaced (b :: rest)

theorem spaced_append (l : List Attempt) (a : Attempt) (h : Spaced l) (hl : ∀ x ∈ l.getLast?, x.tms + period ≤ a.tms) :
    Spaced (l ++ [a]) := by
  induction l with
  | nil => simp [Spaced]
  | cons x rest ih =>
    cases rest with
    | nil =>
      simp only [List.cons_append, List.nil_append, Spaced]
      exact ⟨hl x (by simp), trivial⟩
    | cons y rest' =>
      simp only [List.cons_append, Spaced] at h ⊢
      refine ⟨h.1, ?_⟩
      apply ih h.2
      intro z hz
      apply hl
      simpa [List.getLast?_cons_cons] using hz

theorem loop_spaced (wa : Bool) (gens : Nat → Nat) (oks : Nat → Bool) (durs : Nat → Nat) (cancel fuel t lg k : Nat) (acc : List Attempt)
    (h : Spaced acc) (hl : ∀ x ∈ acc.getLast?, x.tms + period ≤ t) :
    Spaced (loop wa gens oks durs cancel fuel t lg k acc).attempts := by
  induction fuel generalizing t lg k acc with
  | zero => exact h
  | succ fuel ih =>
    simp only [loop]
    split
    · have hsp := spaced_append acc { tms := t, gen := gens t, ok := oks k && decide (t + durs k ≤ max cancel t) } h hl
      split
      · exact hsp
      · apply ih _ _ _ _ hsp
        intro x hx
        simp at hx
        subst hx
        simp only
        have : t ≤ min (t + durs k) (max cancel t) := by omega
        omega
    · split
      · split
        · exact h
        · apply ih _ _ _ _ h
          intro x hx; have := hl x hx; omega
      · exact h

/-- an attempt is made only when the generation differs from the one covered by the last
successful upload; a failed attempt leaves that generation unchanged (so it is retried) -/
theorem loop_step_attempt (wa : Bool) (gens : Nat → Nat) (oks : Nat → Bool) (durs : Nat → Nat) (cancel fuel t lg k : Nat) (acc : List Attempt)
    (h : gens t = lg) (hwa : wa = true) (hc : ¬ t + period ≥ cancel) :
    loop wa gens oks durs cancel (fuel + 1) t lg k acc = loop wa gens oks durs cancel fuel (t + period) lg k acc := by
  simp [loop, h, hwa, hc]

/-- with enough fuel the repaired loop returns, at the cancellation instant or at the end of
the upload in flight then -/
theorem loop_terminates (gens : Nat → Nat) (oks : Nat → Bool) (durs : Nat → Nat) (cancel fuel t lg k : Nat) (acc : List Attempt)
    (hf : cancel ≤ t + fuel * period) (hfp : 0 < fuel) :
    (loop true gens oks durs cancel fuel t lg k acc).exit.isSome = true := by
  induction fuel generalizing t lg k acc with
  | zero => omega
  | succ fuel ih =>
    simp only [loop]
    split
    · split
      · rfl
      · next hc =>
        have ht1 : t ≤ min (t + durs k) (max cancel t) := by omega
        apply ih
        · simp only [period] at hc hf ⊢
          rw [Nat.succ_mul] at hf
          omega
        · cases fuel with
          | zero => simp [period] at hc hf; omega
          | succ n => omega
    · simp only [if_true]
      split
      · rfl
      · next hc =>
        apply ih
        · simp only [period] at hc hf ⊢
          rw [Nat.succ_mul] at hf
          omega
        · cases fuel with
          | zero => simp [period] at hc hf; omega
          | succ n => omega

end Setec.Backup
