import Setec.Proofs.DB
import Setec.Spec.DBMon
/-!
# The monitors demand nothing the specification does not

`Spec/DBMon.lean` holds the executable clauses the driver evaluates on what the real code did.
They are written from the property statements, independently of the model.  This file proves,
for every one of them, that the specification's own step (`DB.step Cfg.std`), seen as an
observation, satisfies the clause for every state, caller, operation and oracle choice - so a
clause that fires on the code is a disagreement with the statement *and* with the model, never
an artefact of the clause.

All twenty-two clauses of `DBMon.clauses` are proved here (`all_clauses_sound` states it for every
state reachable from the empty database; the individual theorems need at most the store
invariant and `NameInv`).
-/
namespace Setec.MonSound
open Std Setec.KV Setec.DB Setec.DBMon

/-- the specification's step, seen as the observation the driver would make of it -/
def obsOf (kv : KV) (c : Caller) (op : Op) (aok sok : Bool) : StepObs :=
  let r := step Cfg.std kv c op aok sok
  { pre := kv, caller := c, op := op, auditOk := aok, saveOk := sok, res := r.2.1, entries := r.2.2,
    entryBefore := some true, post := r.1, mem := some (memOf r.1) }

@[simp] theorem stateEq_refl (kv : KV) : stateEq kv kv = true := by simp [stateEq]

theorem granted_eq (c : Caller) (a n : String) : granted c a n = grantedStd c a n := rfl

macro "crunch" : tactic => `(tactic| ((repeat' split) <;> simp_all [Res.isError, Res.disclosesAnything, Res.disclosesValue, kvErr, entryOf, entryMatches, wellFormed, actionOf, nameOf, versionGiven]))

theorem c01_denied_noeffect_sound (kv : KV) (c : Caller) (op : Op) (aok sok : Bool) :
    c01_denied_noeffect (obsOf kv c op aok sok) = true := by
  have hs := fun op a s => step_outcome kv c op a s
  cases op <;> simp (disch := simp) only [c01_denied_noeffect, obsOf, hs, outcome, granted_eq] <;> crunch

theorem c01_effect_only_if_granted_sound (kv : KV) (c : Caller) (op : Op) (aok sok : Bool) :
    c01_effect_only_if_granted (obsOf kv c op aok sok) = true := by
  have hs := fun op a s => step_outcome kv c op a s
  cases op <;> simp (disch := simp) only [c01_effect_only_if_granted, obsOf, hs, outcome, granted_eq] <;> crunch

theorem c06_fail_closed_sound (kv : KV) (c : Caller) (op : Op) (aok sok : Bool) :
    c06_fail_closed (obsOf kv c op aok sok) = true := by
  have hs := fun op a s => step_outcome kv c op a s
  cases op with
  | list => cases aok <;> simp [c06_fail_closed, obsOf, step, Res.isError, Res.disclosesAnything]
  | _ => simp (disch := simp) only [c06_fail_closed, obsOf, hs, outcome] <;> crunch

theorem c06_unchanged_silent_sound (kv : KV) (c : Caller) (op : Op) (aok sok : Bool) :
    c06_unchanged_silent (obsOf kv c op aok sok) = true := by
  have hs := fun op a s => step_outcome kv c op a s
  cases op <;> simp (disch := simp) only [c06_unchanged_silent, obsOf, hs, outcome, granted_eq] <;> crunch

theorem c04_mem_eq_disk_sound (kv : KV) (c : Caller) (op : Op) (aok sok : Bool) :
    c04_mem_eq_disk (obsOf kv c op aok sok) = true := by
  simp [c04_mem_eq_disk, obsOf]

theorem c06_before_effect_sound (kv : KV) (c : Caller) (op : Op) (aok sok : Bool) :
    c06_before_effect (obsOf kv c op aok sok) = true := by
  simp [c06_before_effect, obsOf]

theorem c02_reads_sound (kv : KV) (c : Caller) (op : Op) (aok sok : Bool) :
    c02_reads (obsOf kv c op aok sok) = true := by
  have hs := fun op a s => step_outcome kv c op a s
  cases op with
  | get n =>
    simp (disch := simp) only [c02_reads, obsOf, hs, outcome, exec, wellFormed, actionOf, nameOf]
    by_cases hg : grantedStd c "get" n = true <;> cases aok <;> simp [hg, KV.get]
    cases h1 : kv.secrets[n]? with
    | none => simp [kvErr]
    | some s => cases h2 : s.versions[s.active]? <;> simp [h1, h2, kvErr]
  | getVersion n k =>
    simp (disch := simp) only [c02_reads, obsOf, hs, outcome, exec, wellFormed, actionOf, nameOf]
    by_cases hg : grantedStd c "get" n = true <;> cases aok <;> simp [hg, KV.getVersion]
    cases h1 : kv.secrets[n]? with
    | none => simp [kvErr]
    | some s => cases h2 : s.versions[k]? <;> simp [h1, h2, kvErr]
  | info n =>
    simp (disch := simp) only [c02_reads, obsOf, hs, outcome, exec, wellFormed, actionOf, nameOf]
    by_cases hg : grantedStd c "info" n = true <;> cases aok <;> simp [hg, KV.info]
    cases h1 : kv.secrets[n]? <;> simp [h1, kvErr]
  | _ => simp [c02_reads, obsOf]

theorem c09_cond_sound (kv : KV) (c : Caller) (op : Op) (aok sok : Bool) (h : Inv kv) :
    c09_cond (obsOf kv c op aok sok) = true := by
  have hs := fun op a s => step_outcome kv c op a s
  cases op with
  | getCond n v =>
    simp (disch := simp) only [c09_cond, obsOf, hs, outcome, wellFormed, actionOf, nameOf, granted_eq]
    by_cases hg : grantedStd c "get" n = true
    · simp only [hg, KV.get]
      cases h1 : kv.secrets[n]? with
      | none => simp [kvErr]
      | some s =>
        have hin := (h n s h1).1
        have hge := ((h n s h1).2 s.active hin).1
        cases h2 : s.versions[s.active]? with
        | none => exact absurd (ExtTreeMap.mem_iff_isSome_getElem?.mp hin) (by simp [h2])
        | some b =>
          by_cases hv : s.active = v
          · have : v ≠ 0 := by omega
            subst hv
            simp [this, h2]
          · cases aok <;> simp [hv, h2, Res.disclosesAnything]
    · simp [hg]
  | _ => simp [c09_cond, obsOf]

/-- a listing walks the names in order and reports each secret's versions and active version -/
theorem list_items (kv : KV) (g : String → Bool) (l : List (String × Secret))
    (hl : ∀ p ∈ l, kv.secrets[p.1]? = some p.2) :
    (((l.map (·.1)).filter g).filterMap fun n => match info kv n with
        | .ok (vs, a) => some (n, vs, a)
        | .error _ => none) =
    (l.filter (fun p => g p.1)).map (fun p => (p.1, p.2.versions.keys, p.2.active)) := by
  induction l with
  | nil => rfl
  | cons p rest ih =>
    have hp := hl p (List.mem_cons_self)
    have ih' := ih (fun q hq => hl q (List.mem_cons_of_mem _ hq))
    simp only [List.map_cons, List.filter_cons]
    by_cases hg : g p.1 = true
    · have hinfo : info kv p.1 = .ok (p.2.versions.keys, p.2.active) := by simp [KV.info, hp]
      simp only [hg, if_true, List.filterMap_cons, List.map_cons, hinfo]
      rw [ih']
    · simp only [hg, Bool.false_eq_true, if_false]
      exact ih'


theorem c01_list_exact_sound (kv : KV) (c : Caller) (op : Op) (aok sok : Bool) :
    c01_list_exact (obsOf kv c op aok sok) = true := by
  cases op with
  | list =>
    cases aok with
    | false => simp [c01_list_exact, obsOf, step, Res.isError]
    | true =>
      simp only [c01_list_exact, obsOf, step, allowed, granted, Cfg.std, KV.list]
      have := list_items kv (fun n => Acl.allow true c.rules "info" n.toList) kv.secrets.toList
        (fun p hp => (ExtTreeMap.mem_toList_iff_getElem?_eq_some (t := kv.secrets) (k := p.1) (v := p.2)).mp hp)
      simp only [ExtTreeMap.map_fst_toList_eq_keys] at this
      simp
      exact this
  | _ => simp [c01_list_exact, obsOf]


theorem c04_savefail_noop_sound (kv : KV) (c : Caller) (op : Op) (aok sok : Bool) (h : Inv kv) :
    c04_savefail_noop (obsOf kv c op aok sok) = true := by
  cases sok with
  | true => simp [c04_savefail_noop, obsOf]
  | false => simp [c04_savefail_noop, obsOf, step_savefail Cfg.std kv c op aok h]

theorem opName_eq_nameOf (op : Op) : opName op = nameOf op := by cases op <;> rfl

theorem optSecEq_self (s : Secret) : optSecEq (some s) (some s) = true := by simp [optSecEq, secEq]

theorem c02_frame_sound (kv : KV) (c : Caller) (op : Op) (aok sok : Bool) (h : Inv kv) :
    c02_frame (obsOf kv c op aok sok) = true := by
  have hf : ∀ m, m ≠ nameOf op → (step Cfg.std kv c op aok sok).1.secrets[m]? = kv.secrets[m]? := fun m hm =>
    step_frame Cfg.std kv c op aok sok m h (by rw [opName_eq_nameOf]; exact fun e => hm e.symm)
  simp only [c02_frame, obsOf, Bool.and_eq_true, List.all_eq_true, Bool.or_eq_true, beq_iff_eq]
  constructor
  · intro p hp
    by_cases hm : p.1 = nameOf op
    · exact Or.inl hm
    · right
      have hs := (ExtTreeMap.mem_toList_iff_getElem?_eq_some (t := kv.secrets) (k := p.1) (v := p.2)).mp hp
      rw [hf p.1 hm, hs]; exact optSecEq_self p.2
  · intro p hp
    by_cases hm : p.1 = nameOf op
    · exact Or.inl hm
    · right
      have hs := (ExtTreeMap.mem_toList_iff_getElem?_eq_some (t := (step Cfg.std kv c op aok sok).1.secrets) (k := p.1) (v := p.2)).mp hp
      rw [← hf p.1 hm, hs]; exact optSecEq_self p.2

theorem kvErr_ne_denied (er : Err) : kvErr er ≠ .denied := by cases er <;> simp [kvErr]
theorem kvErr_not_value (er : Err) : (kvErr er).disclosesValue = false := by cases er <;> simp [kvErr, Res.disclosesValue]

theorem exec_ne_denied (kv : KV) (op : Op) (sok : Bool) : (exec kv op sok).2 ≠ .denied := by
  cases op <;> simp only [exec] <;> (repeat' split) <;> simp_all [kvErr_ne_denied]

theorem c06_recorded_sound (kv : KV) (c : Caller) (op : Op) (aok sok : Bool) :
    c06_recorded (obsOf kv c op aok sok) = true := by
  have hs := fun op a s => step_outcome kv c op a s
  cases op with
  | list => cases aok <;> simp [c06_recorded, obsOf, step, Cfg.std]
  | getCond n v =>
    simp (disch := simp) only [c06_recorded, obsOf, hs, outcome, granted_eq, wellFormed, actionOf, nameOf]
    by_cases hg : grantedStd c "get" n = true
    · simp only [hg]
      cases h1 : KV.get kv n with
      | error er => simp [kvErr_ne_denied, kvErr_not_value]
      | ok p =>
        obtain ⟨b, w⟩ := p
        by_cases hv : w = v <;> cases aok <;> simp [hv, Res.disclosesValue, entryMatches, entryOf, actionOf, nameOf, versionGiven]
    · simp [hg, entryMatches, entryOf, actionOf, nameOf, versionGiven]
  | info n =>
    simp (disch := simp) only [c06_recorded, obsOf, hs, outcome, granted_eq, wellFormed, actionOf, nameOf]
    have hd := exec_ne_denied kv (.info n) sok
    generalize exec kv (.info n) sok = x at *
    by_cases hg : grantedStd c "info" n = true <;> cases aok <;>
      simp_all [Res.disclosesValue, entryMatches, entryOf, actionOf, nameOf, versionGiven]
  | get n =>
    simp (disch := simp) only [c06_recorded, obsOf, hs, outcome, granted_eq, wellFormed, actionOf, nameOf]
    have hd := exec_ne_denied kv (.get n) sok
    generalize exec kv (.get n) sok = x at *
    by_cases hg : grantedStd c "get" n = true <;> cases aok <;>
      simp_all [Res.disclosesValue, entryMatches, entryOf, actionOf, nameOf, versionGiven]
  | getVersion n v =>
    simp (disch := simp) only [c06_recorded, obsOf, hs, outcome, granted_eq, wellFormed, actionOf, nameOf]
    have hd := exec_ne_denied kv (.getVersion n v) sok
    generalize exec kv (.getVersion n v) sok = x at *
    by_cases hg : grantedStd c "get" n = true <;> cases aok <;>
      simp_all [Res.disclosesValue, entryMatches, entryOf, actionOf, nameOf, versionGiven]
  | put n v =>
    simp (disch := simp) only [c06_recorded, obsOf, hs, outcome, granted_eq, wellFormed, actionOf, nameOf]
    have hd := exec_ne_denied kv (.put n v) sok
    generalize exec kv (.put n v) sok = x at *
    by_cases hn : n = "" <;> by_cases hg : grantedStd c "put" n = true <;> cases aok <;>
      simp_all [Res.disclosesValue, entryMatches, entryOf, actionOf, nameOf, versionGiven]
  | activate n v =>
    simp (disch := simp) only [c06_recorded, obsOf, hs, outcome, granted_eq, wellFormed, actionOf, nameOf]
    have hd := exec_ne_denied kv (.activate n v) sok
    generalize exec kv (.activate n v) sok = x at *
    by_cases hn : n = "" <;> by_cases hg : grantedStd c "activate" n = true <;> cases aok <;>
      simp_all [Res.disclosesValue, entryMatches, entryOf, actionOf, nameOf, versionGiven]
  | deleteVersion n v =>
    simp (disch := simp) only [c06_recorded, obsOf, hs, outcome, granted_eq, wellFormed, actionOf, nameOf]
    have hd := exec_ne_denied kv (.deleteVersion n v) sok
    generalize exec kv (.deleteVersion n v) sok = x at *
    by_cases hg : grantedStd c "delete" n = true <;> cases aok <;>
      simp_all [Res.disclosesValue, entryMatches, entryOf, actionOf, nameOf, versionGiven]
  | delete n =>
    simp (disch := simp) only [c06_recorded, obsOf, hs, outcome, granted_eq, wellFormed, actionOf, nameOf]
    have hd := exec_ne_denied kv (.delete n) sok
    generalize exec kv (.delete n) sok = x at *
    by_cases hg : grantedStd c "delete" n = true <;> cases aok <;>
      simp_all [Res.disclosesValue, entryMatches, entryOf, actionOf, nameOf, versionGiven]

theorem deleteVersion_ok_mem (kv : KV) (n : String) (v : Nat) (ok : Bool) (kv' : KV)
    (h : deleteVersion kv n v ok = (kv', .ok ())) :
    ∃ s, kv.secrets[n]? = some s ∧ v ∈ s.versions := by
  unfold deleteVersion at h
  split at h; · cases h
  split at h; · cases h
  next s hs =>
  split at h; · cases h
  split at h; · cases h
  next old ho =>
  exact ⟨s, hs, ExtTreeMap.mem_iff_isSome_getElem?.mpr (by simp [ho])⟩

theorem kvErr_ne_done (er : Err) : kvErr er ≠ .done := by cases er <;> simp [kvErr]

theorem c02_delete_version_sound (kv : KV) (c : Caller) (op : Op) (aok sok : Bool) (h : Inv kv) :
    c02_delete_version (obsOf kv c op aok sok) = true := by
  have hs := fun op a s => step_outcome kv c op a s
  cases op with
  | deleteVersion n v =>
    simp (disch := simp) only [c02_delete_version, obsOf, hs, outcome, wellFormed, actionOf, nameOf, exec]
    by_cases hg : grantedStd c "delete" n = true
    · cases aok with
      | false => simp [hg]; split <;> simp
      | true =>
        simp only [hg]
        by_cases hp : hasPrefix Cfg.std n = true
        · simp [hp]; split <;> simp
        · simp only [hp]
          cases hd : deleteVersion kv n v sok with
          | mk kv' r =>
            cases r with
            | error er =>
              have := deleteVersion_error_noop kv n v sok er kv' hd
              subst this
              simp [kvErr_ne_done]
              split <;> rfl
            | ok u =>
              obtain ⟨s, s', h1, h2, hna, hver, hact, hlat⟩ := deleteVersion_ok kv n v sok kv' hd
              obtain ⟨s0, h0, hmem⟩ := deleteVersion_ok_mem kv n v sok kv' hd
              rw [h1] at h0; cases h0
              have hc : s.versions.contains v = true := by simpa using hmem
              have hnc : s'.versions.contains v = false := by rw [hver]; simp
              simp [h1, h2, hna, hc, hnc, hact, hlat]
    · simp [hg]; split <;> simp
  | delete n =>
    simp (disch := simp) only [c02_delete_version, obsOf, hs, outcome, wellFormed, actionOf, nameOf, exec]
    by_cases hg : grantedStd c "delete" n = true
    · cases aok with
      | false => simp [hg]
      | true =>
        simp only [hg]
        by_cases hp : hasPrefix Cfg.std n = true
        · simp [hp]
        · simp only [hp]
          cases hd : deleteSecret kv n sok with
          | mk kv' r =>
            cases r with
            | error er => simp [kvErr_ne_done]
            | ok u => simp [deleteSecret_gone kv n kv' sok hd]
    · simp [hg]
  | _ => simp [c02_delete_version, obsOf]

theorem active_kept (kv : KV) (op : Op) (sok : Bool) (h : Inv kv)
    (hop : ∀ n v, op ≠ .activate n v) (hdel : ∀ n, op ≠ .delete n) (m : String) (s : Secret)
    (hm : kv.secrets[m]? = some s) :
    ∃ s', (kvPost Cfg.std kv op sok).secrets[m]? = some s' ∧ s'.active = s.active := by
  cases op with
  | put n val =>
    simp only [kvPost, std_guardPresent]
    by_cases hmn : n = m
    · subst hmn; exact put_active_unchanged kv n val sok s h hm
    · exact ⟨s, by rw [put_frame true kv n m val sok h hmn]; exact hm, rfl⟩
  | deleteVersion n v =>
    simp only [kvPost]
    by_cases hmn : n = m
    · subst hmn
      cases hd : deleteVersion kv n v sok with
      | mk kv' r =>
        cases r with
        | error er => have := deleteVersion_error_noop kv n v sok er kv' hd; subst this; exact ⟨s, hm, rfl⟩
        | ok u =>
          obtain ⟨s1, s', h1, h2, _, _, hact, _⟩ := deleteVersion_ok kv n v sok kv' hd
          rw [hm] at h1; cases h1
          exact ⟨s', h2, hact⟩
    · exact ⟨s, by rw [deleteVersion_frame kv n m v sok hmn]; exact hm, rfl⟩
  | activate n v => exact absurd rfl (hop n v)
  | delete n => exact absurd rfl (hdel n)
  | _ => exact ⟨s, hm, rfl⟩

theorem active_all (kv : KV) (c : Caller) (op : Op) (aok sok : Bool) (h : Inv kv)
    (hop : ∀ n v, op ≠ .activate n v) (hdel : ∀ n, op ≠ .delete n) :
    activeKept kv (step Cfg.std kv c op aok sok).1 = true := by
  simp only [activeKept, List.all_eq_true]
  rintro ⟨m, s⟩ hp
  have hm := (ExtTreeMap.mem_toList_iff_getElem?_eq_some (t := kv.secrets) (k := m) (v := s)).mp hp
  rcases step_state Cfg.std kv c op aok sok with e | e
  · simp [e, hm]
  · obtain ⟨s', h1, h2⟩ := active_kept kv op sok h hop hdel m s hm
    simp [e, h1, h2]

theorem c02_active_sound (kv : KV) (c : Caller) (op : Op) (aok sok : Bool) (h : Inv kv) :
    c02_active (obsOf kv c op aok sok) = true := by
  have hs := fun op a s => step_outcome kv c op a s
  cases op with
  | activate n v =>
    simp (disch := simp) only [c02_active, obsOf, hs, outcome, wellFormed, actionOf, nameOf, exec]
    by_cases hn : n = ""
    · simp [hn]
    · by_cases hg : grantedStd c "activate" n = true
      · cases aok with
        | false => simp [hn, hg]
        | true =>
          simp only [hg]
          by_cases hp : hasPrefix Cfg.std n = true
          · simp [hn, hp]
          · simp only [hp]
            cases hd : setActive kv n v sok with
            | mk kv' r =>
              cases r with
              | error er => cases er <;> simp [hn, kvErr]
              | ok u =>
                obtain ⟨s, s', h1, h2, hmem, hact, hver, _⟩ := setActive_ok kv n v sok kv' hd
                have hc : s'.versions.contains v = true := by rw [hver]; simpa using hmem
                simp [hn, h2, hact, hc]
      · simp [hn, hg]
  | delete n => simp [c02_active, obsOf]
  | list => exact active_all kv c _ aok sok h (by intro n v; simp) (by intro n; simp)
  | info n => exact active_all kv c _ aok sok h (by intro n v; simp) (by intro n; simp)
  | get n => exact active_all kv c _ aok sok h (by intro n v; simp) (by intro n; simp)
  | getVersion n v => exact active_all kv c _ aok sok h (by intro n v; simp) (by intro n; simp)
  | getCond n v => exact active_all kv c _ aok sok h (by intro n v; simp) (by intro n; simp)
  | put n v => exact active_all kv c _ aok sok h (by intro n v; simp) (by intro n; simp)
  | deleteVersion n v => exact active_all kv c _ aok sok h (by intro n v; simp) (by intro n; simp)

theorem ungranted_noop (kv : KV) (c : Caller) (op : Op) (aok sok : Bool) (hl : op ≠ .list)
    (hg : grantedStd c (actionOf op) (nameOf op) = false) : (step Cfg.std kv c op aok sok).1 = kv := by
  rw [step_outcome kv c op aok sok hl]
  simp only [outcome, hg]
  split <;> simp

theorem c01_changes_only_granted_sound (kv : KV) (c : Caller) (op : Op) (aok sok : Bool) (h : Inv kv) :
    c01_changes_only_granted (obsOf kv c op aok sok) = true := by
  by_cases hl : op = .list
  · subst hl; simp [c01_changes_only_granted, obsOf]
  · have hf : ∀ m, m ≠ nameOf op → (step Cfg.std kv c op aok sok).1.secrets[m]? = kv.secrets[m]? := fun m hm =>
      step_frame Cfg.std kv c op aok sok m h (by rw [opName_eq_nameOf]; exact fun e => hm e.symm)
    have key : ∀ (m : String), (step Cfg.std kv c op aok sok).1.secrets[m]? = kv.secrets[m]? ∨
        granted c (actionOf op) m = true := by
      intro m
      by_cases hm : m = nameOf op
      · by_cases hg : grantedStd c (actionOf op) (nameOf op) = true
        · right; rw [hm]; exact hg
        · left; rw [ungranted_noop kv c op aok sok hl (by simpa using hg)]
      · left; exact hf m hm
    have goal : (kv.secrets.toList.all (fun (p : String × Secret) =>
          optSecEq (step Cfg.std kv c op aok sok).1.secrets[p.1]? (some p.2) || granted c (actionOf op) p.1) &&
        (step Cfg.std kv c op aok sok).1.secrets.toList.all (fun (p : String × Secret) =>
          optSecEq kv.secrets[p.1]? (some p.2) || granted c (actionOf op) p.1)) = true := by
      simp only [Bool.and_eq_true, List.all_eq_true, Bool.or_eq_true]
      constructor
      · intro p hp
        have hs := (ExtTreeMap.mem_toList_iff_getElem?_eq_some (t := kv.secrets) (k := p.1) (v := p.2)).mp hp
        rcases key p.1 with e | g
        · left; rw [e, hs]; exact optSecEq_self p.2
        · right; exact g
      · intro p hp
        have hs := (ExtTreeMap.mem_toList_iff_getElem?_eq_some (t := (step Cfg.std kv c op aok sok).1.secrets) (k := p.1) (v := p.2)).mp hp
        rcases key p.1 with e | g
        · left; rw [← e, hs]; exact optSecEq_self p.2
        · right; exact g
    cases op with
    | list => exact absurd rfl hl
    | _ => simpa [c01_changes_only_granted, obsOf] using goal

/-- failed calls change nothing (any caller, any fault script); re-exported as C02.failed_calls_noop -/
theorem failed_calls_noop (kv : KV) (hinv : Inv kv) (c : Caller) (op : Op) (aok sok : Bool)
    (herr : (step Cfg.std kv c op aok sok).2.1.isError = true) :
    (step Cfg.std kv c op aok sok).1 = kv := by
  cases op with
  | list => simp only [step]; split <;> rfl
  | info n => simp only [step]; split <;> (try split) <;> rfl
  | get n => simp only [step]; split <;> (try split) <;> rfl
  | getVersion n v => simp only [step]; split <;> (try split) <;> rfl
  | getCond n v =>
    simp only [step]
    split
    · rfl
    · split
      · rfl
      · split
        · rfl
        · split <;> rfl
  | put n v =>
    simp only [step] at herr ⊢
    split; · rfl
    split; · rfl
    split; · rfl
    split
    · next kv2 k2 hp => simp_all [Res.isError]
    · next kv2 er hp => simp only; exact KV.put_error_noop _ kv n v sok er kv2 hinv hp
  | activate n v =>
    simp only [step] at herr ⊢
    split; · rfl
    split; · rfl
    split; · rfl
    split
    · next kv2 hp => simp_all [Res.isError]
    · next kv2 er hp => simp only; exact KV.setActive_error_noop kv n v sok er kv2 hp
  | deleteVersion n v =>
    simp only [step] at herr ⊢
    split; · rfl
    split; · rfl
    split
    · next kv2 hp => simp_all [Res.isError]
    · next kv2 er hp => simp only; exact KV.deleteVersion_error_noop kv n v sok er kv2 hp
  | delete n =>
    simp only [step] at herr ⊢
    split; · rfl
    split; · rfl
    split
    · next kv2 hp => simp_all [Res.isError]
    · next kv2 er hp => simp only; exact KV.deleteSecret_error_noop kv n sok er kv2 hp


/-- what a mutation leaves of the versions a secret had: each is still there with its bytes,
or gone - never other bytes -/
theorem versions_stable (kv : KV) (op : Op) (sok : Bool) (h : Inv kv) (n : String) (s s' : Secret)
    (hn : kv.secrets[n]? = some s) (h' : (kvPost Cfg.std kv op sok).secrets[n]? = some s')
    (k : Nat) (b : Bytes) (hk : s.versions[k]? = some b) :
    s'.versions[k]? = none ∨ s'.versions[k]? = some b := by
  have same : kv.secrets[n]? = some s' → s'.versions[k]? = none ∨ s'.versions[k]? = some b := by
    intro e; rw [hn] at e; cases e; exact Or.inr hk
  cases op with
  | put m val =>
    simp only [kvPost, std_guardPresent] at h'
    by_cases hmn : m = n
    · subst hmn
      cases sok with
      | false => rw [put_savefail true kv m val h] at h'; exact same h'
      | true =>
        unfold put at h'
        rw [hn] at h'
        simp only at h'
        split at h'
        · exact same h'
        · simp [save] at h'
          subst h'
          have hle : k ≤ s.latest := ((h m s hn).2 k (ExtTreeMap.mem_iff_isSome_getElem?.mpr (by simp [hk]))).2
          right
          simp only [putNewMutate]
          rw [ExtTreeMap.getElem?_insert]
          have : ¬ (compare (s.latest + 1) k = .eq) := by
            simp; omega
          simp [this, hk]
    · rw [put_frame true kv m n val sok h hmn] at h'; exact same h'
  | activate m v =>
    simp only [kvPost] at h'
    by_cases hmn : m = n
    · subst hmn
      cases hd : setActive kv m v sok with
      | mk kv' r =>
        rw [hd] at h'
        cases r with
        | error er => have := setActive_error_noop kv m v sok er kv' hd; subst this; exact same h'
        | ok u =>
          obtain ⟨s1, s2, h1, h2, _, _, hver, _⟩ := setActive_ok kv m v sok kv' hd
          rw [hn] at h1; cases h1
          simp only at h'
          rw [h2] at h'; cases h'
          right; rw [hver]; exact hk
    · rw [setActive_frame kv m n v sok hmn] at h'; exact same h'
  | deleteVersion m v =>
    simp only [kvPost] at h'
    by_cases hmn : m = n
    · subst hmn
      cases hd : deleteVersion kv m v sok with
      | mk kv' r =>
        rw [hd] at h'
        cases r with
        | error er => have := deleteVersion_error_noop kv m v sok er kv' hd; subst this; exact same h'
        | ok u =>
          obtain ⟨s1, s2, h1, h2, _, hver, _, _⟩ := deleteVersion_ok kv m v sok kv' hd
          rw [hn] at h1; cases h1
          simp only at h'
          rw [h2] at h'; cases h'
          rw [hver, ExtTreeMap.getElem?_erase]
          by_cases hv : compare v k = .eq
          · left; simp [hv]
          · right; simp [hv, hk]
    · rw [deleteVersion_frame kv m n v sok hmn] at h'; exact same h'
  | delete m =>
    simp only [kvPost] at h'
    by_cases hmn : m = n
    · subst hmn
      cases hd : deleteSecret kv m sok with
      | mk kv' r =>
        rw [hd] at h'
        cases r with
        | error er => have := deleteSecret_error_noop kv m sok er kv' hd; subst this; exact same h'
        | ok u =>
          have := deleteSecret_gone kv m kv' sok hd
          simp only at h'
          rw [this] at h'; cases h'
    · rw [deleteSecret_frame kv m n sok hmn] at h'; exact same h'
  | _ => exact same h'
/-- the same for the specification's step (which either leaves the state alone or performs the mutation) -/
theorem step_versions_stable (kv : KV) (c : Caller) (op : Op) (aok sok : Bool) (h : Inv kv) (n : String) (s s' : Secret)
    (hn : kv.secrets[n]? = some s) (h' : (step Cfg.std kv c op aok sok).1.secrets[n]? = some s')
    (k : Nat) (b : Bytes) (hk : s.versions[k]? = some b) :
    s'.versions[k]? = none ∨ s'.versions[k]? = some b := by
  rcases step_state Cfg.std kv c op aok sok with e | e
  · rw [e, hn] at h'; cases h'; exact Or.inr hk
  · rw [e] at h'; exact versions_stable kv op sok h n s s' hn h' k b hk

theorem stable_inner (kv : KV) (c : Caller) (op : Op) (aok sok : Bool) (h : Inv kv) (n : String) (s : Secret)
    (hn : kv.secrets[n]? = some s) :
    (match (step Cfg.std kv c op aok sok).1.secrets[n]? with
     | some s' => s.versions.toList.all (fun (k, b) => s'.versions[k]? == none || s'.versions[k]? == some b)
     | none => true) = true := by
  cases h' : (step Cfg.std kv c op aok sok).1.secrets[n]? with
  | none => rfl
  | some s' =>
    simp only [List.all_eq_true, Bool.or_eq_true, beq_iff_eq]
    rintro ⟨k, b⟩ hkb
    have hk := (ExtTreeMap.mem_toList_iff_getElem?_eq_some (t := s.versions) (k := k) (v := b)).mp hkb
    exact step_versions_stable kv c op aok sok h n s s' hn h' k b hk

theorem c02_bytes_stable_sound (kv : KV) (c : Caller) (op : Op) (aok sok : Bool) (h : Inv kv) :
    c02_bytes_stable (obsOf kv c op aok sok) = true := by
  simp only [c02_bytes_stable, obsOf, List.all_eq_true]
  rintro ⟨n, s⟩ hp
  have hn := (ExtTreeMap.mem_toList_iff_getElem?_eq_some (t := kv.secrets) (k := n) (v := s)).mp hp
  have := stable_inner kv c op aok sok h n s hn
  cases op with
  | delete m =>
    simp only
    split
    · rfl
    · exact this
  | _ => exact this

/-- a mutation keeps every version of every secret with exactly its bytes, unless it is the
deletion of that secret or of that very version -/
theorem versions_kept (kv : KV) (op : Op) (sok : Bool) (h : Inv kv) (n : String) (s : Secret)
    (hn : kv.secrets[n]? = some s) (k : Nat) (b : Bytes) (hk : s.versions[k]? = some b)
    (hd1 : op ≠ .delete n) (hd2 : op ≠ .deleteVersion n k) :
    ∃ s', (kvPost Cfg.std kv op sok).secrets[n]? = some s' ∧ s'.versions[k]? = some b := by
  have same : ∃ s', kv.secrets[n]? = some s' ∧ s'.versions[k]? = some b := ⟨s, hn, hk⟩
  cases op with
  | put m val =>
    simp only [kvPost, std_guardPresent]
    by_cases hmn : m = n
    · subst hmn
      cases sok with
      | false => rw [put_savefail true kv m val h]; exact same
      | true =>
        unfold put
        rw [hn]
        simp only
        split
        · exact same
        · refine ⟨putNewMutate s val, by simp [save], ?_⟩
          have hle : k ≤ s.latest := ((h m s hn).2 k (ExtTreeMap.mem_iff_isSome_getElem?.mpr (by simp [hk]))).2
          simp only [putNewMutate]
          rw [ExtTreeMap.getElem?_insert]
          have : ¬ (compare (s.latest + 1) k = .eq) := by simp; omega
          simp [this, hk]
    · rw [put_frame true kv m n val sok h hmn]; exact same
  | activate m v =>
    simp only [kvPost]
    by_cases hmn : m = n
    · subst hmn
      cases hd : setActive kv m v sok with
      | mk kv' r =>
        cases r with
        | error er => have := setActive_error_noop kv m v sok er kv' hd; subst this; exact same
        | ok u =>
          obtain ⟨s1, s2, h1, h2, _, _, hver, _⟩ := setActive_ok kv m v sok kv' hd
          rw [hn] at h1; cases h1
          exact ⟨s2, h2, by rw [hver]; exact hk⟩
    · rw [setActive_frame kv m n v sok hmn]; exact same
  | deleteVersion m v =>
    simp only [kvPost]
    by_cases hmn : m = n
    · subst hmn
      have hvk : v ≠ k := fun e => hd2 (by rw [e])
      cases hd : deleteVersion kv m v sok with
      | mk kv' r =>
        cases r with
        | error er => have := deleteVersion_error_noop kv m v sok er kv' hd; subst this; exact same
        | ok u =>
          obtain ⟨s1, s2, h1, h2, _, hver, _, _⟩ := deleteVersion_ok kv m v sok kv' hd
          rw [hn] at h1; cases h1
          refine ⟨s2, h2, ?_⟩
          rw [hver, ExtTreeMap.getElem?_erase]
          have : ¬ (compare v k = .eq) := by simp; exact hvk
          simp [this, hk]
    · rw [deleteVersion_frame kv m n v sok hmn]; exact same
  | delete m =>
    simp only [kvPost]
    have hmn : m ≠ n := fun e => hd1 (by rw [e])
    rw [deleteSecret_frame kv m n sok hmn]; exact same
  | _ => exact same

theorem delete_res (kv : KV) (c : Caller) (n : String) (aok sok : Bool) :
    (step Cfg.std kv c (.delete n) aok sok).2.1 = .done ∨ (step Cfg.std kv c (.delete n) aok sok).2.1.isError = true := by
  rw [step_outcome kv c _ aok sok (by simp)]
  simp only [outcome, exec]
  split; · simp [Res.isError]
  split; · simp [Res.isError]
  split; · simp [Res.isError]
  simp only []
  split; · simp [Res.isError]
  split
  · simp
  · rename_i er _; cases er <;> simp [kvErr, Res.isError]

theorem deleteVersion_res (kv : KV) (c : Caller) (n : String) (v : Nat) (aok sok : Bool) :
    (step Cfg.std kv c (.deleteVersion n v) aok sok).2.1 = .done ∨
    (step Cfg.std kv c (.deleteVersion n v) aok sok).2.1.isError = true := by
  rw [step_outcome kv c _ aok sok (by simp)]
  simp only [outcome, exec]
  split; · simp [Res.isError]
  split; · simp [Res.isError]
  split; · simp [Res.isError]
  simp only []
  split; · simp [Res.isError]
  split
  · simp
  · rename_i er _; cases er <;> simp [kvErr, Res.isError]

theorem c18_bytes_kept_sound (kv : KV) (c : Caller) (op : Op) (aok sok : Bool) (h : Inv kv) :
    c18_bytes_kept (obsOf kv c op aok sok) = true := by
  simp only [c18_bytes_kept, obsOf, List.all_eq_true]
  rintro ⟨n, s⟩ hp ⟨k, b⟩ hkb
  have hn := (ExtTreeMap.mem_toList_iff_getElem?_eq_some (t := kv.secrets) (k := n) (v := s)).mp hp
  have hk := (ExtTreeMap.mem_toList_iff_getElem?_eq_some (t := s.versions) (k := k) (v := b)).mp hkb
  -- an error changes nothing
  by_cases herr : (step Cfg.std kv c op aok sok).2.1.isError = true
  · have e := failed_calls_noop kv h c op aok sok herr
    simp [e, hn, hk]
  · by_cases hd1 : op = .delete n
    · subst hd1
      rcases delete_res kv c n aok sok with e | e
      · simp [e]
      · exact absurd e herr
    · by_cases hd2 : op = .deleteVersion n k
      · subst hd2
        rcases deleteVersion_res kv c n k aok sok with e | e
        · simp [e]
        · exact absurd e herr
      · have hpost : ∃ s', (step Cfg.std kv c op aok sok).1.secrets[n]? = some s' ∧ s'.versions[k]? = some b := by
          rcases step_state Cfg.std kv c op aok sok with e | e
          · rw [e]; exact ⟨s, hn, hk⟩
          · rw [e]; exact versions_kept kv op sok h n s hn k b hk hd1 hd2
        obtain ⟨s', h1, h2⟩ := hpost
        simp [h1, h2]

/-- names are never empty (put and activate refuse the empty name before anything else) -/
def NameInv (kv : KV) : Prop := ∀ (n : String) (s : Secret), kv.secrets[n]? = some s → n ≠ ""

theorem only_put_creates (kv : KV) (op : Op) (sok : Bool) (hput : ∀ n v, op ≠ .put n v) (m : String) (s' : Secret)
    (h' : (kvPost Cfg.std kv op sok).secrets[m]? = some s') : ∃ s, kv.secrets[m]? = some s := by
  cases op with
  | put n v => exact absurd rfl (hput n v)
  | activate n v =>
    simp only [kvPost] at h'
    by_cases hmn : n = m
    · subst hmn
      cases hd : setActive kv n v sok with
      | mk kv' r =>
        rw [hd] at h'
        cases r with
        | error er => have := setActive_error_noop kv n v sok er kv' hd; subst this; exact ⟨s', h'⟩
        | ok u => obtain ⟨s1, _, h1, _⟩ := setActive_ok kv n v sok kv' hd; exact ⟨s1, h1⟩
    · rw [setActive_frame kv n m v sok hmn] at h'; exact ⟨s', h'⟩
  | deleteVersion n v =>
    simp only [kvPost] at h'
    by_cases hmn : n = m
    · subst hmn
      cases hd : deleteVersion kv n v sok with
      | mk kv' r =>
        rw [hd] at h'
        cases r with
        | error er => have := deleteVersion_error_noop kv n v sok er kv' hd; subst this; exact ⟨s', h'⟩
        | ok u => obtain ⟨s1, _, h1, _⟩ := deleteVersion_ok kv n v sok kv' hd; exact ⟨s1, h1⟩
    · rw [deleteVersion_frame kv n m v sok hmn] at h'; exact ⟨s', h'⟩
  | delete n =>
    simp only [kvPost] at h'
    by_cases hmn : n = m
    · subst hmn
      cases hd : deleteSecret kv n sok with
      | mk kv' r =>
        rw [hd] at h'
        cases r with
        | error er => have := deleteSecret_error_noop kv n sok er kv' hd; subst this; exact ⟨s', h'⟩
        | ok u => have := deleteSecret_gone kv n kv' sok hd; simp only at h'; rw [this] at h'; cases h'
    · rw [deleteSecret_frame kv n m sok hmn] at h'; exact ⟨s', h'⟩
  | _ => exact ⟨s', h'⟩

theorem step_nameInv (kv : KV) (c : Caller) (op : Op) (aok sok : Bool) (h : Inv kv) (hn : NameInv kv) :
    NameInv (step Cfg.std kv c op aok sok).1 := by
  intro m s' h'
  rcases step_state Cfg.std kv c op aok sok with e | e
  · rw [e] at h'; exact hn m s' h'
  · by_cases hput : ∃ n v, op = .put n v
    · obtain ⟨n, v, rfl⟩ := hput
      by_cases hmn : n = m
      · subst hmn
        intro hempty
        subst hempty
        -- put "" is refused before anything else: the state is the old one
        have : (step Cfg.std kv c (.put "" v) aok sok).1 = kv := by simp [step]
        rw [this] at h'
        exact hn "" s' h' rfl
      · rw [e] at h'
        simp only [kvPost, std_guardPresent] at h'
        rw [put_frame true kv n m v sok h hmn] at h'
        exact hn m s' h'
    · rw [e] at h'
      obtain ⟨s, hs⟩ := only_put_creates kv op sok (fun n v e => hput ⟨n, v, e⟩) m s' h'
      exact hn m s hs

theorem secInv_of_SecInv (s : Secret) (h : SecInv s) : secInv s = true := by
  obtain ⟨ha, hall⟩ := h
  simp only [secInv, Bool.and_eq_true, decide_eq_true_eq, List.all_eq_true]
  refine ⟨⟨by simpa using ha, (hall s.active ha).1⟩, ?_⟩
  intro k hk
  have hk' : k ∈ s.versions := ExtTreeMap.mem_keys.mp hk
  have := hall k hk'
  simp [this.1, this.2]

theorem c02_inv_sound (kv : KV) (c : Caller) (op : Op) (aok sok : Bool) (h : Inv kv) (hn : NameInv kv) :
    c02_inv (obsOf kv c op aok sok) = true := by
  simp only [c02_inv, obsOf, stateInv, List.all_eq_true]
  rintro ⟨m, s⟩ hp
  have hm := (ExtTreeMap.mem_toList_iff_getElem?_eq_some (t := (step Cfg.std kv c op aok sok).1.secrets) (k := m) (v := s)).mp hp
  have h1 := step_inv Cfg.std kv c op aok sok h m s hm
  have h2 := step_nameInv kv c op aok sok h hn m s hm
  simp [secInv_of_SecInv s h1, h2]


theorem run_nameInv (kv : KV) (h : Inv kv) (hn : NameInv kv) (xs : List Call) : NameInv (run Cfg.std kv xs) := by
  induction xs generalizing kv with
  | nil => exact hn
  | cons x xs ih =>
    exact ih _ (step_inv Cfg.std kv x.caller x.op x.auditOk x.saveOk h) (step_nameInv kv x.caller x.op x.auditOk x.saveOk h hn)

/-- `inv` holds of the specification's step in every reachable state -/
theorem c02_inv_sound_reachable (xs : List Call) (c : Caller) (op : Op) (aok sok : Bool) :
    c02_inv (obsOf (run Cfg.std KV.empty xs) c op aok sok) = true :=
  c02_inv_sound _ c op aok sok (run_inv Cfg.std KV.empty inv_empty xs)
    (run_nameInv KV.empty inv_empty (by intro n s h; simp [KV.empty] at h) xs)


theorem singleton_toList (val : Bytes) : ((∅ : VMap).insert 1 val).toList = [(1, val)] := by
  have hlen : ((∅ : VMap).insert 1 val).toList.length = 1 := by
    rw [ExtTreeMap.length_toList, ExtTreeMap.size_insert]; simp
  have hmem : (1, val) ∈ ((∅ : VMap).insert 1 val).toList :=
    ExtTreeMap.mem_toList_iff_getElem?_eq_some.mpr (by simp)
  generalize ((∅ : VMap).insert 1 val).toList = l at hlen hmem
  match l, hlen, hmem with
  | [x], _, hm => simp at hm; rw [hm]

theorem c02_put_sound (kv : KV) (c : Caller) (op : Op) (aok sok : Bool) (h : Inv kv) :
    c02_put (obsOf kv c op aok sok) = true := by
  have hs := fun op a s => step_outcome kv c op a s
  cases op with
  | put n val =>
    simp (disch := simp) only [c02_put, obsOf, hs, outcome, wellFormed, actionOf, nameOf, exec]
    by_cases hn : n = ""
    · simp [hn]
    · by_cases hg : grantedStd c "put" n = true
      · cases aok with
        | false => simp [hn, hg]
        | true =>
          simp only [hg]
          by_cases hp : hasPrefix Cfg.std n = true
          · simp [hn, hp]
          · simp only [hp]
            cases hsec : kv.secrets[n]? with
            | none =>
              cases sok with
              | false => simp [hn, KV.put, hsec, save, kvErr]
              | true => simp [hn, KV.put, hsec, save, newSecret, singleton_toList]
            | some s =>
              by_cases hd : dedupe true s val = true
              · have hcur : s.versions[s.latest]? = some val := by
                  simp only [dedupe] at hd
                  split at hd
                  · next cur hc => simp at hd; rw [hc, hd]
                  · simp at hd
                simp [hn, KV.put, hsec, hd, hcur, secEq]
              · cases sok with
                | false => simp [hn, KV.put, hsec, hd, save, kvErr]
                | true =>
                  have hnone : s.versions[s.latest + 1]? = none := by
                    cases hx : s.versions[s.latest + 1]? with
                    | none => rfl
                    | some b =>
                      have := ((h n s hsec).2 (s.latest + 1) (ExtTreeMap.mem_iff_isSome_getElem?.mpr (by simp [hx]))).2
                      omega
                  simp [hn, KV.put, hsec, hd, save, putNewMutate, hnone]
      · simp [hn, hg]
  | _ => simp [c02_put, obsOf]

/-- the specification's step satisfies the total-reads clause, always -/
theorem c02_reads_total_sound (kv : KV) (c : Caller) (op : Op) (aok sok : Bool) :
    c02_reads_total (obsOf kv c op aok sok) = true := by
  cases aok with
  | false => simp [c02_reads_total, obsOf]
  | true =>
    cases op with
    | get n =>
      simp only [c02_reads_total, obsOf, step, checkAndLog, allowed, granted, Cfg.std]
      by_cases hg : Acl.allow true c.rules "get" n.toList = true
      · simp [hg, KV.get]
        cases h : kv.secrets[n]? with
        | none => simp [kvErr]
        | some s => cases h2 : s.versions[s.active]? <;> simp [h2]
      · simp [hg]
    | getVersion n k =>
      simp only [c02_reads_total, obsOf, step, checkAndLog, allowed, granted, Cfg.std]
      by_cases hg : Acl.allow true c.rules "get" n.toList = true
      · simp [hg, KV.getVersion]
        cases h : kv.secrets[n]? with
        | none => simp [kvErr]
        | some s => cases h2 : s.versions[k]? <;> simp [h2, kvErr]
      · simp [hg]
    | info n =>
      simp only [c02_reads_total, obsOf, step, checkAndLog, allowed, granted, Cfg.std]
      by_cases hg : Acl.allow true c.rules "info" n.toList = true
      · simp [hg, KV.info]
        cases h : kv.secrets[n]? <;> simp [kvErr]
      · simp [hg]
    | list =>
      simp only [c02_reads_total, obsOf, step, allowed, granted, Cfg.std, KV.list]
      have := list_items kv (fun n => Acl.allow true c.rules "info" n.toList) kv.secrets.toList
        (fun p hp => by
          have := (ExtTreeMap.mem_toList_iff_getElem?_eq_some (t := kv.secrets) (k := p.1) (v := p.2)).mp hp
          exact this)
      simp only [ExtTreeMap.map_fst_toList_eq_keys] at this
      simp
      exact this
    | _ => simp [c02_reads_total, obsOf]


theorem canon_lookup_some (a b : KV) (h : stateEq a b = true) (n : String) (s : Secret) (ha : a.secrets[n]? = some s) :
    ∃ s', b.secrets[n]? = some s' ∧ secCanon s' = secCanon s := by
  have heq : kvCanon a = kvCanon b := by simpa [stateEq] using h
  have hm : (n, secCanon s) ∈ kvCanon a := by
    simp only [kvCanon, List.mem_map]
    exact ⟨(n, s), ExtTreeMap.mem_toList_iff_getElem?_eq_some.mpr ha, rfl⟩
  rw [heq] at hm
  simp only [kvCanon, List.mem_map] at hm
  obtain ⟨p, hp, hpe⟩ := hm
  have hb := (ExtTreeMap.mem_toList_iff_getElem?_eq_some (t := b.secrets) (k := p.1) (v := p.2)).mp hp
  cases p with
  | mk m s' =>
    simp only [Prod.mk.injEq] at hpe
    obtain ⟨rfl, hc⟩ := hpe
    exact ⟨s', hb, hc⟩

theorem stateEq_symm (a b : KV) (h : stateEq a b = true) : stateEq b a = true := by
  simp only [stateEq, beq_iff_eq] at *; exact h.symm

/-- two states that differ at one name - present on one side only, or with another canonical
form - are not `stateEq` -/
theorem not_stateEq_of_lookup (a b : KV) (n : String)
    (hd : (a.secrets[n]?).map secCanon ≠ (b.secrets[n]?).map secCanon) : stateEq a b = false := by
  cases h : stateEq a b with
  | false => rfl
  | true =>
    exfalso
    apply hd
    cases ha : a.secrets[n]? with
    | some s =>
      obtain ⟨s', hb, hc⟩ := canon_lookup_some a b h n s ha
      simp [hb, hc]
    | none =>
      cases hb : b.secrets[n]? with
      | none => rfl
      | some s' =>
        obtain ⟨s, ha', _⟩ := canon_lookup_some b a (stateEq_symm a b h) n s' hb
        rw [ha] at ha'; cases ha'

theorem kvPost_gen (kv : KV) (op : Op) (sok : Bool) (h : Inv kv) :
    kvPost Cfg.std kv op sok = kv ∨
    ((kvPost Cfg.std kv op sok).gen = kv.gen + 1 ∧ stateEq (kvPost Cfg.std kv op sok) kv = false) := by
  cases sok with
  | false => left; exact kvPost_savefail Cfg.std kv op h
  | true =>
    cases op with
    | put n val =>
      simp only [kvPost, std_guardPresent]
      unfold put
      cases hn : kv.secrets[n]? with
      | none =>
        right
        refine ⟨by simp [save], not_stateEq_of_lookup _ _ n ?_⟩
        simp [save, hn]
      | some s =>
        simp only
        by_cases hd : dedupe true s val = true
        · left; simp [hd]
        · right
          simp only [hd, Bool.false_eq_true, if_false, if_true]
          refine ⟨by simp [save], not_stateEq_of_lookup _ _ n ?_⟩
          simp [save, hn, secCanon, putNewMutate]
    | activate n v =>
      simp only [kvPost]
      unfold setActive
      by_cases hv : v = 0
      · left; simp [hv]
      · simp only [hv, if_false]
        cases hn : kv.secrets[n]? with
        | none => left; rfl
        | some s =>
          simp only
          by_cases hmem : v ∈ s.versions
          · simp only [hmem, not_true_eq_false, if_false]
            by_cases ha : s.active = v
            · left; simp [ha]
            · right
              simp only [ha, if_false, if_true]
              refine ⟨by simp [save], not_stateEq_of_lookup _ _ n ?_⟩
              simp [save, hn, secCanon]
              exact fun e => ha e.symm
          · left; simp [hmem]
    | deleteVersion n v =>
      simp only [kvPost]
      unfold deleteVersion
      by_cases hv : v = 0
      · left; simp [hv]
      · simp only [hv, if_false]
        cases hn : kv.secrets[n]? with
        | none => left; rfl
        | some s =>
          simp only
          by_cases ha : v = s.active
          · left; simp [ha]
          · simp only [ha, if_false]
            cases hk : s.versions[v]? with
            | none => left; rfl
            | some old =>
              right
              simp only [if_true]
              refine ⟨by simp [save], not_stateEq_of_lookup _ _ n ?_⟩
              have hmem : v ∈ s.versions := ExtTreeMap.mem_iff_isSome_getElem?.mpr (by simp [hk])
              have hlen : (s.versions.erase v).toList.length ≠ s.versions.toList.length := by
                rw [ExtTreeMap.length_toList, ExtTreeMap.length_toList, ExtTreeMap.size_erase]
                have hpos : 0 < s.versions.size := by
                  rcases Nat.eq_zero_or_pos s.versions.size with h0 | hp
                  · have := ExtTreeMap.eq_empty_iff_size_eq_zero.mpr h0
                    rw [this] at hmem
                    exact absurd hmem ExtTreeMap.not_mem_empty
                  · exact hp
                simp [hmem]; omega
              simp only [save, hn]
              intro hcon
              simp [secCanon] at hcon
              exact hlen (by rw [hcon])
    | delete n =>
      simp only [kvPost]
      unfold deleteSecret
      cases hn : kv.secrets[n]? with
      | none => left; rfl
      | some s =>
        right
        simp only [if_true]
        refine ⟨by simp [save], not_stateEq_of_lookup _ _ n ?_⟩
        simp [save, hn]
    | _ => left; rfl

theorem c04_gen_iff_saved_sound (kv : KV) (c : Caller) (op : Op) (aok sok : Bool) (h : Inv kv) :
    c04_gen_iff_saved (obsOf kv c op aok sok) = true := by
  simp only [c04_gen_iff_saved, obsOf]
  rcases step_state Cfg.std kv c op aok sok with e | e
  · simp [e]
  · rcases kvPost_gen kv op sok h with e2 | ⟨hg, hne⟩
    · simp [e, e2]
    · simp [e, hg, hne]


/-- Every clause the driver evaluates on a step of the real database holds of the specification's
own step, in every state reachable from the empty database, for every caller, operation and
oracle choice: the monitors demand nothing the specification does not. -/
theorem all_clauses_sound (xs : List Call) (c : Caller) (op : Op) (aok sok : Bool) :
    ∀ cl ∈ clauses, cl.2.2 (obsOf (run Cfg.std KV.empty xs) c op aok sok) = true := by
  have hI := run_inv Cfg.std KV.empty inv_empty xs
  have hN := run_nameInv KV.empty inv_empty (by intro n s h; simp [KV.empty] at h) xs
  intro cl hcl
  simp only [clauses, List.mem_cons, List.not_mem_nil, or_false] at hcl
  rcases hcl with rfl | rfl | rfl | rfl | rfl | rfl | rfl | rfl | rfl | rfl | rfl | rfl | rfl | rfl | rfl | rfl | rfl | rfl | rfl | rfl | rfl | rfl
  · exact c01_denied_noeffect_sound (run Cfg.std KV.empty xs) c op aok sok
  · exact c01_effect_only_if_granted_sound (run Cfg.std KV.empty xs) c op aok sok
  · exact c01_changes_only_granted_sound (run Cfg.std KV.empty xs) c op aok sok hI
  · exact c01_list_exact_sound (run Cfg.std KV.empty xs) c op aok sok
  · exact c02_inv_sound (run Cfg.std KV.empty xs) c op aok sok hI hN
  · show c02_failed_noop _ = true
    simp only [c02_failed_noop, obsOf]
    by_cases h : (step Cfg.std (run Cfg.std KV.empty xs) c op aok sok).2.1.isError = true
    · simp [h, failed_calls_noop _ hI c op aok sok h]
    · simp [h]
  · exact c02_frame_sound (run Cfg.std KV.empty xs) c op aok sok hI
  · exact c02_put_sound (run Cfg.std KV.empty xs) c op aok sok hI
  · exact c02_bytes_stable_sound (run Cfg.std KV.empty xs) c op aok sok hI
  · exact c02_active_sound (run Cfg.std KV.empty xs) c op aok sok hI
  · exact c02_delete_version_sound (run Cfg.std KV.empty xs) c op aok sok hI
  · exact c02_reads_sound (run Cfg.std KV.empty xs) c op aok sok
  · exact c02_reads_total_sound (run Cfg.std KV.empty xs) c op aok sok
  · exact c04_savefail_noop_sound (run Cfg.std KV.empty xs) c op aok sok hI
  · exact c04_gen_iff_saved_sound (run Cfg.std KV.empty xs) c op aok sok hI
  · exact c04_mem_eq_disk_sound (run Cfg.std KV.empty xs) c op aok sok
  · exact c06_recorded_sound (run Cfg.std KV.empty xs) c op aok sok
  · exact c06_before_effect_sound (run Cfg.std KV.empty xs) c op aok sok
  · exact c06_fail_closed_sound (run Cfg.std KV.empty xs) c op aok sok
  · exact c06_unchanged_silent_sound (run Cfg.std KV.empty xs) c op aok sok
  · exact c09_cond_sound (run Cfg.std KV.empty xs) c op aok sok hI
  · exact c18_bytes_kept_sound (run Cfg.std KV.empty xs) c op aok sok hI

end Setec.MonSound
