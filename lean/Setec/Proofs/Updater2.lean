import Setec.Model.Updater2
namespace Setec.Updater2

/-- with the mutex: at most one Get is in progress; at rest a notification is pending or the
value is built from the newest install; a rebuild in progress has read the newest install or a
notification is pending again -/
def Inv (s : State) : Prop :=
  (s.g1.phase = .idle ∨ s.g2.phase = .idle) ∧
  (s.g1.phase = .idle → s.g2.phase = .idle → s.pending = true ∨ s.valueSrc = s.cur) ∧
  (s.g1.phase = .read → s.pending = true ∨ s.g1.input = s.cur) ∧
  (s.g2.phase = .read → s.pending = true ∨ s.g2.input = s.cur)

theorem inv_init : Inv init := by
  refine ⟨Or.inl rfl, fun _ _ => Or.inr rfl, ?_, ?_⟩ <;> intro h <;> cases h

theorem inv_step (s s' : State) (e : Ev) (h : Inv s) (hs : step true s e = some s') : Inv s' := by
  obtain ⟨h1, h2, h3, h4⟩ := h
  cases e with
  | install =>
    simp only [step, Option.some.injEq] at hs; subst hs
    exact ⟨h1, fun _ _ => Or.inl rfl, fun _ => Or.inl rfl, fun _ => Or.inl rfl⟩
  | drain i =>
    cases i <;> simp only [step, getG, setG, Bool.not_false, Bool.not_true, if_true, if_false, Bool.false_eq_true,
      Bool.true_eq_false, false_or] at hs
    · split at hs
      · next hc =>
        split at hs
        · simp only [Option.some.injEq] at hs; subst hs
          refine ⟨Or.inr hc.2, ?_, ?_, ?_⟩
          · intro ha; cases ha
          · intro ha; cases ha
          · intro ha; rw [hc.2] at ha; cases ha
        · simp only [Option.some.injEq] at hs; subst hs; exact ⟨h1, h2, h3, h4⟩
      · cases hs
    · split at hs
      · next hc =>
        split at hs
        · simp only [Option.some.injEq] at hs; subst hs
          refine ⟨Or.inl hc.2, ?_, ?_, ?_⟩
          · intro _ hb; cases hb
          · intro ha; rw [hc.2] at ha; cases ha
          · intro hb; cases hb
        · simp only [Option.some.injEq] at hs; subst hs; exact ⟨h1, h2, h3, h4⟩
      · cases hs
  | readCur i =>
    cases i <;> simp only [step, getG, setG, if_true, if_false, Bool.false_eq_true] at hs
    · split at hs
      · next hc =>
        simp only [Option.some.injEq] at hs; subst hs
        have hother : s.g2.phase = .idle := by rcases h1 with h | h; · rw [hc] at h; cases h
                                               · exact h
        exact ⟨Or.inr hother, (fun ha => by cases ha), (fun _ => Or.inr rfl), (fun hb => by rw [hother] at hb; cases hb)⟩
      · cases hs
    · split at hs
      · next hc =>
        simp only [Option.some.injEq] at hs; subst hs
        have hother : s.g1.phase = .idle := by rcases h1 with h | h; · exact h
                                               · rw [hc] at h; cases h
        exact ⟨Or.inl hother, (fun _ hb => by cases hb), (fun ha => by rw [hother] at ha; cases ha), (fun _ => Or.inr rfl)⟩
      · cases hs
  | build i =>
    cases i <;> simp only [step, getG, setG, if_true, if_false, Bool.false_eq_true] at hs
    · split at hs
      · next hc =>
        simp only [Option.some.injEq] at hs; subst hs
        have hother : s.g2.phase = .idle := by rcases h1 with h | h; · rw [hc] at h; cases h
                                               · exact h
        exact ⟨Or.inl rfl, (fun _ _ => h3 hc), (fun ha => by cases ha), (fun hb => by rw [hother] at hb; cases hb)⟩
      · cases hs
    · split at hs
      · next hc =>
        simp only [Option.some.injEq] at hs; subst hs
        have hother : s.g1.phase = .idle := by rcases h1 with h | h; · exact h
                                               · rw [hc] at h; cases h
        exact ⟨Or.inr rfl, (fun _ _ => h4 hc), (fun ha => by rw [hother] at ha; cases ha), (fun hb => by cases hb)⟩
      · cases hs

theorem inv_run (es : List Ev) (s s' : State) (h : Inv s) (hr : run true s es = some s') : Inv s' := by
  induction es generalizing s with
  | nil => simp only [run, Option.some.injEq] at hr; subst hr; exact h
  | cons e es ih =>
    simp only [run] at hr
    split at hr
    · next s1 hs1 => exact ih s1 (inv_step s s1 e h hs1) hr
    · cases hr

end Setec.Updater2
