import Setec.Model.Base64
namespace Setec.Base64

theorem dec_enc_fin : ∀ n : Fin 64, decChar (encChar n.val) = some n.val ∧ encChar n.val ≠ '=' := by decide +kernel

theorem dec_enc (n : Nat) (h : n < 64) : decChar (encChar n) = some n := (dec_enc_fin ⟨n, h⟩).1
theorem enc_ne_pad (n : Nat) (h : n < 64) : encChar n ≠ '=' := (dec_enc_fin ⟨n, h⟩).2

theorem ofNat_toNat (a : UInt8) : UInt8.ofNat a.toNat = a := by
  cases a; simp [UInt8.ofNat, UInt8.toNat]

/-- decode inverts encode on every byte string -/
theorem decode_encode (bs : List UInt8) : decode (encode bs) = some bs := by
  fun_induction encode bs with
  | case1 a b c rest ih =>
    have ha := a.toNat_lt; have hb := b.toNat_lt; have hc := c.toNat_lt
    have h1 : a.toNat / 4 < 64 := by omega
    have h2 : (a.toNat % 4) * 16 + b.toNat / 16 < 64 := by omega
    have h3 : (b.toNat % 16) * 4 + c.toNat / 64 < 64 := by omega
    have h4 : c.toNat % 64 < 64 := by omega
    simp only [decode, enc_ne_pad _ h4, if_false, dec_enc _ h1, dec_enc _ h2, dec_enc _ h3, dec_enc _ h4, ih]
    have e1 : a.toNat / 4 * 4 + ((a.toNat % 4) * 16 + b.toNat / 16) / 16 = a.toNat := by omega
    have e2 : (((a.toNat % 4) * 16 + b.toNat / 16) % 16) * 16 + ((b.toNat % 16) * 4 + c.toNat / 64) / 4 = b.toNat := by omega
    have e3 : (((b.toNat % 16) * 4 + c.toNat / 64) % 4) * 64 + c.toNat % 64 = c.toNat := by omega
    rw [e1, e2, e3, ofNat_toNat, ofNat_toNat, ofNat_toNat]
  | case2 a b =>
    have ha := a.toNat_lt; have hb := b.toNat_lt
    have h1 : a.toNat / 4 < 64 := by omega
    have h2 : (a.toNat % 4) * 16 + b.toNat / 16 < 64 := by omega
    have h3 : (b.toNat % 16) * 4 < 64 := by omega
    simp only [decode, if_true, List.isEmpty_nil, Bool.not_true, Bool.false_eq_true, if_false, enc_ne_pad _ h3,
      dec_enc _ h1, dec_enc _ h2, dec_enc _ h3]
    have e1 : a.toNat / 4 * 4 + ((a.toNat % 4) * 16 + b.toNat / 16) / 16 = a.toNat := by omega
    have e2 : (((a.toNat % 4) * 16 + b.toNat / 16) % 16) * 16 + ((b.toNat % 16) * 4) / 4 = b.toNat := by omega
    rw [e1, e2, ofNat_toNat, ofNat_toNat]
  | case3 a =>
    have ha := a.toNat_lt
    have h1 : a.toNat / 4 < 64 := by omega
    have h2 : (a.toNat % 4) * 16 < 64 := by omega
    simp only [decode, if_true, List.isEmpty_nil, Bool.not_true, Bool.false_eq_true, if_false, dec_enc _ h1, dec_enc _ h2]
    have e1 : a.toNat / 4 * 4 + ((a.toNat % 4) * 16) / 16 = a.toNat := by omega
    rw [e1, ofNat_toNat]
  | case4 => rfl

end Setec.Base64
