import Setec.Model.KV
/-! Invariant, exact rollback, retrievability and framing for the KV model (C02, C04). -/
namespace Setec.KV
open Std

/-- per-secret invariant: the active version exists; every stored number is in 1..latest -/
def SecInv (s : Secret) : Prop :=
  s.active ∈ s.versions ∧ ∀ k, k ∈ s.versions → 1 ≤ k ∧ k ≤ s.latest

def InvS (m : SMap) : Prop := ∀ (n : String) (s : Secret), m[n]? = some s → SecInv s
def Inv (kv : KV) : Prop := InvS kv.secrets

theorem KV.ext' {a b : KV} (h1 : a.secrets = b.secrets) (h2 : a.gen = b.gen)
    (h3 : a.disk = b.disk := by rfl) : a = b := by
  cases a; cases b; simp_all

theorem Secret.ext' {a b : Secret} (h1 : a.versions = b.versions) (h2 : a.active = b.active)
    (h3 : a.latest = b.latest) : a = b := by
  cases a; cases b; simp_all

theorem inv_empty : Inv empty := by
  intro n s h; simp [empty] at h

theorem secInv_new (v : Bytes) : SecInv (newSecret v) := by
  constructor
  · simp [newSecret]
  · intro k hk; simp [newSecret] at hk; subst hk; simp [newSecret]

/-! ### rollback restores exactly the pre-call state (C04) -/

theorem putNew_rollback_exact (s : Secret) (value : Bytes) (h : SecInv s) :
    putNewRollback (putNewMutate s value) = s := by
  obtain ⟨_, hk⟩ := h
  have hfresh : s.latest + 1 ∉ s.versions := by
    intro hm; have := (hk _ hm).2; omega
  apply Secret.ext'
  · simp only [putNewMutate, putNewRollback]
    apply ExtTreeMap.ext_getElem?
    intro k
    by_cases hkk : s.latest + 1 = k
    · subst hkk; simp [ExtTreeMap.getElem?_eq_none hfresh]
    · simp [ExtTreeMap.getElem?_erase, ExtTreeMap.getElem?_insert, hkk]
  · rfl
  · simp [putNewMutate, putNewRollback]

theorem insert_self {α} (m : ExtTreeMap String α compare) (n : String) (s : α) (h : m[n]? = some s) :
    m.insert n s = m := by
  apply ExtTreeMap.ext_getElem?
  intro k
  by_cases hk : n = k
  · subst hk; simp [h]
  · simp [ExtTreeMap.getElem?_insert, hk]

theorem insert_insert_self {α} (m : ExtTreeMap String α compare) (n : String) (s t : α) (h : m[n]? = some s) :
    (m.insert n t).insert n s = m := by
  apply ExtTreeMap.ext_getElem?
  intro k
  by_cases hk : n = k
  · subst hk; simp [h]
  · simp [ExtTreeMap.getElem?_insert, hk]

theorem erase_insert_none {α} (m : ExtTreeMap String α compare) (n : String) (t : α) (h : m[n]? = none) :
    (m.insert n t).erase n = m := by
  apply ExtTreeMap.ext_getElem?
  intro k
  by_cases hk : n = k
  · subst hk; simp [h]
  · simp [ExtTreeMap.getElem?_insert, ExtTreeMap.getElem?_erase, hk]

theorem insert_erase_self {α} (m : ExtTreeMap String α compare) (n : String) (s : α) (h : m[n]? = some s) :
    (m.erase n).insert n s = m := by
  apply ExtTreeMap.ext_getElem?
  intro k
  by_cases hk : n = k
  · subst hk; simp [h]
  · simp [ExtTreeMap.getElem?_insert, ExtTreeMap.getElem?_erase, hk]

theorem vinsert_erase_self (m : VMap) (v : Nat) (b : Bytes) (h : m[v]? = some b) :
    (m.erase v).insert v b = m := by
  apply ExtTreeMap.ext_getElem?
  intro k
  by_cases hk : v = k
  · subst hk; simp [h]
  · simp [ExtTreeMap.getElem?_insert, ExtTreeMap.getElem?_erase, hk]

/-- put with a failing save: exact pre-state, error (or the dedupe answer, which never saves) -/
theorem put_savefail (g : Bool) (kv : KV) (n : String) (v : Bytes) (h : Inv kv) :
    (put g kv n v false).1 = kv := by
  unfold put
  split
  · next hn => simp [save]; exact KV.ext' (erase_insert_none _ _ _ hn) rfl
  · next s hs =>
    split
    · rfl
    · simp only [save, Bool.false_eq_true, if_false]
      refine KV.ext' ?_ rfl
      simp only
      rw [putNew_rollback_exact s v (h n s hs)]
      exact insert_insert_self _ _ _ _ hs

theorem setActive_savefail (kv : KV) (n : String) (v : Nat) : (setActive kv n v false).1 = kv := by
  unfold setActive
  split; · rfl
  split; · rfl
  next s hs =>
  split; · rfl
  split; · rfl
  simp only [save, Bool.false_eq_true, if_false]
  refine KV.ext' ?_ rfl
  exact insert_insert_self _ _ _ _ hs

theorem deleteVersion_savefail (kv : KV) (n : String) (v : Nat) : (deleteVersion kv n v false).1 = kv := by
  unfold deleteVersion
  split; · rfl
  split; · rfl
  next s hs =>
  split; · rfl
  split; · rfl
  next old hold =>
  simp only [save, Bool.false_eq_true, if_false]
  refine KV.ext' ?_ rfl
  simp only
  rw [vinsert_erase_self _ _ _ hold]
  exact insert_insert_self _ _ _ _ hs

theorem deleteSecret_savefail (kv : KV) (n : String) : (deleteSecret kv n false).1 = kv := by
  unfold deleteSecret
  split; · rfl
  next s hs =>
  simp only [save, Bool.false_eq_true, if_false]
  exact KV.ext' (insert_erase_self _ _ _ hs) rfl

/-! ### the invariant is preserved by every operation, whatever the save oracle says -/

theorem inv_insert (kv : KV) (n : String) (s : Secret) (g : Nat) (d : SMap) (h : Inv kv) (hs : SecInv s) :
    Inv { secrets := kv.secrets.insert n s, gen := g, disk := d } := by
  intro m t hm
  by_cases hk : n = m
  · subst hk; simp at hm; subst hm; exact hs
  · simp [ExtTreeMap.getElem?_insert, hk] at hm; exact h m t hm

theorem inv_erase (kv : KV) (n : String) (g : Nat) (d : SMap) (h : Inv kv) :
    Inv { secrets := kv.secrets.erase n, gen := g, disk := d } := by
  intro m t hm
  by_cases hk : n = m
  · subst hk; simp at hm
  · simp [ExtTreeMap.getElem?_erase, hk] at hm; exact h m t hm

theorem secInv_putNew (s : Secret) (v : Bytes) (h : SecInv s) : SecInv (putNewMutate s v) := by
  obtain ⟨ha, hk⟩ := h
  constructor
  · simp [putNewMutate]; exact Or.inr ha
  · intro k hm
    simp [putNewMutate] at hm ⊢
    rcases hm with rfl | hm
    · omega
    · have := hk k hm; omega

theorem put_inv (g : Bool) (kv : KV) (n : String) (v : Bytes) (ok : Bool) (h : Inv kv) :
    Inv (put g kv n v ok).1 := by
  cases ok
  · rw [put_savefail g kv n v h]; exact h
  · unfold put
    split
    · simp [save]; exact inv_insert kv n _ _ _ h (secInv_new v)
    · next s hs =>
      split
      · exact h
      · simp [save]; exact inv_insert kv n _ _ _ h (secInv_putNew s v (h n s hs))

theorem setActive_inv (kv : KV) (n : String) (v : Nat) (ok : Bool) (h : Inv kv) :
    Inv (setActive kv n v ok).1 := by
  cases ok
  · rw [setActive_savefail]; exact h
  · unfold setActive
    split; · exact h
    split; · exact h
    next s hs =>
    split; · exact h
    next hv =>
    split; · exact h
    simp [save]
    apply inv_insert kv n _ _ _ h
    have := h n s hs
    exact ⟨by simpa using hv, this.2⟩

theorem deleteVersion_inv (kv : KV) (n : String) (v : Nat) (ok : Bool) (h : Inv kv) :
    Inv (deleteVersion kv n v ok).1 := by
  cases ok
  · rw [deleteVersion_savefail]; exact h
  · unfold deleteVersion
    split; · exact h
    split; · exact h
    next s hs =>
    split; · exact h
    next hva =>
    split; · exact h
    simp [save]
    apply inv_insert kv n _ _ _ h
    obtain ⟨ha, hk⟩ := h n s hs
    constructor
    · simp; exact ⟨hva, ha⟩
    · intro k hm; simp at hm; exact hk k hm.2

theorem deleteSecret_inv (kv : KV) (n : String) (ok : Bool) (h : Inv kv) :
    Inv (deleteSecret kv n ok).1 := by
  cases ok
  · rw [deleteSecret_savefail]; exact h
  · unfold deleteSecret
    split; · exact h
    simp [save]; exact inv_erase kv n _ _ h

/-! ### put: retrievable, fresh number, dedupe, first put (C02) -/

theorem put_retrievable (kv : KV) (n : String) (v : Bytes) (ok : Bool) (kv' : KV) (k : Nat)
    (h : put true kv n v ok = (kv', .ok k)) : getVersion kv' n k = .ok (v, k) := by
  unfold put at h
  split at h
  · split at h
    · next hok => cases h; subst hok; simp [getVersion, save, newSecret]
    · cases h
  · next s hs =>
    split at h
    · next hd =>
      cases h
      simp only [dedupe] at hd
      split at hd
      · next cur hc => simp at hd; subst hd; simp [getVersion, hs, hc]
      · simp at hd
    · split at h
      · next hok => cases h; subst hok; simp [getVersion, save, putNewMutate]
      · cases h

/-- first put of a name: version 1, active, alone -/
theorem put_first (g : Bool) (kv : KV) (n : String) (v : Bytes) (h : kv.secrets[n]? = none) :
    put g kv n v true = ({ secrets := kv.secrets.insert n (newSecret v), gen := kv.gen + 1,
                           disk := kv.secrets.insert n (newSecret v) }, .ok 1) := by
  simp [put, h, save]

/-- later put of different bytes: fresh number latest+1, never used before, active untouched -/
theorem put_fresh (kv : KV) (n : String) (v : Bytes) (s : Secret) (hs : kv.secrets[n]? = some s)
    (hinv : SecInv s) (hd : dedupe true s v = false) :
    put true kv n v true =
      ({ secrets := kv.secrets.insert n (putNewMutate s v), gen := kv.gen + 1,
         disk := kv.secrets.insert n (putNewMutate s v) }, .ok (s.latest + 1))
    ∧ s.latest + 1 ∉ s.versions ∧ (putNewMutate s v).active = s.active
    ∧ ∀ k, k ∈ s.versions → k < s.latest + 1 := by
  refine ⟨by simp [put, hs, hd, save, putNewMutate], ?_, rfl, ?_⟩
  · intro hm; have := (hinv.2 _ hm).2; omega
  · intro k hk; have := (hinv.2 _ hk).2; omega

/-- re-putting the bytes of the newest version while it still exists: same number, nothing changes -/
theorem put_dedupe (kv : KV) (n : String) (v : Bytes) (s : Secret) (ok : Bool)
    (hs : kv.secrets[n]? = some s) (hv : s.versions[s.latest]? = some v) :
    put true kv n v ok = (kv, .ok s.latest) := by
  simp [put, hs, dedupe, hv]

/-- with the repaired guard a deleted newest version never dedupes -/
theorem dedupe_absent (s : Secret) (v : Bytes) (h : s.versions[s.latest]? = none) :
    dedupe true s v = false := by
  simp [dedupe, h]

/-- D2: with the original guard, putting "" after the newest version was deleted
returns a number that does not exist. -/
theorem d2_original_guard (kv : KV) (n : String) (s : Secret) (ok : Bool)
    (hs : kv.secrets[n]? = some s) (h : s.versions[s.latest]? = none) :
    put false kv n [] ok = (kv, .ok s.latest) ∧ getVersion kv n s.latest = .error .notFound := by
  simp [put, hs, dedupe, h, getVersion]

/-! ### framing: operations on one name never affect another -/

theorem put_frame (g : Bool) (kv : KV) (n m : String) (v : Bytes) (ok : Bool) (hinv : Inv kv) (hne : n ≠ m) :
    (put g kv n v ok).1.secrets[m]? = kv.secrets[m]? := by
  cases ok
  · rw [put_savefail g kv n v hinv]
  · unfold put
    split
    · simp [save, ExtTreeMap.getElem?_insert, hne]
    · split
      · rfl
      · simp [save, ExtTreeMap.getElem?_insert, hne]

theorem setActive_frame (kv : KV) (n m : String) (v : Nat) (ok : Bool) (hne : n ≠ m) :
    (setActive kv n v ok).1.secrets[m]? = kv.secrets[m]? := by
  cases ok
  · rw [setActive_savefail]
  · unfold setActive
    split; · rfl
    split; · rfl
    split; · rfl
    split; · rfl
    simp [save, ExtTreeMap.getElem?_insert, hne]

theorem deleteVersion_frame (kv : KV) (n m : String) (v : Nat) (ok : Bool) (hne : n ≠ m) :
    (deleteVersion kv n v ok).1.secrets[m]? = kv.secrets[m]? := by
  cases ok
  · rw [deleteVersion_savefail]
  · unfold deleteVersion
    split; · rfl
    split; · rfl
    split; · rfl
    split; · rfl
    simp [save, ExtTreeMap.getElem?_insert, hne]

theorem deleteSecret_frame (kv : KV) (n m : String) (ok : Bool) (hne : n ≠ m) :
    (deleteSecret kv n ok).1.secrets[m]? = kv.secrets[m]? := by
  cases ok
  · rw [deleteSecret_savefail]
  · unfold deleteSecret
    split; · rfl
    simp [save, ExtTreeMap.getElem?_erase, hne]

/-! ### failed calls change nothing -/

theorem put_error_noop (g : Bool) (kv : KV) (n : String) (v : Bytes) (ok : Bool) (e : Err) (kv' : KV)
    (hinv : Inv kv) (h : put g kv n v ok = (kv', .error e)) : kv' = kv := by
  cases ok
  · have := put_savefail g kv n v hinv; rw [h] at this; exact this
  · unfold put at h
    split at h
    · simp at h
    · split at h
      · simp at h
      · simp at h

theorem setActive_error_noop (kv : KV) (n : String) (v : Nat) (ok : Bool) (e : Err) (kv' : KV)
    (h : setActive kv n v ok = (kv', .error e)) : kv' = kv := by
  cases ok
  · have := setActive_savefail kv n v; rw [h] at this; exact this
  · unfold setActive at h
    split at h; · cases h; rfl
    split at h; · cases h; rfl
    split at h; · cases h; rfl
    split at h; · cases h
    simp at h

theorem deleteVersion_error_noop (kv : KV) (n : String) (v : Nat) (ok : Bool) (e : Err) (kv' : KV)
    (h : deleteVersion kv n v ok = (kv', .error e)) : kv' = kv := by
  cases ok
  · have := deleteVersion_savefail kv n v; rw [h] at this; exact this
  · unfold deleteVersion at h
    split at h; · cases h; rfl
    split at h; · cases h; rfl
    split at h; · cases h; rfl
    split at h; · cases h; rfl
    simp at h

theorem deleteSecret_error_noop (kv : KV) (n : String) (ok : Bool) (e : Err) (kv' : KV)
    (h : deleteSecret kv n ok = (kv', .error e)) : kv' = kv := by
  cases ok
  · have := deleteSecret_savefail kv n; rw [h] at this; exact this
  · unfold deleteSecret at h
    split at h; · cases h
    simp at h

/-! ### activate / delete-version / delete -/

theorem setActive_ok (kv : KV) (n : String) (v : Nat) (ok : Bool) (kv' : KV)
    (h : setActive kv n v ok = (kv', .ok ())) :
    ∃ s s', kv.secrets[n]? = some s ∧ kv'.secrets[n]? = some s' ∧ v ∈ s.versions ∧
      s'.active = v ∧ s'.versions = s.versions ∧ s'.latest = s.latest := by
  unfold setActive at h
  split at h; · cases h
  split at h; · cases h
  next s hs =>
  split at h; · cases h
  next hv =>
  have hv : v ∈ s.versions := by simpa using hv
  split at h
  · next ha => cases h; exact ⟨s, s, hs, hs, hv, ha, rfl, rfl⟩
  · split at h
    · next hok => cases h; subst hok; exact ⟨s, { s with active := v }, hs, by simp [save], hv, rfl, rfl, rfl⟩
    · cases h

/-- the active version cannot be deleted individually -/
theorem deleteVersion_active (kv : KV) (n : String) (s : Secret) (ok : Bool)
    (hs : kv.secrets[n]? = some s) (hpos : s.active ≠ 0) :
    deleteVersion kv n s.active ok = (kv, .error .activeVersion) := by
  simp [deleteVersion, hs, hpos]

theorem deleteVersion_ok (kv : KV) (n : String) (v : Nat) (ok : Bool) (kv' : KV)
    (h : deleteVersion kv n v ok = (kv', .ok ())) :
    ∃ s s', kv.secrets[n]? = some s ∧ kv'.secrets[n]? = some s' ∧ v ≠ s.active ∧
      s'.versions = s.versions.erase v ∧ s'.active = s.active ∧ s'.latest = s.latest := by
  unfold deleteVersion at h
  split at h; · cases h
  split at h; · cases h
  next s hs =>
  split at h; · cases h
  next hva =>
  split at h; · cases h
  split at h
  · next hok => cases h; subst hok; exact ⟨s, { s with versions := s.versions.erase v }, hs, by simp [save], hva, rfl, rfl, rfl⟩
  · cases h

/-- only activate changes which version is served by default -/
theorem put_active_unchanged (kv : KV) (n : String) (v : Bytes) (ok : Bool) (s : Secret) (hinv : Inv kv)
    (hs : kv.secrets[n]? = some s) :
    ∃ s', (put true kv n v ok).1.secrets[n]? = some s' ∧ s'.active = s.active := by
  cases ok
  · rw [put_savefail true kv n v hinv]; exact ⟨s, hs, rfl⟩
  · unfold put
    rw [hs]
    simp only
    split
    · exact ⟨s, hs, rfl⟩
    · exact ⟨putNewMutate s v, by simp [save], rfl⟩

theorem deleteSecret_gone (kv : KV) (n : String) (kv' : KV) (ok : Bool)
    (h : deleteSecret kv n ok = (kv', .ok ())) : kv'.secrets[n]? = none := by
  unfold deleteSecret at h
  split at h
  · next hn => cases h; exact hn
  · split at h
    · next hok => cases h; subst hok; simp [save]
    · cases h

/-- numbering restarts only when the whole secret is deleted: after delete, the next put is version 1 -/
theorem delete_restarts_numbering (kv : KV) (n : String) (v : Bytes) (kv' : KV)
    (h : deleteSecret kv n true = (kv', .ok ())) : (put true kv' n v true).2 = .ok 1 := by
  have := deleteSecret_gone kv n kv' true h
  simp [put, this]

/-! ### write generation advances iff a save succeeded (C04, C17) -/

theorem put_gen (g : Bool) (kv : KV) (n : String) (v : Bytes) (ok : Bool) (hinv : Inv kv) :
    (put g kv n v ok).1.gen = kv.gen ∨
    ((put g kv n v ok).1.gen = kv.gen + 1 ∧ ok = true) := by
  cases ok
  · left; rw [put_savefail g kv n v hinv]
  · unfold put
    split
    · right; simp [save]
    · split
      · left; rfl
      · right; simp [save]

/-! ### the file always holds exactly the served state (C03): every mutation saves the whole
map before it returns success, and a failed save changes neither -/

def Synced (kv : KV) : Prop := kv.disk = kv.secrets

theorem put_synced (g : Bool) (kv : KV) (n : String) (v : Bytes) (ok : Bool) (hinv : Inv kv) (h : Synced kv) :
    Synced (put g kv n v ok).1 := by
  cases ok
  · rw [put_savefail g kv n v hinv]; exact h
  · unfold put; split
    · simp [save, Synced]
    · split
      · exact h
      · simp [save, Synced]

theorem setActive_synced (kv : KV) (n : String) (v : Nat) (ok : Bool) (h : Synced kv) :
    Synced (setActive kv n v ok).1 := by
  cases ok
  · rw [setActive_savefail]; exact h
  · unfold setActive
    split; · exact h
    split; · exact h
    split; · exact h
    split; · exact h
    simp [save, Synced]

theorem deleteVersion_synced (kv : KV) (n : String) (v : Nat) (ok : Bool) (h : Synced kv) :
    Synced (deleteVersion kv n v ok).1 := by
  cases ok
  · rw [deleteVersion_savefail]; exact h
  · unfold deleteVersion
    split; · exact h
    split; · exact h
    split; · exact h
    split; · exact h
    simp [save, Synced]

theorem deleteSecret_synced (kv : KV) (n : String) (ok : Bool) (h : Synced kv) :
    Synced (deleteSecret kv n ok).1 := by
  cases ok
  · rw [deleteSecret_savefail]; exact h
  · unfold deleteSecret
    split; · exact h
    simp [save, Synced]

end Setec.KV
