import Setec.Model.Store
/-! Lemmas about the store model: back-off bound, construction, apply/expiry, cache. -/
namespace Setec.Store
open Std Setec.KV

/-! ### back-off -/

theorem retryWait_pos (k : Nat) : 1 ≤ retryWait k := by
  induction k with
  | zero => simp [retryWait]
  | succ k ih => simp only [retryWait]; split <;> omega

theorem retryWait_pow (k : Nat) : ∃ j, j ≤ 12 ∧ retryWait k = 2 ^ j := by
  induction k with
  | zero => exact ⟨0, by omega, by simp [retryWait]⟩
  | succ k ih =>
    obtain ⟨j, hj, he⟩ := ih
    simp only [retryWait]
    split
    · next h =>
      rw [he] at h
      have hj' : j ≤ 11 := by
        rcases Nat.lt_or_ge j 12 with h12 | h12
        · omega
        · have : j = 12 := by omega
          subst this; simp at h
      exact ⟨j + 1, by omega, by rw [he, Nat.pow_succ]; omega⟩
    · exact ⟨j, hj, he⟩

/-- the wait never exceeds 4096 ms (it doubles from 1 ms while below 4000 ms) -/
theorem retryWait_le (k : Nat) : retryWait k ≤ 4096 := by
  obtain ⟨j, hj, he⟩ := retryWait_pow k
  rw [he]
  calc 2 ^ j ≤ 2 ^ 12 := Nat.pow_le_pow_right (by omega) hj
    _ = 4096 := by decide

/-! ### one round of construction -/

/-- what a round does to the map: visited names that got a value are installed, nothing
else changes; if the round neither aborted nor counted a miss, every visited name has a value -/
theorem initRound_spec (m : AMap) (now : Int) (ctxDone : Bool) (ans : String → Ans) (vs : List String) :
    let r := initRound m now ctxDone ans vs
    (∀ n : String, n ∉ vs → r.1[n]? = m[n]?) ∧
    (∀ n : String, (∃ c : CEntry, m[n]? = some (some c)) → ∃ c : CEntry, r.1[n]? = some (some c)) ∧
    (r.2.2.1 = false → r.2.1 = 0 → ∀ n ∈ vs, ∃ c : CEntry, r.1[n]? = some (some c)) := by
  induction vs generalizing m with
  | nil => simp [initRound]
  | cons v rest ih =>
    simp only [initRound]
    split
    · next sv hans =>
      have := ih (m.insert v (some { sv := sv, lastAccess := now, declared := true }))
      simp only at this ⊢
      obtain ⟨h1, h2, h3⟩ := this
      refine ⟨?_, ?_, ?_⟩
      · intro n hn
        simp only [List.mem_cons, not_or] at hn
        rw [h1 n hn.2]; simp [ExtTreeMap.getElem?_insert, Ne.symm hn.1]
      · intro n ⟨c, hc⟩
        apply h2
        by_cases hv : v = n
        · subst hv; exact ⟨{ sv := sv, lastAccess := now, declared := true }, by simp⟩
        · exact ⟨c, by simp [ExtTreeMap.getElem?_insert, hv, hc]⟩
      · intro hab hmiss n hn
        simp only [List.mem_cons] at hn
        rcases hn with rfl | hn
        · exact h2 n ⟨{ sv := sv, lastAccess := now, declared := true }, by simp⟩
        · exact h3 hab hmiss n hn
    · next a hans =>
      split
      · simp
      · have := ih m
        simp only at this ⊢
        obtain ⟨h1, h2, h3⟩ := this
        refine ⟨fun n hn => h1 n (fun h => hn (List.mem_cons_of_mem _ h)), h2, ?_⟩
        intro _ hmiss; omega

theorem mem_missingNames (m : AMap) (n : String) : n ∈ missingNames m ↔ m[n]? = some none := by
  simp only [missingNames, List.mem_filterMap]
  constructor
  · rintro ⟨⟨k, e⟩, hmem, h⟩
    split at h
    · next he =>
      cases h
      have := ExtTreeMap.mem_toList_iff_getElem?_eq_some.mp hmem
      cases e <;> simp_all
    · cases h
  · intro h
    exact ⟨(n, none), ExtTreeMap.mem_toList_iff_getElem?_eq_some.mpr h, by simp⟩

theorem missing_subset_visits (m : AMap) (order : List String) (n : String) (h : n ∈ missingNames m) :
    n ∈ visits m order := by
  simp only [visits, List.mem_append, List.mem_filter]
  by_cases ho : n ∈ order
  · left; exact ⟨List.mem_eraseDups.mpr ho, by simpa using h⟩
  · right; exact ⟨h, by simpa using ho⟩

/-- a round that ends without abort and without a miss leaves no stub behind -/
theorem round_complete (m : AMap) (now : Int) (ctxDone : Bool) (ans : String → Ans) (order : List String)
    (hab : (initRound m now ctxDone ans (visits m order)).2.2.1 = false)
    (hmiss : (initRound m now ctxDone ans (visits m order)).2.1 = 0) :
    missingNames (initRound m now ctxDone ans (visits m order)).1 = [] := by
  obtain ⟨h1, h2, h3⟩ := initRound_spec m now ctxDone ans (visits m order)
  rw [List.eq_nil_iff_forall_not_mem]
  intro n hn
  rw [mem_missingNames] at hn
  by_cases hv : n ∈ visits m order
  · obtain ⟨c, hc⟩ := h3 hab hmiss n hv
    rw [hc] at hn; cases hn
  · rw [h1 n hv] at hn
    exact hv (missing_subset_visits m order n ((mem_missingNames m n).mpr hn))

/-- only missing names are ever requested -/
theorem visits_subset_missing (m : AMap) (order : List String) (n : String) (h : n ∈ visits m order) :
    n ∈ missingNames m := by
  simp only [visits, List.mem_append, List.mem_filter] at h
  rcases h with ⟨_, h⟩ | ⟨h, _⟩
  · simpa using h
  · exact h

theorem initRound_reqs_subset (m : AMap) (now : Int) (ctxDone : Bool) (ans : String → Ans) (vs : List String) :
    ∀ x ∈ (initRound m now ctxDone ans vs).2.2.2, x.1 ∈ vs := by
  induction vs generalizing m with
  | nil => simp [initRound]
  | cons v rest ih =>
    simp only [initRound]
    split
    · intro x hx
      simp only [List.mem_cons] at hx
      rcases hx with rfl | hx
      · simp
      · exact List.mem_cons_of_mem _ (ih _ x hx)
    · split
      · intro x hx; simp at hx; subst hx; simp
      · intro x hx
        simp only [List.mem_cons] at hx
        rcases hx with rfl | hx
        · simp
        · exact List.mem_cons_of_mem _ (ih _ x hx)

/-! ### the construction loop -/

/-- NewStore succeeds only with a value for every name in the active set -/
theorem initLoop_ok_complete (isFile : Bool) (deadline : Option Nat) (now : Int)
    (order : Nat → List String) (ans : Nat → String → Ans) (fuel k t : Nat) (m : AMap) (acc : List (Nat × String × Ans))
    (h : (initLoop isFile deadline now order ans fuel k t m acc).ok = true) :
    missingNames (initLoop isFile deadline now order ans fuel k t m acc).m = [] := by
  induction fuel generalizing k t m acc with
  | zero => simp [initLoop] at h
  | succ fuel ih =>
    simp only [initLoop] at h ⊢
    split at h
    · simp at h
    · next hab =>
      split at h
      · next hmiss =>
        rw [if_neg hab, if_pos hmiss]
        exact round_complete m now _ (ans k) (order k) (by simpa using hab) hmiss
      · next hmiss =>
        split at h
        · simp at h
        · next hf =>
          rw [if_neg hab, if_neg hmiss, if_neg hf]
          exact ih _ _ _ _ h

/-- with a deadline the loop never runs past it -/
theorem initLoop_deadline (isFile : Bool) (d : Nat) (now : Int)
    (order : Nat → List String) (ans : Nat → String → Ans) (fuel k t : Nat) (m : AMap) (acc : List (Nat × String × Ans))
    (ht : t ≤ d) : (initLoop isFile (some d) now order ans fuel k t m acc).elapsedMs ≤ d := by
  induction fuel generalizing k t m acc with
  | zero => simpa [initLoop] using ht
  | succ fuel ih =>
    simp only [initLoop]
    split
    · simp [abortTime]; omega
    · split
      · exact ht
      · split
        · exact ht
        · apply ih; simp [afterSleep]; omega

/-- a file-backed client: exactly one round, no waiting -/
theorem initLoop_file (deadline : Option Nat) (now : Int)
    (order : Nat → List String) (ans : Nat → String → Ans) (fuel : Nat) (m : AMap) :
    (initLoop true deadline now order ans (fuel + 1) 0 0 m []).rounds = 1 := by
  simp only [initLoop]
  split
  · rfl
  · split
    · rfl
    · rfl

/-- a complete cache: no request at all -/
theorem initLoop_full_cache (isFile : Bool) (deadline : Option Nat) (now : Int)
    (order : Nat → List String) (ans : Nat → String → Ans) (fuel : Nat) (m : AMap)
    (h : missingNames m = []) :
    (initLoop isFile deadline now order ans (fuel + 1) 0 0 m []).ok = true ∧
    (initLoop isFile deadline now order ans (fuel + 1) 0 0 m []).reqs = [] ∧
    (initLoop isFile deadline now order ans (fuel + 1) 0 0 m []).elapsedMs = 0 := by
  have hv : visits m (order 0) = [] := by
    simp [visits, h]
  simp [initLoop, hv, initRound]

/-! ### apply / expiry -/

theorem applyOne_handles (s : St) (x : String × Option SV) : (applyOne s x).handles = s.handles := by
  obtain ⟨n, v⟩ := x
  cases v with
  | none => simp only [applyOne]; split <;> rfl
  | some sv => simp only [applyOne]; split <;> rfl

theorem applyOne_age (s : St) (x : String × Option SV) : (applyOne s x).expiryAge = s.expiryAge ∧ (applyOne s x).hasCache = s.hasCache := by
  obtain ⟨n, v⟩ := x
  cases v with
  | none => simp only [applyOne]; split <;> simp
  | some sv => simp only [applyOne]; split <;> simp

theorem applyOne_other (s : St) (x : String × Option SV) (n : String) (h : x.1 ≠ n) :
    (applyOne s x).m[n]? = s.m[n]? := by
  obtain ⟨k, v⟩ := x
  simp only at h
  cases v with
  | none => simp only [applyOne]; split <;> simp [ExtTreeMap.getElem?_erase, h]
  | some sv => simp only [applyOne]; split <;> simp [ExtTreeMap.getElem?_insert, h]

theorem foldl_applyOne_handles (s : St) (u : Updates) : (u.foldl applyOne s).handles = s.handles := by
  induction u generalizing s with
  | nil => rfl
  | cons x u ih => simp only [List.foldl_cons]; rw [ih, applyOne_handles]

/-- a name disappears from the active set only through a "delete me" update, and only if it
has no handle -/
theorem foldl_applyOne_drop (s : St) (u : Updates) (n : String) (c : CEntry)
    (h0 : s.m[n]? = some (some c)) (h1 : (u.foldl applyOne s).m[n]? = none) :
    (n, none) ∈ u ∧ s.handles.contains n = false := by
  induction u generalizing s c with
  | nil => simp only [List.foldl_nil] at h1; rw [h0] at h1; cases h1
  | cons x u ih =>
    simp only [List.foldl_cons] at h1
    by_cases hx : x.1 = n
    · obtain ⟨k, v⟩ := x
      simp only at hx; subst hx
      cases v with
      | none =>
        by_cases hh : s.handles.contains k
        · have e : applyOne s (k, none) = s := by simp only [applyOne, hh, if_true]
          rw [e] at h1
          have := ih s c h0 h1
          exact ⟨List.mem_cons_of_mem _ this.1, this.2⟩
        · exact ⟨List.mem_cons_self, by simpa using hh⟩
      | some sv =>
        have e : (applyOne s (k, some sv)).m[k]? = some (some { c with sv := sv }) := by
          simp [applyOne, h0]
        have := ih (applyOne s (k, some sv)) _ e h1
        rw [applyOne_handles] at this
        exact ⟨List.mem_cons_of_mem _ this.1, this.2⟩
    · have e : (applyOne s x).m[n]? = some (some c) := by rw [applyOne_other s x n hx, h0]
      have := ih (applyOne s x) c e h1
      rw [applyOne_handles] at this
      exact ⟨List.mem_cons_of_mem _ this.1, this.2⟩

theorem flush_m (s : St) : (flush s).m = s.m ∧ (flush s).handles = s.handles := by
  simp only [flush]; split <;> simp

theorem applyUpdates_m (s : St) (u : Updates) : (applyUpdates s u).m = (u.foldl applyOne s).m := by
  simp only [applyUpdates]
  split
  · next h => simp at h; subst h; rfl
  · exact (flush_m _).1

theorem pollItem_delete (it : SnapItem) (a : Ans) (n : String) (h : (pollItem it a).1 = some (n, none)) :
    it.expired = true ∧ it.name = n := by
  simp only [pollItem] at h
  split at h
  · next he => simp at h; exact ⟨he, h⟩
  · split at h <;> (try split at h) <;> simp at h

/-- expiry predicate, spelled out -/
theorem hasExpired_iff (age now : Int) (c : CEntry) :
    hasExpired age now c = true ↔ c.declared = false ∧ age > 0 ∧ (c.lastAccess = 0 ∨ now - c.lastAccess > age) := by
  simp [hasExpired, and_assoc]

theorem mem_snapshot (p : Bool) (s : St) (now : Int) (it : SnapItem) (h : it ∈ snapshot p s now) :
    ∃ c, s.m[it.name]? = some (some c) ∧ it.version = c.sv.version ∧
      it.expired = (hasExpired s.expiryAge now c && !(p && s.handles.contains it.name)) := by
  simp only [snapshot, List.mem_filterMap] at h
  obtain ⟨⟨n, e⟩, hmem, h⟩ := h
  cases e with
  | none => simp at h
  | some c =>
    simp only [Option.map_some, Option.some.injEq] at h
    subst h
    exact ⟨c, ExtTreeMap.mem_toList_iff_getElem?_eq_some.mp hmem, rfl, rfl⟩

/-! ### updates collected by a poll -/

def updatesOf (items : List (SnapItem × Ans)) : Updates := items.filterMap fun x => (pollItem x.1 x.2).1

theorem poll_eq (s : St) (items : List (SnapItem × Ans)) :
    poll s items = if (items.any fun x => (pollItem x.1 x.2).2) then (s, false)
                   else (applyUpdates s (updatesOf items), true) := by
  simp only [poll, updatesOf, List.any_map, List.filterMap_map]
  rfl

theorem pollItem_name (it : SnapItem) (a : Ans) (x : String × Option SV) (h : (pollItem it a).1 = some x) :
    x.1 = it.name := by
  simp only [pollItem] at h
  split at h
  · simp at h; rw [← h]
  · split at h <;> (try split at h) <;> simp at h <;> rw [← h]

theorem mem_updatesOf_name (items : List (SnapItem × Ans)) (x : String × Option SV) (h : x ∈ updatesOf items) :
    ∃ it a, (it, a) ∈ items ∧ (pollItem it a).1 = some x ∧ x.1 = it.name := by
  simp only [updatesOf, List.mem_filterMap] at h
  obtain ⟨⟨it, a⟩, hin, hx⟩ := h
  exact ⟨it, a, hin, hx, pollItem_name it a x hx⟩

theorem nodup_map_inj {α β} (f : α → β) (l : List α) (h : (l.map f).Nodup) :
    ∀ x ∈ l, ∀ y ∈ l, f x = f y → x = y := by
  induction l with
  | nil => intro x hx; cases hx
  | cons a l ih =>
    simp only [List.map_cons, List.nodup_cons] at h
    intro x hx y hy hxy
    simp only [List.mem_cons] at hx hy
    rcases hx with rfl | hx <;> rcases hy with rfl | hy
    · rfl
    · exact absurd (List.mem_map.mpr ⟨y, hy, hxy.symm⟩) h.1
    · exact absurd (List.mem_map.mpr ⟨x, hx, hxy⟩) h.1
    · exact ih h.2 x hx y hy hxy

theorem updatesOf_nodup (items : List (SnapItem × Ans)) (h : (items.map (·.1.name)).Nodup) :
    ((updatesOf items).map (·.1)).Nodup := by
  induction items with
  | nil => simp [updatesOf]
  | cons x xs ih =>
    simp only [List.map_cons, List.nodup_cons] at h
    simp only [updatesOf, List.filterMap_cons]
    split
    · exact ih h.2
    · next y hy =>
      simp only [List.map_cons, List.nodup_cons]
      refine ⟨?_, ih h.2⟩
      intro hc
      obtain ⟨z, hz, hzy⟩ := List.mem_map.mp hc
      obtain ⟨it, a, hin, _, hname⟩ := mem_updatesOf_name xs z hz
      have : x.1.name = y.1 := (pollItem_name x.1 x.2 y hy).symm
      apply h.1
      rw [this, ← hzy, hname]
      exact List.mem_map.mpr ⟨(it, a), hin, rfl⟩

theorem foldl_applyOne_notin (s : St) (u : Updates) (n : String) (h : ∀ x ∈ u, x.1 ≠ n) :
    (u.foldl applyOne s).m[n]? = s.m[n]? := by
  induction u generalizing s with
  | nil => rfl
  | cons x u ih =>
    simp only [List.foldl_cons]
    rw [ih _ (fun y hy => h y (List.mem_cons_of_mem _ hy)), applyOne_other s x n (h x List.mem_cons_self)]

/-- an update for `n` installs exactly the fetched value (names in one poll are distinct) -/
theorem foldl_applyOne_update (s : St) (u : Updates) (n : String) (sv : SV) (c : CEntry)
    (hnd : (u.map (·.1)).Nodup) (hmem : (n, some sv) ∈ u) (hm : s.m[n]? = some (some c)) :
    (u.foldl applyOne s).m[n]? = some (some { c with sv := sv }) := by
  induction u generalizing s c with
  | nil => cases hmem
  | cons x u ih =>
    simp only [List.map_cons, List.nodup_cons] at hnd
    simp only [List.mem_cons] at hmem
    simp only [List.foldl_cons]
    rcases hmem with rfl | hmem
    · rw [foldl_applyOne_notin]
      · simp [applyOne, hm]
      · intro y hy heq
        exact hnd.1 (List.mem_map.mpr ⟨y, hy, heq⟩)
    · have hx : x.1 ≠ n := by
        intro heq
        exact hnd.1 (List.mem_map.mpr ⟨(n, some sv), hmem, heq.symm⟩)
      exact ih (applyOne s x) c hnd.2 hmem (by rw [applyOne_other s x n hx, hm])

/-- the update (if any) a poll collects for one of its items -/
theorem update_for_item (items : List (SnapItem × Ans)) (hnd : (items.map (·.1.name)).Nodup)
    (it : SnapItem) (a : Ans) (hmem : (it, a) ∈ items) (x : String × Option SV)
    (hx : x ∈ updatesOf items) (hname : x.1 = it.name) : (pollItem it a).1 = some x := by
  obtain ⟨it2, a2, hin, hp, hn2⟩ := mem_updatesOf_name items x hx
  have := nodup_map_inj (fun y : SnapItem × Ans => y.1.name) items hnd (it2, a2) hin (it, a) hmem
    (by simp only; rw [← hn2, hname])
  simp only [Prod.mk.injEq] at this
  obtain ⟨rfl, rfl⟩ := this
  exact hp

end Setec.Store
