import Setec.Model.Crypto
/-! Round-trip of the persist codec and of the sealed file (C03, C05). -/
namespace Setec.Codec
open Std Setec.KV

theorem ofList_toList {α β} {cmp : α → α → Ordering} [TransCmp cmp] [LawfulEqCmp cmp] [BEq α] [LawfulBEq α] [LawfulBEqCmp cmp]
    (m : ExtTreeMap α β cmp) : ExtTreeMap.ofList m.toList cmp = m := by
  apply ExtTreeMap.ext_getElem?
  intro k
  cases h : m[k]? with
  | some v =>
    have hm : (k, v) ∈ m.toList := ExtTreeMap.mem_toList_iff_getElem?_eq_some.mpr h
    exact ExtTreeMap.getElem?_ofList_of_mem (LawfulEqCmp.compare_eq_iff_eq.mpr rfl) ExtTreeMap.distinct_keys_toList hm
  | none =>
    apply ExtTreeMap.getElem?_ofList_of_contains_eq_false
    rw [Bool.eq_false_iff]
    intro hc
    rw [List.contains_iff_mem] at hc
    obtain ⟨⟨k', v⟩, hkv, hk⟩ := List.mem_map.mp hc
    simp only at hk; subst hk
    have := ExtTreeMap.mem_toList_iff_getElem?_eq_some.mp hkv
    rw [h] at this; cases this

theorem decVersions_enc (xs : List (Nat × Bytes)) :
    decVersions (xs.map (fun kb => (Nat.repr kb.1, kb.2))) = some xs := by
  induction xs with
  | nil => rfl
  | cons x xs ih =>
    simp only [List.map_cons, decVersions, Nat.toNat?_repr, ih]

theorem decSecret_enc (s : Secret) : decSecret (encSecret s) = some s := by
  simp only [decSecret, encSecret, decVersions_enc]
  congr 1
  cases s
  simp only [Secret.mk.injEq, and_self, and_true]
  exact ofList_toList _

theorem decEntries_enc (xs : List (String × Secret)) :
    decEntries (xs.map (fun ns => (ns.1, encSecret ns.2))) = some xs := by
  induction xs with
  | nil => rfl
  | cons x xs ih => simp only [List.map_cons, decEntries, decSecret_enc, ih]

/-- the persist codec round-trips every state: names, version sets (decimal keys), bytes,
active versions and next-version counters -/
theorem decode_encode (m : SMap) : decode (encode m) = some m := by
  simp only [decode, encode, decEntries_enc]
  congr 1
  exact ofList_toList _

end Setec.Codec

namespace Setec.Crypto
open Std Setec.KV Setec.Codec

theorem aeadDec_enc {α} (k : Nat) (ad : String) (p : α) : aeadDec k ad (aeadEnc k ad p) = some p := by
  simp [aeadDec, aeadEnc]

theorem aeadDec_wrong_key {α} (k k' : Nat) (ad ad' : String) (p : α) (h : k' ≠ k) :
    aeadDec k' ad' (aeadEnc k ad p) = none := by
  simp [aeadDec, aeadEnc, Ne.symm h]

theorem aeadDec_wrong_ad {α} (k k' : Nat) (ad ad' : String) (p : α) (h : ad' ≠ ad) :
    aeadDec k' ad' (aeadEnc k ad p) = none := by
  simp [aeadDec, aeadEnc, Ne.symm h]

theorem open_fileOf (kek dek : Nat) (m : SMap) : openFile Layout.v1 kek (fileOf Layout.v1 kek dek m) = some (dek, m) := by
  simp [openFile, fileOf, Layout.v1, aeadDec_enc, decode_encode]

end Setec.Crypto
