import Setec.Proofs.Crypto
/-
The persist codec does not depend on the order of entries: encoding/json writes a map's keys
sorted as *strings* (so version "10" precedes "2", and names in byte order), the model's
`encode` lists them in the map's own order; whatever the order of the secrets and of each
secret's versions, decoding yields the same contents.
-/
namespace Setec.Codec
open Std Setec.KV

theorem ofList_perm {α β} {cmp : α → α → Ordering} [TransCmp cmp] [LawfulEqCmp cmp] [BEq α] [LawfulBEq α] [LawfulBEqCmp cmp]
    (l l' : List (α × β)) (hp : l.Perm l') (hd : l.Pairwise (fun a b => ¬ cmp a.1 b.1 = .eq)) :
    ExtTreeMap.ofList l cmp = ExtTreeMap.ofList l' cmp := by
  have hsymm : ∀ a b : α × β, (¬ cmp a.1 b.1 = .eq) → (¬ cmp b.1 a.1 = .eq) := by
    intro a b h h'
    apply h
    have := LawfulEqCmp.compare_eq_iff_eq.mp h'
    exact LawfulEqCmp.compare_eq_iff_eq.mpr this.symm
  have hd' : l'.Pairwise (fun a b => ¬ cmp a.1 b.1 = .eq) :=
    (hp.pairwise_iff (fun {a b} h => hsymm a b h)).mp hd
  apply ExtTreeMap.ext_getElem?
  intro k
  by_cases hk : ∃ v, (k, v) ∈ l
  · obtain ⟨v, hv⟩ := hk
    rw [ExtTreeMap.getElem?_ofList_of_mem (LawfulEqCmp.compare_eq_iff_eq.mpr rfl) hd hv,
        ExtTreeMap.getElem?_ofList_of_mem (LawfulEqCmp.compare_eq_iff_eq.mpr rfl) hd' (hp.mem_iff.mp hv)]
  · have hc : ∀ l0 : List (α × β), (∀ v, (k, v) ∉ l0) → (l0.map Prod.fst).contains k = false := by
      intro l0 h0
      rw [Bool.eq_false_iff]
      intro hc
      rw [List.contains_iff_mem] at hc
      obtain ⟨⟨k', v⟩, hm, hk'⟩ := List.mem_map.mp hc
      simp only at hk'; subst hk'
      exact h0 v hm
    have h1 := hc l (fun v hv => hk ⟨v, hv⟩)
    have h2 := hc l' (fun v hv => hk ⟨v, hp.mem_iff.mpr hv⟩)
    rw [ExtTreeMap.getElem?_ofList_of_contains_eq_false h1, ExtTreeMap.getElem?_ofList_of_contains_eq_false h2]

theorem decVersions_perm (xs ys : List (String × Bytes)) (hp : xs.Perm ys) (l : List (Nat × Bytes))
    (h : decVersions xs = some l) : ∃ l', decVersions ys = some l' ∧ l.Perm l' := by
  induction hp generalizing l with
  | nil => exact ⟨l, h, List.Perm.refl _⟩
  | cons x _ ih =>
    obtain ⟨k, b⟩ := x
    simp only [decVersions] at h ⊢
    split at h
    · next n xs' hn hrest =>
      simp only [Option.some.injEq] at h; subst h
      obtain ⟨l', hl', hpl⟩ := ih xs' hrest
      exact ⟨(n, b) :: l', by simp [hn, hl'], List.Perm.cons _ hpl⟩
    · cases h
  | swap x y rest =>
    obtain ⟨k1, b1⟩ := x
    obtain ⟨k2, b2⟩ := y
    simp only [decVersions] at h ⊢
    cases h1 : k1.toNat? <;> cases h2 : k2.toNat? <;> cases h3 : decVersions rest <;> simp [h1, h2, h3] at h ⊢
    subst h
    exact List.Perm.swap _ _ _
  | trans _ _ ih1 ih2 =>
    obtain ⟨l1, hl1, hp1⟩ := ih1 l h
    obtain ⟨l2, hl2, hp2⟩ := ih2 l1 hl1
    exact ⟨l2, hl2, hp1.trans hp2⟩

/-- two clear secrets that differ only in the order of their version entries -/
def SecPerm (p q : PSecret) : Prop := p.versions.Perm q.versions ∧ p.active = q.active ∧ p.latest = q.latest

theorem toList_pairwise {β} (m : ExtTreeMap Nat β compare) :
    m.toList.Pairwise (fun a b => ¬ compare a.1 b.1 = .eq) := ExtTreeMap.distinct_keys_toList

theorem decSecret_perm (s : Secret) (q : PSecret) (h : SecPerm (encSecret s) q) : decSecret q = some s := by
  obtain ⟨hp, ha, hl⟩ := h
  have henc : decVersions (encSecret s).versions = some s.versions.toList := by
    simp only [encSecret]; exact decVersions_enc _
  obtain ⟨l', hl', hpl⟩ := decVersions_perm _ _ hp _ henc
  simp only [decSecret, hl']
  congr 1
  cases s with
  | mk versions active latest =>
    simp only [encSecret] at ha hl
    simp only [Secret.mk.injEq]
    refine ⟨?_, ha.symm, hl.symm⟩
    rw [← ofList_perm versions.toList l' hpl (toList_pairwise versions)]
    exact ofList_toList versions

/-- the same secrets in the same order, each with its versions in any order -/
inductive EntryWise : PTree → PTree → Prop
  | nil : EntryWise [] []
  | cons {a b : String × PSecret} {as bs : PTree} : a.1 = b.1 → SecPerm a.2 b.2 → EntryWise as bs → EntryWise (a :: as) (b :: bs)

theorem decEntries_entrywise (xs : List (String × Secret)) (t : PTree)
    (h : EntryWise (xs.map (fun ns => (ns.1, encSecret ns.2))) t) :
    decEntries t = some xs := by
  induction xs generalizing t with
  | nil => cases h; rfl
  | cons x xs ih =>
    rw [List.map_cons] at h
    cases h with
    | cons hn hsp hrest =>
      next b t' =>
      obtain ⟨bn, bp⟩ := b
      simp only at hn hsp
      subst hn
      simp only [decEntries, decSecret_perm x.2 bp hsp, ih t' hrest]

theorem decEntries_perm (t t' : PTree) (hp : t.Perm t') (l : List (String × Secret)) (h : decEntries t = some l) :
    ∃ l', decEntries t' = some l' ∧ l.Perm l' := by
  induction hp generalizing l with
  | nil => exact ⟨l, h, List.Perm.refl _⟩
  | cons x _ ih =>
    obtain ⟨n, p⟩ := x
    simp only [decEntries] at h ⊢
    split at h
    · next s xs' hs hrest =>
      simp only [Option.some.injEq] at h; subst h
      obtain ⟨l', hl', hpl⟩ := ih xs' hrest
      exact ⟨(n, s) :: l', by simp [hs, hl'], List.Perm.cons _ hpl⟩
    · cases h
  | swap x y rest =>
    obtain ⟨n1, p1⟩ := x
    obtain ⟨n2, p2⟩ := y
    simp only [decEntries] at h ⊢
    cases h1 : decSecret p1 <;> cases h2 : decSecret p2 <;> cases h3 : decEntries rest <;> simp [h1, h2, h3] at h ⊢
    subst h
    exact List.Perm.swap _ _ _
  | trans _ _ ih1 ih2 =>
    obtain ⟨l1, hl1, hp1⟩ := ih1 l h
    obtain ⟨l2, hl2, hp2⟩ := ih2 l1 hl1
    exact ⟨l2, hl2, hp1.trans hp2⟩

/-- Whatever order the clear document lists the secrets and each secret's versions in - the
model's, or encoding/json's string-sorted one - it decodes to the same contents. -/
theorem decode_any_order (m : SMap) (t' t : PTree)
    (h1 : EntryWise (encode m) t') (h2 : t'.Perm t) : decode t = some m := by
  have he : decEntries t' = some m.toList := decEntries_entrywise m.toList t' h1
  obtain ⟨l', hl', hpl⟩ := decEntries_perm t' t h2 _ he
  simp only [decode, hl']
  congr 1
  rw [← ofList_perm m.toList l' hpl ExtTreeMap.distinct_keys_toList]
  exact ofList_toList m

end Setec.Codec
