"""Shared orchestrator for all property checks (python3 stdlib only).

Per run:
  A. proof obligations against today's source
       facts extractor -> lean/Setec/Generated/Facts.lean (rewritten only when different)
       lake build Setec.Properties.<ID>
       #print axioms for every theorem of that file; forbidden-token grep
  B. correspondence + monitors on the real code
       Go harness (built from the repository's working tree, tag `verif`) writes traces,
       the compiled Lean driver replays them on the model and evaluates the monitors
  C. verdict, evidence, replay
"""
import concurrent.futures as cf
import fcntl
import hashlib
import json
import os
import re
import shutil
import subprocess
import sys
import tempfile
import time

VERIF = os.path.dirname(os.path.dirname(os.path.abspath(__file__)))
REPO = os.environ.get("VERIF_REPO", "/repo")
BUILD = os.path.join(VERIF, ".build")
LEAN = os.path.join(VERIF, "lean")
GO = "go1.26.8"
ACCEPTED_AXIOMS = {"propext", "Classical.choice", "Quot.sound"}
FORBIDDEN = re.compile(r"\bsorry\b|\badmit\b|^\s*axiom\s|native_decide|bv_decide|implemented_by|\bunsafe\s|maxHeartbeats\s+0|\bofReduceBool\b", re.M)


class Infra(Exception):
    pass


def goenv():
    e = dict(os.environ)
    e.update(GOFLAGS="-mod=mod", GOPROXY="off", GOTOOLCHAIN="local", CGO_ENABLED=e.get("CGO_ENABLED", "1"))
    e.pop("GOSUMDB", None)
    return e


class Lock:
    def __init__(self, name):
        os.makedirs(BUILD, exist_ok=True)
        self.path = os.path.join(BUILD, name + ".lock")

    def __enter__(self):
        self.f = open(self.path, "w")
        fcntl.flock(self.f, fcntl.LOCK_EX)
        return self

    def __exit__(self, *a):
        fcntl.flock(self.f, fcntl.LOCK_UN)
        self.f.close()


def run(cmd, cwd=None, env=None, timeout=None, stdin=None, stdout=None):
    return subprocess.run(cmd, cwd=cwd, env=env, timeout=timeout, stdin=stdin,
                          stdout=stdout or subprocess.PIPE, stderr=subprocess.PIPE, text=True)


# ---------------------------------------------------------------- build

def build_go(race=False):
    """Build harness binaries from the repository's current working tree."""
    with Lock("go"):
        os.makedirs(os.path.join(BUILD, "bin"), exist_ok=True)
        modfile = os.path.join(BUILD, "go.mod")
        src = open(os.path.join(VERIF, "harness", "go.mod")).read()
        src = re.sub(r"(replace github.com/tailscale/setec => )\S+", r"\g<1>" + REPO, src)
        if not os.path.exists(modfile) or open(modfile).read().split("\n\n")[0:1] != src.split("\n\n")[0:1] \
                or REPO not in open(modfile).read():
            open(modfile, "w").write(src)
        # go.sum: the repository's own plus what the harness recorded
        sums = set()
        for p in (os.path.join(REPO, "go.sum"), os.path.join(VERIF, "harness", "go.sum")):
            if os.path.exists(p):
                sums.update(l for l in open(p).read().splitlines() if l.strip())
        open(os.path.join(BUILD, "go.sum"), "w").write("\n".join(sorted(sums)) + "\n")
        outs = {}
        targets = [("facts", "./cmd/facts", []), ("trace", "./cmd/trace", ["-tags", "verif"])]
        if race:
            targets.append(("trace-race", "./cmd/trace", ["-tags", "verif", "-race"]))
        for name, pkg, extra in targets:
            out = os.path.join(BUILD, "bin", name)
            p = run([GO, "build", "-modfile=" + modfile] + extra + ["-o", out, pkg],
                    cwd=os.path.join(VERIF, "harness"), env=goenv(), timeout=1200)
            if p.returncode != 0:
                raise Infra("go build %s failed (repository or harness does not compile):\n%s" % (name, p.stderr[-4000:]))
            outs[name] = out
        # synctest-based families are a test binary (testing/synctest needs *testing.T)
        out = os.path.join(BUILD, "bin", "storetrace")
        p = run([GO, "test", "-c", "-modfile=" + modfile, "-tags", "verif", "-o", out, "./storetrace"],
                cwd=os.path.join(VERIF, "harness"), env=goenv(), timeout=1200)
        if p.returncode != 0:
            raise Infra("go test -c storetrace failed (repository or harness does not compile):\n%s" % p.stderr[-4000:])
        outs["storetrace"] = out
        if race:
            out = os.path.join(BUILD, "bin", "storetrace-race")
            p = run([GO, "test", "-c", "-race", "-modfile=" + modfile, "-tags", "verif", "-o", out, "./storetrace"],
                    cwd=os.path.join(VERIF, "harness"), env=goenv(), timeout=1800)
            if p.returncode != 0:
                raise Infra("go test -c -race storetrace failed:\n%s" % p.stderr[-4000:])
            outs["storetrace-race"] = out
        # the repository's own CLI (C18)
        out = os.path.join(BUILD, "bin", "setec-cli")
        p = run([GO, "build", "-o", out, "./cmd/setec"], cwd=REPO, env=goenv(), timeout=1200)
        if p.returncode != 0:
            raise Infra("go build ./cmd/setec failed (repository does not compile):\n%s" % p.stderr[-4000:])
        outs["setec-cli"] = out
        return outs


def regen_facts(bins):
    with Lock("lake"):
        p = run([bins["facts"], REPO, os.path.join(LEAN, "Setec", "Generated", "Facts.lean")], timeout=120)
        if p.returncode != 0:
            raise Infra("facts extractor failed: " + p.stderr)


def theorem_names(pid):
    """All theorems declared in Setec/Properties/<ID>.lean with their line numbers."""
    path = os.path.join(LEAN, "Setec", "Properties", pid + ".lean")
    names = []
    ns = []
    for i, line in enumerate(open(path), 1):
        m = re.match(r"\s*namespace\s+(\S+)", line)
        if m:
            ns.append(m.group(1))
        m = re.match(r"\s*end\s+(\S+)", line)
        if m and ns and ns[-1] == m.group(1):
            ns.pop()
        m = re.match(r"\s*(?:private\s+|protected\s+)?theorem\s+([A-Za-z_][\w'.]*)", line)
        if m:
            names.append((".".join(ns + [m.group(1)]), i))
    return names


def strip_comments(s):
    s = re.sub(r"/-.*?-/", "", s, flags=re.S)
    s = re.sub(r"--.*", "", s)
    return s


def forbidden_hits():
    hits = []
    for root, _, files in os.walk(os.path.join(LEAN, "Setec")):
        for f in files:
            if f.endswith(".lean"):
                p = os.path.join(root, f)
                body = strip_comments(open(p).read())
                for m in FORBIDDEN.finditer(body):
                    hits.append("%s: %s" % (os.path.relpath(p, LEAN), m.group(0).strip()))
    return hits


def proof_step(pid, tier):
    """Returns dict(obligations, discharged, failed=[names], axioms={name:[..]}, log)."""
    names = theorem_names(pid)
    res = dict(obligations=len(names), discharged=0, failed=[], axioms={}, log="", theorems=[n for n, _ in names])
    with Lock("lake"):
        p = run(["lake", "build", "Setec.Properties." + pid, "driver"], cwd=LEAN, timeout=3600)
        res["log"] = (p.stdout + p.stderr)[-6000:]
        failed_lines = []
        for m in re.finditer(r"error: (?:\./)?Setec/Properties/%s\.lean:(\d+):\d+: (.*)" % pid, p.stdout + p.stderr):
            failed_lines.append(int(m.group(1)))
        other_err = [m.group(0) for m in re.finditer(r"error: (?:\./)?Setec/(?!Properties/%s)\S+\.lean:\d+:\d+.*" % pid, p.stdout + p.stderr)]
        if p.returncode != 0 and not failed_lines:
            # a dependency failed: nothing of this property is shown
            res["failed"] = [n for n, _ in names]
            res["dep_error"] = other_err[:5] or [res["log"][-1500:]]
            return res
        failed = set()
        for ln in failed_lines:
            owner = None
            for n, start in names:
                if start <= ln:
                    owner = n
            failed.add(owner or "<%s.lean:%d>" % (pid, ln))
        res["failed"] = sorted(failed)
        if failed:
            # the module has no .olean; axioms cannot be printed.  Count what elaborated.
            res["discharged"] = len(names) - len([n for n, _ in names if n in failed])
            return res
        # axiom audit
        os.makedirs(os.path.join(LEAN, "Audit"), exist_ok=True)
        audit = os.path.join(LEAN, "Audit", pid + ".lean")
        with open(audit, "w") as f:
            f.write("import Setec.Properties.%s\n" % pid)
            for n, _ in names:
                f.write("#print axioms %s\n" % n)
        p = run(["lake", "env", "lean", audit], cwd=LEAN, timeout=1200)
        out = p.stdout + p.stderr
        for n, _ in names:
            m = re.search(r"'%s' depends on axioms: \[([^\]]*)\]" % re.escape(n), out, re.S)
            if m:
                ax = [a.strip() for a in m.group(1).replace("\n", " ").split(",") if a.strip()]
            elif re.search(r"'%s' does not depend on any axioms" % re.escape(n), out):
                ax = []
            else:
                res["failed"].append(n)
                continue
            res["axioms"][n] = ax
            if set(ax) <= ACCEPTED_AXIOMS:
                res["discharged"] += 1
            else:
                res["failed"].append(n + " (axioms: %s)" % ",".join(sorted(set(ax) - ACCEPTED_AXIOMS)))
        hits = forbidden_hits()
        if hits:
            res["failed"].append("forbidden tokens: " + "; ".join(hits[:5]))
            res["discharged"] = min(res["discharged"], res["obligations"] - 1)
        if tier == "thorough" and not res["failed"]:
            p = run(["lake", "env", "leanchecker", "Setec.Properties." + pid], cwd=LEAN, timeout=3600)
            res["leanchecker"] = "ok" if p.returncode == 0 else (p.stdout + p.stderr)[-800:]
            if p.returncode != 0:
                res["failed"].append("leanchecker rejected Setec.Properties." + pid)
    return res


# ---------------------------------------------------------------- traces

class Shard:
    def __init__(self, family, args, driver=None, binary="trace", label=None, race_props=()):
        self.family, self.args, self.driver, self.binary = family, args, driver or family, binary
        self.label = label or family
        self.race_props = list(race_props)


def crash_in_code_under_test(text):
    """If `text` is a Go crash report whose panicking goroutine was running a function of
    tailscale/setec (not of the harness) when it panicked, return a one-line description."""
    m = re.search(r"^(panic: .*|fatal error: .*)$", text, re.M)
    if not m:
        return None
    # frames after the panic line, up to the first blank line that follows a frame list
    tail = text[m.start():]
    frames = re.findall(r"^\s*(\S+)\(.*\)\n\s+(\S+):(\d+)", tail, re.M)
    # the first goroutine of the report only (the one that crashed)
    first = tail.split("\n\ngoroutine ", 2)
    if len(first) > 1:
        frames = re.findall(r"^\s*(\S+)\(.*\)\n\s+(\S+):(\d+)", "goroutine " + first[1], re.M)
    via_dep = None
    for fn, path, line in frames:
        if fn.startswith("golang.org/x/sync/singleflight"):
            # a library only the code under test uses: the flight's function is tailscale/setec's
            via_dep = via_dep or "%s in %s (%s:%s), a goroutine started by the code under test" % (m.group(1)[:200], fn, "/".join(path.split("/")[-3:]), line)
            continue
        if fn.startswith(("runtime.", "runtime/", "panic", "testing.", "sync.", "internal/")):
            continue
        if fn.startswith("github.com/tailscale/setec/") and "/verif/" not in path:
            return "%s in %s (%s:%s)" % (m.group(1)[:200], fn, "/".join(path.split("/")[-3:]), line)
        return None          # the first real frame is the harness's (or a library's): not a verdict
    return via_dep


def run_shard(bins, sh, tmp, idx, keep_trace=False):
    d = os.path.join(tmp, "s%d" % idx)
    os.makedirs(d, exist_ok=True)
    trace = os.path.join(d, "trace.txt")
    args = [bins["setec-cli"] if a == "@CLI" else a for a in sh.args]
    cmd = [bins[sh.binary], sh.family] + args + ["-dir", os.path.join(d, "scratch"), "-o", trace]
    t0 = time.time()
    env = dict(os.environ)
    env.setdefault("GOMEMLIMIT", "4GiB")
    racelog = os.path.join(d, "race")
    crash_line = None
    if sh.binary.endswith("-race"):
        # a detected data race is an observation, not a crash: log it and let the run finish
        env["GORACE"] = "halt_on_error=0 exitcode=0 log_path=" + racelog
    if sh.binary.startswith("storetrace"):
        env["VERIF_TRACE_ARGS"] = json.dumps(cmd[1:])
        p = run([cmd[0], "-test.run", "^TestTrace$", "-test.timeout", "50m"], env=env, timeout=3600)
    else:
        p = run(cmd, env=env, timeout=3600)
    if p.returncode != 0:
        # a test binary built with -race fails its test when the detector has reported a race:
        # that is an observation (reported below as no_data_race), not a harness failure
        import glob as _glob
        raced = any("DATA RACE" in open(rp, errors="replace").read() for rp in _glob.glob(racelog + ".*"))
        if not (raced and os.path.exists(trace) and os.path.getsize(trace) > 0):
            crash = crash_in_code_under_test((p.stderr or "") + "\n" + (p.stdout or ""))
            if crash:
                # the process was brought down by a panic raised inside tailscale/setec itself (in a
                # goroutine of its own, where the harness cannot recover it): an observation - no
                # statement admits a crash - attributed to the property whose scenario was running.
                # What was traced up to that point is still judged (minus a torn last line).
                crash_line = "PROPFAIL * no_crash family=%s the code under test crashed the process: %s (rerun: %s)" % (sh.family, crash, " ".join(cmd[:8]))
                if os.path.exists(trace):
                    data = open(trace, "rb").read()
                    if data and not data.endswith(b"\n"):
                        data = data[:data.rfind(b"\n") + 1]
                        open(trace, "wb").write(data)
                else:
                    open(trace, "w").close()
            else:
                raise Infra("harness %s failed (%d): %s" % (" ".join(cmd), p.returncode, (p.stderr or p.stdout)[-3000:]))
    with open(trace) as f:
        q = run([os.path.join(LEAN, ".lake", "build", "bin", "driver"), sh.driver], stdin=f, timeout=3600)
    if q.returncode != 0:
        msg = (q.stderr or q.stdout)[-3000:]
        m = re.search(r"line (\d+)", msg)
        if m:
            try:
                with open(trace) as f2:
                    for i, l in enumerate(f2, 1):
                        if i == int(m.group(1)):
                            msg += " | trace line: " + l.rstrip("\n")[:1500]
                            break
            except OSError:
                pass
        raise Infra("driver %s failed (%d): %s" % (sh.driver, q.returncode, msg))
    out = dict(cmd=cmd, propfail=[], diverge=[], cover={}, summary={}, samples=[], wall=time.time() - t0, stderr=p.stderr[-2000:])
    if crash_line:
        out["propfail"].append(crash_line)
    for line in q.stdout.splitlines():
        if line.startswith("PROPFAIL "):
            out["propfail"].append(line)
        elif line.startswith("DIVERGE "):
            out["diverge"].append(line)
        elif line.startswith("COVER "):
            parts = line.split(" ")
            out["cover"][" ".join(parts[1:-1])] = int(parts[-1])
        elif line.startswith("SUMMARY "):
            for kv in line.split()[1:]:
                k, _, v = kv.partition("=")
                out["summary"][k] = v
    with open(trace) as f:
        for i, line in enumerate(f):
            if i >= 400:
                break
            if line.startswith("step") or line.startswith("m\t") or not line.startswith(("#", "begin", "caller")):
                if len(out["samples"]) < 3:
                    out["samples"].append(line.rstrip("\n")[:600])
    out["trace_path"] = trace
    # data-race reports of a -race binary
    import glob
    reports = []
    for rp in glob.glob(racelog + ".*"):
        txt = open(rp, errors="replace").read()
        if "DATA RACE" in txt:
            reports.append(txt)
    for txt in reports[:3]:
        first = [l.strip() for l in txt.splitlines() if l.strip().startswith(("Write at", "Read at", "Previous", "#0", "#1"))][:6]
        for pid_ in sh.race_props:
            out["propfail"].append("PROPFAIL %s no_data_race family=%s %s" % (pid_, sh.family, " | ".join(first)[:900]))
    out["race_reports"] = len(reports)
    return out


def history_excerpt(trace_path, lineno, maxlines=400):
    """Lines of the history containing `lineno` (1-based), from its `begin` up to that line."""
    lines = open(trace_path).read().splitlines()
    lineno = min(lineno, len(lines))
    start = lineno - 1
    while start > 0 and not lines[start].startswith("begin"):
        start -= 1
    if not lines[start].startswith("begin"):
        start = lineno - 1          # family without histories: the case is the line itself
    ex = lines[start:lineno]
    if len(ex) > maxlines:
        ex = ex[:20] + ["..."] + ex[-(maxlines - 21):]
    return ex


# ---------------------------------------------------------------- known findings

def load_known():
    p = os.path.join(VERIF, "known_findings.jsonl")
    out = []
    if os.path.exists(p):
        for line in open(p):
            line = line.strip()
            if line and not line.startswith("#"):
                out.append(json.loads(line))
    return out


def match_known(pid, line, known):
    for k in known:
        if k.get("status") == "known" and k.get("property") == pid and re.search(k["match"], line):
            return k
    return None


# ---------------------------------------------------------------- main

def write_evidence(pid, tier, seed, cov, assumptions, wall, violations):
    os.makedirs(os.path.join(VERIF, "evidence"), exist_ok=True)
    ev = dict(property_id=pid, tier=tier, seed=seed, level="proof", coverage=cov,
              assumptions=assumptions, wall_s=round(wall, 2), violations=violations)
    tmp = os.path.join(VERIF, "evidence", pid + ".json.tmp")
    json.dump(ev, open(tmp, "w"), indent=1, sort_keys=True)
    os.replace(tmp, os.path.join(VERIF, "evidence", pid + ".json"))


def write_replay(pid, payload):
    os.makedirs(os.path.join(VERIF, "replays"), exist_ok=True)
    h = hashlib.sha256(json.dumps(payload, sort_keys=True).encode()).hexdigest()[:12]
    path = os.path.join(VERIF, "replays", "%s-%s.json" % (pid, h))
    json.dump(payload, open(path, "w"), indent=1)
    return path


def relevant(pid, line):
    return line.split(" ", 2)[1] in (pid, "*")


def main():
    from props import PROPS
    import argparse
    ap = argparse.ArgumentParser()
    ap.add_argument("pid")
    ap.add_argument("--tier", default=os.environ.get("VERIF_TIER", "quick"), choices=["quick", "thorough"])
    ap.add_argument("--replay")
    a = ap.parse_args()
    pid, tier = a.pid, a.tier
    seed = int(os.environ.get("VERIF_SEED", "1") or 1)
    if pid not in PROPS:
        print("unknown property", pid)
        sys.exit(2)
    spec = PROPS[pid]
    t0 = time.time()
    tmp = tempfile.mkdtemp(prefix="verif-%s-" % pid)
    try:
        try:
            rc = check(pid, spec, tier, seed, tmp, t0, a.replay)
        except Infra as e:
            print("INFRASTRUCTURE ERROR (not a verdict on the property):", e)
            rc = 2
        except Exception as e:  # anything else that went wrong in the orchestrator itself
            import traceback
            print("INFRASTRUCTURE ERROR (not a verdict on the property): %s: %s" % (type(e).__name__, e))
            traceback.print_exc()
            rc = 2
    finally:
        shutil.rmtree(tmp, ignore_errors=True)
    sys.exit(rc)


def check(pid, spec, tier, seed, tmp, t0, replay):
    bins = build_go(race=spec.get("race", False))
    regen_facts(bins)
    proof = proof_step(pid, tier)
    if "dep_error" in proof:
        # A dependency of the property file does not build.  If it is the generated facts
        # interacting with a model file this is still "no longer shown"; report below.
        pass
    known = load_known()

    def run_all(t, s, search=False):
        shards = spec["shards"](t, s, search)
        results = []
        with cf.ThreadPoolExecutor(max_workers=min(16, max(1, len(shards)))) as ex:
            futs = [ex.submit(run_shard, bins, sh, tmp + ("/search%d" % s if search else ""), i) for i, sh in enumerate(shards)]
            for f in futs:
                results.append(f.result())
        return shards, results

    if replay:
        rp = json.load(open(replay))
        shards = [Shard(rp["family"], rp["args"], rp.get("driver"), rp.get("binary", "trace"))]
        results = [run_shard(bins, shards[0], tmp, 0)]
    else:
        shards, results = run_all(tier, seed)

    def collect(results):
        pf, dv = [], []
        for r in results:
            for l in r["propfail"]:
                if relevant(pid, l):
                    pf.append((l, r))
            for l in r["diverge"]:
                if spec.get("diverge", lambda l: True)(l):
                    dv.append((l, r))
        return pf, dv

    propfail, diverge = collect(results)
    searched = False
    if not propfail and (proof["failed"] or diverge) and not replay:
        # the property is no longer shown to hold: search for a concrete failing input
        searched = True
        for k in range(2):
            _, more = run_all("thorough", seed * 31 + 1000 + k, search=True)
            results += more
            propfail, diverge2 = collect(more)
            diverge += diverge2
            if propfail:
                break

    # ---------------- evidence
    cover = {}
    steps = 0
    evals = 0
    for r in results:
        for k, v in r["cover"].items():
            cover[k] = cover.get(k, 0) + v
        steps += int(r["summary"].get("steps", 0))
        evals += int(r["summary"].get("clause_evals", 0))
    samples = []
    for r in results[:4]:
        samples += r["samples"][:2]
    samples += ["theorem " + n for n in proof["theorems"][:40]]
    violations_new = []
    known_lines = []
    seen_known = set()
    for l, r in propfail:
        k = match_known(pid, l, known)
        if k:
            if k["match"] not in seen_known:
                seen_known.add(k["match"])
                known_lines.append("KNOWN-FINDING: property=%s %s" % (pid, k["what"]))
        else:
            violations_new.append((l, r))
    cov = dict(
        obligations=max(1, proof["obligations"]), discharged=proof["discharged"],
        checker_cmd="cd lean && lake build Setec.Properties.%s && lake env lean Audit/%s.lean  (#print axioms; accepted: propext, Classical.choice, Quot.sound)%s" % (
            pid, pid, "; lake env leanchecker Setec.Properties." + pid if tier == "thorough" else ""),
        trusted_base=spec["trusted"],
        theorems=proof["theorems"], theorems_failed=proof["failed"], axioms=proof["axioms"],
        evaluations=steps, clause_evaluations=evals, distinct_nontrivial=len(cover),
        rule=spec["rule"], samples=samples[:60],
        traces_validated_against_impl=steps, cover=dict(sorted(cover.items())[:200]),
        correspondence_divergences=len(diverge), monitor_failures=len(propfail),
        failing_input_search_ran=searched,
        shards=[" ".join(os.path.basename(x) if i == 0 else x for i, x in enumerate(r["cmd"][:-4])) for r in results[:32]],
        exhaustive=bool(spec.get("exhaustive", False)),
    )
    if "leanchecker" in proof:
        cov["leanchecker"] = proof["leanchecker"]
    nviol = len(violations_new) + (1 if (not propfail and (proof["failed"] or diverge)) else 0)
    write_evidence(pid, tier, seed, cov, spec["assumptions"], time.time() - t0, nviol)

    # ---------------- verdict
    for kl in known_lines:
        print(kl)
    print("property %s tier=%s seed=%d: obligations %d/%d, trace steps %d, distinct cases %d, monitor failures %d, divergences %d (%.1fs)" % (
        pid, tier, seed, proof["discharged"], proof["obligations"], steps, len(cover), len(propfail), len(diverge), time.time() - t0))
    if violations_new:
        # cheapest minimisation: report the shortest failing case first
        violations_new.sort(key=lambda lr: len(lr[0]))
        l, r = violations_new[0]
        m = re.search(r"line=(\d+)", l)
        excerpt = history_excerpt(r["trace_path"], int(m.group(1))) if m else []
        hm = re.search(r"hist=(\d+)", l)
        args = list(r["cmd"][2:-4])
        if hm:
            args += ["-only", hm.group(1)]
        payload = dict(property=pid, kind="monitor-failure", failing=[x for x, _ in violations_new[:10]],
                       family=r["cmd"][1], args=args, driver=None,
                       trace_excerpt=excerpt, theorems_failed=proof["failed"],
                       how_to_replay="bin/check %s --replay <this file>" % pid)
        # driver family = harness family unless the shard said otherwise
        for sh in shards:
            if sh.family == r["cmd"][1]:
                payload["driver"] = sh.driver
                payload["binary"] = sh.binary
        path = write_replay(pid, payload)
        for x, _ in violations_new[:5]:
            print(x[:1500])
        print("VIOLATION property=%s replay=%s" % (pid, path))
        return 1
    if proof["failed"] or diverge:
        payload = dict(property=pid, kind="no-longer-shown",
                       theorems_failed=proof["failed"], dep_error=proof.get("dep_error"),
                       build_log=proof["log"][-3000:],
                       correspondence_divergences=[x for x, _ in diverge[:10]],
                       note="no monitor clause failed on the inputs explored; the theorem(s) or correspondence named here no longer check")
        if diverge:
            l, r = diverge[0]
            m = re.search(r"line=(\d+)", l)
            payload["trace_excerpt"] = history_excerpt(r["trace_path"], int(m.group(1))) if m else []
            payload["family"], payload["args"] = r["cmd"][1], list(r["cmd"][2:-4])
        path = write_replay(pid, payload)
        for n in proof["failed"][:10]:
            print("theorem no longer checks:", n)
        for x, _ in diverge[:5]:
            print(x[:1500])
        print("VIOLATION property=%s replay=%s no-failing-input-found" % (pid, path))
        return 1
    return 0
