import json, os
ROOT = os.path.dirname(os.path.dirname(os.path.abspath(__file__)))

BASELINE_OFF = ("cd /repo && export GOFLAGS=-mod=mod GOPROXY=off && go build ./... && "
                "go test -vet=off -count=1 -timeout 25m ./...")

COMMON_NOTE = ("Trusted: Lean 4.33.0 kernel with axioms propext/Classical.choice/Quot.sound only (no native_decide, no bv_decide, "
               "no sorry, no own axioms; audited on every run with #print axioms); the go/ast fact extractor; the correspondence "
               "harness and its generators. ")

CLAIMED = {
    "C07": dict(
        text=("Theorems: the matcher the code runs (split on '*', QuoteMeta, join with '.*', anchored, flag s as extracted from the "
              "source) accepts exactly the inductively defined glob language, for all patterns and names; star-free patterns match only "
              "themselves; Rules.Allow is the single-rule OR/AND formula, empty set allows nothing, monotone. Tie: flag extracted from "
              "acl.go on every run (T1) and exhaustive+random differential comparison of acl.Secret.Match / Rules.Allow with the model (T2)."),
        note=COMMON_NOTE + "Modelled, not verified: Go's regexp engine for the fragment ^lit(.*lit)*$ and regexp.QuoteMeta.",
        technique="Lean 4 theorem (induction on pattern and name) + regenerated fact + differential correspondence",
        design="8/C07"),
}

NOT_YET = {}

def manifest():
    props = [json.loads(l) for l in open(os.path.join(ROOT, "properties.jsonl"))]
    checks = []
    na = []
    for p in props:
        pid = p["id"]
        if pid in CLAIMED:
            c = CLAIMED[pid]
            checks.append(dict(
                property_id=pid,
                quick_cmd="bin/check %s --tier quick" % pid,
                thorough_cmd="bin/check %s --tier thorough" % pid,
                evidence_file="/verif/evidence/%s.json" % pid,
                replay_cmd_template="bin/check %s --replay {path}" % pid,
                engine="lean4-proof+correspondence",
                level_claimed=dict(category="proof", text=c["text"], design_ref="DESIGN.md section " + c["design"]),
                level_note=c["note"],
                technique=c["technique"]))
        else:
            na.append(dict(property_id=pid, reason=NOT_YET.get(pid, "check not built yet in this round of work; will be claimed once its theorems and correspondence harness exist (see DESIGN.md section 8a)")))
    return dict(
        version=1,
        setup_cmd="bin/setup",
        hooks=dict(guard="verif", enable="go build -tags verif (harness/cmd/trace is built with -tags verif against /repo's working tree)",
                   baseline_off_cmd=BASELINE_OFF, source_commits=[], add_only=True),
        engines=[
            dict(name="lean4-proof+correspondence", path="lean/ harness/ bin/check lib/",
                 serves_properties=sorted(CLAIMED), kind_free_text="Lean 4 model + theorems (lake project, core only), go/ast fact extractor regenerating Generated/Facts.lean, Go differential harness + compiled Lean driver evaluating the same monitor predicates the theorems are about"),
        ],
        checks=checks,
        notes="See DESIGN.md. known_findings.jsonl lists repaired defects (status fixed) and recorded findings (status known).",
        not_applicable=na)
