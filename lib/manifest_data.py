import json, os
ROOT = os.path.dirname(os.path.dirname(os.path.abspath(__file__)))

BASELINE_OFF = ("cd /repo && export GOFLAGS=-mod=mod GOPROXY=off && go build ./... && "
                "go test -vet=off -count=1 -timeout 25m ./...")

COMMON_NOTE = ("Trusted: Lean 4.33.0 kernel with axioms propext/Classical.choice/Quot.sound only (no native_decide, no bv_decide, "
               "no sorry, no own axioms; audited on every run with #print axioms); the go/ast fact extractor; the correspondence "
               "harness and its generators. ")

CLAIMED = {
    "C07": dict(
        text=("Theorems: the matcher the code runs (split on '*', QuoteMeta, join with '.*', anchored, flag s as extracted from the "
              "source) accepts exactly the inductively defined glob language, for all patterns and names; star-free patterns match only "
              "themselves; Rules.Allow is the single-rule OR/AND formula, empty set allows nothing, monotone. Tie: flag extracted from "
              "acl.go on every run (T1) and exhaustive+random differential comparison of acl.Secret.Match / Rules.Allow with the model (T2)."),
        note=COMMON_NOTE + "Modelled, not verified: Go's regexp engine for the fragment ^lit(.*lit)*$ and regexp.QuoteMeta.",
        technique="Lean 4 theorem (induction on pattern and name) + regenerated fact + differential correspondence",
        design="8/C07"),
}

DBNOTE = COMMON_NOTE + ("Modelled, not verified: encoding/json, tink AEAD and keyset wire format (the harness decrypts the database file itself "
                        "with the documented layout to observe the stored state), sync.Mutex (calls are sequential here; concurrency is C14). "
                        "Version numbers are Nat in the model (uint32 in the code; wrap-around needs 2^32 puts to one secret).")
CLAIMED.update({
    "C01": dict(
        text=("Theorems about DB.step (one exported db.DB call): without a matching grant a well-formed call returns access-denied, leaves the "
              "state unchanged and emits one record authorized=false, independent of the state (existing/absent/reserved names); a state change "
              "or any disclosure implies the grant; list returns exactly the info-granted names with version numbers only. The grant is "
              "Acl.allow, whose meaning is C07's theorem; the per-method action constants are extracted from db.go on every run (actions_table). "
              "Tie: random histories with random rule sets and callers against the real db.DB, state observed through the API and by decrypting the file."),
        note=DBNOTE, technique="Lean 4 theorems over the DB step function (case analysis via a proved normal form) + extracted action table + differential histories",
        design="8/C01"),
    "C02": dict(
        text=("The sequential specification is the Lean KV model behind DB.step. Theorems: invariant (active exists, numbers in 1..latest) for every "
              "reachable state by induction over histories; first put = version 1 active; later put = latest+1, fresh, active untouched; dedupe only "
              "against an existing newest version; put_retrievable; failed calls change nothing; framing; active version not deletable; numbering "
              "restarts only after delete. The pre-repair guard is kept as a proved counter-example (d2_original_guard_violates). Tie: every result and the "
              "full state (incl. LatestVersion, read from the decrypted file) compared with the model after every step of generated histories."),
        note=DBNOTE, technique="Lean 4 theorems (invariant by induction over operation histories, Std.ExtTreeMap extensionality) + differential histories",
        design="8/C02"),
    "C06": dict(
        text=("Theorems: every call emits at most one record naming caller, action, secret, version; a value is returned or the state changes only if a "
              "record authorized=true for exactly this call was accepted (the effect depends on the audit oracle, so it cannot precede the record); "
              "every denial leaves one record authorized=false; if the record cannot be written the call fails with no value and no change; an unchanged "
              "conditional get is silent; list writes one record. The record as bytes: a Lean model of encoding/json's string escaping and audit.Entry's layout with theorems that, for all strings, "
              "the written line reads back as exactly the record written (no field can be forged, hidden or altered by hostile names), distinct records have distinct lines, and the only newline is the terminator. "
              "Tie: a recording/failing audit sink (Write or Sync failure at a chosen record) that also "
              "checks the database file still has its pre-call contents when the record arrives; the auditfmt family compares the model's rendering byte for byte with what the real audit.Writer wrote for hostile strings. Concurrent appends rest on O_APPEND atomicity (assumption, sampled under C14)."),
        note=DBNOTE + " Observation: a failed Write poisons encoding/json's Encoder, so the audit writer stays fail-closed until restart; histories end at an injected Write failure.",
        technique="Lean 4 theorems over the proved normal form of a DB step + fault-injecting audit sink", design="8/C06"),
    "C09": dict(
        text=("Theorems (under the reachable-state invariant): for a granted caller and existing secret, conditional get with V is not-modified iff active = V; otherwise "
              "the active version with its bytes is returned; V = 0 always returns the active value; absent -> not-found, no grant -> denied; the file client's table lookup "
              "satisfies the same iff. Tie: histories of put/activate/delete interleaved with conditional gets carrying current/older/newer/deleted/0 versions at the DB API "
              "(HTTP and client legs are added with C08); plus concurrent histories under the race detector with the schedule-independent monitor that a conditional get naming V never receives version V."),
        note=DBNOTE, technique="Lean 4 theorems over the DB step normal form + differential histories", design="8/C09"),
})

CLAIMED.update({
    "C03": dict(
        text=("Theorems: after any finite history from a fresh database - any callers, any audit/save fault script - the file content equals the served state "
              "(file_holds_served_state, by induction, using the exact-rollback lemmas); the persist codec (decimal version keys, bytes, active and latest numbers) "
              "round-trips every state; opening the sealed file with the same key yields exactly what was saved; hence reopen_exact and reopen_continues (same next "
              "version). Layout facts (schema version, the version open accepts, AEAD context strings, struct field lists) are extracted from kv.go on every run. Tie: "
              "after every step of generated histories the file is copied, reopened with db.Open, compared and probed for the next version; Open must leave the bytes "
              "unchanged; the harness decrypts the file with the documented v1 layout independently of package db; three golden schema-v1 files with their keys must open "
              "to their recorded contents. Text layer: the clear document as text (names and version keys as JSON strings, values as base64, counters) is modelled as renderer + reader "
              "(Model/DBText) with readTree (renderTree t) = some t for every tree and decodeText (renderTree (encode m)) = some m; the renderer is compared byte for byte with the decrypted file "
              "after every step of the persist profile. Save failures followed by a retry of the same call are part of that profile (monitor acknowledged_survives)."),
        note=DBNOTE + " encoding/json's decoding of arbitrary input is trusted (the model's reader accepts exactly the layout the code writes); base64 and string escaping are modelled.",
        technique="Lean 4 theorems (induction over histories; codec round-trip; symbolic AEAD) + extracted layout facts + reopen-after-every-step and golden-file correspondence",
        design="8/C03"),
    "C04": dict(
        text=("Theorems: (A) for each mutating operation the code's own rollback statements restore exactly the pre-call state when the save fails, at the API in every "
              "reachable state; later calls are unaffected; the write generation advances only on a successful save. (B) over a model of atomicfile.WriteFile's calls "
              "(CreateTemp 0600, writes in any split, chmod, fsync, close, rename; cleanup on error): after any prefix the live file is the complete old one and becomes "
              "the complete new one exactly when the rename has run; no other call touches it; the temporary file is complete, has its final mode and is fsynced before "
              "the rename; an error at any call leaves the old file and no temporary. Tie: real operations in a child process under strace: the call window is compared "
              "with the model, every call is failed (EIO/ENOSPC) and the process is killed before every call and after the last; the file is then reopened with db.Open."),
        note=DBNOTE + " Kernel semantics of rename/kill trusted; power-loss durability not exhibited.",
        technique="Lean 4 theorems (exact rollback via map extensionality; prefix induction over the file-system call list) + strace fault/kill enumeration as correspondence",
        design="8/C04"),
    "C05": dict(
        text=("Theorems under an ideal-AEAD hypothesis (symbolic ciphertext = key, associated data, plaintext): the file opens with its key and with no other; a wrong schema "
              "version is rejected; splicing the wrapped data key of one database with the contents of an independently created one never opens; mixing snapshots of the same "
              "database yields exactly that snapshot (the excluded case); any file assembled from original pieces and ciphertexts under foreign keys opens to an error or to "
              "exactly the original; the wrapper shows only the schema version. Facts from the source: only newKV/openOrCreateKV use the key-encryption key; modes 0600 for "
              "database, audit log and cache; the audit entry has no value field. Tie with real ciphers: marker scan (raw/hex/base64/JSON-escaped) of every file after "
              "every step, modes, key-use counter, every bit flip / truncation / foreign key / 12 splices of a saved file, compared with the model's prediction."),
        note=COMMON_NOTE + "Cryptographic strength of AES-GCM / XChaCha20-Poly1305 (tink) is assumed, not shown: partial in that sense.",
        technique="Lean 4 theorems over a symbolic (Dolev-Yao) AEAD + extracted facts + byte-level tamper/scan enumeration on real files",
        design="8/C05"),
})

CLAIMED.update({
    "C08": dict(
        text=("Theorems about Http.serve (serveJSON + getIdentity + dispatch + status mapping): a request failing any gate (method, content type, no-browsers header, "
              "unidentifiable caller, undecodable body) gets a non-2xx status, leaves state and audit log untouched and carries one of eight constant bodies; an accepted "
              "request is exactly one DB.step with the identified caller; 200/304/403/404/other mapping; delete of an absent secret is 200; every non-200 body is a constant; "
              "the identity is exactly the grants under the secrets capability (https form only when the first is empty) and the recorded principal is that identity; the client "
              "maps 404/403/304 to its sentinels; V=0 is ignored by dispatch and short-circuited by the client. Tie: the real handlers driven in-process with generated "
              "requests and WhoIs answers, half of the well-formed ones through the real setec.Client; status, body, state and audit records compared with the model."),
        note=COMMON_NOTE + "Modelled, not verified: net/http, encoding/json text layer, tailcfg.UnmarshalCapJSON.",
        technique="Lean 4 theorems over the decision logic of the front door + differential requests through the real mux and client",
        design="8/C08"),
})

CLAIMED.update({
    "C18": dict(
        text=("Theorems: values are opaque byte lists in every model, so get-version after put returns exactly the bytes put (put_getVersion), the first put is what get returns, and a "
              "restart serves the same bytes (codec + sealed-file round-trip over a synced state); the CLI text policy is a total decision function: binary input verbatim, clean text "
              "verbatim, spaced text verbatim under --verbatim (which wins), trimmed under --trim-space, refused with neither, empty refused unless --empty-ok; whatever is sent is "
              "the input or its trimmed form. Tie: the real setec binary (all flag combinations, file and pipe) against a local server whose database is inspected and whose "
              "/api/put counter detects contact; byte strings of every class and size through every retrieval path incl. cache, file client and server restart, every other one stored after a near-duplicate of itself. "
              "Text layers: base64 (decode (encode b) = some b), the cache document, the database's clear document and the API's wire bodies (every 200 answer; the client's put request) are modelled with round-trip theorems for all byte strings and tied byte for byte."),
        note=COMMON_NOTE + "encoding/json decoding of arbitrary input, utf8.Valid and bytes.TrimSpace are trusted (exercised, not modelled).",
        technique="Lean 4 theorems (decision logic of the put policy; byte preservation through model layers) + differential runs of the real binary and all retrieval paths",
        design="8/C18"),
})

STORENOTE = COMMON_NOTE + ("Modelled, not verified: testing/synctest virtual time, the scripted StoreClient (assumed to return when its context ends), encoding/json for the cache "
                            "document, singleflight, sync.Mutex (critical sections are atomic steps). The store's state is observed through a read-only hook compiled only with -tags verif.")
CLAIMED.update({
    "C10": dict(
        text=("Theorems about initLoop (initializeActive over a virtual ms clock, oracles = map iteration order and every service answer): success implies no name of the active "
              "set is missing, and every declared name is in it; only missing names are ever requested (no re-fetch, none for cached names); with a complete cache: success, "
              "zero requests, zero time; the wait between rounds is a power of two between 1 and 4096 ms for every round; with a deadline the loop returns by the deadline for "
              "any number of rounds; a file-backed client makes exactly one round; misconfiguration is refused. Base/cap constants and the FileClient case are extracted from "
              "store.go. Tie: NewStore under synctest with scripted failure/hang scripts, deadlines, caches and both client kinds; request timestamps, result, elapsed virtual "
              "time and resulting state compared with the model."),
        note=STORENOTE, technique="Lean 4 theorems (induction over rounds/fuel; power-of-two invariant for the back-off) + extracted constants + virtual-time differential runs",
        design="8/C10"),
    "C11": dict(
        text=("Theorems about poll (snapshot, one conditional fetch per unexpired name in any order with the service free to change between requests, apply-all-or-nothing): on "
              "success every requested name has the answered version (and exactly the answered bytes when the version number changed), 'not changed' keeps the confirmed value; on "
              "any request failure nothing changes; every value held afterwards was held before or is an answer of this poll for that very name; with the repaired snapshot rule "
              "(extracted from the source) a pinned name is always polled, and the original rule is proved to never refresh a stale pinned secret (D5); jitter stays within "
              "interval/10 in Go's truncating arithmetic for every interval and draw. Coalescing relies on singleflight (trusted, sampled). Tie: polls with per-request failures "
              "and mid-poll service changes / handles / reads, explicit and background, against the scripted service."),
        note=STORENOTE, technique="Lean 4 theorems (fold over distinct-name updates; omega for the jitter bound) + extracted snapshot-rule fact + virtual-time differential runs",
        design="8/C11"),
    "C13": dict(
        text=("Theorems: a flush is one document of the whole active set; loading that document gives exactly the same names, versions, bytes and access stamps (undeclared), so a "
              "restart with a dead service serves the same bytes; lookup and any non-empty apply flush; a malformed/absent cache loads as empty and every declared name is then "
              "stubbed for fetching; the file-backed client's table accepts every non-empty positive-version entry unchanged; FileCache.Write is the atomic write protocol of C04 with "
              "mode 0600 (fact + Fs theorems). Tie: recording cache (every written document decoded and compared), restarts from the store's own cache with live/dead service, 16 "
              "malformed cache shapes + failing Read/Write, FileClient on the same documents, and FileCache.Write in a child under strace with every call failed / killed. Text layer: the cache document as bytes "
              "(Model/CacheDoc: names as JSON strings, base64 values, quoted access time) with readDoc (renderDoc d) = some d for every document, compared byte for byte with every document the store hands to Cache.Write."),
        note=STORENOTE + " Kernel rename atomicity trusted (as C04).",
        technique="Lean 4 theorems (extensional map lemmas for the codec round-trip; Fs prefix induction) + malformed-cache stream and strace fault enumeration as correspondence",
        design="8/C13"),
    "C19": dict(
        text=("Theorems: the expiry predicate is exactly (undeclared, age configured, last access longer ago than the age, stamp 0 = never); a name leaves the active set only through "
              "a poll's apply step, only if the snapshot marked it expired by that predicate and no handle exists at the apply (fold lemma over all update lists); declared / "
              "recently read / age<=0 entries are never marked; a pinned name survives every apply; a read stamps the access time and the next document carries it; a store loaded "
              "from its document keeps the stamps (C13 round-trip), so the rule continues across restarts. Tie: histories with clock advances past the age, ages {0,-5,10,3600}, "
              "stamps {0, far past, now, future}, handles taken mid-poll."),
        note=STORENOTE, technique="Lean 4 theorems (fold invariant over apply steps) + virtual-clock differential runs", design="8/C19"),
})

CLAIMED.update({
    "C16": dict(
        text=("Theorems. Gate (Store.lookup): with lookups off an unknown name is refused with no request and known names are served; with lookups on a fetched name is installed "
              "undeclared, stamped, cached and pinned by its handle; a failed fetch installs nothing. Concurrency (discrete-event model Lookup.run over a virtual clock, any number of "
              "callers, any service behaviour, oracle-free): invariant for every reachable state - a caller that has returned did so no later than the end of its own context and "
              "reports a context error only if its own context had ended; corollary bounded_no_deadline: a caller without a deadline returns within 300 000 ms of its start; a request "
              "is sent only when no flight is running; all waiters of a flight get its result. The pre-repair semantics (limit per flight, blocking Do) is kept as a mode and proved by "
              "evaluation to retry forever (d6_original_never_returns). Facts: the limit is 5 min and sits outside the single-flight function. Tie: LookupSecret from 1-5 goroutines "
              "under synctest with scripted latencies/hangs/cancellations, return times and request log compared with the model where flight ownership is determined; monitors on all cases."),
        note=STORENOTE, technique="Lean 4 theorems (invariant over a discrete-event simulation, min-of-events lemma) + kernel evaluation of the original mode + virtual-time concurrent runs",
        design="8/C16"),
})

CLAIMED.update({
    "C17": dict(
        text=("Theorems about Backup.loop over a virtual clock (oracles: write generation over time, outcome and duration of every upload, cancellation instant): the repaired loop never "
              "iterates without consuming time (quiescent); consecutive upload attempts are at least one period apart for every timeline, failure script and cancellation; the first "
              "iteration uploads; an iteration whose generation equals the one covered by the last successful upload only waits; a failed upload leaves the covered generation unchanged and "
              "is retried one period later; a successful one covers exactly the generation sampled before the file was read; with enough iterations the task returns after cancellation. "
              "The pre-repair loop (wait inside the if) is kept as a mode and proved by evaluation to spin (d3_original_spins). Facts: the select is a direct statement of the for body, the "
              "period is one minute, the body is one whole-file read. Tie: the real loop (verif-tag hook) with a real s3.Client over an in-memory endpoint under synctest; every uploaded body "
              "must be a file version that existed and open with db.Open; schedule, outcomes and exit time compared with the model; a frozen virtual clock is reported as spinning."),
        note=COMMON_NOTE + "Modelled, not verified: AWS SDK below HTTPClient.Do, synctest, rename atomicity of the database file (C04). Hook: server/verif_hooks.go (tag verif).",
        technique="Lean 4 theorems (induction on loop fuel; spacing invariant on the attempt list) + kernel evaluation of the original mode + virtual-time runs of the real loop",
        design="8/C17"),
})

CLAIMED.update({
    "C20": dict(
        text=("Theorems over a model of struct shapes (field name, setec tag, kind) and buffers with identities: tag parsing (name before the first comma, json iff a later part is json); the "
              "requested names are exactly prefix/name per tagged field in field order; untagged fields are never parsed; a parsed field came from a tagged field with a non-empty name; "
              "non-pointer/non-struct arguments, empty names, unsupported kinds without the json verb and structs without tags are rejected before any request; after Apply a bytes / string / "
              "Secret field holds its kind's image of the secret's bytes; the bytes field's buffer identity is fresh, never the store's (bytes_private), while the pre-repair assignment is "
              "proved to alias it (d4_original_aliases); Apply visits every field and reports exactly the failed ones. Fact: the bytes case clones. Tie: run-time struct types "
              "(reflect.StructOf) through NewStore{Structs} and ParseFields+Apply; every []byte field is overwritten afterwards and the store re-read."),
        note=COMMON_NOTE + "Modelled, not verified: package reflect, path.Join on clean names, encoding/json's verdict on json-tagged fields (oracle).",
        technique="Lean 4 theorems (decision logic of tag/type validation; buffer-identity model for the copy discipline) + extracted fact + reflect-generated shapes as correspondence",
        design="8/C20"),
})

CLAIMED.update({
    "C15": dict(
        text=("Theorems over a small-step model (install+notify; NewUpdater's read and build; Get's drain, read, build-and-swap) for every finite sequence of enabled events, i.e. every "
              "interleaving of installs with those sub-steps: invariant - at rest a notification is pending or the last rebuild read the newest install (no_lost_update), a rebuild in "
              "progress has read the newest install or a notification is pending again; a Get after the last install returns a value built from the newest bytes, clears Err, closes exactly "
              "the replaced value; without a pending notification Get changes nothing and a notification is pending only after an install; a failed build keeps value and identity and sets "
              "Err; closed identities are pairwise distinct and never include the current value. Tie: 1-4 updaters with counting closers, scripted builder failures, updaters created between a "
              "poll's fetch and apply, compared per Get with the model; under the race detector, a builder held inside one Get while two installs and two more Gets arrive (next Get sees the newest, no lost update, current never closed, "
              "replaced closed once); fact theorem: Updater.Get is lock / deferred unlock / build with no unlock in between."),
        note=STORENOTE, technique="Lean 4 theorem (inductive invariant over all event sequences of a small-step model) + differential histories", design="8/C15"),
})

CLAIMED.update({
    "C12": dict(
        text=("Partial. Theorems over every sequence of the store's atomic steps (take a handle, read through a handle, apply a poll with any expiry marks and answers, install a looked-up "
              "secret, close): every name with a handle stays in the active set with a value and keeps its handle (a read cannot fault, expiry never removes it, Close changes nothing "
              "that a read depends on); a read returns exactly the bytes currently installed for its name; the read after an apply sees the applied bytes; every value held after a poll "
              "was held before or is the service's answer for that very name (C11.served_inv). Requests to the service are oracle inputs, never part of a step, so no step waits for "
              "the network; that the code agrees is a fact theorem over the extracted lock tokens of every function of the client store (no request or single-flight call while active is held; the handle is one critical section). Not proved, observed under the race detector: that the code's critical sections are these steps, that reads keep completing while requests are held "
              "blocked, per-reader monotonicity on real schedules, and the absence of data races."),
        note=STORENOTE + " Data-race freedom and non-blocking are runtime facts sampled by the harness.",
        technique="Lean 4 theorems (handle invariant preserved by every atomic step, by induction over step sequences) + concurrent readers under the Go race detector",
        design="8/C12"),
    "C14": dict(
        text=("Partial. Theorem lin_by_lock over the model's interleavings (every call = a state-independent pre-step + one atomic locked step): for every schedule of any number of threads "
              "the final state equals the sequential specification run in the order of the locked steps, each call's result is that of its own locked step, and the order only appends - "
              "so it is consistent with real time; corollary: two puts of different values never receive the same version. Fact: every exported db.DB method locks (unlock deferred) "
              "before its first kv access and never unlocks early. Not proved, observed: real schedules - 3-5 goroutines at the DB API and through the HTTP handlers under the race "
              "detector, each recorded history decided by an exhaustive linearizability search against DB.step incl. the final file; the concurrent audit file must consist of whole records."),
        note=DBNOTE + " sync.Mutex / Go memory model trusted; data-race freedom is the race detector's verdict on sampled schedules.",
        technique="Lean 4 theorem (induction over schedules of locked steps) + extracted lock-shape fact + exhaustive linearizability search (in Lean) on recorded concurrent histories",
        design="8/C14"),
})


# what was added to the correspondence side while testing the checks with seeded changes (DESIGN.md section 13)
ADDED = {
    "C01": "Also: the audit-failure profile, reserved-prefix and path-like names, monitor changes_only_granted (whichever secrets a call changed, the caller holds the action on exactly those), and a concurrent leg in which a caller without a grant makes the same requests at the same time and must be refused every time. Sixth round: names of 256/8192 bytes and neighbours with grants on the exact long names; a call that returns neither value nor error, panics or never returns is an observation (result_is_specified). Seventh round: forwarding headers and loopback peers with a WhoIs that answers by the address asked. T1 also ties the property's central functions statement by statement (fact_*_as_transcribed / fact_*_shape theorems in the property file).",
    "C02": "Also: the save-failure profile, the caller's buffer overwritten as soon as Put returns, near-duplicate values, the bytes of any surviving version, whitespace-decorated names. Sixth round: clean restarts inside histories (the numbering goes on), generator aimed at the version counter, calls under a watchdog (call_returns). Seventh round: sparse observation of the served state; reads_total (proved of the specification: reads_total_on_model); all 22 database-family monitor clauses proved of the specification's own step (all_monitor_clauses_sound); the four mutators of db/kv.go tied statement by statement (fact_mutators_as_transcribed).",
    "C03": "Also: reopened copies with modes 0600/0644/0640/0400, a multi-megabyte database, order independence of the clear document (schema_order_independent), and a concurrent leg (at quiescence the file holds what the server serves). Sixth round: restarts inside histories, stray files under temporary names next to the database, crafted schema-v1 files with versions beyond 2^31 sealed by the harness's own writer. Seventh round: the database opened through a relative symbolic link from another working directory. T1 also ties the property's central functions statement by statement (fact_*_as_transcribed / fact_*_shape theorems in the property file).",
    "C04": "Also: EACCES/EPERM in the fault enumeration, files that already exist with mode 0644, a follow-up save by the restarted process after every kill, and concurrent histories during which the state directory vanishes for moments. Sixth round: after every failed save a twin server on a copy of the file gets every later call and must answer alike (fault_leaves_served_state). T1 also ties the property's central functions statement by statement (fact_*_as_transcribed / fact_*_shape theorems in the property file).",
    "C05": "Also: save failures inside the crypto histories (the key-encryption key must not be consulted), truncation to 0/1/2/len-1 bytes always, a reopen half way through every history, a save traced on a file that exists with mode 0644. Sixth round: one database over years of virtual time with the key service unreachable once open (kek_only_at_open). Seventh round: the backup family (what lies beside the database, with which modes, during an upload). T1 also ties the property's central functions statement by statement (fact_*_as_transcribed / fact_*_shape theorems in the property file).",
    "C06": "Also: short writes (the device accepts half a record) followed by a probe call - every complete line of the stream must be one whole record (theorem log_lines_are_whole_records over the latched encoder; fresh_encoder_glues for the unlatched one); whether the Sync of a call's record had completed when the call returned, sequentially and on the concurrent calls' clock; exactly the required records over HTTP. Sixth round: calls after the audit log was closed must be refused and change nothing (fail_closed); very long names in records. Seventh round: two writers on one log file; a log truncated in place between records. T1 also ties the property's central functions statement by statement (fact_*_as_transcribed / fact_*_shape theorems in the property file).",
    "C07": "Also: three more exhaustive alphabets ({a,b,*}, backslash with E and Q, percent with s and an open parenthesis), path-like names, panics as observations, and several hundred patterns evaluated from eight goroutines at once. Seventh round: rule sets decoded from JSON, three-pattern rules, names containing a whole pattern. T1 also ties the property's central functions statement by statement (fact_*_as_transcribed / fact_*_shape theorems in the property file).",
    "C08": "Also: WhoIs failures that are context errors, media types that merely start with application/json, status tables and the get dispatch regenerated from the source (status_tables, generated_get_dispatch), wire bodies (Model/Wire). Sixth round: the body classifier is the harness's own mirror of the request shapes; versions beyond 32 bits, negative, fractional, quoted; every request is answered (watchdog). Seventh round: forwarding headers; loopback peers. T1 also ties the property's central functions statement by statement (fact_*_as_transcribed / fact_*_shape theorems in the property file).",
    "C09": "Also: a gateway error on the client's first exchange, and concurrent histories (a conditional get naming V never receives V; a non-linearizable history that becomes linearizable without its conditional gets is blamed on them). Sixth round: a call or request that never returns is reported with the calls under way (four_outcomes). Seventh round: a compressing proxy on the client route; returned values wiped by the caller. T1 also ties the property's central functions statement by statement (fact_*_as_transcribed / fact_*_shape theorems in the property file).",
    "C10": "Also: service failures that wrap context.DeadlineExceeded while every context is alive, cancellation (not only deadlines) during construction, construction under a watchdog, empty values in caches, untidy prefixes for struct-tagged names. Sixth round: outages of 35-95 s at construction with a live context; a crash inside the code under test is an observation and the partial trace is judged (init_complete). Seventh round: cache_or_file_suffices for file-backed clients with a cache. T1 also ties the property's central functions statement by statement (fact_*_as_transcribed / fact_*_shape theorems in the property file).",
    "C11": "Also: same-bytes versions, a poll round abandoned by its starter and joined by a second caller, a poller watchdog, freshness of every handle after a completed refresh, cache_holds_same; the ticker period as written in the source, translated to Lean on every run (gen_pollPeriod, theorem cadence_generated over all intervals and all draws). Sixth round: a second store in the process while the first store's poll is held; the real ticker under virtual time (cadence) compared with the generated period expression. Seventh round: cadence with a slow service. Last session: StoreConfig.pollInterval and NewStore's guard on starting the poller translated to Lean on every run (gen_pollInterval, gen_startsPoller; theorem configured_interval_generated: for every positive configured interval the poller is started with that very interval and its period lies within a tenth of it); the cadence monitor's clause is a model definition (Cadence.cadenceOK) proved sound and complete for a ticker of constant period and sound for the generated period expression (cadence_monitor_sound); the family's model-correspondence clause (Cadence.modelOK) likewise (cadence_model_clause_sound). T1 also ties the property's central functions statement by statement (fact_*_as_transcribed / fact_*_shape theorems in the property file).",
    "C12": "Also: the late second flight, a held poll abandoned while the service moves on, retained slices that must never change, a failed updater lookup after which readers must still progress. T1 also ties the property's central functions statement by statement (fact_*_as_transcribed / fact_*_shape theorems in the property file).",
    "C13": "Also: transient cache write failures, a slow synchronised cache with a cache-behind check at every quiescent point, files that exist with mode 0644 or longer contents. Sixth round: after every kill of a cache write a shorter document is written and must be exactly the file's content. Seventh round: polling-disabled configuration (flush_after_init); a failing lookup concurrent with successful ones. T1 also ties the property's central functions statement by statement (fact_*_as_transcribed / fact_*_shape theorems in the property file).",
    "C14": "Also: histories with vanishing state directory (the search admits 'internal error, nothing changed' for calls whose save may have failed), list-heavy histories by an exact-name caller under lock contention, several callers putting the same new bytes at once, empty values. Sixth round: half of the histories restart the database between preparation and the concurrent calls; every_call_returns. Seventh round: the legacy capability name in half of the concurrent HTTP histories. T1 also ties the property's central functions statement by statement (fact_*_as_transcribed / fact_*_shape theorems in the property file).",
    "C15": "Also: a second model with two concurrent getters (concurrent_gets_no_lost_update, unlocked_gets_lose_update), installs performed from inside the initial build and from inside a rebuild, rollbacks to earlier versions, a failing cache, a builder held while installs and Gets arrive; a third model with any number of updaters registered at any moment (every_updater_no_lost_update, late_registration_loses_update) tied to the source by the extracted order watch/read/build and the under-lock scan of register/install/notify (fact_watch_order). Sixth round: three updaters created at the same moment on a name that has to be looked up. Seventh round: an updater whose T is an interface type (closers and non-closers alternate); Model.Watchers carries every updater ever created (stale_list_loses_updater). T1 also ties the property's central functions statement by statement (fact_*_as_transcribed / fact_*_shape theorems in the property file).",
    "C16": "Also: the defect D8 (a request failing with a context-flavoured error of its own was retried) found by its monitor no_auto_retry and kept as Mode.beforeD8 (d8_original_retries); cancellations carrying a cause; NewUpdater and Fields.Apply as routes to unknown names with lookups disabled. Sixth round: a second store looking up the same name at the same time; a patient caller among callers whose contexts have ended. Seventh round: a watchdog in the synctest/real-time families (a call that never returns is reported with what was under way). T1 also ties the property's central functions statement by statement (fact_*_as_transcribed / fact_*_shape theorems in the property file).",
    "C17": "Also: uploads that never answer, 90-second uploads alternating with quick ones, a racing write followed by a long quiet stretch, histories that start on a reopened database, an occupied key answering 412 to conditional writes. Sixth round: the file shrinks between uploads; the task starts off the minute boundary. Seventh round: failed uploads answered 500, 403 or 400 in turn; directory scan during uploads. T1 also ties the property's central functions statement by statement (fact_*_as_transcribed / fact_*_shape theorems in the property file).",
    "C18": "Also: delete-and-recreate under one name, a binary value of more than a mebibyte from file and pipe, checkPutText regenerated from the source (generated_checkPutText), acknowledged_bytes_kept under failing saves. Sixth round: CLI values longer than 512/1024/4096 bytes with a multi-byte character across the boundary or turning binary after it; the calls behind checkPutText's atoms as facts. Seventh round: --from-file on a named pipe. T1 also ties the property's central functions statement by statement (fact_*_as_transcribed / fact_*_shape theorems in the property file).",
    "C19": "Also: hasExpired regenerated from the source (generated_hasExpired), an updater whose builder rejects the initial value (the name stays pinned), caches behind the store under concurrency. Sixth round: access_time_persisted at Close; read/shutdown/restart/wait/poll sequences. Seventh round: access-time refresh through both handles of a late second flight; rule_holds_across_restart. T1 also ties the property's central functions statement by statement (fact_*_as_transcribed / fact_*_shape theorems in the property file).",
    "C20": "Also: encoding/json asked independently for every ,json field, secrets with trailing data, a second value of the same struct type, the same Fields applied again after a repaired secret, a secret literally named json. Sixth round: pre-filled fields; the same Fields applied to a second store with shorter values. Seventh round: the documented pattern NewStore(Secrets: f.Secrets()) + Apply with unsorted tags; a lookups-disabled store that knows some of the names. T1 also ties the property's central functions statement by statement (fact_*_as_transcribed / fact_*_shape theorems in the property file).",
}

NOT_YET = {}

def manifest():
    props = [json.loads(l) for l in open(os.path.join(ROOT, "properties.jsonl"))]
    checks = []
    na = []
    for p in props:
        pid = p["id"]
        if pid in CLAIMED:
            c = CLAIMED[pid]
            checks.append(dict(
                property_id=pid,
                quick_cmd="bin/check %s --tier quick" % pid,
                thorough_cmd="bin/check %s --tier thorough" % pid,
                evidence_file="/verif/evidence/%s.json" % pid,
                replay_cmd_template="bin/check %s --replay {path}" % pid,
                engine="lean4-proof+correspondence",
                level_claimed=dict(category="proof", text=c["text"] + (" " + ADDED[pid] if pid in ADDED else ""), design_ref="DESIGN.md section " + c["design"]),
                level_note=c["note"],
                technique=c["technique"]))
        else:
            na.append(dict(property_id=pid, reason=NOT_YET.get(pid, "check not built yet in this round of work; will be claimed once its theorems and correspondence harness exist (see DESIGN.md section 8a)")))
    return dict(
        version=1,
        setup_cmd="bin/setup",
        hooks=dict(guard="verif", enable="go build -tags verif (harness/cmd/trace is built with -tags verif against /repo's working tree)",
                   baseline_off_cmd=BASELINE_OFF, source_commits=["e3b9ff9"], add_only=True),
        engines=[
            dict(name="lean4-proof+correspondence", path="lean/ harness/ bin/check lib/",
                 serves_properties=sorted(CLAIMED), kind_free_text="Lean 4 model + theorems (lake project, core only), go/ast fact extractor regenerating Generated/Facts.lean, Go differential harness + compiled Lean driver evaluating the same monitor predicates the theorems are about"),
        ],
        checks=checks,
        notes="See DESIGN.md. known_findings.jsonl lists repaired defects (status fixed) and recorded findings (status known).",
        not_applicable=na)
