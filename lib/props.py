"""Per-property configuration of the orchestrator."""
from checklib import Shard

BASE_TRUST = [
    "Lean 4.33.0 kernel; axioms propext, Classical.choice, Quot.sound only (audited per theorem with #print axioms)",
    "harness/cmd/facts (go/ast extractor) and the expectations it encodes about where a constant lives",
    "the correspondence harness (harness/cmd/trace), its canonicalisation and the reach of its generators",
]


def seeds(seed, k):
    return [seed * 101 + i for i in range(k)]


def acl_shards(tier, seed, search=False):
    n = 20000 if tier == "quick" else 200000
    out = []
    for i, s in enumerate(seeds(seed, 4 if tier == "quick" else 13)):
        # seed rotates the regexp metacharacter in the exhaustive alphabet
        out.append(Shard("acl", ["-seed", str(s), "-n", str(n)] + (["-profile", "thorough"] if tier == "thorough" and i < 13 else [])))
    return out


def db_shards(profiles):
    def f(tier, seed, search=False):
        out = []
        for prof in profiles:
            k = 4 if tier == "quick" else 16
            n, steps = (60, 50) if tier == "quick" else (600, 80)
            if prof == "persist":
                n = n // 3
            for s in seeds(seed, k):
                out.append(Shard("db", ["-seed", str(s), "-n", str(n), "-steps", str(steps), "-profile", prof], label="db/" + prof))
        return out
    return f


DB_RULE = ("histories of db.DB calls generated from one PRNG state per history (names incl. empty, reserved prefix, "
           "newline, non-ASCII; values incl. empty/binary/previous; version arguments aimed at active, newest, deleted, "
           "latest+1, 0, 2^32-1); a case is the tuple (operation, result class, caller kind, oracle bits, state changed?); "
           "distinct_nontrivial counts distinct tuples hit")

PROPS = {
    "C07": dict(
        shards=acl_shards,
        diverge=lambda l: l.startswith("DIVERGE match"),
        trusted=BASE_TRUST + ["Go regexp for the fragment ^lit(.*lit)*$ with/without flag s, and regexp.QuoteMeta (modelled, exercised by the exhaustive comparison)"],
        assumptions=["patterns and names are valid UTF-8 (the domain reachable through JSON)"],
        rule=("exhaustive (pattern,name) pairs over the alphabet {a,*,\\n,/,one regexp metacharacter rotated by seed} up to "
              "pattern length 3 / name length 5 (quick) or 4 / 6 (thorough), random valid-UTF-8 pairs up to 60 runes, random rule sets; "
              "a case is (star/literal pattern, match result, newline in name, lengths)"),
        exhaustive=True,
    ),
}
for pid, profs in {"C01": ["acl"], "C02": ["seq"], "C06": ["audit", "acl"], "C09": ["acl", "seq"], "C03": ["persist"], "C04": ["fault"]}.items():
    PROPS[pid] = dict(
        shards=db_shards(profs),
        trusted=BASE_TRUST + ["tink AEAD/keyset and encoding/json (the harness decrypts the database file itself with the documented schema-v1 layout)"],
        assumptions=["sequential calls (concurrency is C14's)", "version numbers < 2^32 - 1"],
        rule=DB_RULE,
    )
