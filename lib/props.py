"""Per-property configuration of the orchestrator."""
from checklib import Shard

BASE_TRUST = [
    "Lean 4.33.0 kernel; axioms propext, Classical.choice, Quot.sound only (audited per theorem with #print axioms)",
    "harness/cmd/facts (go/ast extractor) and the expectations it encodes about where a constant lives",
    "the correspondence harness (harness/cmd/trace), its canonicalisation and the reach of its generators",
]


def seeds(seed, k):
    return [seed * 101 + i for i in range(k)]


def acl_shards(tier, seed, search=False):
    n = 20000 if tier == "quick" else 200000
    out = []
    for i, s in enumerate(seeds(seed, 4 if tier == "quick" else 13)):
        # seed rotates the regexp metacharacter in the exhaustive alphabet
        out.append(Shard("acl", ["-seed", str(s), "-n", str(n)] + (["-profile", "thorough"] if tier == "thorough" and i < 13 else [])))
    return out


def db_shards(profiles):
    def f(tier, seed, search=False):
        out = []
        for prof in profiles:
            k = 8 if tier == "quick" else 16
            n, steps = (150, 60) if tier == "quick" else (1500, 80)
            if prof == "persist":
                n = n // 3
            for s in seeds(seed, k):
                out.append(Shard("db", ["-seed", str(s), "-n", str(n), "-steps", str(steps), "-profile", prof], label="db/" + prof))
        return out
    return f


DB_RULE = ("histories of db.DB calls generated from one PRNG state per history (names incl. empty, reserved prefix, "
           "newline, non-ASCII; values incl. empty/binary/previous; version arguments aimed at active, newest, deleted, "
           "latest+1, 0, 2^32-1); a case is the tuple (operation, result class, caller kind, oracle bits, state changed?); "
           "distinct_nontrivial counts distinct tuples hit")

PROPS = {
    "C07": dict(
        shards=acl_shards,
        diverge=lambda l: l.startswith("DIVERGE match"),
        trusted=BASE_TRUST + ["Go regexp for the fragment ^lit(.*lit)*$ with/without flag s, and regexp.QuoteMeta (modelled, exercised by the exhaustive comparison)"],
        assumptions=["patterns and names are valid UTF-8 (the domain reachable through JSON)"],
        rule=("exhaustive (pattern,name) pairs over the alphabet {a,*,\\n,/,one regexp metacharacter rotated by seed} up to "
              "pattern length 3 / name length 5 (quick) or 4 / 6 (thorough), random valid-UTF-8 pairs up to 60 runes, random rule sets; "
              "a case is (star/literal pattern, match result, newline in name, lengths)"),
        exhaustive=True,
    ),
}
for pid, profs in {"C01": ["acl", "audit"], "C02": ["seq", "fault"], "C06": ["audit", "acl"], "C09": ["acl", "seq"], "C03": ["persist"], "C04": ["fault"]}.items():
    PROPS[pid] = dict(
        shards=db_shards(profs),
        trusted=BASE_TRUST + ["tink AEAD/keyset and encoding/json (the harness decrypts the database file itself with the documented schema-v1 layout)"],
        assumptions=["sequential calls (concurrency is C14's)", "version numbers < 2^32 - 1"],
        rule=DB_RULE,
    )


def c03_shards(tier, seed, search=False):
    out = db_shards(["persist"])(tier, seed, search)
    out.append(Shard("golden", ["-profile", FIXTURES], driver="golden"))
    return out


def c05_shards(tier, seed, search=False):
    k, n, steps = (8, 4, 30) if tier == "quick" else (16, 10, 40)
    return [Shard("crypto", ["-seed", str(s), "-n", str(n), "-steps", str(steps)] + (["-profile", "thorough"] if tier == "thorough" else []))
            for s in seeds(seed, k)]


import os as _os
FIXTURES = _os.path.join(_os.path.dirname(_os.path.dirname(_os.path.abspath(__file__))), "fixtures")
PROPS["C03"]["shards"] = c03_shards
PROPS["C03"]["rule"] = DB_RULE + "; after every step the file is copied, reopened with db.Open, compared, probed for the next version; plus 3 golden schema-v1 files"
PROPS["C05"] = dict(
    shards=c05_shards,
    trusted=BASE_TRUST + ["ideal-AEAD hypothesis: AES256-GCM / XChaCha20-Poly1305 (tink) behave like the symbolic AEAD of Model/Crypto.lean; cryptographic strength is assumed"],
    assumptions=["the adversary cannot forge a ciphertext under a key it does not hold", "wholesale replacement by an earlier snapshot of the same database is not claimed"],
    rule=("histories with high-entropy marker names/values against a real db.DB + audit file with a real AES256-GCM key-encryption key; after every step every file "
          "under the state directory is scanned for every marker raw/hex/base64(std,url; 3 alignments)/JSON-escaped, modes are read and key-encryption-key uses counted; "
          "on the final file every bit of ~300 byte positions (thorough: every bit) is flipped, it is truncated at ~900 positions, opened with a foreign key, and all 12 "
          "splices of its fields with an independent database are opened; a case is (kind, outcome)"),
)


def fs_shards(ops):
    return [Shard("fs", ["-profile", op], driver="fs", label="fs/" + op) for op in ops]


def c04_shards(tier, seed, search=False):
    return db_shards(["fault"])(tier, seed, search) + fs_shards(["create", "putnew", "putver", "activate", "delver", "delete", "putverwide"])


PROPS["C04"]["shards"] = c04_shards
PROPS["C04"]["trusted"] = PROPS["C04"]["trusted"] + [
    "the kernel: rename(2) replaces the target atomically, completed system calls of a killed process persist; power-loss durability is not exhibited (only the fsync-before-rename ordering is proved and traced)",
    "strace (ptrace) fault and kill injection; tailscale.com/atomicfile is not translated: its system-call sequence is traced and compared with Model.Fs.atomicWrite on every run"]
PROPS["C04"]["rule"] = (DB_RULE + "; in-process save failures (state directory moved away) at random steps; plus, for each of create/new secret/new version/activate/"
                        "delete-version/delete: a child process performing the real operation under strace, its window of file-system calls compared with the model, then every "
                        "call of the window failed with EIO (and ENOSPC, EACCES, EPERM where plausible) and the process killed before each call and after the last; a case is (operation, call, errno|kill)")
PROPS["C04"]["exhaustive"] = True


def http_shards(tier, seed, search=False):
    k, n, steps = (8, 120, 60) if tier == "quick" else (16, 1000, 80)
    return [Shard("http", ["-seed", str(s), "-n", str(n), "-steps", str(steps)]) for s in seeds(seed, k)]


PROPS["C08"] = dict(
    shards=http_shards,
    trusted=BASE_TRUST + ["net/http (routing, header canonicalisation), encoding/json (bodies are classified by decoding them with the same request type), tailcfg.UnmarshalCapJSON"],
    assumptions=["WhoIs answers carry non-nil Node and UserProfile (the LocalClient never returns otherwise)"],
    rule=("requests against the real mux handlers of server.New driven in-process: methods {POST,GET,PUT,HEAD,DELETE,post} x content types {exact, charset, text/plain, none, other case} x "
          "no-browsers header {setec, other, none, upper case} x remote address {ok, unparsable} x WhoIs {user, tagged, anonymous, error, grants under either capability name, "
          "empty, malformed} x 7 endpoints x bodies {valid, null, truncated, wrong types, extra fields, trailing data, empty, not JSON}; half of the well-formed ones go through the "
          "real setec.Client; a case is (endpoint, status, accepted?, raw|client, state changed?)"),
)
for _p in ("C01", "C09"):
    _old = PROPS[_p]["shards"]
    PROPS[_p]["shards"] = (lambda old: (lambda tier, seed, search=False: old(tier, seed, search) + http_shards(tier, seed, search)))(_old)
    PROPS[_p]["rule"] = PROPS[_p]["rule"] + "; plus the HTTP family (same operations through the real handlers and the real setec.Client)"


def c18_shards(tier, seed, search=False):
    prof = ["-profile", "thorough"] if tier == "thorough" else []
    out = [Shard("cli", ["-seed", str(seed), "-n", "12" if tier == "quick" else "60", "-aux", "@CLI"] + prof, driver="cli")]
    for s in seeds(seed, 2 if tier == "quick" else 6):
        out.append(Shard("bytes", ["-seed", str(s), "-n", "30" if tier == "quick" else "200"] + prof, driver="bytes"))
    return out


PROPS["C18"] = dict(
    shards=c18_shards,
    diverge=lambda l: l.startswith(("DIVERGE base64", "DIVERGE wire_", "DIVERGE cache_bytes")),
    trusted=BASE_TRUST + ["encoding/base64 and encoding/json at every hop; utf8.Valid and bytes.TrimSpace (Go standard library) define 'valid UTF-8' and 'whitespace' for the CLI policy"],
    assumptions=["standard input is a pipe or a file (the interactive terminal prompt is not covered)"],
    rule=("(i) the built setec binary run against a local server: value classes {empty, clean text, leading/trailing ASCII and Unicode space, space only, invalid UTF-8 with space, NUL, "
          "multi-line, U+200B} plus random bytes x all 8 flag combinations x {file, pipe}; observed: exit status, whether /api/put was contacted, the bytes that reached the database; "
          "(ii) byte strings {empty, NUL, newlines, invalid UTF-8, all 256 bytes, JSON-hostile, sizes 1..70000 (thorough: 4 MiB), random} through client get, get-version, Store handle, "
          "store restarted from its cache with the service unreachable, file-backed client on the cache file, and both gets after a server restart"),
)


def store_shards(tier, seed, search=False):
    k, n, steps = (8, 400, 30) if tier == "quick" else (16, 4000, 40)
    return [Shard("store", ["-seed", str(s), "-n", str(n), "-steps", str(steps)], driver="store", binary="storetrace") for s in seeds(seed, k)]


STORE_RULE = ("store lifetimes under testing/synctest virtual time against a scripted service and a recording cache: construction with declared-name sets (duplicates, "
              "empty name, none), caches {none, empty, valid documents with arbitrary stamps, 16 malformed shapes, failing Read, failing Write}, both client kinds, per-name "
              "failure scripts (0..15 failures, endless failures, hang) and deadlines {none, 0, 5 ms .. 20 s}; then handles, reads, lookups (ok/fail/not found), explicit and "
              "background polls with per-request failures and mid-poll events (service change, handle taken, read), clock advances past the expiry age, service changes "
              "(new version, activation back, delete), close and restart from the cache with a live or dead service; state observed through a read-only verif-tag snapshot; "
              "a case is (operation, outcome, client kind, cache class, rounds / mid-event / drops / updates)")
STORE_TRUST = BASE_TRUST + ["testing/synctest virtual time (go1.26.8); the scripted StoreClient honours its context; encoding/json for the cache document (classified by decoding "
                            "with the documented shape); golang.org/x/sync/singleflight; the order of Go map iteration is an oracle taken from the request log"]
for _p in ("C10", "C11", "C13", "C19"):
    PROPS[_p] = dict(shards=store_shards, trusted=STORE_TRUST, rule=STORE_RULE,
                     assumptions=["sequential store histories (concurrent readers are C12's)", "whole-second wall clock for expiry", "the client returns when its context ends"])
PROPS["C13"]["shards"] = lambda tier, seed, search=False: store_shards(tier, seed, search) + fs_shards(["cache", "cachewide"])
PROPS["C11"]["diverge"] = lambda l: l.startswith("DIVERGE poll")
PROPS["C10"]["diverge"] = lambda l: l.startswith("DIVERGE new") or l.startswith("DIVERGE init")
PROPS["C19"]["diverge"] = lambda l: l.startswith("DIVERGE poll_state") or l.startswith("DIVERGE read") or l.startswith("DIVERGE poll_requests")
PROPS["C13"]["diverge"] = lambda l: "flush" in l or l.startswith("DIVERGE new") or l.startswith("DIVERGE fs") or l.startswith("DIVERGE fault") or l.startswith("DIVERGE crash")


def lookup_shards(tier, seed, search=False):
    k, n = (8, 800) if tier == "quick" else (16, 8000)
    return [Shard("lookup", ["-seed", str(s), "-n", str(n)], driver="lookup", binary="storetrace") for s in seeds(seed, k)]


PROPS["C16"] = dict(
    shards=lambda tier, seed, search=False: store_shards(tier, seed, search) + lookup_shards(tier, seed, search),
    trusted=STORE_TRUST,
    assumptions=["singleflight: one flight per key at a time, every waiter gets its result", "the client returns when its context ends",
                 "which waiter wins a single-flight race is the scheduler's choice: model and code are compared only where every flight's owner is determined; the monitors apply to all cases"],
    rule=(STORE_RULE + "; plus concurrent LookupSecret scenarios under virtual time: 1-5 callers of one unknown name with start times 0..6 min, contexts {background, deadline 1 s/1 min/6 min, "
          "cancelled after 0.5 s/2 s/30 s/7 min} and a service script per request {answer after 50 ms/2 s/10 min, fail after 20 ms/1 s, hang}; every context is cancelled by the harness at "
          "70 min so that non-termination shows as a late return; a case is (callers, requests, handle obtained?, deterministic?)"),
    diverge=lambda l: l.startswith("DIVERGE lookup") or l.startswith("DIVERGE handle"),
)


def backup_shards(tier, seed, search=False):
    k, n = (8, 120) if tier == "quick" else (16, 1200)
    return [Shard("backup", ["-seed", str(s), "-n", str(n)], driver="backup", binary="storetrace") for s in seeds(seed, k)]


PROPS["C17"] = dict(
    shards=backup_shards,
    trusted=BASE_TRUST + ["testing/synctest virtual time; the AWS SDK v2 below HTTPClient.Do (a real s3.Client talks to an in-memory endpoint); os.ReadFile of a file only ever replaced by rename (C04)",
                          "server/verif_hooks.go (build tag verif): runs the unexported loop for a given *db.DB, *s3.Client and bucket"],
    assumptions=["a busy loop freezes virtual time: a history that does not finish within 45 s of real time is reported as 'spins'"],
    rule=("the periodic backup task under virtual time: timelines of 0-12 database writes with bursts (7 ms apart) and idle stretches (up to 6.7 min), upload outcome scripts with failures, "
          "upload latency {0, 250 ms, 5 s}, optionally a write performed by the S3 endpoint while an upload is in flight, cancellation 0.5 s .. 10 min after the last write; observed: "
          "every upload (virtual time, body hash, db.Open of the body), every file version that existed, exit time; a case is (#writes, #uploads, #failures, race?, latency)"),
)


def fields_shards(tier, seed, search=False):
    k, n = (8, 4000) if tier == "quick" else (16, 40000)
    return [Shard("fields", ["-seed", str(s), "-n", str(n)], driver="fields") for s in seeds(seed, k)]


PROPS["C20"] = dict(
    shards=fields_shards,
    trusted=BASE_TRUST + ["package reflect, path.Join on clean slash-separated names, encoding/json's verdict on whether bytes decode into a json-tagged field (an oracle read from the joined error)"],
    assumptions=["prefixes and tag names are clean slash-separated paths (no empty, '.' or '..' segments)", "tagged fields are exported; the argument is non-nil"],
    rule=("struct types built at run time with reflect.StructOf from a menu {[]byte, string, setec.Secret, value and pointer BinaryUnmarshaler, JSON struct, int, map, chan} in random order and "
          "number, tags {name, name+json, name+other verb, empty name, none}, optionally an embedded struct with a tagged field, prefixes {none, dev, prod/app}, secret values {plain, "
          "rejected by the unmarshaler, JSON object, JSON number, absent}; through NewStore{Structs} and through ParseFields+Apply on a lookup-enabled store; non-pointer and non-struct "
          "arguments; after population every []byte field is overwritten and the store is read again; a case is (path, parse outcome, #fields, apply error?, store available?)"),
)


def updater_shards(tier, seed, search=False):
    k, n, steps = (8, 400, 40) if tier == "quick" else (16, 4000, 60)
    return [Shard("updater", ["-seed", str(s), "-n", str(n), "-steps", str(steps)], driver="updater", binary="storetrace") for s in seeds(seed, k)]


PROPS["C15"] = dict(
    shards=updater_shards,
    trusted=STORE_TRUST + ["the model's atomic steps are the code's critical sections: install+notify under the store lock; drain / read / build-and-swap under the updater's mutex"],
    assumptions=["interleavings of installs with the sub-steps of one Get are covered by the theorem; the harness drives sequential histories plus updaters created while a poll is in flight (concurrent Get callers are exercised under the race detector by C12's family)"],
    rule=("1-4 updaters on one secret with a counting-closer value type: 0..n installs between Gets (via the scripted service + Refresh), builder failing on scripted versions, updaters created "
          "at arbitrary points including between a poll's fetch and its apply; observed per Get: source bytes and identity of the returned value, Err, number of builder runs, Close counts; "
          "a case is (rebuild or keep, build outcome, installs since the previous Get)"),
)


def conc_shards(tier, seed, search=False):
    k, n = (8, 400) if tier == "quick" else (16, 4000)
    return [Shard("conc", ["-seed", str(s), "-n", str(n)], driver="conc", binary="trace-race", race_props=["C14", "C06"]) for s in seeds(seed, k)]


PROPS["C14"] = dict(
    race=True,
    shards=conc_shards,
    trusted=BASE_TRUST + ["sync.Mutex and the Go memory model (a locked region is one atomic step)", "the Go race detector for data-race freedom (sampled schedules)",
                          "the linearizability search in the Lean driver (exhaustive per history, memoised on (linearized set, state))"],
    assumptions=["real schedules are sampled; the theorem covers all interleavings of the model's atomic steps"],
    rule=("concurrent histories against one db.DB under the race detector: 3-5 goroutines x 3-6 calls (put incl. equal values, get, get-version, conditional get, activate, delete-version, "
          "delete, info, list) on 1-2 shared names after 0-2 seed puts, one third through the HTTP handlers and the real client; every call stamped at invocation and return with a global "
          "atomic counter; each history decided by exhaustive linearizability search against DB.step including the final file state; the audit file is re-read line by line; "
          "a case is (path, #threads, #calls, overlapping?)"),
)
PROPS["C06"]["race"] = True
_c06 = PROPS["C06"]["shards"]
PROPS["C06"]["shards"] = lambda tier, seed, search=False: _c06(tier, seed, search) + conc_shards(tier, seed, search)[:2]
def auditfmt_shards(tier, seed, search=False):
    k, n = (4, 5000) if tier == "quick" and not search else (8, 40000)
    return [Shard("auditfmt", ["-seed", str(s), "-n", str(n)], driver="auditfmt") for s in seeds(seed, k)]


_c06b = PROPS["C06"]["shards"]
PROPS["C06"]["shards"] = lambda tier, seed, search=False: _c06b(tier, seed, search) + auditfmt_shards(tier, seed, search)
PROPS["C06"]["trusted"] = PROPS["C06"]["trusted"] + ["Model/Json.lean as encoding/json's string escaping and struct layout for audit.Entry (tied byte for byte by the auditfmt family; strings that are not valid UTF-8 are outside the model)"]
PROPS["C06"]["rule"] = PROPS["C06"]["rule"] + "; plus the record-format family (entries with hostile strings - quotes, backslashes, control characters, newlines, <>&, U+2028/9, non-BMP, field-forging fragments, invalid UTF-8 - written by the real audit.Writer, rendered by the model's encoder and read back by the model's reader)" + "; plus the concurrent family (real audit file, every line must be one complete record, race detector on)"


def concstore_shards(tier, seed, search=False, props=("C12",)):
    k, n = (8, 6) if tier == "quick" else (16, 40)
    return [Shard("concstore", ["-seed", str(s), "-n", str(n)], driver="concstore", binary="storetrace-race", race_props=list(props)) for s in seeds(seed, k)]


PROPS["C12"] = dict(
    race=True,
    shards=lambda tier, seed, search=False: concstore_shards(tier, seed, search) + store_shards(tier, seed, search),
    trusted=STORE_TRUST + ["the Go race detector (sampled schedules)", "the model's atomic steps are the code's critical sections under active.Lock; requests to the service are never inside one"],
    assumptions=["partial: invariants are proved for all sequences of the model's atomic steps; non-blocking, data-race freedom and that the code's critical sections are those steps are observed, not proved"],
    rule=("3-5 reader goroutines calling handles of two declared, one looked-up and one concurrently looked-up name (and an Updater's Get) in a tight loop under the race detector while "
          "6-11 rounds run: service versions bump, the wall clock jumps past the expiry age, the service is held at a gate, a poll (explicit or background) and a lookup are started, and "
          "while their requests are blocked every reader must complete more reads; then Close, after which reads must continue. Every read value must be '<that name>#<index served>', "
          "indices per reader non-decreasing; plus the sequential store family; a case is (#readers, #blocked windows)"),
)
PROPS["C15"]["race"] = True
_c15 = PROPS["C15"]["shards"]
PROPS["C15"]["shards"] = lambda tier, seed, search=False: _c15(tier, seed, search) + concstore_shards(tier, seed, search, props=("C15",))[:2]

PROPS["C11"]["race"] = True
_c11 = PROPS["C11"]["shards"]
PROPS["C11"]["shards"] = lambda tier, seed, search=False: _c11(tier, seed, search) + concstore_shards(tier, seed, search, props=("C11",))[:3] + [
    Shard("cadence", ["-seed", str(s), "-n", "160" if tier == "quick" else "1600"], driver="store", binary="storetrace") for s in seeds(seed, 2)]
PROPS["C16"]["race"] = True
_c16 = PROPS["C16"]["shards"]
PROPS["C16"]["shards"] = lambda tier, seed, search=False: _c16(tier, seed, search) + concstore_shards(tier, seed, search, props=("C16",))[:5]
PROPS["C11"]["rule"] = STORE_RULE + "; plus the concurrent store family: two explicit refreshes and a background tick started together while the service is held - at most one conditional request may be waiting at any time (coalescing)"

_c10 = PROPS["C10"]["shards"]
PROPS["C10"]["shards"] = lambda tier, seed, search=False: _c10(tier, seed, search) + fields_shards(tier, seed, search)[:2]
PROPS["C10"]["rule"] = STORE_RULE + "; plus the struct-tag family (names declared both in Secrets and by struct tags, duplicates across the two routes)"

_c09 = PROPS["C09"]["shards"]
PROPS["C09"]["shards"] = lambda tier, seed, search=False: _c09(tier, seed, search) + [
    Shard(sh.family, sh.args, driver=sh.driver, binary=sh.binary, race_props=[]) for sh in conc_shards(tier, seed, search)[:3]]
PROPS["C09"]["race"] = True
PROPS["C09"]["rule"] = PROPS["C09"]["rule"] + "; plus the concurrent family (a conditional get naming V never receives version V, whatever the schedule)"

_c18 = PROPS["C18"]["shards"]
PROPS["C18"]["shards"] = lambda tier, seed, search=False: _c18(tier, seed, search) + store_shards(tier, seed, search)[:2]
PROPS["C18"]["rule"] = PROPS["C18"]["rule"] + "; (iii) the sequential store family: slices returned by handles are kept and must never change afterwards; every cache document is read back by the model's reader"

_c18b = PROPS["C18"]["shards"]
PROPS["C18"]["shards"] = lambda tier, seed, search=False: _c18b(tier, seed, search) + http_shards(tier, seed, search)[:2]
PROPS["C18"]["rule"] = PROPS["C18"]["rule"] + "; (iv) the http family: every 200 body and the real client's put request body are read back by the model's wire readers"

_c18c = PROPS["C18"]["shards"]
PROPS["C18"]["shards"] = lambda tier, seed, search=False: _c18c(tier, seed, search) + db_shards(["fault"])(tier, seed, search)[:2]
PROPS["C18"]["rule"] = PROPS["C18"]["rule"] + "; (v) DB histories with failing saves: the bytes bound to an acknowledged (name, version) never change"

_c06c = PROPS["C06"]["shards"]
PROPS["C06"]["shards"] = lambda tier, seed, search=False: _c06c(tier, seed, search) + http_shards(tier, seed, search)[:3]
PROPS["C06"]["rule"] = PROPS["C06"]["rule"] + "; plus the http family (an accepted request leaves exactly the records the specification requires)"

for _pid in ("C03", "C04", "C01"):
    PROPS[_pid]["race"] = True
    PROPS[_pid]["shards"] = (lambda old: (lambda tier, seed, search=False: old(tier, seed, search) + [
        Shard(sh.family, sh.args, driver=sh.driver, binary=sh.binary, race_props=[]) for sh in conc_shards(tier, seed, search)[:2]]))(PROPS[_pid]["shards"])
    PROPS[_pid]["rule"] = PROPS[_pid]["rule"] + "; plus the concurrent family (C01: a caller without a grant making the same requests at the same time is refused every time; C03/C04: at quiescence the file holds what the running server serves)"

_c05b = PROPS["C05"]["shards"]
PROPS["C05"]["shards"] = lambda tier, seed, search=False: _c05b(tier, seed, search) + fs_shards(["putverwide"])
_c05c = PROPS["C05"]["shards"]
PROPS["C05"]["shards"] = lambda tier, seed, search=False: _c05c(tier, seed, search) + [
    Shard("dbtime", ["-seed", str(s), "-n", "6" if tier == "quick" else "40", "-steps", "25"], driver="crypto", binary="storetrace") for s in seeds(seed, 2 if tier == "quick" else 6)]
_c05d = PROPS["C05"]["shards"]
PROPS["C05"]["shards"] = lambda tier, seed, search=False: _c05d(tier, seed, search) + [
    Shard("backup", ["-seed", str(s), "-n", "40" if tier == "quick" else "300"], driver="backup", binary="storetrace") for s in seeds(seed, 2)]
PROPS["C05"]["rule"] = PROPS["C05"]["rule"] + "; plus the backup task running (what lies in the database's directory, with which modes, while an upload is under way); plus one database living through months and years of virtual time (testing/synctest) with the key service unreachable once it is open: key uses per call, answers, reopen of a copy; plus one save traced under strace on a database file that exists with mode 0644 (every mode given to open or chmod must be 0600)"

for _pid in ("C13", "C19"):
    PROPS[_pid]["race"] = True
    PROPS[_pid]["shards"] = (lambda old, _p=_pid: (lambda tier, seed, search=False: old(tier, seed, search) + concstore_shards(tier, seed, search, props=(_p,))[:3]))(PROPS[_pid]["shards"])
    PROPS[_pid]["rule"] = PROPS[_pid]["rule"] + "; plus the concurrent store family (with everything settled the cache document is the store's current state)"

for _pid in ("C11", "C19"):
    PROPS[_pid]["shards"] = (lambda old: (lambda tier, seed, search=False: old(tier, seed, search) + fs_shards(["cachewide"])))(PROPS[_pid]["shards"])
    PROPS[_pid]["rule"] = PROPS[_pid]["rule"] + "; plus FileCache.Write traced over a longer, wide-mode file (the file must end up exactly the document written)"

_c12f = PROPS["C12"]["shards"]
PROPS["C12"]["shards"] = lambda tier, seed, search=False: _c12f(tier, seed, search) + fields_shards(tier, seed, search)[:2]
PROPS["C12"]["rule"] = PROPS["C12"]["rule"] + "; plus the struct-tag family (a handle's bytes are not disturbed by writes to a populated []byte field)"

PROPS["C02"]["race"] = True
PROPS["C02"]["shards"] = (lambda old: (lambda tier, seed, search=False: old(tier, seed, search) + [
    Shard(sh.family, sh.args, driver=sh.driver, binary=sh.binary, race_props=[]) for sh in conc_shards(tier, seed, search)[:3]]))(PROPS["C02"]["shards"])
PROPS["C02"]["rule"] = PROPS["C02"]["rule"] + "; plus the concurrent family (several callers putting the very same bytes under one name at once are all told the same version number)"
